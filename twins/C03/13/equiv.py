"""Equivalence digest for refactoring 1 (default step helper in Calculator.fire,
TrajectoryCalc.trajectory / get_calc_step).  Prints the same text on the clean
worktree and with the patch applied."""
import hashlib
import logging
import warnings

warnings.simplefilter("ignore")

from py_ballisticcalc import (Calculator, DragModel, TableG1, TableG7, Weight, Ammo, Velocity, Weapon, Shot,
                              Angular, Distance, Wind, Atmo, Unit, PreferredUnits, InterfaceConfigDict)
from py_ballisticcalc.exceptions import RangeError
from py_ballisticcalc.trajectory_calc import TrajectoryCalc, Config
from py_ballisticcalc.interface_config import create_interface_config
from py_ballisticcalc import logger as _pkg_logger  # noqa: F401

LINES = []


def out(*a):
    LINES.append(" ".join(str(x) for x in a))


def row_repr(r):
    return repr((r.time, r.distance.raw_value, r.distance.units, r.velocity.raw_value, r.mach,
                 r.height.raw_value, r.target_drop.raw_value, r.drop_adj.raw_value, r.windage.raw_value,
                 r.windage_adj.raw_value, r.look_distance.raw_value, r.angle.raw_value, r.density_factor,
                 r.drag, r.energy.raw_value, r.ogw.raw_value, int(r.flag)))


def dump(label, rows):
    out("##", label, "rows", len(rows))
    for r in rows:
        out(row_repr(r))


def mk_shot(winds=None, look=0.0, cant=0.0, rel=0.0, g7=False, mv=2750.0, sight=2.0, twist=12.0):
    if g7:
        dm = DragModel(0.223, TableG7, Weight.Grain(168), Distance.Inch(0.308), Distance.Inch(1.282))
    else:
        dm = DragModel(0.365, TableG1, Weight.Grain(150), Distance.Inch(0.308), Distance.Inch(1.1))
    ammo = Ammo(dm, Velocity.FPS(mv))
    weapon = Weapon(Distance.Inch(sight), Distance.Inch(twist))
    return Shot(weapon=weapon, ammo=ammo, look_angle=Angular.Degree(look), relative_angle=Angular.Degree(rel),
                cant_angle=Angular.Degree(cant), atmo=Atmo.icao(), winds=winds)


def fire(label, calc, shot, *args, **kw):
    try:
        res = calc.fire(shot, *args, **kw)
        dump(label, res.trajectory)
    except RangeError as e:
        out("##", label, "RangeError", e.reason, repr(e.last_distance.raw_value if e.last_distance else None), str(e))
        dump(label + " (incomplete)", e.incomplete_trajectory)


calc = Calculator()
head = [Wind(Velocity.MPH(20), Angular.Degree(180), Distance.Yard(400)),
        Wind(Velocity.MPH(12), Angular.Degree(90), Distance.Yard(900))]
tail = [Wind(Velocity.MPH(35), Angular.Degree(0))]
cross = [Wind(Velocity.FPS(15), Angular.OClock(9))]

# --- default step (no step given): float range, Distance range in several units, falsy steps 0 / 0.0 / None
s = mk_shot()
calc.set_weapon_zero(s, Distance.Yard(100))
fire("default step, float range", calc, s, 1000)
fire("default step, step=0.0", calc, s, 1000.0, 0.0)
fire("default step, step=None", calc, s, Distance.Meter(731.3), None)
fire("default step, range in feet", calc, s, Distance.Foot(37.0))
fire("default step, range in miles", calc, mk_shot(rel=2.0, g7=True), Distance.Mile(0.75))
fire("default step, tail wind", calc, mk_shot(winds=tail, rel=0.2), Distance.Yard(600))
fire("default step, head+cross wind", calc, mk_shot(winds=head, rel=0.3, cant=5.0), Distance.Meter(800), extra_data=True)

# --- explicit steps: float, Distance in other units, dividing and not dividing the range
fire("step float 100", calc, s, 1000, 100)
fire("step float 70 (does not divide)", calc, s, 500, 70.0, time_step=0.0)
fire("step in meters", calc, mk_shot(winds=cross, rel=0.1), Distance.Meter(500), Distance.Meter(33))
fire("step in inches", calc, s, Distance.Yard(30), Distance.Inch(100))
fire("step in feet, extra", calc, mk_shot(look=5.0, rel=0.4), Distance.Yard(300), Distance.Foot(100), True)
fire("zero Distance step is truthy", calc, s, Distance.Yard(10), Distance.Yard(0))
fire("tiny step below calc step", calc, s, Distance.Foot(3), Distance.Foot(0.2))
fire("time step", calc, mk_shot(rel=30.0, mv=900.0), Distance.Yard(200), Distance.Yard(50), time_step=0.05)
fire("time step extra", calc, mk_shot(rel=60.0, mv=600.0), Distance.Yard(100), 0, True, 0.1)

# --- a shot that does not reach the range
fire("range error", calc, mk_shot(rel=0.0, mv=800.0), Distance.Yard(2500), Distance.Yard(250))

# --- the caller's Distance objects are converted in place to preferred units (side effect kept)
rng, stp = Distance.Meter(300), Distance.Foot(150)
fire("side effect on arguments", calc, s, rng, stp)
out("args after", repr(rng.units), repr(rng.raw_value), repr(stp.units), repr(stp.raw_value))

# --- other preferred unit
PreferredUnits.distance = Unit.Meter
fire("preferred meters default step", calc, s, 450)
fire("preferred meters float step", calc, s, 450, 45)
PreferredUnits.distance = Unit.Yard

# --- other max calc step via config; get_calc_step directly
calc2 = Calculator(_config=InterfaceConfigDict(max_calc_step_size_feet=2.0))
fire("calc step 2 ft", calc2, mk_shot(winds=head, rel=0.2), 700)
tc = TrajectoryCalc(create_interface_config(None))
for st in (0, 0.0, -0.0, 0.1, 0.5, 0.7, 3, -1.0, float("inf"), float("nan")):
    out("get_calc_step", repr(st), repr(tc.get_calc_step(st)))
out("get_calc_step default", repr(tc.get_calc_step()))

# --- TrajectoryCalc.trajectory directly, truthy non-bool extra_data
sh = mk_shot(rel=0.15)
dump("trajectory direct extra_data=1", tc.trajectory(sh, Distance.Yard(200), Distance.Yard(40), 1))
dump("trajectory direct extra_data=[]", tc.trajectory(sh, Distance.Yard(200), Distance.Yard(40), [], 0.0))

# --- errors raised for bad arguments stay the same
for bad in ("abc", None):
    try:
        calc.fire(s, bad)
        out("no error", repr(bad))
    except Exception as e:  # pylint: disable=broad-except
        out("error", repr(bad), type(e).__name__, str(e))
try:
    calc.fire(s, 100, "x")
    out("no error step")
except Exception as e:  # pylint: disable=broad-except
    out("error step", type(e).__name__, str(e))

text = "\n".join(LINES)
print(text)
print("sha256", hashlib.sha256(text.encode()).hexdigest())
