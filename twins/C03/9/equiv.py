"""Equivalence digest for refactoring 3 (C03): the set-up path from Calculator.fire() to the
integration loop: default record step, unit conversion of range / step, integration step size,
per-shot initialisation, and the wind sock that feeds the loop.

Prints a deterministic text; it must be identical on the clean tree and with the patch.
"""
import hashlib
import warnings

from py_ballisticcalc import (Calculator, DragModel, Ammo, Weapon, Shot, Wind, Atmo,
                              TableG7, TableG1, RangeError)
from py_ballisticcalc.drag_model import DragModelMultiBC, BCPoint
from py_ballisticcalc.unit import Distance, Velocity, Angular, Temperature, Pressure, PreferredUnits, Unit
from py_ballisticcalc import trajectory_calc as tc_mod
from py_ballisticcalc.trajectory_calc import TrajectoryCalc, _WindSock
from py_ballisticcalc.interface_config import create_interface_config

warnings.simplefilter("ignore")


def row_repr(r):
    return repr((r.time, r.distance.raw_value, r.velocity.raw_value, r.mach, r.height.raw_value,
                 r.target_drop.raw_value, r.drop_adj.raw_value, r.windage.raw_value,
                 r.windage_adj.raw_value, r.look_distance.raw_value, r.angle.raw_value,
                 r.density_factor, r.drag, r.energy.raw_value, r.ogw.raw_value, int(r.flag)))


def digest(rows):
    h = hashlib.sha256()
    for r in rows:
        h.update(row_repr(r).encode())
        h.update(b"\n")
    return h.hexdigest()[:20]


def summarize(label, rows):
    print(label, "n=%d" % len(rows), digest(rows))
    if rows:
        print("   first", row_repr(rows[0]))
        print("   last ", row_repr(rows[-1]))
        print("   dist ", [repr(r.distance >> Distance.Foot) for r in rows[:13]])


def run(label, calc, shot, *args, **kwargs):
    try:
        res = calc.fire(shot, *args, **kwargs)
        print(label, "extra=%r" % res.extra, "same shot=%r" % (res.shot is shot))
        summarize(label, res.trajectory)
    except RangeError as e:
        print(label, "RangeError", repr(e.reason))
        summarize(label + " [incomplete]", e.incomplete_trajectory)
    except Exception as e:  # pylint: disable=broad-except
        print(label, "EXC", type(e).__name__, repr(str(e)))


dm7 = DragModel(0.22, TableG7, 168, 0.308, 1.22)
ammo = Ammo(dm7, Velocity.FPS(2600))
weapon = Weapon(Distance.Inch(2), 12, Angular.Mil(3))
calc = Calculator()
flat = Shot(weapon=weapon, ammo=ammo, atmo=Atmo.icao())

# ------------------------------------------------------------------ default step = range / 10
for rng in (Distance.Yard(1000), Distance.Meter(1000), Distance.Foot(33), Distance.Mile(1.5), Distance.Inch(700),
            Distance.Kilometer(0.3), 500, 123.456, Distance.Foot(0.7), Distance.Yard(1e-3)):
    run("default step, range %r" % (rng,), calc, flat, rng)
    run("default step (0.0), range %r" % (rng,), calc, flat, rng, 0.0)
run("default step keyword, extra", calc, flat, trajectory_range=Distance.Yard(300), extra_data=True)
run("default step, time_step", calc, flat, Distance.Yard(300), time_step=0.02)
run("step None", calc, flat, Distance.Yard(200), None)
run("step False", calc, flat, Distance.Yard(200), False)
run("step zero Distance (is a given step)", calc, flat, Distance.Yard(20), Distance.Yard(0))
# explicit steps: float in preferred units, and each distance unit
for step in (100, 100.0, 33.3, Distance.Yard(100), Distance.Meter(100), Distance.Foot(250), Distance.Inch(3000),
             Distance.Mile(0.1), Distance.Kilometer(0.05), Distance.Centimeter(2500), Distance.Foot(0.3),
             Distance.Foot(0.5), Distance.Foot(0.25), Distance.Foot(-10)):
    run("step %r" % (step,), calc, flat, Distance.Yard(700), step)
try:
    PreferredUnits.distance = Unit.Meter
    run("preferred=meter default step", calc, flat, 400)
    run("preferred=meter float step", calc, flat, 400, 50)
    PreferredUnits.distance = Unit.Foot
    run("preferred=foot default step", calc, flat, 1000)
    run("preferred=foot float step", calc, flat, 1000, 110.5, True)
finally:
    PreferredUnits.defaults()
run("bad range type", calc, flat, "far away")
run("bad step type", calc, flat, Distance.Yard(100), object())

# ------------------------------------------------------------------ integration step size
for cfg in (None, {"max_calc_step_size_feet": 0.1}, {"max_calc_step_size_feet": 2.0}, {"max_calc_step_size_feet": 7}):
    c = Calculator(_config=cfg)
    run("config %r default step" % (cfg,), c, flat, Distance.Yard(150))
    run("config %r step 1ft" % (cfg,), c, flat, Distance.Foot(30), Distance.Foot(1))
    t = TrajectoryCalc(create_interface_config(cfg))
    print("get_calc_step", cfg, [repr(t.get_calc_step(*a)) for a in
                                 ((), (0,), (0.0,), (-0.0,), (0.05,), (0.1,), (0.5,), (1,), (2.0,), (50,), (-1.0,),
                                  (float("inf"),), (float("nan"),), (True,), (False,))])
    for bad in ("x", None):
        try:
            print("get_calc_step", repr(bad), repr(t.get_calc_step(bad)))
        except Exception as e:  # pylint: disable=broad-except
            print("get_calc_step", repr(bad), "EXC", type(e).__name__)
try:
    tc_mod.set_global_max_calc_step_size(Distance.Foot(1.5))
    run("global max step 1.5ft", Calculator(), flat, Distance.Yard(200), Distance.Yard(40))
finally:
    tc_mod.reset_globals()
run("global reset", Calculator(), flat, Distance.Yard(200), Distance.Yard(40))

# ------------------------------------------------------------------ per-shot initialisation
multi = DragModelMultiBC([BCPoint(0.21, V=Velocity.FPS(1500)), BCPoint(0.23, V=Velocity.FPS(2500))], TableG7,
                         168, 0.308, 1.22)
shots = {
    "cant 0": Shot(weapon=weapon, ammo=ammo, atmo=Atmo.icao()),
    "cant 30": Shot(weapon=weapon, ammo=ammo, atmo=Atmo.icao(), cant_angle=Angular.Degree(30)),
    "cant -90": Shot(weapon=weapon, ammo=ammo, atmo=Atmo.icao(), cant_angle=Angular.Degree(-90)),
    "cant 180 mil": Shot(weapon=weapon, ammo=ammo, atmo=Atmo.icao(), cant_angle=Angular.Mil(180)),
    "look 10 rel 1": Shot(weapon=weapon, ammo=ammo, atmo=Atmo.icao(), look_angle=Angular.Degree(10),
                          relative_angle=Angular.MOA(60), cant_angle=Angular.Degree(5)),
    "left twist, altitude": Shot(weapon=Weapon(Distance.Centimeter(9), -9, Angular.Mil(2)), ammo=ammo,
                                  atmo=Atmo.icao(Distance.Meter(1500))),
    "no twist, no dims": Shot(weapon=Weapon(0, 0), ammo=Ammo(DragModel(0.5, TableG1), Velocity.MPS(800)),
                              atmo=Atmo.icao()),
    "multi bc": Shot(weapon=weapon, ammo=Ammo(multi, Velocity.FPS(2700)), atmo=Atmo.icao()),
    "powder sens 0.008": Shot(weapon=weapon, ammo=Ammo(dm7, Velocity.FPS(2600), Temperature.Celsius(15), 0.008,
                                                       use_powder_sensitivity=True),
                              atmo=Atmo(Distance.Foot(500), Pressure.InHg(29.0), Temperature.Celsius(5), 0.3,
                                        powder_t=Temperature.Celsius(-10))),
    "powder sens 0.8 (negative muzzle velocity, fails)": Shot(weapon=weapon, ammo=Ammo(dm7, Velocity.FPS(2600), Temperature.Celsius(15), 0.8,
                                                 use_powder_sensitivity=True),
                        atmo=Atmo(Distance.Foot(500), Pressure.InHg(29.0), Temperature.Celsius(5), 0.3,
                                  powder_t=Temperature.Celsius(-10))),
    "atmo without pressure (fails)": Shot(weapon=weapon, ammo=ammo,
                                           atmo=Atmo(Distance.Foot(500), powder_t=Temperature.Celsius(-10))),
}
for name, s in shots.items():
    try:
        run("shot " + name, calc, s, Distance.Yard(450), Distance.Yard(90), True)
        run("shot " + name + " default", calc, s, Distance.Yard(450))
        t = TrajectoryCalc(create_interface_config())
        t._init_trajectory(s)
        print("   init", repr((t._bc, len(t._table_data), len(t._curve), t.look_angle, t.twist, t.length, t.diameter,
                               t.weight, t.barrel_elevation, t.barrel_azimuth, t.sight_height, t.cant_cosine,
                               t.cant_sine, t.alt0, t.calc_step, t.muzzle_velocity, t.stability_coefficient)),
              t.table_data is s.ammo.dm.drag_table)
    except Exception as e:  # pylint: disable=broad-except
        print("shot", name, "EXC", type(e).__name__, repr(str(e)))
for name in ("cant 0", "look 10 rel 1"):
    s = shots[name]
    print("zero", name, repr(calc.set_weapon_zero(s, Distance.Yard(200)).raw_value))
    run("zeroed " + name, calc, s, Distance.Yard(400))
print("cdm", len(calc.cdm))

# ------------------------------------------------------------------ winds: through fire() and the sock directly
wind_sets = {
    "none": None,
    "one": [Wind(Velocity.MPH(12), Angular.OClock(2))],
    "three": [Wind(Velocity.MPH(10), Angular.Degree(45), Distance.Yard(100)),
              Wind(Velocity.MPH(20), Angular.Degree(200), Distance.Yard(300)),
              Wind(Velocity.MPH(5), Angular.Degree(300), Distance.Yard(350))],
    "unsorted, ties": [Wind(Velocity.MPH(8), Angular.Degree(90), Distance.Yard(200)),
                       Wind(Velocity.MPH(30), Angular.Degree(180), Distance.Yard(50)),
                       Wind(Velocity.MPH(4), Angular.Degree(0), Distance.Yard(200)),
                       Wind(Velocity.MPH(9), Angular.Degree(270), Distance.Foot(600.2))],
    "short max": [Wind(Velocity.MPH(15), Angular.Degree(90), max_distance_feet=500.0),
                  Wind(Velocity.MPH(15), Angular.Degree(270), Distance.Foot(900))],
    "zero length": [Wind(Velocity.MPH(15), Angular.Degree(90), Distance.Foot(0)),
                    Wind(Velocity.MPH(3), Angular.Degree(10), Distance.Foot(0))],
}
for name, winds in wind_sets.items():
    s = Shot(weapon=weapon, ammo=ammo, atmo=Atmo.icao(), winds=winds)
    run("winds " + name, calc, s, Distance.Yard(500), Distance.Yard(50))
    run("winds " + name + " default extra", calc, s, Distance.Yard(500), extra_data=True)
    sock = _WindSock(s.winds)
    trace = [repr((sock.current, sock.next_range, tuple(sock.current_vector())))]
    for x in (0.0, 10.0, 149.9, 150.0, 150.0, 300.0, 600.0, 600.0, 600.2, 600.3, 899.0, 900.0, 1050.0, 1050.0,
              1e5, 1e9, 5.0, float("inf"), float("nan"), 1e12, 1e12):
        v = sock.vector_for_range(x)
        trace.append(repr((x, sock.current, sock.next_range, tuple(v), v is sock.current_vector())))
    print("sock", name, hashlib.sha256("\n".join(trace).encode()).hexdigest()[:20])
    for line in trace[:2] + trace[-3:]:
        print("   ", line)
for empty in (None, (), []):
    sock = _WindSock(empty)
    print("sock empty", repr(empty), sock.current, sock.next_range, tuple(sock.current_vector()), sock.winds,
          tuple(sock.vector_for_range(1e30)), sock.current, sock.next_range)
sock = _WindSock(tuple(wind_sets["three"]))
sock.current = 5  # beyond the end, then asked to refresh
sock.update_cache()
print("sock forced", sock.current, sock.next_range, tuple(sock.current_vector()))
sock.current = 1
sock.update_cache()
print("sock forced", sock.current, sock.next_range, tuple(sock.current_vector()))
