"""Equivalence digest for refactoring 3 (TrajectoryCalc._integrate split: loop with explicit exit,
muzzle state, point-mass step, stop reason and row construction in helpers).
Prints the same text on the clean worktree and with the patch applied."""
import hashlib
import logging
import warnings

warnings.simplefilter("ignore")

from py_ballisticcalc import (Calculator, DragModel, TableG1, TableG7, Weight, Ammo, Velocity, Weapon, Shot,
                              Angular, Distance, Wind, Atmo, Temperature, Pressure, InterfaceConfigDict)
from py_ballisticcalc.exceptions import RangeError, ZeroFindingError
from py_ballisticcalc.trajectory_calc import TrajectoryCalc
from py_ballisticcalc.interface_config import create_interface_config
from py_ballisticcalc.trajectory_data import TrajFlag
from py_ballisticcalc.logger import logger, set_debug

LINES = []


def out(*a):
    LINES.append(" ".join(str(x) for x in a))


def row_repr(r):
    return repr((r.time, r.distance.raw_value, r.velocity.raw_value, r.mach,
                 r.height.raw_value, r.target_drop.raw_value, r.drop_adj.raw_value, r.windage.raw_value,
                 r.windage_adj.raw_value, r.look_distance.raw_value, r.angle.raw_value, r.density_factor,
                 r.drag, r.energy.raw_value, r.ogw.raw_value, int(r.flag)))


def dump(label, rows):
    out("##", label, "rows", len(rows))
    for r in rows:
        out(row_repr(r))


def mk_shot(winds=None, look=0.0, cant=0.0, rel=0.0, g7=False, mv=2750.0, sight=2.0, twist=12.0, atmo=None):
    if g7:
        dm = DragModel(0.223, TableG7, Weight.Grain(168), Distance.Inch(0.308), Distance.Inch(1.282))
    else:
        dm = DragModel(0.365, TableG1, Weight.Grain(150), Distance.Inch(0.308), Distance.Inch(1.1))
    ammo = Ammo(dm, Velocity.FPS(mv))
    weapon = Weapon(Distance.Inch(sight), Distance.Inch(twist))
    return Shot(weapon=weapon, ammo=ammo, look_angle=Angular.Degree(look), relative_angle=Angular.Degree(rel),
                cant_angle=Angular.Degree(cant), atmo=atmo or Atmo.icao(), winds=winds)


def fire(label, calc, shot, *args, **kw):
    try:
        res = calc.fire(shot, *args, **kw)
        dump(label, res.trajectory)
    except RangeError as e:
        out("##", label, "RangeError", e.reason, repr(e.last_distance.raw_value if e.last_distance else None), str(e))
        dump(label + " (incomplete)", e.incomplete_trajectory)
    except Exception as e:  # pylint: disable=broad-except
        out("##", label, "raised", type(e).__name__, str(e))


class _Grab(logging.Handler):
    """keeps the iteration count reported by the integration loop"""
    def emit(self, record):
        msg = record.getMessage()
        if msg.startswith("euler"):
            out("LOG", msg)


grab = _Grab(level=logging.DEBUG)
logger.addHandler(grab)
logger.setLevel(logging.DEBUG)   # the loop's own debug line only; the per-point debug stays off

calc = Calculator()
head = [Wind(Velocity.MPH(20), Angular.Degree(180), Distance.Yard(400)),
        Wind(Velocity.MPH(12), Angular.Degree(90), Distance.Yard(900))]
tail = [Wind(Velocity.MPH(35), Angular.Degree(0))]
cross = [Wind(Velocity.FPS(15), Angular.OClock(9))]
many = [Wind(Velocity.MPH(5 + 3 * i), Angular.Degree(40 * i), Distance.Yard(100 * (i + 1))) for i in range(6)]

s = mk_shot()
calc.set_weapon_zero(s, Distance.Yard(100))
out("zero elevation", repr(s.weapon.zero_elevation.raw_value))
fire("default step 1000 yd", calc, s, 1000)
fire("step 100 yd", calc, s, 1000, 100)
fire("step does not divide", calc, s, 500, 70.0)
fire("head and cross wind, extra, cant", calc, mk_shot(winds=head, rel=0.3, cant=5.0), Distance.Meter(800), extra_data=True)
fire("tail wind", calc, mk_shot(winds=tail, rel=0.2), Distance.Yard(600), Distance.Yard(25))
fire("cross wind, metres", calc, mk_shot(winds=cross, rel=0.1), Distance.Meter(500), Distance.Meter(33))
fire("six wind segments", calc, mk_shot(winds=many, rel=0.25, cant=-12.0), Distance.Yard(800), Distance.Yard(80))
fire("miles", calc, mk_shot(rel=2.0, g7=True), Distance.Mile(0.75), Distance.Yard(110))
fire("feet", calc, s, Distance.Foot(37.0), Distance.Foot(1.0))
fire("step below the integration step", calc, s, Distance.Foot(3), Distance.Foot(0.07))
fire("look angle, extra", calc, mk_shot(look=5.0, rel=0.4), Distance.Yard(300), Distance.Foot(100), True)
fire("look down", calc, mk_shot(look=-20.0, rel=0.1), Distance.Yard(300), Distance.Yard(60), True)
fire("time step, steep", calc, mk_shot(rel=30.0, mv=900.0), Distance.Yard(200), Distance.Yard(50), time_step=0.05)
fire("time step, steep, extra", calc, mk_shot(rel=60.0, mv=600.0), Distance.Yard(100), 0, True, 0.1)
fire("left twist, no twist", calc, mk_shot(twist=-9.0, rel=0.2), 400, 100)
fire("no twist", calc, mk_shot(twist=0.0, rel=0.2), 400, 100)
fire("sight height 0, cant 90", calc, mk_shot(sight=0.0, cant=90.0, rel=0.2), 300, 100)
fire("big sight height, cant 30", calc, mk_shot(sight=9.0, cant=30.0, rel=0.2), 300, 100)
cold = Atmo(Distance.Foot(7000), Pressure.InHg(22.5), Temperature.Fahrenheit(-10), 0.2)
fire("thin cold air", calc, mk_shot(rel=0.3, atmo=cold), 900, 90)

# --- loop never entered / left at once: negative and zero range
fire("zero range", calc, s, 0, 10)
fire("negative range", calc, s, -5, 1)
fire("tiny range", calc, s, Distance.Inch(1), Distance.Inch(1))

# --- the three reasons for an incomplete shot
fire("minimum altitude", calc, mk_shot(mv=800.0), Distance.Yard(2500), Distance.Yard(250))
fire("minimum velocity (vertical)", calc, mk_shot(rel=90.0, mv=300.0), Distance.Yard(10), Distance.Yard(5), False, 0.5)
fire("minimum velocity, extra", calc, mk_shot(rel=45.0, mv=1200.0), Distance.Yard(9000), Distance.Yard(500), True)
cdrop = Calculator(_config=InterfaceConfigDict(cMaximumDrop=-50.0))
fire("maximum drop", cdrop, mk_shot(mv=900.0), Distance.Yard(1500), Distance.Yard(100))
cvel = Calculator(_config=InterfaceConfigDict(cMinimumVelocity=2000.0))
fire("minimum velocity 2000", cvel, mk_shot(rel=0.5), Distance.Yard(1000), Distance.Yard(100))
fire("minimum velocity above muzzle velocity", Calculator(_config=InterfaceConfigDict(cMinimumVelocity=5000.0)),
     mk_shot(rel=0.5), Distance.Yard(1000), Distance.Yard(100))
calt = Calculator(_config=InterfaceConfigDict(cMinimumAltitude=-1.0, cMaximumDrop=-2.0))
fire("drop wins over altitude", calt, mk_shot(mv=1000.0), Distance.Yard(1000), Distance.Yard(100))
calt2 = Calculator(_config=InterfaceConfigDict(cMinimumAltitude=-1.0))
fire("altitude -1 ft", calt2, mk_shot(mv=1000.0), Distance.Yard(1000), Distance.Yard(100), True)
zh = Calculator(_config=InterfaceConfigDict(cMinimumVelocity=0, cMinimumAltitude=0, cMaximumDrop=0))
fire("zero limits (falls back to the ground)", zh, mk_shot(rel=10.0, mv=700.0, sight=0.0), Distance.Yard(3000), Distance.Yard(300))

# --- other integration step
coarse = Calculator(_config=InterfaceConfigDict(max_calc_step_size_feet=3.0))
fire("coarse integration 3 ft, step 1 ft", coarse, mk_shot(winds=head, rel=0.2), Distance.Foot(60), Distance.Foot(1))
fine = Calculator(_config=InterfaceConfigDict(max_calc_step_size_feet=0.1))
fire("fine integration", fine, mk_shot(winds=cross, rel=0.2), Distance.Yard(150), Distance.Yard(15))

# --- zeroing uses the same loop without recording
for look, dist in ((0.0, 100), (3.0, 250), (-8.0, 400), (25.0, 300)):
    sh = mk_shot(look=look, winds=cross)
    try:
        out("zero", look, dist, repr(calc.barrel_elevation_for_target(sh, Distance.Yard(dist)).raw_value))
    except ZeroFindingError as e:
        out("zero", look, dist, "ZeroFindingError", repr(e.zero_finding_error), e.iterations_count,
            repr(e.last_barrel_elevation.raw_value))

# --- TrajectoryCalc directly: _integrate with odd filter flags and steps
tc = TrajectoryCalc(create_interface_config(None))
sh = mk_shot(rel=0.15, winds=tail)
tc._init_trajectory(sh)
for flags in (TrajFlag.NONE, TrajFlag.RANGE, TrajFlag.ZERO, TrajFlag.MACH, TrajFlag.ALL):
    for (rng, step, tstep) in ((300.0, 100.0, 0.0), (300.0, 0.0, 0.0), (300.0, 0.0, 0.01), (1.0, 300.0, 0.0), (-1.0, 1.0, 0.0)):
        label = f"_integrate flags={int(flags)} range={rng} step={step} tstep={tstep}"
        try:
            dump(label, tc._integrate(sh, rng, step, flags, tstep))
        except Exception as e:  # pylint: disable=broad-except
            out("##", label, "raised", type(e).__name__, str(e))
out("state untouched", repr((tc.barrel_elevation, tc.barrel_azimuth, tc.calc_step, tc.muzzle_velocity, tc.alt0,
                             tc.look_angle, tc.sight_height, tc.cant_cosine, tc.cant_sine)))

logger.removeHandler(grab)
logger.setLevel(logging.INFO)

text = "\n".join(LINES)
print(text)
print("sha256", hashlib.sha256(text.encode()).hexdigest())
