"""Equivalence digest for C03 / refactoring 3 (per-shot invariants of the integrator worked out ahead of the loop).

Run:  cd /tmp/wt/C03 && PYTHONPATH=/tmp/wt/C03 /venv/bin/python /tmp/twins4/C03/3/equiv.py
Prints the same text on the clean worktree and with patch.diff applied.
"""
import hashlib
import logging
import warnings

from py_ballisticcalc import (Ammo, Atmo, Calculator, DragModel, Shot, TableG1, TableG7, Weapon, Wind,
                              Distance, Angular, Velocity, Temperature, Pressure, Unit, RangeError, TrajFlag)
from py_ballisticcalc.logger import logger, set_debug
from py_ballisticcalc.trajectory_calc import _TrajectoryDataFilter, _WindSock
from py_ballisticcalc.vector import Vector


def cell(v):
    if hasattr(v, 'raw_value'):
        return f'{type(v).__name__}({v.raw_value!r},{v.units!r})'
    return repr(v)


def row_text(row):
    return '[' + ' '.join(cell(v) for v in row) + ']'


def digest(rows):
    text = '\n'.join(row_text(r) for r in rows)
    return hashlib.sha256(text.encode()).hexdigest()[:20]


def show(label, rows, full=False):
    print(f'{label}: n={len(rows)} sha={digest(rows)}')
    print('   dist_in=' + ','.join(repr(r.distance.raw_value) for r in rows[:40]))
    print('   time   =' + ','.join(repr(r.time) for r in rows[:40]))
    print('   flags  =' + ','.join(str(int(r.flag)) for r in rows[:40]))
    if rows:
        print('   first=' + row_text(rows[0]))
        print('   last =' + row_text(rows[-1]))
    if full:
        for r in rows:
            print('   ' + row_text(r))


def make_shot(winds=None, look=0.0, cant=0.0, rel=None, mv=2750, bc=0.223, table=TableG7, atmo=None,
              sight=2.0, twist=12, zero=100):
    dm = DragModel(bc, table, 168, 0.308, 1.2)
    weapon = Weapon(Distance.Inch(sight), twist)
    shot = Shot(weapon=weapon, ammo=Ammo(dm, mv), atmo=atmo or Atmo.icao(), winds=winds,
                look_angle=Angular.Degree(look), cant_angle=Angular.Degree(cant))
    if zero:
        Calculator().set_weapon_zero(shot, Distance.Yard(zero))
        print(f'   zero_elevation={shot.weapon.zero_elevation.raw_value!r}')
    if rel is not None:
        shot.relative_angle = Angular.Degree(rel)
    return shot


def fire(label, shot, *args, config=None, full=False, **kwargs):
    calc = Calculator(_config=config) if config else Calculator()
    with warnings.catch_warnings(record=True) as caught:
        warnings.simplefilter('always')
        try:
            res = calc.fire(shot, *args, **kwargs)
            show(label, res.trajectory, full)
        except RangeError as e:
            print(f'{label}: RangeError {e.reason!r} last={cell(e.last_distance)} msg={str(e)!r}')
            show(label + ' (incomplete)', e.incomplete_trajectory, full)
        except Exception as e:  # pylint: disable=broad-except
            print(f'{label}: {type(e).__name__}: {e}')
    for w in caught:
        print(f'   warning: {w.category.__name__}: {w.message}')
    print(f'   warning filters head: {warnings.filters[0][:2] if warnings.filters else None}')


class Capture(logging.Handler):
    def __init__(self):
        super().__init__(logging.DEBUG)
        self.h = hashlib.sha256()
        self.n = 0
        self.its = []

    def emit(self, record):
        msg = record.getMessage()
        self.h.update(msg.encode() + b'\n')
        self.n += 1
        if msg.startswith('euler py it'):
            self.its.append(msg)


def main():
    cap = Capture()
    logger.addHandler(cap)
    logger.setLevel(logging.DEBUG)  # lets the "euler py it N" line through (iteration count)

    print('== plain range cards, wind from every side ==')
    winds = {
        'none': None,
        'head': [Wind(Velocity.MPH(25), Angular.OClock(12))],
        'tail': [Wind(Velocity.MPH(40), Angular.OClock(6))],
        'cross': [Wind(Velocity.MPH(15), Angular.OClock(3))],
        'multi': [Wind(Velocity.MPH(8), Angular.Degree(45), Distance.Yard(200)),
                  Wind(Velocity.MPH(20), Angular.Degree(200), Distance.Yard(450)),
                  Wind(Velocity.MPH(12), Angular.Degree(270), Distance.Yard(700))],
        'gale_tail': [Wind(Velocity.MPH(120), Angular.OClock(6))],
    }
    for name, w in winds.items():
        shot = make_shot(winds=w)
        fire(f'1000yd/default {name}', shot, Distance.Yard(1000))
        fire(f'1000yd/step100 {name}', shot, Distance.Yard(1000), Distance.Yard(100))
        fire(f'730m/step70m {name}', shot, Distance.Meter(730), Distance.Meter(70))

    print('== steps that do / do not divide the range, floats, tiny and huge ==')
    shot = make_shot(winds=winds['cross'])
    fire('float range 500, float step 33', shot, 500, 33)
    fire('10ft step 1ft', shot, Distance.Foot(10), Distance.Foot(1))
    fire('3ft step 0.5ft', shot, Distance.Foot(3), Distance.Foot(0.5), full=True)
    fire('2ft step 0.1ft (below calc step)', shot, Distance.Foot(2), Distance.Foot(0.1))
    fire('1 mile default', shot, Distance.Mile(1))
    fire('1.5 mile step 0.25 mile', make_shot(mv=3000, bc=0.4, winds=winds['tail']), Distance.Mile(1.5),
         Distance.Mile(0.25))
    fire('step larger than range', shot, Distance.Yard(100), Distance.Yard(300), full=True)
    fire('zero range', shot, Distance.Yard(0), full=True)
    fire('negative range', shot, Distance.Yard(-100), full=True)
    fire('zero step object', shot, Distance.Yard(100), Distance.Yard(0), full=True)

    print('== time step, extra data ==')
    fire('time_step 0.05', shot, Distance.Yard(600), Distance.Yard(100), time_step=0.05)
    fire('time_step 0.2 / step 250', shot, Distance.Yard(1000), Distance.Yard(250), time_step=0.2)
    fire('extra', shot, Distance.Yard(400), Distance.Yard(100), extra_data=True)
    fire('extra + time_step', make_shot(look=5, winds=winds['multi']), Distance.Yard(900), Distance.Yard(300),
         extra_data=True, time_step=0.1)

    print('== look angle, cant, high angles, other step sizes ==')
    fire('look 20 cant 15', make_shot(look=20, cant=15, winds=winds['cross']), Distance.Yard(800), Distance.Yard(80))
    fire('look -12', make_shot(look=-12), Distance.Yard(500), Distance.Yard(50))
    fire('rel 30 deg', make_shot(rel=30), Distance.Yard(1500), Distance.Yard(150))
    fire('rel 75 deg lob', make_shot(rel=75, mv=900, bc=0.15, table=TableG1), Distance.Yard(300), Distance.Yard(30),
         time_step=0.5)
    fire('coarse calc step 2ft', make_shot(winds=winds['head']), Distance.Yard(300), Distance.Yard(25),
         config={'max_calc_step_size_feet': 2.0})
    fire('fine calc step 0.1ft', make_shot(winds=winds['tail']), Distance.Yard(60), Distance.Yard(7),
         config={'max_calc_step_size_feet': 0.1})

    print('== shots that do not get there ==')
    fire('min velocity', make_shot(mv=800, bc=0.05, table=TableG1), Distance.Yard(2000), Distance.Yard(100))
    fire('max drop', make_shot(rel=-60), Distance.Yard(20000), Distance.Yard(1000),
         config={'cMaximumDrop': -300.0, 'cMinimumAltitude': -1e9})
    fire('min altitude', make_shot(rel=-45), Distance.Yard(5000), Distance.Yard(500))
    fire('min velocity at once', make_shot(mv=40, zero=0), Distance.Yard(100), Distance.Yard(10), full=True)
    fire('straight up', make_shot(rel=90, zero=0), Distance.Yard(100), Distance.Yard(10), time_step=1.0)

    print('== thin air: warnings from the atmosphere model ==')
    high = Atmo(altitude=Distance.Foot(36000), pressure=Pressure.InHg(6.7), temperature=Temperature.Fahrenheit(-69))
    fire('36000 ft, 40 deg', make_shot(atmo=high, rel=40, zero=0), Distance.Yard(3000), Distance.Yard(500))

    print('== debug logging of the record filter ==')
    set_debug(True)
    fire('debug 50yd', make_shot(winds=winds['multi']), Distance.Yard(50), Distance.Yard(10), time_step=0.01)
    set_debug(False)
    logger.setLevel(logging.DEBUG)

    print('== integration step plumbing ==')
    from py_ballisticcalc.trajectory_calc import TrajectoryCalc
    from py_ballisticcalc.interface_config import create_interface_config
    for max_step in (0.5, 2.0, 0.1, 3, 1e-3):
        tc = TrajectoryCalc(create_interface_config({'max_calc_step_size_feet': max_step}))
        print(f'   max={max_step!r}: ' + ' '.join(
            f'{st!r}->{tc.get_calc_step(st)!r}' for st in (0, 0.0, -0.0, 0.2, 0.5, 1, 7.5, -3.0, float('nan'),
                                                            float('inf'), True, False))
              + f' default->{tc.get_calc_step()!r}')
    shot = make_shot(winds=winds['tail'])
    fire('record step == calc step (0.25 ft)', shot, Distance.Foot(4), Distance.Foot(0.25))
    fire('record step just below calc step', shot, Distance.Foot(4), Distance.Foot(0.2499999))
    fire('record step just above calc step', shot, Distance.Foot(4), Distance.Foot(0.2500001))
    fire('record step 0.05 ft, calc step 1 ft', shot, Distance.Foot(6), Distance.Foot(0.05),
         config={'max_calc_step_size_feet': 2.0})
    fire('record step 3 ft, calc step 1.5 ft', shot, Distance.Foot(31), Distance.Foot(3),
         config={'max_calc_step_size_feet': 3})
    fire('nan step', shot, Distance.Yard(50), Distance.Foot(float('nan')), full=True)
    fire('negative step', shot, Distance.Yard(50), Distance.Foot(-5.0), full=True)
    fire('inf step', shot, Distance.Yard(50), Distance.Foot(float('inf')), full=True)
    fire('nan range', shot, Distance.Yard(float('nan')), Distance.Yard(10), full=True)
    fire('time step only matters', shot, Distance.Yard(200), Distance.Yard(500), time_step=0.03)

    print('== zero finding (integrator run without any record filter flags) ==')
    for look in (0, 3, 25, -10, 60):
        for dist in (50, 100, 437.5, 1000):
            s2 = make_shot(look=look, zero=0, winds=winds['cross'])
            try:
                e = Calculator().barrel_elevation_for_target(s2, Distance.Yard(dist))
                print(f'   look={look} dist={dist}: {e.raw_value!r}')
            except Exception as err:  # pylint: disable=broad-except
                print(f'   look={look} dist={dist}: {type(err).__name__}: {err}')
    try:
        Calculator(_config={'cMaxIterations': 2}).barrel_elevation_for_target(make_shot(zero=0, mv=900),
                                                                               Distance.Yard(900))
    except Exception as err:  # pylint: disable=broad-except
        print(f'   2 iterations only: {type(err).__name__}: {err}')

    print('== record filter and wind sock on their own ==')
    f = _TrajectoryDataFilter(TrajFlag.RANGE, 10.0, Vector(0.0, -0.2, 0.0), Vector(2000.0, 3.0, 0.0), 0.0)
    f.setup_seen_zero(-0.2, 0.001, 0.0)
    t = 0.0
    for x in (0.0, 0.25, 9.9, 10.0, 10.4, 35.0, 35.0, 34.0, 60.0, float('nan'), 61.0, 70.0):
        f.clear_current_flag()
        d = f.should_record(Vector(x, -0.2 + x * 1e-3, 0.01 * x), Vector(2000.0 - x, 3.0 - x * 0.01, 0.1), 1116.0, t)
        print(f'   x={x!r} -> {d!r} flag={int(f.current_flag)} next={f.next_record_distance!r} '
              f'last={f.time_of_last_record!r}')
        t += 0.001
    ws = _WindSock(tuple(winds['multi']))
    print('   ' + ' '.join(repr(ws.vector_for_range(r)) + '/' + repr(ws.next_range) for r in (0, 599, 600, 601, 1350, 5000)))

    print(f'log records={cap.n} sha={cap.h.hexdigest()[:20]}')
    print('iterations: ' + ' | '.join(cap.its))


if __name__ == '__main__':
    main()
