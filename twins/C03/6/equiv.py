"""Equivalence digest for C03 refactoring 3 (row builder: one generic unit constructor, named constants).

Prints a deterministic text; it must be identical on the clean worktree and with the patch.
"""
import hashlib
import math

from py_ballisticcalc import (Calculator, DragModel, TableG1, TableG7, Ammo, Weapon, Shot, Wind, Atmo,
                              Distance, Velocity, Angular, Unit, RangeError, TrajFlag)
from py_ballisticcalc.trajectory_calc import create_trajectory_row, get_correction
from py_ballisticcalc.trajectory_calc._trajectory_calc import Vector


def units_repr(r):
    return repr([(type(v).__name__, int(v.units), repr(v.units), v.unit_value, float(v), str(v))
                 for v in r if hasattr(v, "raw_value")])


def row_repr(r):
    return units_repr(r) + repr([type(v).__name__ for v in r]) + repr((r.time, r.distance.raw_value, r.velocity.raw_value, r.mach, r.height.raw_value,
                 r.target_drop.raw_value, r.drop_adj.raw_value, r.windage.raw_value,
                 r.windage_adj.raw_value, r.look_distance.raw_value, r.angle.raw_value,
                 r.density_factor, r.drag, r.energy.raw_value, r.ogw.raw_value, int(r.flag)))


def digest(rows):
    h = hashlib.sha256()
    for r in rows:
        h.update(row_repr(r).encode())
    return h.hexdigest()


def show(name, rows):
    print(f"{name}: n={len(rows)} sha={digest(rows)}")
    print("   first", row_repr(rows[0]))
    print("   last ", row_repr(rows[-1]))
    print("   dist ", [repr(r.distance.raw_value) for r in rows[:14]])
    print("   time ", [repr(r.time) for r in rows[:14]])


def make_shot(winds=None, look=0.0, cant=0.0, elev=0.001228, table=TableG7, bc=0.223, mv=2750.0):
    dm = DragModel(bc, table, 168, 0.308, 1.282)
    ammo = Ammo(dm, Velocity.FPS(mv))
    weapon = Weapon(Distance.Inch(2), Distance.Inch(11.24), zero_elevation=Angular.Radian(elev))
    return Shot(weapon=weapon, ammo=ammo, look_angle=Angular.Degree(look), cant_angle=Angular.Degree(cant),
                atmo=Atmo.icao(), winds=winds)


def fire(name, shot, rng, step=0, extra=False, time_step=0.0, config=None):
    calc = Calculator(_config=config)
    try:
        rows = calc.fire(shot, rng, step, extra_data=extra, time_step=time_step).trajectory
        show(name, rows)
    except RangeError as e:
        print(f"{name}: RangeError {e.reason}")
        show(name + " (incomplete)", e.incomplete_trajectory)


head = [Wind(Velocity.MPH(20), Angular.OClock(6))]
tail = [Wind(Velocity.MPH(40), Angular.OClock(12))]
cross = [Wind(Velocity.MPH(10), Angular.OClock(3))]
multi = [Wind(Velocity.MPH(5), Angular.OClock(10.5), Distance.Yard(200)),
         Wind(Velocity.MPH(15), Angular.OClock(12), Distance.Yard(450)),
         Wind(Velocity.MPH(8), Angular.OClock(7), Distance.Yard(700))]

fire("default-step 1000yd", make_shot(), Distance.Yard(1000))
fire("100yd steps", make_shot(cross), Distance.Yard(1000), Distance.Yard(100))
fire("non-dividing step 70m over 1000yd", make_shot(head), Distance.Yard(1000), Distance.Meter(70))
fire("float range/step (preferred units)", make_shot(tail), 600, 37.5)
fire("tail wind 40mph 1 mile", make_shot(tail, elev=0.02), Distance.Mile(1), Distance.Yard(160))
fire("multi wind", make_shot(multi, cant=7.0), Distance.Meter(800), Distance.Meter(50))
fire("feet range", make_shot(cross), Distance.Foot(10), Distance.Foot(1))
fire("step == calc step (0.25ft)", make_shot(), Distance.Foot(6), Distance.Foot(0.25))
fire("step below calc step (0.1ft): several record distances per integration step",
     make_shot(head), Distance.Foot(5), Distance.Foot(0.1))
fire("step 1 inch, slow bullet with strong tail wind", make_shot(tail, mv=300.0, elev=0.05),
     Distance.Foot(4), Distance.Inch(1))
fire("look angle 30deg", make_shot(cross, look=30.0, elev=0.0025), Distance.Yard(500), Distance.Yard(50))
fire("extra data", make_shot(cross, elev=0.004), Distance.Yard(900), Distance.Yard(100), extra=True)
fire("extra data + time step", make_shot(multi, elev=0.004), Distance.Yard(400), Distance.Yard(100),
     extra=True, time_step=0.01)
fire("time step only matters (steep shot)", make_shot(head, look=80.0, elev=0.0), Distance.Yard(150),
     Distance.Yard(50), time_step=0.05)
fire("time step small", make_shot(), Distance.Yard(300), Distance.Yard(100), time_step=0.001)
fire("range error (drop)", make_shot(elev=-0.4), Distance.Yard(3000), Distance.Yard(100))
fire("range error (velocity)", make_shot(tail, table=TableG1, bc=0.05, elev=0.3), Distance.Yard(4000),
     Distance.Yard(250), time_step=0.5)
fire("coarse integration step 5ft", make_shot(cross), Distance.Yard(300), Distance.Yard(30),
     config={"max_calc_step_size_feet": 5.0})
fire("zero range", make_shot(), Distance.Yard(0), Distance.Yard(10))

# zeroing first (calls the integrator without a filter), then a range card
shot = make_shot(cross, look=5.0)
calc = Calculator()
print("zero elevation", repr(calc.set_weapon_zero(shot, Distance.Yard(200)).raw_value))
show("after zeroing", calc.fire(shot, Distance.Yard(600), Distance.Yard(60), time_step=0.2).trajectory)

fire("look down 12deg, cant", make_shot(cross, look=-12.0, cant=20.0, elev=0.002), Distance.Meter(300),
     Distance.Meter(25), extra=True)
rows = Calculator().fire(make_shot(multi, look=2.0), Distance.Yard(300), Distance.Yard(100)).trajectory
for r in rows:
    print("   fmt", r.formatted())
    print("   def", repr(r.in_def_units()))
    print("   cmp", r.distance >= Distance.Yard(100), r.distance == Distance.Foot(300), hash(r.distance),
          repr(r.distance >> Distance.Meter), repr(r.velocity >> Velocity.MPS), repr(r.ogw >> Unit.Kilogram),
          repr(r.energy >> Unit.Joule), repr(r.drop_adj >> Angular.MOA), repr(r.distance))

# --- the row builder called directly ----------------------------------------------------------
print("direct row builder use")
cases = [
    (0.0, Vector(0.0, -0.1666, 0.0), Vector(2750.0, 3.3, 0.0), 2750.0, 1116.4, 0.0, 0.0, 1.0, 0.0, 168.0, 8),
    (0.5, Vector(1200.0, -3.5, 0.25), Vector(1900.0, -20.0, 1.5), 1900.1, 1100.0, 0.07, 0.1, 0.97, 0.002, 168.0, 9),
    (0.5, Vector(-0.0, 2.0, -0.25), Vector(-10.0, 5.0, 0.0), 11.2, 1100.0, -0.07, -0.3, 1.02, 0.002, 55, 0),
    (2, Vector(3, 4, 5), Vector(6, 7, 8), 9, 10, 11, 1, 2, 3, 4, 31),
    (1.5, Vector(float("nan"), 1.0, 2.0), Vector(0.0, 0.0, 0.0), 0.0, 1000.0, 0.0, 0.2, 1.0, 0.0, 100.0, 16),
    (1.5, Vector(float("inf"), -1e300, 1e-310), Vector(0.0, -0.0, 0.0), 1e200, 1e-5, 0.0, 1.5, 1.0, 0.0, 1e3, 4),
    (1.0, Vector(10.0, 1.0, 2.0), Vector(1.0, 1.0, 1.0), 100.0, 0.0, 0.0, 0.2, 1.0, 0.0, 100.0, 8),       # mach 0
    (1.0, Vector(10.0, 1.0, 2.0), Vector(1.0, 1.0, 1.0), 100.0, 0.0, 0.0, float("inf"), 1.0, 0.0, 100.0, 8),
    (1.0, Vector(10.0, 1.0, 2.0), Vector(1.0, 1.0, 1.0), 100.0, 1.0, 0.0, float("inf"), 1.0, 0.0, 100.0, 8),
    (1.0, Vector(10.0, 1.0, 2.0), Vector(1.0, 1.0, 1.0), 1e200, 1.0, 0.0, 0.0, 1.0, 0.0, 100.0, 8),        # overflow
    (1.0, (10.0, 1.0, 2.0), Vector(1.0, 1.0, 1.0), 100.0, 1.0, 0.0, 0.0, 1.0, 0.0, 100.0, 8),              # wrong type
    (1.0, Vector(10.0, 1.0, 2.0), Vector(1.0, 1.0, 1.0), "fast", 1.0, 0.0, 0.0, 1.0, 0.0, 100.0, 8),
]
for args in cases:
    try:
        r = create_trajectory_row(*args)
        print("   row", row_repr(r))
        print("      ", repr(tuple(r)))
    except Exception as e:  # pylint: disable=broad-except
        print("   exc", type(e).__name__, e)

for d, o in ((0, 1.0), (0.0, 1.0), (-0.0, 1.0), (100.0, 0.0), (100.0, -0.5), (-3, 4), (1e-320, 1.0), (float("nan"), 1.0),
             (float("inf"), float("inf")), (2.0, float("nan")), (False, 1.0), (True, 2)):
    c = get_correction(d, o)
    print("   corr", repr(d), repr(o), type(c).__name__, repr(c))
