"""Equivalence digest for refactoring 1 (C03): how the integration loop of
TrajectoryCalc._integrate stops (range reached / velocity, drop, altitude limit hit).

Prints a deterministic text; it must be identical on the clean tree and with the patch.
"""
import hashlib
import logging
import warnings

from py_ballisticcalc import (Calculator, DragModel, Ammo, Weapon, Shot, Wind, Atmo,
                              TableG7, TableG1, RangeError)
from py_ballisticcalc.unit import Distance, Velocity, Angular, Temperature, Pressure, Unit
from py_ballisticcalc.trajectory_calc import TrajectoryCalc
from py_ballisticcalc.trajectory_data import TrajFlag
from py_ballisticcalc.interface_config import create_interface_config
from py_ballisticcalc.logger import logger

warnings.simplefilter("ignore")


def row_repr(r):
    return repr((r.time, r.distance.raw_value, r.velocity.raw_value, r.mach, r.height.raw_value,
                 r.target_drop.raw_value, r.drop_adj.raw_value, r.windage.raw_value,
                 r.windage_adj.raw_value, r.look_distance.raw_value, r.angle.raw_value,
                 r.density_factor, r.drag, r.energy.raw_value, r.ogw.raw_value, int(r.flag)))


def digest(rows):
    h = hashlib.sha256()
    for r in rows:
        h.update(row_repr(r).encode())
        h.update(b"\n")
    return h.hexdigest()[:20]


def summarize(label, rows):
    print(label, "n=%d" % len(rows), digest(rows))
    if rows:
        print("   first", row_repr(rows[0]))
        print("   last ", row_repr(rows[-1]))
        print("   dist ", [repr(r.distance >> Distance.Foot) for r in rows[:14]])
        print("   flags", [int(r.flag) for r in rows[:14]])


def run(label, calc, shot, rng, step=0, extra=False, time_step=0.0):
    try:
        res = calc.fire(shot, rng, step, extra_data=extra, time_step=time_step)
        summarize(label, res.trajectory)
    except RangeError as e:
        print(label, "RangeError", repr(e.reason), repr(str(e)),
              repr(None if e.last_distance is None else e.last_distance.raw_value))
        summarize(label + " [incomplete]", e.incomplete_trajectory)
    except Exception as e:  # pylint: disable=broad-except
        print(label, "EXC", type(e).__name__, repr(str(e)))


dm7 = DragModel(0.22, TableG7, 168, 0.308, 1.22)
dm1 = DragModel(0.45, TableG1, 150, 0.308, 1.1)
ammo = Ammo(dm7, Velocity.FPS(2600))
slow = Ammo(dm1, Velocity.FPS(900))
weapon = Weapon(4, 12)
weapon_zero = Weapon(Distance.Inch(2), 12, Angular.Mil(3))
calc = Calculator()

# --- range reached (ordinary exit) ---------------------------------------------------------
base = Shot(weapon=weapon, ammo=ammo, atmo=Atmo.icao())
run("flat 1000yd/100", calc, base, Distance.Yard(1000), Distance.Yard(100))
run("flat 1000yd default step", calc, base, Distance.Yard(1000))
run("flat 777ft/50ft", calc, base, Distance.Foot(777), Distance.Foot(50))
run("flat 100m/7m extra", calc, base, Distance.Meter(100), Distance.Meter(7), extra=True)
for name, direction in (("head", 180), ("tail", 0), ("left", 90), ("right", 270)):
    s = Shot(weapon=weapon_zero, ammo=ammo, atmo=Atmo.icao(),
             winds=[Wind(Velocity.MPH(25), Angular.Degree(direction))])
    run("wind %s 600yd/60" % name, calc, s, Distance.Yard(600), Distance.Yard(60))
multi = Shot(weapon=weapon_zero, ammo=ammo, atmo=Atmo.icao(),
             winds=[Wind(Velocity.MPH(10), Angular.Degree(45), Distance.Yard(100)),
                    Wind(Velocity.MPH(20), Angular.Degree(200), Distance.Yard(300)),
                    Wind(Velocity.MPH(5), Angular.Degree(300), Distance.Yard(350))])
run("multi-wind 500yd/50 extra", calc, multi, Distance.Yard(500), Distance.Yard(50), extra=True)
run("time_step 0.05", calc, multi, Distance.Yard(400), Distance.Yard(100), time_step=0.05)

# --- fewer than two rows: the fall-back row -----------------------------------------------------
run("range 0", calc, base, Distance.Foot(0), Distance.Foot(10))
run("range 0.1ft step 1ft", calc, base, Distance.Foot(0.1), Distance.Foot(1))
run("negative range", calc, base, Distance.Foot(-5), Distance.Foot(1))
run("tiny range default step", calc, base, Distance.Inch(3))

# --- limits hit: RangeError with the incomplete trajectory ------------------------------------
# minimum velocity
run("min velocity", calc, Shot(weapon=weapon, ammo=slow, atmo=Atmo.icao()),
    Distance.Yard(4000), Distance.Yard(250))
run("min velocity extra", calc, Shot(weapon=weapon, ammo=slow, atmo=Atmo.icao(), relative_angle=Angular.Degree(20)),
    Distance.Yard(4000), Distance.Yard(500), extra=True)
# maximum drop (custom limits so that it triggers quickly)
calc_drop = Calculator(_config={"cMaximumDrop": -20.0})
run("max drop", calc_drop, base, Distance.Yard(2000), Distance.Yard(100))
run("max drop downhill", calc_drop, Shot(weapon=weapon, ammo=ammo, atmo=Atmo.icao(), look_angle=Angular.Degree(-30),
                                          relative_angle=Angular.Degree(-30)),
    Distance.Yard(500), Distance.Yard(10))
# minimum altitude
calc_alt = Calculator(_config={"cMinimumAltitude": -5.0})
run("min altitude", calc_alt, base, Distance.Yard(2000), Distance.Yard(100))
calc_alt_hi = Calculator(_config={"cMinimumAltitude": 990.0})
run("min altitude at once", calc_alt_hi, Shot(weapon=weapon, ammo=ammo, atmo=Atmo.icao(Distance.Foot(990.2))),
    Distance.Yard(300), Distance.Yard(100))
# several limits true at the same moment: order of the reasons
calc_both = Calculator(_config={"cMaximumDrop": 10.0, "cMinimumAltitude": 5000.0})
run("drop+altitude together", calc_both, base, Distance.Yard(300), Distance.Yard(100))
calc_all = Calculator(_config={"cMinimumVelocity": 5000.0, "cMaximumDrop": 10.0, "cMinimumAltitude": 5000.0})
run("all three together", calc_all, base, Distance.Yard(300), Distance.Yard(100))
calc_all_extra = Calculator(_config={"cMinimumVelocity": 2599.0})
run("velocity limit on first step, extra", calc_all_extra, base, Distance.Yard(300), Distance.Yard(100), extra=True)
# vertical shot: falls back through limits
run("near vertical", calc, Shot(weapon=weapon, ammo=ammo, atmo=Atmo.icao(), relative_angle=Angular.Degree(89.5)),
    Distance.Yard(2000), Distance.Yard(100), time_step=1.0)

# --- zero finding drives _integrate with TrajFlag.NONE (no recording at all) ----------------------
for d in (Distance.Yard(100), Distance.Meter(300), Distance.Yard(1000)):
    s = Shot(weapon=Weapon(Distance.Inch(2.5), 10), ammo=ammo, atmo=Atmo.icao(), look_angle=Angular.Degree(3))
    try:
        print("zero", d, repr(calc.set_weapon_zero(s, d).raw_value))
    except Exception as e:  # pylint: disable=broad-except
        print("zero", d, "EXC", type(e).__name__, repr(str(e)))
    run("after zero %s" % d, calc, s, Distance.Yard(1100), Distance.Yard(100))

# --- the integrator called directly, in feet ---------------------------------------------------
tc = TrajectoryCalc(create_interface_config({"cMinimumVelocity": 2000.0}))
tc._init_trajectory(base)
for args in ((300.0, 100.0, TrajFlag.RANGE), (300.0, 100.0, TrajFlag.NONE), (3000.0, 500.0, TrajFlag.ALL),
             (3000.0, 500.0, TrajFlag.NONE), (0.2, 0.1, TrajFlag.RANGE)):
    try:
        summarize("direct %r" % (args,), tc._integrate(base, *args))
    except RangeError as e:
        print("direct %r" % (args,), "RangeError", repr(e.reason))
        summarize("direct [incomplete]", e.incomplete_trajectory)

# --- the debug line after a complete run is still written, and not after a RangeError ---------------
class _Catch(logging.Handler):
    def __init__(self):
        super().__init__()
        self.lines = []

    def emit(self, record):
        self.lines.append(record.getMessage())


catch = _Catch()
logger.addHandler(catch)
old_level = logger.level
logger.setLevel(logging.DEBUG)
try:
    calc.fire(base, Distance.Yard(50), Distance.Yard(10))
    try:
        calc_all.fire(base, Distance.Yard(50), Distance.Yard(10))
    except RangeError:
        pass
finally:
    logger.setLevel(old_level)
    logger.removeHandler(catch)
print("debug lines:", [line for line in catch.lines if line.startswith("euler py it")])
