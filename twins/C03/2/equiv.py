"""Equivalence digest for refactoring 2 (_TrajectoryDataFilter.should_record split into claim / flag / build phases).

Run:  cd /tmp/wt/T03 && PYTHONPATH=/tmp/wt/T03 /venv/bin/python /tmp/twins/C03/2/equiv.py
Prints one line per case plus a final sha256 over everything printed before it.
"""
import hashlib
import logging

from py_ballisticcalc import (Calculator, DragModel, TableG1, TableG7, Weight, Distance, Velocity, Angular,
                              Ammo, Weapon, Shot, Wind, Atmo, RangeError, InterfaceConfigDict, Unit)
from py_ballisticcalc.trajectory_calc import TrajectoryCalc, Config, _TrajectoryDataFilter
from py_ballisticcalc.logger import logger

OUT = []


def emit(*parts):
    line = ' '.join(str(p) for p in parts)
    OUT.append(line)
    print(line)


def row_repr(r):
    return repr((r.time, r.distance.raw_value, r.velocity.raw_value, r.mach, r.height.raw_value,
                 r.target_drop.raw_value, r.drop_adj.raw_value, r.windage.raw_value, r.windage_adj.raw_value,
                 r.look_distance.raw_value, r.angle.raw_value, r.density_factor, r.drag, r.energy.raw_value,
                 r.ogw.raw_value, int(r.flag)))


def digest_rows(rows):
    h = hashlib.sha256()
    for r in rows:
        h.update(row_repr(r).encode())
    return h.hexdigest()[:20]


def make_shot(winds=None, rel=0.0, look=0.0, cant=0.0, sight=2.0, twist=12.0, g7=True, mv=2750.0):
    if g7:
        dm = DragModel(0.223, TableG7, Weight.Grain(168), Distance.Inch(0.308), Distance.Inch(1.282))
    else:
        dm = DragModel(0.365, TableG1, Weight.Grain(55), Distance.Inch(0.224), Distance.Inch(0.9))
    weapon = Weapon(Distance.Inch(sight), twist)
    ammo = Ammo(dm, Velocity.FPS(mv))
    return Shot(weapon=weapon, ammo=ammo, look_angle=Angular.Degree(look), relative_angle=Angular.Degree(rel),
                cant_angle=Angular.Degree(cant), atmo=Atmo.icao(), winds=winds)


def run(label, calc, shot, rng, **kw):
    try:
        res = calc.fire(shot, rng, **kw)
        rows = res.trajectory
        status = 'ok'
    except RangeError as e:
        rows = e.incomplete_trajectory
        status = 'RangeError:' + str(e.reason)
    except Exception as e:  # pylint: disable=broad-except
        emit(label, 'EXC', type(e).__name__, e)
        return
    emit(label, status, 'n=%d' % len(rows),
         'd=' + repr([r.distance.raw_value for r in rows][:4]), '..',
         repr([r.distance.raw_value for r in rows][-2:]),
         't_last=' + repr(rows[-1].time), 'first=' + row_repr(rows[0]), 'sha=' + digest_rows(rows))


def drive_filter(label, flt, steps, dump_state=True):
    """Feed a synthetic sequence of integration points straight into the filter and print every answer
    together with the complete filter state after the call."""
    from py_ballisticcalc.vector import Vector
    from py_ballisticcalc.trajectory_data import TrajFlag
    for n, (t, x, y, z, vx, vy, vz, mach) in enumerate(steps):
        flt.clear_current_flag()
        try:
            d = flt.should_record(Vector(x, y, z), Vector(vx, vy, vz), mach, t)
        except Exception as e:  # pylint: disable=broad-except
            d = 'EXC %s %s' % (type(e).__name__, e)
        state = ''
        if dump_state:
            state = repr((int(flt.current_flag), int(flt.seen_zero), flt.time_of_last_record, flt.next_record_distance,
                          flt.previous_time, tuple(flt.previous_position), tuple(flt.previous_velocity),
                          flt.previous_mach, flt.previous_v_mach))
        out = d if d is None or isinstance(d, str) else (d.time, tuple(d.position), tuple(d.velocity), d.mach)
        emit(label, n, repr(out), state)


def filter_cases():
    from py_ballisticcalc.vector import Vector
    from py_ballisticcalc.trajectory_data import TrajFlag
    v0 = Vector(2700.0, 30.0, 1.0)
    p0 = Vector(0.0, -0.2, 0.0)

    def pts(xs, dt=0.001):
        out = []
        for i, x in enumerate(xs):
            out.append((i * dt, x, -0.2 + 0.01 * x - 0.0004 * x * x, 0.003 * x, 2700.0 - 3.1 * i, 30.0 - 0.4 * i,
                        1.0 + 0.01 * i, 1116.45 - 0.01 * i))
        return out

    # regular advance, step 1 ft, points every 0.3 ft
    f = _TrajectoryDataFilter(TrajFlag.RANGE, 1.0, p0, v0)
    f.setup_seen_zero(p0.y, 0.01, 0.0)
    drive_filter('flt-regular', f, pts([0.3 * i for i in range(12)]))
    # stepping over several record distances at once, landing exactly on one, not moving, moving back
    f = _TrajectoryDataFilter(TrajFlag.RANGE, 0.7, p0, v0)
    f.setup_seen_zero(p0.y, 0.01, 0.0)
    drive_filter('flt-skips', f, pts([0.0, 0.1, 2.9, 3.5, 3.5, 3.4, 4.2, 4.2, 9.8, 9.8000001, 10.5, 30.0]))
    # first point already beyond several marks (x > previous x at the very first call)
    f = _TrajectoryDataFilter(TrajFlag.ALL, 2.0, p0, v0)
    f.setup_seen_zero(p0.y, 0.01, 0.002)
    drive_filter('flt-late-start', f, pts([7.3, 7.9, 8.0, 8.1, 12.0]))
    # backwards flight: x decreasing after a record
    f = _TrajectoryDataFilter(TrajFlag.RANGE, 1.0, p0, v0, 0.0015)
    f.setup_seen_zero(p0.y, 0.01, 0.0)
    drive_filter('flt-back', f, pts([0.0, 0.6, 1.2, 1.1, 0.9, 0.5, 1.3, 2.0, 2.0, 1.9, 2.1]))
    # time step only (range step 0), and both
    f = _TrajectoryDataFilter(TrajFlag.RANGE, 0.0, p0, v0, 0.0025)
    drive_filter('flt-time-only', f, pts([0.2 * i for i in range(14)]))
    f = _TrajectoryDataFilter(TrajFlag.RANGE, 1.0, p0, v0, 0.002)
    drive_filter('flt-time+range', f, pts([0.0, 0.1, 0.15, 0.2, 0.22, 0.25, 1.5, 1.6, 1.61, 1.62, 1.63, 2.0]))
    # negative / NaN range step never records by range; negative time step never records by time
    f = _TrajectoryDataFilter(TrajFlag.RANGE, -1.0, p0, v0, 0.003)
    drive_filter('flt-negstep', f, pts([0.5 * i for i in range(6)]))
    f = _TrajectoryDataFilter(TrajFlag.RANGE, float('nan'), p0, v0, -1.0)
    drive_filter('flt-nanstep', f, pts([0.5 * i for i in range(4)]))
    # filter that does not include RANGE: interpolated rows are still returned, plain ones are not
    f = _TrajectoryDataFilter(TrajFlag.ZERO | TrajFlag.MACH, 1.0, p0, v0)
    f.setup_seen_zero(p0.y, 0.01, 0.0)
    drive_filter('flt-norange', f, pts([0.0, 0.4, 1.1, 1.5, 25.0, 25.5, 26.2]))
    # mach crossing and zero crossings combined with range rows
    f = _TrajectoryDataFilter(TrajFlag.ALL, 5.0, p0, Vector(1120.0, 5.0, 0.0))
    f.setup_seen_zero(p0.y, 0.01, 0.0)
    seq = []
    for i in range(14):
        x = 1.1 * i
        seq.append((0.001 * i, x, -0.2 + 0.09 * x - 0.008 * x * x, 0.0, 1120.0 - 1.0 * i, 5.0 - 0.5 * i, 0.0, 1116.0))
    drive_filter('flt-crossings', f, seq)
    # mach == 0 raises from check_mach_crossing - after the record distance has been claimed
    f = _TrajectoryDataFilter(TrajFlag.RANGE, 1.0, p0, v0)
    drive_filter('flt-mach0', f, [(0.0, 0.0, -0.2, 0.0, 2700.0, 30.0, 1.0, 1116.0),
                                  (0.001, 1.4, -0.2, 0.0, 2700.0, 30.0, 1.0, 0.0),
                                  (0.002, 2.9, -0.2, 0.0, 2690.0, 29.0, 1.0, 1116.0)])
    # huge distances: repeated addition of the step must stay a repeated addition
    f = _TrajectoryDataFilter(TrajFlag.RANGE, 0.1, p0, v0)
    drive_filter('flt-accum', f, pts([0.0, 0.05, 100.03, 100.04, 100.12, 250.0]))


def main():
    calc = Calculator()
    head = [Wind(Velocity.MPH(20), Angular.Degree(180), Distance.Yard(2000))]
    tail = [Wind(Velocity.MPH(35), Angular.Degree(0), Distance.Yard(300)),
            Wind(Velocity.MPH(10), Angular.Degree(90), Distance.Yard(700))]
    cross = [Wind(Velocity.MPH(15), Angular.Degree(270), Distance.Yard(5000))]

    # default step (range / 10), range given as float in preferred units and in explicit units
    run('default-float', calc, make_shot(), 1000)
    run('default-yard', calc, make_shot(), Distance.Yard(1000))
    run('default-meter', calc, make_shot(tail), Distance.Meter(914.4))
    run('default-mile', calc, make_shot(head, rel=1.5), Distance.Mile(1.0))
    run('default-feet', calc, make_shot(cross, cant=10), Distance.Foot(7))
    run('default-int-step0', calc, make_shot(), 500, trajectory_step=0)
    run('default-float-step0.0', calc, make_shot(), 500, trajectory_step=0.0)
    # a Distance of zero is truthy: it is NOT replaced by the default -> no range rows
    run('step-Distance-zero', calc, make_shot(), 100, trajectory_step=Distance.Yard(0))
    # explicit steps, dividing and not dividing the range, float and units
    run('step-100', calc, make_shot(), 1000, trajectory_step=100)
    run('step-m', calc, make_shot(tail, look=3.0), Distance.Meter(800), trajectory_step=Distance.Meter(75))
    run('step-nodiv', calc, make_shot(head), Distance.Yard(1000), trajectory_step=Distance.Yard(130))
    run('step-small', calc, make_shot(cross), Distance.Foot(20), trajectory_step=Distance.Inch(1))
    run('step-eq-maxstep', calc, make_shot(), Distance.Foot(30), trajectory_step=Distance.Foot(0.5))
    run('step-gt-range', calc, make_shot(), Distance.Yard(100), trajectory_step=Distance.Yard(250))
    run('step-negative', calc, make_shot(), Distance.Yard(100), trajectory_step=-10)
    run('range-zero', calc, make_shot(), 0)
    run('range-negative', calc, make_shot(), -50)
    run('range-zero-step', calc, make_shot(), Distance.Yard(0), trajectory_step=Distance.Yard(10))
    # time step, extra data
    run('time-step', calc, make_shot(g7=False, rel=60.0), Distance.Yard(300), trajectory_step=Distance.Yard(100),
        time_step=0.05)
    run('time-only', calc, make_shot(), Distance.Yard(400), trajectory_step=Distance.Yard(0), time_step=0.1)
    run('extra', calc, make_shot(tail, look=2.0, rel=0.3), Distance.Yard(600), trajectory_step=Distance.Yard(50),
        extra_data=True)
    run('extra-default', calc, make_shot(cross), Distance.Yard(300), extra_data=True)
    # incomplete shots
    run('max-drop', calc, make_shot(g7=False, mv=900.0), Distance.Yard(9000))
    run('vertical', Calculator(_config=InterfaceConfigDict(cMinimumVelocity=0)), make_shot(rel=90.0),
        Distance.Yard(10), trajectory_step=Distance.Yard(1))
    # other configurations of the maximum integration step
    for mx in (0.1, 1.0, 3.0):
        c = Calculator(_config=InterfaceConfigDict(max_calc_step_size_feet=mx))
        run('maxstep-%s' % mx, c, make_shot(head), Distance.Yard(500), trajectory_step=Distance.Yard(50))
        run('maxstep-%s-small' % mx, c, make_shot(), Distance.Foot(12), trajectory_step=Distance.Foot(0.75))

    # the caller's Distance objects are re-labelled (not copied) by fire(): units after the call
    rng, stp = Distance.Meter(500), Distance.Meter(50)
    res = calc.fire(make_shot(), rng, stp)
    emit('units-after', repr(rng.units), repr(stp.units), repr(rng.raw_value), repr(stp.raw_value), len(res.trajectory))

    # zeroing goes through _integrate with filter NONE and record_step == range
    shot = make_shot(tail, look=1.0)
    z = calc.set_weapon_zero(shot, Distance.Yard(200))
    emit('zero', repr(z.raw_value))
    run('after-zero', calc, shot, Distance.Yard(400), trajectory_step=Distance.Yard(100))

    # get_calc_step directly
    cfg = Config(0.5, 0.2, 0.000005, 50.0, -15000, 20, -32.17405, -1410.748)
    tc = TrajectoryCalc(cfg)
    emit('calc-step', [repr(tc.get_calc_step(s)) for s in (0, 0.0, -0.0, 0.2, 0.5, 0.7, 5, -1, float('inf'),
                                                          float('nan'))])
    emit('calc-step-default', repr(tc.get_calc_step()))

    # number of integration iterations is logged at debug level
    records = []

    class H(logging.Handler):
        def emit(self, record):
            records.append(record.getMessage())

    h = H()
    logger.addHandler(h)
    old = logger.level
    logger.setLevel(logging.DEBUG)
    try:
        calc.fire(make_shot(head), Distance.Yard(100), trajectory_step=Distance.Yard(25))
        try:
            calc.fire(make_shot(), -5)  # loop body never runs; the closing row divides by mach == 0
        except ZeroDivisionError as e:
            emit('neg-range-exc', type(e).__name__, e)
    finally:
        logger.setLevel(old)
        logger.removeHandler(h)
    emit('debug-log', [m for m in records if m.startswith('euler')])

    filter_cases()

    print('TOTAL', hashlib.sha256('\n'.join(OUT).encode()).hexdigest())


if __name__ == '__main__':
    main()
