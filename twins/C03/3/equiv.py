"""Equivalence digest for refactoring 3 (_integrate: state object, _muzzle_state/_advance/_make_row/_termination_reason, while True + break).

Run:  cd /tmp/wt/T03 && PYTHONPATH=/tmp/wt/T03 /venv/bin/python /tmp/twins/C03/3/equiv.py
Prints one line per case plus a final sha256 over everything printed before it.
"""
import hashlib
import logging

from py_ballisticcalc import (Calculator, DragModel, TableG1, TableG7, Weight, Distance, Velocity, Angular,
                              Ammo, Weapon, Shot, Wind, Atmo, RangeError, InterfaceConfigDict, Unit)
from py_ballisticcalc.trajectory_calc import TrajectoryCalc, Config, _TrajectoryDataFilter
from py_ballisticcalc.logger import logger

OUT = []


def emit(*parts):
    line = ' '.join(str(p) for p in parts)
    OUT.append(line)
    print(line)


def row_repr(r):
    return repr((r.time, r.distance.raw_value, r.velocity.raw_value, r.mach, r.height.raw_value,
                 r.target_drop.raw_value, r.drop_adj.raw_value, r.windage.raw_value, r.windage_adj.raw_value,
                 r.look_distance.raw_value, r.angle.raw_value, r.density_factor, r.drag, r.energy.raw_value,
                 r.ogw.raw_value, int(r.flag)))


def digest_rows(rows):
    h = hashlib.sha256()
    for r in rows:
        h.update(row_repr(r).encode())
    return h.hexdigest()[:20]


def make_shot(winds=None, rel=0.0, look=0.0, cant=0.0, sight=2.0, twist=12.0, g7=True, mv=2750.0):
    if g7:
        dm = DragModel(0.223, TableG7, Weight.Grain(168), Distance.Inch(0.308), Distance.Inch(1.282))
    else:
        dm = DragModel(0.365, TableG1, Weight.Grain(55), Distance.Inch(0.224), Distance.Inch(0.9))
    weapon = Weapon(Distance.Inch(sight), twist)
    ammo = Ammo(dm, Velocity.FPS(mv))
    return Shot(weapon=weapon, ammo=ammo, look_angle=Angular.Degree(look), relative_angle=Angular.Degree(rel),
                cant_angle=Angular.Degree(cant), atmo=Atmo.icao(), winds=winds)


def run(label, calc, shot, rng, **kw):
    try:
        res = calc.fire(shot, rng, **kw)
        rows = res.trajectory
        status = 'ok'
    except RangeError as e:
        rows = e.incomplete_trajectory
        status = 'RangeError:' + str(e.reason)
    except Exception as e:  # pylint: disable=broad-except
        emit(label, 'EXC', type(e).__name__, e)
        return
    emit(label, status, 'n=%d' % len(rows),
         'd=' + repr([r.distance.raw_value for r in rows][:4]), '..',
         repr([r.distance.raw_value for r in rows][-2:]),
         't_last=' + repr(rows[-1].time), 'first=' + row_repr(rows[0]), 'sha=' + digest_rows(rows))


def limit_cases():
    """Every RangeError reason, their precedence when several limits are hit by the same step, rows carried by the
    exception, and the single closing row of runs that record fewer than two rows."""
    cfgs = {
        'minvel': InterfaceConfigDict(cMinimumVelocity=2000),
        'maxdrop': InterfaceConfigDict(cMaximumDrop=-3, cMinimumVelocity=0),
        'minalt': InterfaceConfigDict(cMinimumAltitude=-2, cMinimumVelocity=0),
        'all-at-once': InterfaceConfigDict(cMinimumVelocity=1e9, cMaximumDrop=1e9, cMinimumAltitude=1e9),
        'drop+alt': InterfaceConfigDict(cMinimumVelocity=0, cMaximumDrop=1e9, cMinimumAltitude=1e9),
        'alt-only-first-step': InterfaceConfigDict(cMinimumVelocity=0, cMaximumDrop=-1e9, cMinimumAltitude=1e9),
    }
    wind3 = [Wind(Velocity.MPH(12), Angular.Degree(45), Distance.Yard(150)),
             Wind(Velocity.MPH(25), Angular.Degree(200), Distance.Yard(400)),
             Wind(Velocity.MPH(5), Angular.Degree(300), Distance.Yard(800))]
    for name, cfg in cfgs.items():
        c = Calculator(_config=cfg)
        for extra in (False, True):
            run('limit-%s-extra%d' % (name, extra), c, make_shot(wind3, rel=0.2, cant=5), Distance.Yard(1500),
                trajectory_step=Distance.Yard(100), extra_data=extra)
        run('limit-%s-nostep-rows' % name, c, make_shot(), Distance.Yard(900), trajectory_step=Distance.Yard(0))
    calc = Calculator()
    # winds that change several times, down- and up-hill, canted, left twist, no twist
    run('wind3', calc, make_shot(wind3, look=-4.0, rel=0.1), Distance.Yard(1000), trajectory_step=Distance.Yard(100))
    run('wind3-extra', calc, make_shot(wind3, look=6.0, cant=-20, twist=-9.0), Distance.Yard(700),
        trajectory_step=Distance.Yard(70), extra_data=True, time_step=0.02)
    run('notwist', calc, make_shot(twist=0.0, sight=0.0), Distance.Meter(300), trajectory_step=Distance.Meter(30))
    run('lob', Calculator(_config=InterfaceConfigDict(cMinimumVelocity=0)), make_shot(g7=False, rel=35.0, mv=1200.0),
        Distance.Yard(3000), trajectory_step=Distance.Yard(250), extra_data=True)
    # zeroing with look angle and with wind, then firing
    for look in (0.0, 5.0, -3.0):
        shot = make_shot(wind3, look=look)
        z = calc.set_weapon_zero(shot, Distance.Meter(250))
        emit('zero-look', look, repr(z.raw_value))
        run('zeroed-look-%s' % look, calc, shot, Distance.Meter(500), trajectory_step=Distance.Meter(50), extra_data=True)


def main():
    calc = Calculator()
    head = [Wind(Velocity.MPH(20), Angular.Degree(180), Distance.Yard(2000))]
    tail = [Wind(Velocity.MPH(35), Angular.Degree(0), Distance.Yard(300)),
            Wind(Velocity.MPH(10), Angular.Degree(90), Distance.Yard(700))]
    cross = [Wind(Velocity.MPH(15), Angular.Degree(270), Distance.Yard(5000))]

    # default step (range / 10), range given as float in preferred units and in explicit units
    run('default-float', calc, make_shot(), 1000)
    run('default-yard', calc, make_shot(), Distance.Yard(1000))
    run('default-meter', calc, make_shot(tail), Distance.Meter(914.4))
    run('default-mile', calc, make_shot(head, rel=1.5), Distance.Mile(1.0))
    run('default-feet', calc, make_shot(cross, cant=10), Distance.Foot(7))
    run('default-int-step0', calc, make_shot(), 500, trajectory_step=0)
    run('default-float-step0.0', calc, make_shot(), 500, trajectory_step=0.0)
    # a Distance of zero is truthy: it is NOT replaced by the default -> no range rows
    run('step-Distance-zero', calc, make_shot(), 100, trajectory_step=Distance.Yard(0))
    # explicit steps, dividing and not dividing the range, float and units
    run('step-100', calc, make_shot(), 1000, trajectory_step=100)
    run('step-m', calc, make_shot(tail, look=3.0), Distance.Meter(800), trajectory_step=Distance.Meter(75))
    run('step-nodiv', calc, make_shot(head), Distance.Yard(1000), trajectory_step=Distance.Yard(130))
    run('step-small', calc, make_shot(cross), Distance.Foot(20), trajectory_step=Distance.Inch(1))
    run('step-eq-maxstep', calc, make_shot(), Distance.Foot(30), trajectory_step=Distance.Foot(0.5))
    run('step-gt-range', calc, make_shot(), Distance.Yard(100), trajectory_step=Distance.Yard(250))
    run('step-negative', calc, make_shot(), Distance.Yard(100), trajectory_step=-10)
    run('range-zero', calc, make_shot(), 0)
    run('range-negative', calc, make_shot(), -50)
    run('range-zero-step', calc, make_shot(), Distance.Yard(0), trajectory_step=Distance.Yard(10))
    # time step, extra data
    run('time-step', calc, make_shot(g7=False, rel=60.0), Distance.Yard(300), trajectory_step=Distance.Yard(100),
        time_step=0.05)
    run('time-only', calc, make_shot(), Distance.Yard(400), trajectory_step=Distance.Yard(0), time_step=0.1)
    run('extra', calc, make_shot(tail, look=2.0, rel=0.3), Distance.Yard(600), trajectory_step=Distance.Yard(50),
        extra_data=True)
    run('extra-default', calc, make_shot(cross), Distance.Yard(300), extra_data=True)
    # incomplete shots
    run('max-drop', calc, make_shot(g7=False, mv=900.0), Distance.Yard(9000))
    run('vertical', Calculator(_config=InterfaceConfigDict(cMinimumVelocity=0)), make_shot(rel=90.0),
        Distance.Yard(10), trajectory_step=Distance.Yard(1))
    # other configurations of the maximum integration step
    for mx in (0.1, 1.0, 3.0):
        c = Calculator(_config=InterfaceConfigDict(max_calc_step_size_feet=mx))
        run('maxstep-%s' % mx, c, make_shot(head), Distance.Yard(500), trajectory_step=Distance.Yard(50))
        run('maxstep-%s-small' % mx, c, make_shot(), Distance.Foot(12), trajectory_step=Distance.Foot(0.75))

    # the caller's Distance objects are re-labelled (not copied) by fire(): units after the call
    rng, stp = Distance.Meter(500), Distance.Meter(50)
    res = calc.fire(make_shot(), rng, stp)
    emit('units-after', repr(rng.units), repr(stp.units), repr(rng.raw_value), repr(stp.raw_value), len(res.trajectory))

    # zeroing goes through _integrate with filter NONE and record_step == range
    shot = make_shot(tail, look=1.0)
    z = calc.set_weapon_zero(shot, Distance.Yard(200))
    emit('zero', repr(z.raw_value))
    run('after-zero', calc, shot, Distance.Yard(400), trajectory_step=Distance.Yard(100))

    # get_calc_step directly
    cfg = Config(0.5, 0.2, 0.000005, 50.0, -15000, 20, -32.17405, -1410.748)
    tc = TrajectoryCalc(cfg)
    emit('calc-step', [repr(tc.get_calc_step(s)) for s in (0, 0.0, -0.0, 0.2, 0.5, 0.7, 5, -1, float('inf'),
                                                          float('nan'))])
    emit('calc-step-default', repr(tc.get_calc_step()))

    # number of integration iterations is logged at debug level
    records = []

    class H(logging.Handler):
        def emit(self, record):
            records.append(record.getMessage())

    h = H()
    logger.addHandler(h)
    old = logger.level
    logger.setLevel(logging.DEBUG)
    try:
        calc.fire(make_shot(head), Distance.Yard(100), trajectory_step=Distance.Yard(25))
        try:
            calc.fire(make_shot(), -5)  # loop body never runs; the closing row divides by mach == 0
        except ZeroDivisionError as e:
            emit('neg-range-exc', type(e).__name__, e)
    finally:
        logger.setLevel(old)
        logger.removeHandler(h)
    emit('debug-log', [m for m in records if m.startswith('euler')])

    limit_cases()

    print('TOTAL', hashlib.sha256('\n'.join(OUT).encode()).hexdigest())


if __name__ == '__main__':
    main()
