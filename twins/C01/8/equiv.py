"""Equivalence digest for refactoring 2 (C01): station atmosphere (Atmo construction, CIPM-2007 air density,
ICAO standard pressure / temperature, altitude lapse helpers) and the trajectories that depend on it.

Prints repr() of every number; the text must be identical on the clean tree and with the patch applied.
"""
import hashlib
import warnings

warnings.simplefilter("ignore")  # import-time "pure python mode" notice
from py_ballisticcalc import (Calculator, Shot, Weapon, Ammo, Atmo, Vacuum, Wind, DragModel,
                              TableG1, TableG7, Unit, Distance, Pressure, Temperature, Velocity,
                              RangeError)  # noqa: E402


def attempt(label, fn):
    """Runs fn, printing its result or its exception, and the warnings it emitted"""
    with warnings.catch_warnings(record=True) as caught:
        warnings.simplefilter("always")
        try:
            result = repr(fn())
        except Exception as e:  # pylint: disable=broad-except
            result = f"raised {type(e).__name__}: {e}"
    msgs = [f"{w.category.__name__}:{w.message}" for w in caught]
    print(f"{label}: {result} warnings={msgs}")


def atmo_numbers(a):
    return (a.altitude.raw_value, int(a.altitude.units), a.pressure.raw_value, int(a.pressure.units),
            a.temperature.raw_value, int(a.temperature.units), a.powder_temp.raw_value, a.humidity,
            a.density_ratio, a.mach.raw_value, a.density_metric, a.density_imperial,
            a._t0, a._p0, a._a0, a._mach, str(a))


def row_numbers(r):
    return (r.time, r.distance.raw_value, r.velocity.raw_value, r.mach, r.height.raw_value,
            r.target_drop.raw_value, r.drop_adj.raw_value, r.windage.raw_value, r.windage_adj.raw_value,
            r.look_distance.raw_value, r.angle.raw_value, r.density_factor, r.drag,
            r.energy.raw_value, r.ogw.raw_value, int(r.flag))


def fire(name, calc, shot, rng, step, **kw):
    with warnings.catch_warnings(record=True) as caught:
        warnings.simplefilter("always")
        try:
            rows = list(calc.fire(shot, rng, step, **kw).trajectory)
            extra = "complete"
        except RangeError as e:
            rows = list(e.incomplete_trajectory)
            extra = f"RangeError[{e.reason}]"
    text = "\n".join(repr(row_numbers(r)) for r in rows)
    msgs = sorted({f"{w.category.__name__}:{str(w.message)[:50]}" for w in caught})
    print(f"== {name}: rows={len(rows)} sha256={hashlib.sha256(text.encode()).hexdigest()} {extra} "
          f"warnings={len(caught)} {msgs}")
    for r in (rows[:1] + rows[-2:]):
        print("   ", repr(row_numbers(r)))


def main():
    # --- static helpers
    for alt in (-1000, 0, 1, 499.5, 5000, 12000, 36089, 45000):
        attempt(f"standard_temperature({alt}ft)", lambda: Atmo.standard_temperature(Distance.Foot(alt)).raw_value)
        attempt(f"standard_pressure({alt}ft)", lambda: Atmo.standard_pressure(Distance.Foot(alt)).raw_value)
    attempt("standard_pressure(150km)", lambda: Atmo.standard_pressure(Distance.Kilometer(150)).raw_value)
    for f in (59, 10, -40.5, -459.67, -460, -1000.0):
        attempt(f"machF({f})", lambda: Atmo.machF(f))
    for c in (15, -20, 0.0, -273.15, -273.16, -300):
        attempt(f"machC({c})", lambda: Atmo.machC(c))
    for k in (0, 288.15, 216.65):
        attempt(f"machK({k})", lambda: Atmo.machK(k))
    for t in (20, 15.0, -40.0, 0, 49.9, -273.15):
        for p in (1013, 1013.25, 700.0, 250.5, 0):
            for h in (0, 0.35, 1, 78.0, 100):
                attempt(f"air_density({t},{p},{h})", lambda: Atmo.calculate_air_density(t, p, h))

    # --- construction
    atmos = {}

    def build(label, fn):
        with warnings.catch_warnings(record=True) as caught:
            warnings.simplefilter("always")
            try:
                atmos[label] = fn()
                result = repr(atmo_numbers(atmos[label]))
            except Exception as e:  # pylint: disable=broad-except
                result = f"raised {type(e).__name__}: {e}"
        print(f"{label}: {result} warnings={[str(w.message) for w in caught]}")

    build("default", Atmo)
    build("icao0", Atmo.icao)
    build("icao 5000ft", lambda: Atmo.icao(Unit.Foot(5000)))
    build("icao 2km -5C 40%", lambda: Atmo.icao(Unit.Kilometer(2), Unit.Celsius(-5), 40))
    build("standard alias float alt", lambda: Atmo.standard(1500))
    build("station", lambda: Atmo(Unit.Meter(1350), Unit.hPa(861.3), Unit.Celsius(27.5), 55, Unit.Celsius(12)))
    build("floats in preferred units", lambda: Atmo(100, 29.5, 72, 0.45))
    build("only altitude", lambda: Atmo(altitude=Unit.Foot(9000)))
    build("only temperature", lambda: Atmo(temperature=Unit.Fahrenheit(-20)))
    build("only pressure", lambda: Atmo(pressure=Unit.MmHg(700), humidity=100))
    build("humidity 1 (fraction)", lambda: Atmo(humidity=1))
    build("humidity 1.0001 (percent)", lambda: Atmo(humidity=1.0001))
    build("humidity -0.1", lambda: Atmo(humidity=-0.1))
    build("humidity 100.5", lambda: Atmo(humidity=100.5))
    build("humidity nan", lambda: Atmo(humidity=float("nan")))
    build("too cold", lambda: Atmo(temperature=Unit.Fahrenheit(-500)))
    build("too cold and bad humidity", lambda: Atmo(temperature=Unit.Fahrenheit(-500), humidity=300))
    build("zero pressure", lambda: Atmo(pressure=Unit.hPa(0)))
    build("vacuum", Vacuum)
    build("vacuum 3000ft 40F", lambda: Vacuum(Unit.Foot(3000), Unit.Fahrenheit(40)))

    # humidity setter after construction
    a = atmos["station"]
    for h in (0, 30, 0.3, 100, 1):
        a.humidity = h
        print("set humidity", h, repr((a.humidity, a.density_ratio, a.density_metric)))
    attempt("set humidity 101", lambda: setattr(a, "humidity", 101))
    print("after failed set", repr((a.humidity, a.density_ratio)))
    v = atmos["vacuum"]
    v.humidity = 50
    print("vacuum after humidity", repr((v.humidity, v.density_ratio, v.pressure.raw_value)))
    a.humidity = 55

    # --- altitude helpers
    for label in ("icao0", "station", "only altitude", "too cold", "vacuum 3000ft 40F"):
        at = atmos[label]
        for alt in (-2000.0, 0.0, 29.9, 30.0, 4400.0, 4429.2, 4459.3, 9000.0, 20000.0, 36089.0, 36090.0, 60000.0,
                    120000.0):
            attempt(f"{label} T@{alt}", lambda: at.temperature_at_altitude(alt))
            attempt(f"{label} P@{alt}", lambda: at.pressure_at_altitude(alt))
            attempt(f"{label} rho,mach@{alt}", lambda: at.get_density_factor_and_mach_for_altitude(alt))
    attempt("station P far above the model", lambda: atmos["station"].pressure_at_altitude(200000.0))

    # --- trajectories
    calc = Calculator()
    dm = DragModel(0.223, TableG7, Unit.Grain(168), Unit.Inch(0.308), Unit.Inch(1.282))
    for label in ("default", "icao 5000ft", "station", "only pressure", "humidity 1.0001 (percent)", "vacuum 3000ft 40F"):
        shot = Shot(Weapon(Unit.Inch(2), Unit.Inch(11)), Ammo(dm, Unit.FPS(2750)), atmo=atmos[label],
                    winds=[Wind(Unit.MPH(10), Unit.Degree(90), Unit.Yard(400)), Wind(Unit.MPH(5), Unit.Degree(200))])
        z = calc.set_weapon_zero(shot, Unit.Yard(200))
        print(label, "zero", repr(z.raw_value))
        fire(f"{label} flat", calc, shot, Unit.Yard(1000), Unit.Yard(250))
        shot.relative_angle = Unit.Degree(25)
        shot.look_angle = Unit.Degree(10)
        fire(f"{label} lob", Calculator(_config={"max_calc_step_size_feet": 2.0}), shot, Unit.Yard(6000), Unit.Yard(1000))
    hot = Shot(Weapon(), Ammo(DragModel(1.2, TableG1), Unit.FPS(4500), Unit.Celsius(15), 1.5, True),
               relative_angle=Unit.Degree(70), atmo=atmos["station"])
    fire("powder sensitivity, into the stratosphere", Calculator(_config={"max_calc_step_size_feet": 5.0}),
         hot, Unit.Yard(15000), Unit.Yard(2500))


if __name__ == "__main__":
    main()
