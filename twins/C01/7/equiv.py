"""Equivalence digest for refactoring 1 (C01): the `_integrate` hot loop.

Fires a set of varied shots through the public API (Calculator.fire / set_weapon_zero)
and prints every number of every returned row with repr(), plus a sha256 over them.
The text must be identical on the clean tree and with the patch applied.
"""
import hashlib
import logging
import warnings

warnings.simplefilter("ignore")  # import-time "pure python mode" notice
from py_ballisticcalc import (Calculator, Shot, Weapon, Ammo, Atmo, Vacuum, Wind, DragModel,
                              TableG1, TableG7, Unit, Distance, RangeError, logger)  # noqa: E402


def row_numbers(r):
    return (r.time, r.distance.raw_value, r.velocity.raw_value, r.mach, r.height.raw_value,
            r.target_drop.raw_value, r.drop_adj.raw_value, r.windage.raw_value, r.windage_adj.raw_value,
            r.look_distance.raw_value, r.angle.raw_value, r.density_factor, r.drag,
            r.energy.raw_value, r.ogw.raw_value, int(r.flag))


def digest(name, rows, extra=""):
    text = "\n".join(repr(row_numbers(r)) for r in rows)
    print(f"== {name}: rows={len(rows)} sha256={hashlib.sha256(text.encode()).hexdigest()} {extra}")
    for r in (rows[:2] + rows[-2:]):
        print("   ", repr(row_numbers(r)))


def run(name, calc, shot, rng, step=0, **kw):
    with warnings.catch_warnings(record=True) as caught:
        warnings.simplefilter("always")
        try:
            rows = list(calc.fire(shot, rng, step, **kw).trajectory)
            extra = "complete"
        except RangeError as e:
            rows = list(e.incomplete_trajectory)
            extra = f"RangeError[{e.reason}]"
        except Exception as e:  # pylint: disable=broad-except
            rows = []
            extra = f"raised {type(e).__name__}: {e}"
    msgs = sorted({f"{w.category.__name__}:{str(w.message)[:60]}" for w in caught})
    digest(name, rows, extra + f" warnings={len(caught)} {msgs}")


def dm_g7():
    return DragModel(0.223, TableG7, Unit.Grain(168), Unit.Inch(0.308), Unit.Inch(1.282))


def dm_g1():
    return DragModel(0.365, TableG1, Unit.Grain(55), Unit.Inch(0.224), Unit.Inch(0.9))


def main():
    # iteration count is emitted on the debug channel of the library logger: make it part of the digest
    class Collect(logging.Handler):
        def __init__(self):
            super().__init__(logging.DEBUG)
            self.lines = []

        def emit(self, record):
            msg = record.getMessage()
            if msg.startswith("euler py it"):
                self.lines.append(msg)
    collector = Collect()
    logger.addHandler(collector)
    old_level = logger.level
    logger.setLevel(logging.DEBUG)

    calc = Calculator()

    # 1. plain zeroed .308 G7, default record step, spin drift active
    w = Weapon(Unit.Inch(2), Unit.Inch(12))
    shot = Shot(w, Ammo(dm_g7(), Unit.FPS(2750)), atmo=Atmo.icao())
    z = calc.set_weapon_zero(shot, Unit.Yard(100))
    print("zero elevation", repr(z.raw_value))
    run("g7 1000yd", calc, shot, Unit.Yard(1000), Unit.Yard(100))
    run("g7 1000yd extra", calc, shot, Unit.Yard(1000), Unit.Yard(100), extra_data=True)
    run("g7 default step", calc, shot, Unit.Yard(550))

    # 2. three wind segments of different direction, look angle, cant, non-standard station
    atmo = Atmo(altitude=Unit.Foot(4500), pressure=Unit.InHg(25.1), temperature=Unit.Fahrenheit(88), humidity=62)
    winds = [Wind(Unit.MPH(12), Unit.Degree(75), Unit.Yard(250)),
             Wind(Unit.MPH(7), Unit.Degree(-110), Unit.Yard(600)),
             Wind(Unit.MPH(18), Unit.OClock(1), Unit.Yard(5000))]
    w2 = Weapon(Unit.Inch(2.5), Unit.Inch(-9), Unit.Mil(1.3))
    shot2 = Shot(w2, Ammo(dm_g1(), Unit.FPS(3100)), look_angle=Unit.Degree(7), relative_angle=Unit.MOA(4),
                 cant_angle=Unit.Degree(12), atmo=atmo, winds=winds)
    run("g1 winds look cant", calc, shot2, Unit.Yard(900), Unit.Yard(75), extra_data=True)
    run("g1 winds time_step", calc, shot2, Unit.Yard(900), Unit.Yard(300), time_step=0.1)
    z2 = calc.set_weapon_zero(shot2, Unit.Meter(300))
    print("zero elevation 2", repr(z2.raw_value))
    run("g1 rezeroed", calc, shot2, Unit.Meter(800), Unit.Meter(100))

    # 3. record step smaller than the integration step; range shorter than one record step
    run("tiny record step", calc, shot, Unit.Foot(6), Unit.Inch(1))
    run("zero range", calc, shot, Unit.Foot(0), Unit.Foot(1))
    run("negative range", calc, shot, Unit.Foot(-3), Unit.Foot(1))

    # 4. high-angle shots: altitude changes by thousands of feet, subsonic transition, early stop
    shot3 = Shot(Weapon(), Ammo(dm_g7(), Unit.FPS(2900)), relative_angle=Unit.Degree(38), atmo=Atmo.icao())
    run("lob 38deg", calc, shot3, Unit.Yard(8000), Unit.Yard(500))
    shot3b = Shot(Weapon(), Ammo(dm_g7(), Unit.FPS(2900)), relative_angle=Unit.Degree(-20), atmo=Atmo.icao())
    run("downward -20deg (min altitude / max drop)", calc, shot3b, Unit.Yard(9000), Unit.Yard(500))
    shot3c = Shot(Weapon(), Ammo(DragModel(0.05, TableG1), Unit.FPS(900)), atmo=Atmo.icao())
    run("low bc (min altitude)", calc, shot3c, Unit.Yard(3000), Unit.Yard(100))
    run("low bc (min velocity)", Calculator(_config={"cMinimumVelocity": 600.0}), shot3c, Unit.Yard(3000), Unit.Yard(100))
    shot3d = Shot(Weapon(), Ammo(DragModel(1.2, TableG7), Unit.FPS(4500)), relative_angle=Unit.Degree(75),
                  atmo=Atmo.icao(Unit.Foot(9000)))
    run("stratospheric lob (warnings)", Calculator(_config={"max_calc_step_size_feet": 4.0}), shot3d,
        Unit.Yard(20000), Unit.Yard(2000))

    # 5. other step sizes and stop limits; speeds below 1 fps (time-step floor) near the apex of a steep lob
    for step_ft in (0.1, 1.0, 3.0):
        c = Calculator(_config={"max_calc_step_size_feet": step_ft})
        run(f"step {step_ft}", c, shot2, Unit.Yard(700), Unit.Yard(350))
    slow = Calculator(_config={"cMinimumVelocity": 0.0, "cMaximumDrop": -40.0, "max_calc_step_size_feet": 0.2})
    shot5 = Shot(Weapon(), Ammo(dm_g1(), Unit.FPS(30)), relative_angle=Unit.Degree(89.99), atmo=Atmo.icao(),
                 winds=[Wind(Unit.FPS(0.3), Unit.Degree(180), Unit.Foot(0.001)), Wind(Unit.FPS(0.2), Unit.Degree(90))])
    run("slow steep lob", slow, shot5, Unit.Foot(50), Unit.Foot(0.01), extra_data=True)
    shot5b = Shot(Weapon(), Ammo(dm_g1(), Unit.FPS(0.5)), atmo=Atmo.icao())
    run("half a foot per second", slow, shot5b, Unit.Foot(5), Unit.Foot(0.05))

    floaty = Calculator(_config={"cMinimumVelocity": 0.0, "cGravityConstant": -0.01, "max_calc_step_size_feet": 0.2})
    run("below 1 fps for the whole flight", floaty, shot5b, Unit.Foot(5), Unit.Foot(0.5), extra_data=True)

    # 6. vacuum: the parabola
    shot6 = Shot(Weapon(Unit.Inch(1.5)), Ammo(dm_g7(), Unit.FPS(2000)), relative_angle=Unit.Degree(3),
                 look_angle=Unit.Degree(-2), cant_angle=Unit.Degree(-30), atmo=Vacuum(Unit.Foot(1000)),
                 winds=[Wind(Unit.MPH(20), Unit.Degree(90))])
    run("vacuum", calc, shot6, Unit.Yard(1200), Unit.Yard(200), extra_data=True)

    logger.setLevel(old_level)
    logger.removeHandler(collector)
    print("iteration log:", collector.lines)


if __name__ == "__main__":
    main()
