"""Equivalence digest for refactoring 3 (C01): the plumbing that feeds the solver -
spin drift / Miller stability, Shot.winds / Wind, Ammo.get_velocity_for_temp, create_interface_config,
DragModelMultiBC / linear_interpolation - observed through Calculator.fire and the public helpers.

Prints repr() of every number; the text must be identical on the clean tree and with the patch applied.
"""
import hashlib
import warnings

warnings.simplefilter("ignore")  # import-time "pure python mode" notice
from py_ballisticcalc import (Calculator, Shot, Weapon, Ammo, Atmo, Vacuum, Wind, DragModel, DragModelMultiBC,
                              BCPoint, TableG1, TableG7, Unit, Distance, Velocity, Temperature,
                              RangeError)  # noqa: E402
from py_ballisticcalc import trajectory_calc  # noqa: E402
from py_ballisticcalc.drag_model import linear_interpolation  # noqa: E402
from py_ballisticcalc.interface_config import create_interface_config  # noqa: E402

NAN = float("nan")


def attempt(label, fn):
    try:
        result = repr(fn())
    except Exception as e:  # pylint: disable=broad-except
        result = f"raised {type(e).__name__}: {e}"
    print(f"{label}: {result}")


def row_numbers(r):
    return (r.time, r.distance.raw_value, r.velocity.raw_value, r.mach, r.height.raw_value,
            r.target_drop.raw_value, r.drop_adj.raw_value, r.windage.raw_value, r.windage_adj.raw_value,
            r.look_distance.raw_value, r.angle.raw_value, r.density_factor, r.drag,
            r.energy.raw_value, r.ogw.raw_value, int(r.flag))


def fire(name, calc, shot, rng, step, **kw):
    with warnings.catch_warnings(record=True) as caught:
        warnings.simplefilter("always")
        try:
            rows = list(calc.fire(shot, rng, step, **kw).trajectory)
            extra = "complete"
        except RangeError as e:
            rows = list(e.incomplete_trajectory)
            extra = f"RangeError[{e.reason}]"
        except Exception as e:  # pylint: disable=broad-except
            rows = []
            extra = f"raised {type(e).__name__}: {e}"
    text = "\n".join(repr(row_numbers(r)) for r in rows)
    print(f"== {name}: rows={len(rows)} sha256={hashlib.sha256(text.encode()).hexdigest()} {extra} "
          f"warnings={len(caught)}")
    for r in (rows[:1] + rows[-2:]):
        print("   ", repr(row_numbers(r)))


def g7(weight=168, diameter=0.308, length=1.282):
    return DragModel(0.223, TableG7, Unit.Grain(weight), Unit.Inch(diameter), Unit.Inch(length))


def main():
    calc = Calculator()

    # --- spin drift / stability: twist sign, missing data, station air, vacuum
    station = Atmo(Unit.Foot(3200), Unit.InHg(26.4), Unit.Fahrenheit(95), 30)
    for twist in (12, -12, 8.5, 0, -0.0):
        for dm_args in ((168, 0.308, 1.282), (168, 0.308, 0), (168, 0, 1.282), (0, 0.308, 1.282), (0, 0, 0)):
            for label, atmo in (("icao", Atmo.icao()), ("station", station), ("vacuum", Vacuum())):
                shot = Shot(Weapon(Unit.Inch(2), Unit.Inch(twist)), Ammo(g7(*dm_args), Unit.FPS(2750)), atmo=atmo)
                name = f"twist {twist} dm {dm_args} {label}"
                fire(name, calc, shot, Unit.Yard(600), Unit.Yard(300))
                print("    stability", repr(calc._calc.stability_coefficient),
                      "drift@1.3s", repr(calc._calc.spin_drift(1.3)), "drift@0", repr(calc._calc.spin_drift(0)))

    # --- winds: order given by the caller must not matter, defaults, setter, custom maximum distance
    def wind_numbers(shot):
        return [(w.velocity.raw_value, w.direction_from.raw_value, w.until_distance.raw_value, w.MAX_DISTANCE_FEET)
                for w in shot.winds]

    w_a = Wind(Unit.MPH(15), Unit.Degree(90), Unit.Yard(700))
    w_b = Wind(Unit.MPH(6), Unit.Degree(-45), Unit.Yard(200))
    w_c = Wind(Unit.MPS(4), Unit.OClock(5))  # to the end
    w_d = Wind(Unit.MPS(9), Unit.Degree(270), Unit.Yard(200))  # same end as w_b: order of equal keys is kept
    w_e = Wind(3, 30, max_distance_feet=2500)
    w_f = Wind(3, 30, 400, max_distance_feet=0)
    for label, winds in (("none", None), ("empty", []), ("sorted", [w_b, w_a, w_c]), ("reversed", [w_c, w_a, w_b]),
                         ("ties", [w_a, w_d, w_b, w_c]), ("ties swapped", [w_a, w_b, w_d, w_c]),
                         ("custom max", [w_e, w_f]), ("tuple", (w_c, w_b))):
        shot = Shot(Weapon(Unit.Inch(2), Unit.Inch(12)), Ammo(g7(), Unit.FPS(2750)), winds=winds)
        print("winds", label, repr(wind_numbers(shot)), type(shot.winds).__name__, type(shot._winds).__name__)
        fire(f"winds {label}", calc, shot, Unit.Yard(900), Unit.Yard(300))
    shot = Shot(Weapon(), Ammo(g7(), Unit.FPS(2750)), winds=[w_a])
    shot.winds = [w_c, w_b]
    print("winds after set", repr(wind_numbers(shot)))
    shot.winds = None
    print("winds after reset", repr(wind_numbers(shot)))
    attempt("winds with a stranger", lambda: Shot(Weapon(), Ammo(g7(), 2750), winds=[w_a, object()]).winds)
    print("default wind", repr((Wind().velocity.raw_value, Wind().direction_from.raw_value,
                                Wind().until_distance.raw_value, int(Wind().until_distance.units))))

    # --- muzzle velocity for powder temperature
    for use in (False, True):
        for mv in (Unit.MPS(800), Unit.FPS(2750), Unit.MPS(0), 0, Unit.FPS(-100)):
            for modifier in (0, 1.5, -0.8):
                ammo = Ammo(g7(), mv, Unit.Celsius(15), modifier, use)
                for temp in (Unit.Celsius(-20), Unit.Fahrenheit(59), Unit.Celsius(40), 100):
                    attempt(f"mv use={use} mv={mv!s} mod={modifier} temp={temp!s}",
                            lambda: (lambda v: (v.raw_value, int(v.units)))(ammo.get_velocity_for_temp(temp)))
    ammo = Ammo(g7(), Unit.MPS(800), Unit.Celsius(15), 0, True)
    print("calc_powder_sens", repr(ammo.calc_powder_sens(Unit.MPS(830), Unit.Celsius(40))))
    cold = Atmo.icao(temperature=Unit.Celsius(-25))
    hot = Atmo(temperature=Unit.Celsius(20), powder_t=Unit.Celsius(45))
    for label, atmo in (("cold", cold), ("hot powder", hot)):
        shot = Shot(Weapon(Unit.Inch(2), Unit.Inch(12)), ammo, atmo=atmo)
        fire(f"powder sensitivity {label}", calc, shot, Unit.Yard(800), Unit.Yard(400))
        print("    units of powder temp afterwards", int(atmo.powder_temp.units))

    # --- configuration
    for label, cfg in (("none", None), ("empty", {}), ("step", {"max_calc_step_size_feet": 1.5}),
                       ("all", {"max_calc_step_size_feet": 0.25, "chart_resolution": 0.1,
                                "cZeroFindingAccuracy": 1e-6, "cMinimumVelocity": 100.0, "cMaximumDrop": -500,
                                "cMaxIterations": 7, "cGravityConstant": -32.0, "cMinimumAltitude": -100.0}),
                       ("override order", {"cMinimumAltitude": 0.0, "max_calc_step_size_feet": 2}),
                       ("unknown key", {"max_calc_step_size_feet": 1.0, "no_such_setting": 1}),
                       ("non-string key", {1: 2}),
                       ("list of pairs is ignored", [("max_calc_step_size_feet", 9.0)]),
                       ("string is ignored", "max_calc_step_size_feet"),
                       ("zero is ignored", 0)):
        attempt(f"config {label}", lambda: tuple(create_interface_config(cfg)))
        attempt(f"config {label} fields", lambda: create_interface_config(cfg)._asdict())
    trajectory_calc.set_global_max_calc_step_size(Unit.Foot(1.25))
    attempt("config after global change", lambda: tuple(create_interface_config()))
    attempt("config after global change + own", lambda: tuple(create_interface_config({"max_calc_step_size_feet": 3})))
    shot = Shot(Weapon(Unit.Inch(2), Unit.Inch(12)), Ammo(g7(), Unit.FPS(2750)), winds=[w_b, w_a, w_c])
    fire("global step 1.25", Calculator(), shot, Unit.Yard(700), Unit.Yard(350))
    trajectory_calc.reset_globals()
    attempt("config after reset", lambda: tuple(create_interface_config()))
    fire("own gravity and step", Calculator(_config={"cGravityConstant": -30.0, "max_calc_step_size_feet": 0.8}),
         shot, Unit.Yard(700), Unit.Yard(350))

    # --- interpolation and multi-BC drag models
    xs = [-1.0, 0.0, 0.25, 0.5, 0.9999, 1.0, 1.5, 2.0, 2.5, 3.0, 3.5, NAN]
    for label, xp, yp in (("regular", [0.0, 1.0, 2.0, 3.0], [10.0, 20.0, 15.0, 30.0]),
                          ("two", [0.5, 2.5], [1.0, 2.0]),
                          ("one", [1.0], [7.0]),
                          ("five uneven", [0.1, 0.3, 1.7, 1.9, 3.2], [0.4, 0.5, 0.45, 0.47, 0.3]),
                          ("six", [0.0, 0.5, 1.0, 1.5, 2.0, 3.3], [1.0, 2.0, 4.0, 8.0, 16.0, 32.0]),
                          ("duplicates", [0.0, 1.0, 1.0, 1.0, 2.0, 3.0], [1.0, 2.0, 3.0, 4.0, 5.0, 6.0]),
                          ("duplicate ends", [0.0, 0.0, 3.0, 3.0], [1.0, 2.0, 3.0, 4.0]),
                          ("unsorted", [0.0, 2.0, 1.0, 1.5, 0.5, 3.0], [1.0, 2.0, 3.0, 4.0, 5.0, 6.0]),
                          ("unsorted 2", [0.0, 2.5, 2.0, 0.2, 0.1, 1.0, 3.0], [1.0, 2.0, 3.0, 4.0, 5.0, 6.0, 7.0]),
                          ("nan inside", [0.0, NAN, 2.0, 3.0], [1.0, 2.0, 3.0, 4.0]),
                          ("tuples", (0.0, 1.0, 3.0), (5, 6, 8)),
                          ("length mismatch", [0.0, 1.0], [1.0]),
                          ("empty", [], [])):
        attempt(f"interp {label}", lambda: linear_interpolation(xs, xp, yp))
    attempt("interp no points asked", lambda: linear_interpolation([], [], []))
    attempt("interp generator", lambda: linear_interpolation((v / 7 for v in range(25)), [0.0, 1.0, 2.0, 3.0],
                                                             [10.0, 20.0, 15.0, 30.0]))

    def cd_digest(dm):
        text = repr([(p.Mach, p.CD) for p in dm.drag_table])
        return dm.BC, len(dm.drag_table), hashlib.sha256(text.encode()).hexdigest(), dm.drag_table[0].CD, \
            dm.drag_table[40].CD, dm.drag_table[-1].CD

    bc_sets = {
        "three by velocity, unsorted": [BCPoint(0.275, V=Unit.MPS(800)), BCPoint(0.255, V=Unit.MPS(500)),
                                        BCPoint(0.26, V=Unit.MPS(700))],
        "by mach": [BCPoint(0.21, Mach=0.6), BCPoint(0.23, Mach=1.1), BCPoint(0.22, Mach=2.5), BCPoint(0.2, Mach=0.9)],
        "single": [BCPoint(0.3, Mach=1.0)],
        "same mach twice": [BCPoint(0.3, Mach=1.0), BCPoint(0.25, Mach=1.0), BCPoint(0.2, Mach=2.0)],
        "beyond the table": [BCPoint(0.3, Mach=7.0), BCPoint(0.2, Mach=9.0)],
    }
    for label, pts in bc_sets.items():
        before = [(p.BC, p.Mach) for p in pts]
        for table_name, table in (("G7", TableG7), ("G1", TableG1)):
            attempt(f"multi-bc {label} {table_name} plain", lambda: cd_digest(DragModelMultiBC(pts, table)))
            attempt(f"multi-bc {label} {table_name} sized",
                    lambda: cd_digest(DragModelMultiBC(pts, table, Unit.Grain(178), Unit.Inch(0.308), Unit.Inch(1.3))))
        print("    caller's points untouched", before == [(p.BC, p.Mach) for p in pts])
        dm = DragModelMultiBC(pts, TableG7, Unit.Grain(178), Unit.Inch(0.308), Unit.Inch(1.3))
        shot = Shot(Weapon(Unit.Inch(2), Unit.Inch(10)), Ammo(dm, Unit.MPS(820)), winds=[w_b, w_a, w_c],
                    atmo=station, look_angle=Unit.Degree(3), cant_angle=Unit.Degree(5))
        z = calc.set_weapon_zero(shot, Unit.Meter(100))
        print("    zero", repr(z.raw_value), "cdm points", len(calc.cdm))
        fire(f"multi-bc {label}", calc, shot, Unit.Meter(1000), Unit.Meter(250))
    attempt("multi-bc no points", lambda: cd_digest(DragModelMultiBC([], TableG7)))


if __name__ == "__main__":
    main()
