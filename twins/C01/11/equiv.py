"""Digest of the unit conversions (every dimension, every unit, both directions, awkward values and
unsupported units) and of trajectories whose inputs and outputs go through many different units."""
import hashlib
import warnings

from py_ballisticcalc import (Calculator, Shot, Weapon, Ammo, DragModel, Atmo, Vacuum, Wind,
                              TableG1, TableG7, RangeError)
from py_ballisticcalc.unit import (Unit, Distance, Velocity, Angular, Temperature, Pressure, Weight,
                                   Energy, AbstractDimension, PreferredUnits)

warnings.simplefilter("ignore")

LINES = []


def emit(*parts):
    LINES.append(" ".join(str(p) for p in parts))


def attempt(fn):
    try:
        return repr(fn())
    except Exception as err:  # pylint: disable=broad-except
        return f"{type(err).__name__}: {err}"


DIMENSIONS = (Angular, Distance, Energy, Pressure, Temperature, Velocity, Weight)
VALUES = (0, 1, -1, 0.0, -0.0, 1.0, 3, 7.25, -12.5, 0.1, 1e-9, 123456.789, 1e12, 359.999, 360, 361,
          720.5, 6.283185307179586, 6.283185307179587, 6400, 6401, 12, 13, 100000, -100000,
          float("inf"), float("-inf"), float("nan"), True)

# 1. every dimension x every Unit member (supported or not) x every value, both directions
for dim in DIMENSIONS:
    for unit in Unit:
        results = []
        for value in VALUES:
            results.append(attempt(lambda: dim(value, unit).raw_value))
            results.append(attempt(lambda: dim(value, unit) >> unit))
        probe = dim(1.5, list(Unit)[0] if dim is Angular else
                    {Distance: Unit.Inch, Energy: Unit.FootPound, Pressure: Unit.MmHg,
                     Temperature: Unit.Fahrenheit, Velocity: Unit.MPS, Weight: Unit.Grain}[dim])
        for value in VALUES:
            results.append(attempt(lambda: probe.to_raw(value, unit)))
            results.append(attempt(lambda: probe.from_raw(value, unit)))
        text = "|".join(results)
        emit(dim.__name__, unit.name, hashlib.sha256(text.encode()).hexdigest()[:24], results[2], results[3])

# 2. the same unit given as a plain int / float / other objects, readable forms, conversions in place
for units in (11, 11.0, 62, 0, 1, 17, 99, -1, "foot", None, 3.5, (11,), [11]):
    emit("odd-unit", repr(units),
         attempt(lambda: Distance(2, units).raw_value), attempt(lambda: Distance(24, Unit.Inch) >> units),
         attempt(lambda: Velocity(2, units).raw_value), attempt(lambda: Angular(2, units).raw_value),
         attempt(lambda: Angular(2, Unit.Radian).get_in(units)))
d = Distance.Yard(100)
emit("forms", str(d), repr(d), str(d << Distance.Meter), d.unit_value, d.units.name, float(d), d._feet, d._inch)
emit("forms", str(Angular.OClock(3)), repr(Angular.MOA(1)), str(Angular.Degree(725)), Angular.Degree(725)._rad)
emit("forms", str(Temperature.Celsius(15)), repr(Pressure.hPa(1013.25)), str(Weight.Gram(10) << Weight.Ounce),
     str(Energy.Joule(3000) << Energy.FootPound), str(Velocity.KMH(100) << Velocity.KT))
emit("unit-call", repr(Unit.Meter(5).raw_value), repr(Unit.FPS(Velocity.MPS(100)).unit_value),
     attempt(lambda: Unit.Meter(Velocity.MPS(1)) >> Unit.Meter))
emit("base", attempt(lambda: AbstractDimension(1, Unit.Inch)),
     attempt(lambda: AbstractDimension.to_raw(Distance.Inch(1), 5, Unit.Foot)))
x = Distance.Inch(1)
x.tag = Unit.FPS  # instance attribute makes the base-class validator accept the unit
emit("tagged", attempt(lambda: x.to_raw(5, Unit.FPS)), attempt(lambda: x >> Unit.FPS),
     attempt(lambda: x >> Unit.MPS))

emit("cross", attempt(lambda: Distance.to_raw(Velocity.MPS(1), 5, Unit.Foot)),
     attempt(lambda: Velocity.from_raw(Distance.Inch(1), 5, Unit.FPS)),
     attempt(lambda: Angular.to_raw(Weight.Grain(1), 725, Unit.Degree)))


class Spy:
    """a unit-like object that records which units it was compared with, in which order"""
    __hash__ = None

    def __init__(self, target):
        self.target = target
        self.seen = []

    def __eq__(self, other):
        self.seen.append(int(other))
        return other == self.target


for dim, target in ((Distance, Unit.Kilometer), (Distance, Unit.Inch), (Distance, Unit.FPS),
                    (Angular, Unit.OClock), (Angular, Unit.Meter), (Velocity, Unit.FPS),
                    (Velocity, Unit.Radian), (Weight, Unit.Ounce), (Temperature, Unit.Kelvin),
                    (Pressure, Unit.PSI), (Energy, Unit.Joule), (Energy, Unit.Grain)):
    spy = Spy(target)
    made = attempt(lambda: dim(3, spy).raw_value)
    first = list(spy.seen)
    base = {Angular: Unit.Radian, Distance: Unit.Inch, Energy: Unit.FootPound, Pressure: Unit.MmHg,
            Temperature: Unit.Fahrenheit, Velocity: Unit.MPS, Weight: Unit.Grain}[dim]
    back = attempt(lambda: dim(3, base).from_raw(3, spy))
    emit("spy", dim.__name__, target.name, made, first, back, spy.seen[len(first):])


# 3. trajectories with inputs in many units, outputs read back in many units
def row_repr(r):
    return repr((r.time, r.distance >> Distance.Meter, r.distance >> Distance.Foot, r.velocity >> Velocity.FPS,
                 r.velocity >> Velocity.KMH, r.mach, r.height >> Distance.Centimeter, r.height >> Distance.Foot,
                 r.target_drop >> Distance.Inch, r.drop_adj >> Angular.MOA, r.drop_adj >> Angular.Mil,
                 r.windage >> Distance.Millimeter, r.windage_adj >> Angular.CmPer100m,
                 r.look_distance >> Distance.Yard, r.angle >> Angular.Degree, r.density_factor, r.drag,
                 r.energy >> Energy.Joule, r.ogw >> Weight.Kilogram, int(r.flag)))


def run(label, calc, shot, rng, step=0, extra=False):
    try:
        rows = list(calc.fire(shot, rng, step, extra).trajectory)
        emit(label, "ok", len(rows))
    except RangeError as err:
        rows = list(err.incomplete_trajectory)
        emit(label, "RangeError", err.reason, len(rows))
    if len(rows) > 16:
        emit("  sha", hashlib.sha256("\n".join(row_repr(r) for r in rows).encode()).hexdigest())
        rows = rows[:2] + rows[-2:]
    for r in rows:
        emit("  ", row_repr(r))


calc = Calculator()
dm = DragModel(0.223, TableG7, Weight.Gram(10.9), Distance.Millimeter(7.82), Distance.Centimeter(3.1))
weapon = Weapon(Distance.Centimeter(9), Distance.Millimeter(-254), Angular.MRad(1.2))
atmo = Atmo(Distance.Meter(1500), Pressure.hPa(845), Temperature.Celsius(3), 40, Temperature.Kelvin(290))
ammo = Ammo(dm, Velocity.MPS(820), Temperature.Celsius(15), 1.0, True)
winds = [Wind(Velocity.KMH(18), Angular.OClock(2), Distance.Meter(200)),
         Wind(Velocity.KT(9), Angular.Degree(260), Distance.Kilometer(0.6)),
         Wind(Velocity.MPH(6), Angular.Mil(1600), Distance.Mile(2))]
shot = Shot(weapon, ammo, Angular.Degree(4), Angular.Thousandth(2), Angular.MOA(300), atmo, winds)
emit("zero", repr(calc.set_weapon_zero(shot, Distance.Meter(150)).raw_value))
emit("barrel", repr(shot.barrel_elevation >> Angular.Degree), repr(shot.barrel_azimuth >> Angular.Mil))
run("metric", calc, shot, Distance.Meter(1200), Distance.Meter(100))
run("metric-extra", calc, shot, Distance.Kilometer(0.3), Distance.Meter(25), extra=True)
run("default-step", calc, shot, Distance.NauticalMile(0.25))

PreferredUnits.set(distance=Unit.Meter, velocity="mps", temperature=Unit.Celsius, pressure="hPa",
                   angular=Unit.Mil, sight_height=Unit.Centimeter, twist=Unit.Centimeter,
                   weight=Unit.Gram, diameter=Unit.Millimeter, length=Unit.Millimeter)
shot = Shot(Weapon(8, 25, 1), Ammo(DragModel(0.45, TableG1, 11.7, 7.85, 31), 790),
            20, 5, -100, Atmo(300, 990, 25, 80), [Wind(4, 1600, 250), Wind(7, 4800)])
run("preferred", calc, shot, 900, 150)
PreferredUnits.defaults()
shot = Shot(Weapon(2, 10, Angular.InchesPer100Yd(4)), Ammo(DragModel(0.3, TableG1), 2400),
            Angular.CmPer100m(500), atmo=Vacuum(Distance.Line(5000), Temperature.Rankin(500)),
            winds=[Wind(Velocity.MPS(5), Angular.Radian(1.0), Distance.Line(30000))])
run("vacuum", calc, shot, 700, 100)
shot = Shot(Weapon(2, 10), Ammo(DragModel(0.3, TableG1), 2400), relative_angle=Angular.Degree(35),
            atmo=Atmo.icao(Distance.Mile(1)), winds=[Wind(Velocity.KMH(30), Angular.OClock(9))])
run("lob", calc, shot, Distance.Mile(4), Distance.Kilometer(0.5))

print("\n".join(LINES))
