"""Equivalence digest for refactoring 2 (_WindSock segment switching, Wind.vector, Shot.winds).

Fires a set of varied shots through the public API (Calculator.fire / set_weapon_zero /
barrel_elevation_for_target) and prints an exact (float.hex) digest of every row.
"""
import hashlib
import math
import warnings

from py_ballisticcalc import (Calculator, Shot, Weapon, Ammo, Atmo, Wind, DragModel, TableG1, TableG7,
                              RangeError, Distance, Velocity, Angular, Temperature, Pressure, Unit)
from py_ballisticcalc.conditions import Vacuum
from py_ballisticcalc.exceptions import ZeroFindingError

warnings.simplefilter("ignore")


def hx(v):
    if isinstance(v, float):
        return v.hex()
    return repr(v)


def row_digest(r):
    return ",".join((
        hx(r.time), hx(r.distance.raw_value), hx(r.velocity.raw_value), hx(r.mach), hx(r.height.raw_value),
        hx(r.target_drop.raw_value), hx(r.drop_adj.raw_value), hx(r.windage.raw_value),
        hx(r.windage_adj.raw_value), hx(r.look_distance.raw_value), hx(r.angle.raw_value),
        hx(r.density_factor), hx(r.drag), hx(r.energy.raw_value), hx(r.ogw.raw_value), repr(int(r.flag)),
    ))


def report(name, rows, extra=""):
    lines = [row_digest(r) for r in rows]
    h = hashlib.sha256("\n".join(lines).encode()).hexdigest()
    print(f"{name}: n={len(rows)} sha={h} {extra}")
    if lines:
        print("   first:", lines[0])
        print("   last: ", lines[-1])


def fire(name, calc, shot, rng, step=0, extra_data=False, time_step=0.0):
    try:
        res = calc.fire(shot, rng, step, extra_data=extra_data, time_step=time_step)
        report(name, list(res.trajectory))
    except RangeError as e:
        report(name, e.incomplete_trajectory,
               extra=f"RangeError reason={e.reason!r} last={hx(e.last_distance.raw_value) if e.last_distance is not None else None}")
    except Exception as e:  # pylint: disable=broad-except
        print(f"{name}: EXC {type(e).__name__}: {e}")


from py_ballisticcalc.trajectory_calc import _WindSock

dm7 = DragModel(0.22, TableG7, 168, 0.308, 1.22)
dm1 = DragModel(0.46, TableG1, 175, 0.308, 1.2)
calc = Calculator()


def vec(v):
    return "(" + ",".join(hx(c) for c in v) + ")" + "".join(type(c).__name__[0] for c in v)


# 1. Wind.vector for assorted directions / speeds / units (component types included)
for w in (Wind(), Wind(Velocity.MPH(10), Angular.Degree(0)), Wind(Velocity.MPH(10), Angular.Degree(90)),
          Wind(Velocity.MPS(3.3), Angular.OClock(7)), Wind(Velocity.FPS(-4), Angular.Degree(-135)),
          Wind(Velocity.KMH(25), Angular.Radian(math.pi)), Wind(Velocity.FPS(1e-300), Angular.Degree(359.999)),
          Wind(5, 45, 100, max_distance_feet=500.0)):
    print("wind.vector", vec(w.vector), hx(w.until_distance.raw_value), hx(w.MAX_DISTANCE_FEET))

# 2. Shot.winds ordering (ties keep the given order, unsorted input, setter, empty -> default)
ws = [Wind(Velocity.MPH(1), Angular.Degree(10), Distance.Yard(300)),
      Wind(Velocity.MPH(2), Angular.Degree(20), Distance.Yard(100)),
      Wind(Velocity.MPH(3), Angular.Degree(30), Distance.Foot(900)),   # tie with the first
      Wind(Velocity.MPH(4), Angular.Degree(40), Distance.Meter(50)),
      Wind(Velocity.MPH(5), Angular.Degree(50))]
sh = Shot(Weapon(2, 12), Ammo(dm7, Velocity.FPS(2600)), winds=ws)
print("sorted:", [hx(w.velocity.raw_value) for w in sh.winds], type(sh.winds).__name__)
sh.winds = None
print("default:", [(hx(w.velocity.raw_value), hx(w.until_distance.raw_value)) for w in sh.winds])
sh.winds = list(reversed(ws))
print("sorted reversed:", [hx(w.velocity.raw_value) for w in sh.winds])


# 3. _WindSock driven directly: state after every request, including requests beyond the last segment,
#    several boundaries skipped by one request, equal boundaries, no winds / None, and a backwards request
def sock_state(s):
    return f"cur={s.current} next={hx(s.next_range)} vec={vec(s.current_vector())}"


def drive(name, winds, requests):
    s = _WindSock(winds)
    print(name, "init", sock_state(s), "len", len(s.winds), type(s.winds).__name__)
    for r in requests:
        v = s.vector_for_range(r)
        print(name, "req", hx(float(r)), "->", vec(v), sock_state(s), v is s.current_vector())


sh.winds = ws
drive("five", sh.winds, [0.0, 100.0, 164.0, 164.1, 299.9, 300.0, 300.0, 899.0, 900.0, 900.0, 901.0, 1e7, 1e8, 1e9, 5.0])
drive("none", None, [0.0, 1e8, 1e8, 2e8])
drive("empty", (), [0.0, 1e8, 1e9])
drive("one_default", Shot(Weapon(), Ammo(dm7, Velocity.FPS(2600))).winds, [0.0, 5e7, 1e8, 1e8])
drive("custom_max", (Wind(5, 45, max_distance_feet=500.0), Wind(7, 90, Distance.Foot(800))), [499.0, 500.0, 700.0, 800.0, 1e8])
drive("nan_req", sh.winds, [float("nan"), 150.0, float("inf"), float("inf")])
s = _WindSock(sh.winds)
s.update_cache(); s.update_cache()
print("idempotent", sock_state(s))
s.current = 99
s.update_cache()
print("past end", sock_state(s))

# 4. trajectories through the public API with 0..n segments
base = dict(weapon=Weapon(Distance.Inch(2.5), 10), ammo=Ammo(dm7, Velocity.FPS(2700)))
fire("no_wind_arg", calc, Shot(**base), Distance.Yard(800), Distance.Yard(100))
fire("one_cross", calc, Shot(**base, winds=[Wind(Velocity.MPH(10), Angular.OClock(3))]), Distance.Yard(800), Distance.Yard(100))
fire("one_short_segment", calc, Shot(**base, winds=[Wind(Velocity.MPH(10), Angular.OClock(9), Distance.Yard(250))]),
     Distance.Yard(800), Distance.Yard(100))
fire("five_segments_ties", calc, Shot(**base, winds=ws), Distance.Yard(1000), Distance.Yard(50))
fire("five_segments_extra", calc, Shot(**base, winds=ws, look_angle=Angular.Degree(4), cant_angle=Angular.Degree(5)),
     Distance.Yard(600), Distance.Yard(200), extra_data=True)
fire("segment_zero_length", calc, Shot(**base, winds=[Wind(Velocity.MPH(30), Angular.Degree(90), Distance.Foot(0)),
                                                      Wind(Velocity.MPH(8), Angular.Degree(270), Distance.Foot(0)),
                                                      Wind(Velocity.MPH(15), Angular.Degree(60), Distance.Yard(400))]),
     Distance.Yard(700), Distance.Yard(70))
fire("segments_inside_one_step", Calculator({'max_calc_step_size_feet': 4.0}),
     Shot(**base, winds=[Wind(Velocity.MPH(10), Angular.Degree(90), Distance.Foot(10.0)),
                         Wind(Velocity.MPH(20), Angular.Degree(90), Distance.Foot(10.5)),
                         Wind(Velocity.MPH(30), Angular.Degree(90), Distance.Foot(11.0)),
                         Wind(Velocity.MPH(40), Angular.Degree(90), Distance.Foot(300.0))]),
     Distance.Yard(300), Distance.Yard(25))
fire("head_tail", calc, Shot(weapon=Weapon(2), ammo=Ammo(dm1, Velocity.FPS(2400)), relative_angle=Angular.MOA(15),
                             atmo=Atmo(Distance.Foot(7000), Pressure.InHg(23.0), Temperature.Fahrenheit(20), 30),
                             winds=[Wind(Velocity.MPS(12), Angular.Degree(180), Distance.Meter(300)),
                                    Wind(Velocity.MPS(12), Angular.Degree(0), Distance.Meter(600))]),
     Distance.Meter(900), Distance.Meter(100))
zshot = Shot(**base, winds=[Wind(Velocity.MPH(12), Angular.OClock(4), Distance.Yard(120)),
                            Wind(Velocity.MPH(6), Angular.OClock(8), Distance.Yard(500))], look_angle=Angular.Degree(-3))
print("zero:", hx(calc.set_weapon_zero(zshot, Distance.Yard(200)).raw_value))
fire("zeroed_two_segments", calc, zshot, Distance.Yard(600), Distance.Yard(100))
fire("vacuum_wind", calc, Shot(**base, atmo=Vacuum(), winds=[Wind(Velocity.MPH(50), Angular.Degree(90), Distance.Yard(100))]),
     Distance.Yard(300), Distance.Yard(100))
