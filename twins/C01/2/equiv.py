"""Equivalence digest for refactoring 2 (_WindSock, Wind.vector, Atmo density/mach lookup, Shot barrel angles).

Prints repr() of every number of every trajectory row for a set of varied shots.
Must print exactly the same text on the clean worktree and with the patch applied.
"""
import math
import warnings

warnings.simplefilter("ignore")
from py_ballisticcalc import (Calculator, Shot, Weapon, Ammo, DragModel, Atmo, Vacuum, Wind, Unit,
                              TableG1, TableG7, TableGS, RangeError, ZeroFindingError, TrajFlag,
                              InterfaceConfigDict)

LINES = []


def out(*a):
    LINES.append(" ".join(str(x) for x in a))


def row_repr(r):
    return repr((r.time, r.distance.raw_value, r.velocity.raw_value, r.mach, r.height.raw_value,
                 r.target_drop.raw_value, r.drop_adj.raw_value, r.windage.raw_value,
                 r.windage_adj.raw_value, r.look_distance.raw_value, r.angle.raw_value,
                 r.density_factor, r.drag, r.energy.raw_value, r.ogw.raw_value, int(r.flag)))


def dump(label, rows):
    out("##", label, "rows", len(rows))
    for r in rows:
        out(row_repr(r))


def fire(label, calc, shot, rng, step=0, **kw):
    with warnings.catch_warnings(record=True) as w:
        warnings.simplefilter("always")
        try:
            res = calc.fire(shot, rng, step, **kw)
            dump(label, res.trajectory)
        except RangeError as e:
            out("##", label, "RangeError", repr(e.reason), repr(str(e)),
                repr(e.last_distance.raw_value if e.last_distance is not None else None))
            dump(label + " (incomplete)", e.incomplete_trajectory)
        except Exception as e:  # pylint: disable=broad-except
            out("##", label, "EXC", type(e).__name__, repr(str(e)))
        out("warnings", sorted({(x.category.__name__, str(x.message)) for x in w}))


def weapon(sh=2.0, twist=12.0, zero=0.0):
    return Weapon(Unit.Inch(sh), Unit.Inch(twist), Unit.Degree(zero))


def ammo_g7():
    return Ammo(DragModel(0.223, TableG7, Unit.Grain(168), Unit.Inch(0.308), Unit.Inch(1.282)), Unit.FPS(2750))


def ammo_g1():
    return Ammo(DragModel(0.5, TableG1), Unit.FPS(2600))


CUSTOM = [{'Mach': 0.0, 'CD': 0.25}, {'Mach': 0.7, 'CD': 0.22}, {'Mach': 0.95, 'CD': 0.31},
          {'Mach': 1.1, 'CD': 0.45}, {'Mach': 2.0, 'CD': 0.36}, {'Mach': 4.0, 'CD': 0.27}]

calc = Calculator()

# 1. plain G7 shot with a zero, default step
shot = Shot(weapon(), ammo_g7(), atmo=Atmo.icao())
z = calc.set_weapon_zero(shot, Unit.Yard(100))
out("zero elevation", repr(z.raw_value))
fire("g7 plain", calc, shot, Unit.Yard(1000), Unit.Yard(100))
fire("g7 extra_data", calc, shot, Unit.Yard(300), Unit.Yard(50), extra_data=True)
fire("g7 time_step", calc, shot, Unit.Yard(400), Unit.Yard(200), time_step=0.05)
fire("g7 default trajectory_step", calc, shot, Unit.Yard(500))

# 2. three wind segments of different direction, look angle, cant, relative angle, humid high station
winds = [Wind(Unit.MPH(10), Unit.Degree(90), Unit.Yard(200)),
         Wind(Unit.MPH(15), Unit.Degree(-45), Unit.Yard(450)),
         Wind(Unit.MPH(8), Unit.Degree(180), Unit.Yard(700))]
atmo = Atmo(Unit.Foot(5000), Unit.InHg(24.9), Unit.Fahrenheit(35), 65)
shot2 = Shot(weapon(sh=3.0, twist=-9.0, zero=0.12), ammo_g1(), look_angle=Unit.Degree(7),
             relative_angle=Unit.MOA(3), cant_angle=Unit.Degree(12), atmo=atmo, winds=winds)
fire("g1 winds/look/cant", calc, shot2, Unit.Yard(900), Unit.Yard(75))
fire("g1 winds/look/cant extra", calc, shot2, Unit.Yard(500), Unit.Yard(125), extra_data=True)
z2 = calc.barrel_elevation_for_target(shot2, Unit.Yard(350))
out("barrel elevation for target", repr(z2.raw_value))

# 3. finer and coarser solver step, custom drag table
for step_ft in (0.1, 0.5, 3.0):
    c = Calculator(_config=InterfaceConfigDict(max_calc_step_size_feet=step_ft))
    s = Shot(weapon(sh=1.5, twist=0, zero=0.3), Ammo(DragModel(0.31, CUSTOM), Unit.MPS(820)),
             atmo=Atmo.icao(Unit.Meter(300)), winds=[Wind(Unit.MPS(6), Unit.Degree(250), Unit.Meter(150)),
                                                     Wind(Unit.MPS(3), Unit.Degree(20), Unit.Meter(9999))])
    fire(f"custom table step {step_ft}", c, s, Unit.Meter(600), Unit.Meter(100))

# 4. high-angle shot: altitude changes by far more than 30 ft, density and mach re-evaluated
shot4 = Shot(weapon(zero=0), ammo_g7(), relative_angle=Unit.Degree(35), atmo=Atmo.icao(Unit.Foot(1000)),
             winds=[Wind(Unit.MPH(20), Unit.Degree(60), Unit.Yard(1500))])
fire("high angle", calc, shot4, Unit.Yard(3000), Unit.Yard(500))

shot4b = Shot(weapon(zero=0), ammo_g7(), relative_angle=Unit.Degree(60), atmo=Atmo.icao(Unit.Foot(35500)))
fire("above troposphere (warnings)", calc, shot4b, Unit.Yard(2000), Unit.Yard(500))

# 5. vacuum: closed-form parabola
shot5 = Shot(weapon(sh=0, twist=0, zero=0), ammo_g7(), relative_angle=Unit.Degree(2), atmo=Vacuum())
fire("vacuum", calc, shot5, Unit.Yard(600), Unit.Yard(200))

# 6. the three termination reasons
cvel = Calculator(_config=InterfaceConfigDict(cMinimumVelocity=700.0))
fire("min velocity", cvel, Shot(weapon(), Ammo(DragModel(0.05, TableG1), Unit.FPS(900))), Unit.Yard(3000), Unit.Yard(50))
cdrop = Calculator(_config=InterfaceConfigDict(cMaximumDrop=-20.0))
fire("max drop", cdrop, Shot(weapon(), ammo_g1()), Unit.Yard(2000), Unit.Yard(250))
calt = Calculator(_config=InterfaceConfigDict(cMinimumAltitude=-10.0))
fire("min altitude", calt, Shot(weapon(), ammo_g1(), atmo=Atmo.icao(Unit.Foot(5))), Unit.Yard(2000), Unit.Yard(250))
fire("shooting down", calc, Shot(weapon(), ammo_g1(), look_angle=Unit.Degree(-20), relative_angle=Unit.Degree(0.2)),
     Unit.Yard(1500), Unit.Yard(300))

# 7. degenerate ranges: record step smaller than calc step, very short range, fewer than two rows
fire("tiny step", calc, shot, Unit.Foot(3), Unit.Foot(0.1))
fire("short range", calc, shot, Unit.Foot(0.1), Unit.Foot(0.1))
fire("big record step", calc, shot, Unit.Yard(100), Unit.Yard(1000))
fire("negative range", calc, shot, Unit.Yard(-10), Unit.Yard(5))

# 8. wind strong enough to keep air speed low (delta_time clamp max(1, v)), GS sphere
slow = Shot(weapon(sh=1, twist=0, zero=5), Ammo(DragModel(0.02, TableGS), Unit.FPS(120)),
            winds=[Wind(Unit.FPS(100), Unit.Degree(0), Unit.Foot(30)), Wind(Unit.FPS(60), Unit.Degree(170), Unit.Foot(90))])
cslow = Calculator(_config=InterfaceConfigDict(cMinimumVelocity=0.0))
fire("slow sphere with tail wind", cslow, slow, Unit.Foot(200), Unit.Foot(20))

# 9. a second zero on the same calculator (no state carried over between calls)
shot9 = Shot(weapon(sh=2.5, twist=10), ammo_g1(), look_angle=Unit.Degree(-4), cant_angle=Unit.Degree(-30),
             winds=[Wind(Unit.MPH(5), Unit.Degree(135), Unit.Yard(100)), Wind(Unit.MPH(12), Unit.Degree(300))])
try:
    out("zero 2", repr(calc.set_weapon_zero(shot9, Unit.Yard(250)).raw_value))
except ZeroFindingError as e:
    out("ZeroFindingError", repr(e.zero_finding_error), e.iterations_count, repr(e.last_barrel_elevation.raw_value))
fire("after second zero", calc, shot9, Unit.Yard(600), Unit.Yard(60))
fire("g7 plain again", calc, shot, Unit.Yard(1000), Unit.Yard(100))

# 10. direct probes of the refactored pieces
from py_ballisticcalc.trajectory_calc import _WindSock

def sock_state(ws):
    v = ws.current_vector()
    return repr((ws.current, ws.next_range, tuple(v), type(v).__name__))

for label, ws_winds in (
        ("none", None), ("empty", tuple()),
        ("three", tuple(sorted(winds, key=lambda w: w.until_distance.raw_value))),
        ("default until", (Wind(Unit.MPH(4), Unit.Degree(33)),)),
        ("zero length first", (Wind(Unit.MPH(4), Unit.Degree(33), Unit.Foot(0)), Wind(Unit.MPH(9), Unit.Degree(270), Unit.Foot(50)))),
):
    ws = _WindSock(ws_winds)
    out("## windsock", label, sock_state(ws))
    # ranges deliberately jump past several segments at once and also go backwards
    for x in (0.0, 10.0, 49.9, 50.0, 599.99, 600.0, 5000.0, 5000.0, 100.0, 1e9, 1e9, float('nan'), 2e9):
        v = ws.vector_for_range(x)
        out(repr(x), repr(tuple(v)), sock_state(ws))

for w in winds + [Wind(), Wind(Unit.MPS(7.5), Unit.Degree(360)), Wind(Unit.MPH(-3), Unit.Degree(91.5), Unit.Meter(10)),
                  Wind(Unit.FPS(12), Unit.Radian(math.pi / 2)), Wind(Unit.FPS(0), Unit.Degree(123))]:
    v = w.vector
    out("wind vector", repr(tuple(v)), [type(c).__name__ for c in v])

for a in (Atmo.icao(), atmo, Atmo(Unit.Foot(-200), Unit.hPa(1030), Unit.Celsius(41), 100), Vacuum(), Vacuum(Unit.Foot(1000), Unit.Celsius(-10)),
          Atmo.icao(Unit.Foot(36000)), Atmo(Unit.Foot(100), Unit.InHg(29.0), Unit.Fahrenheit(-125), 10)):
    out("## atmo", str(a))
    a0 = a.altitude >> Unit.Foot
    for d in (0.0, 29.999999, 30.0, -29.999999, -30.0, 30.000001, -30.000001, 100.0, -1400.0, 5000.0, 20000.0,
              36089.0 - a0, 36089.5 - a0, 60000.0, float('nan'), float('inf')):
        with warnings.catch_warnings(record=True) as w:
            warnings.simplefilter("always")
            try:
                r = a.get_density_factor_and_mach_for_altitude(a0 + d)
                out(repr(d), repr(r), [type(c).__name__ for c in r], [(x.category.__name__, str(x.message)) for x in w])
            except Exception as e:  # pylint: disable=broad-except
                out(repr(d), "EXC", type(e).__name__, repr(str(e)), [(x.category.__name__, str(x.message)) for x in w])

for look, rel, cant, zero in ((0, 0, 0, 0), (7, 0.05, 12, 0.12), (-20, 0.2, 0, 0), (3, -0.4, 90, 0.3), (0.5, 2, -45, -0.1),
                              (45, 10, 180, 1), (0, 35, 270, 0), (1e-9, 1e-9, 1e-9, 1e-9)):
    sh = Shot(weapon(zero=zero), ammo_g1(), look_angle=Unit.Degree(look), relative_angle=Unit.Degree(rel),
              cant_angle=Unit.Degree(cant))
    out("barrel", repr(sh.barrel_elevation.raw_value), repr(sh.barrel_azimuth.raw_value),
        sh.barrel_elevation.units.name, sh.barrel_azimuth.units.name)

import hashlib
text = "\n".join(LINES)
print(text)
print("sha256", hashlib.sha256(text.encode()).hexdigest(), "lines", len(LINES))
