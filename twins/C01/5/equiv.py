"""Equivalence digest for refactoring 2 (C01): launch side - TrajectoryCalc.zero_angle / _init_trajectory /
trajectory and Calculator.fire / barrel_elevation_for_target.

Run:  cd /tmp/wt/C01 && PYTHONPATH=/tmp/wt/C01 /venv/bin/python /tmp/twins2/C01/2/equiv.py
Prints a deterministic text; must be byte-identical on the clean tree and with patch.diff applied.
"""
import hashlib
import warnings

warnings.simplefilter("ignore")

from py_ballisticcalc import (Calculator, Shot, Weapon, Ammo, Atmo, Vacuum, Wind, DragModel,
                              TableG1, TableG7, Distance, Velocity, Angular, Temperature, Pressure,
                              Weight, RangeError, ZeroFindingError, TrajFlag)


def row_repr(r):
    return repr((r.time, r.distance.raw_value, r.velocity.raw_value, r.mach, r.height.raw_value,
                 r.target_drop.raw_value, r.drop_adj.raw_value, r.windage.raw_value,
                 r.windage_adj.raw_value, r.look_distance.raw_value, r.angle.raw_value,
                 r.density_factor, r.drag, r.energy.raw_value, r.ogw.raw_value, int(r.flag)))


def digest(label, rows, show=2):
    h = hashlib.sha256()
    for r in rows:
        h.update(row_repr(r).encode())
        h.update(b"\n")
    print(f"{label}: n={len(rows)} sha={h.hexdigest()}")
    print("   flags:", repr([int(r.flag) for r in rows][:40]))
    idx = sorted(set(list(range(min(show, len(rows)))) + list(range(max(0, len(rows) - show), len(rows)))))
    for i in idx:
        print("   ", i, row_repr(rows[i]))


def fire(label, calc, shot, rng, *args, **kw):
    try:
        res = calc.fire(shot, rng, *args, **kw)
        print(f"{label}: extra={res.extra!r}")
        digest(label, list(res.trajectory))
    except RangeError as e:
        print(f"{label}: RangeError reason={e.reason!r} "
              f"last={None if e.last_distance is None else e.last_distance.raw_value!r}")
        digest(label + " (incomplete)", e.incomplete_trajectory)


def state(calc):
    """internal launch state left behind in the engine by _init_trajectory / zero_angle"""
    c = calc._calc
    names = ("_bc", "look_angle", "twist", "length", "diameter", "weight", "barrel_elevation",
             "barrel_azimuth", "sight_height", "cant_cosine", "cant_sine", "alt0", "calc_step",
             "muzzle_velocity", "stability_coefficient")
    return repr(tuple((n, getattr(c, n, "<unset>")) for n in names)
                + (("n_table", len(c._table_data)), ("n_curve", len(c._curve)),
                   ("curve_sha", hashlib.sha256(repr(c._curve).encode()).hexdigest()[:16])))


def zero(label, calc, shot, dist, use_set=True):
    before = shot.weapon.zero_elevation.raw_value
    try:
        if use_set:
            el = calc.set_weapon_zero(shot, dist)
        else:
            el = calc.barrel_elevation_for_target(shot, dist)
        print(f"{label}: elevation raw={el.raw_value!r} units={el.units.name} "
              f"weapon.zero_elevation={shot.weapon.zero_elevation.raw_value!r}")
    except ZeroFindingError as e:
        print(f"{label}: ZeroFindingError err={e.zero_finding_error!r} it={e.iterations_count!r} "
              f"last={e.last_barrel_elevation.raw_value!r} units={e.last_barrel_elevation.units.name} "
              f"msg={str(e)!r} weapon.zero_elevation={shot.weapon.zero_elevation.raw_value!r} (was {before!r})")
    except RangeError as e:
        print(f"{label}: RangeError reason={e.reason!r} n={len(e.incomplete_trajectory)} "
              f"last={None if e.last_distance is None else e.last_distance.raw_value!r}")
    except ZeroDivisionError as e:
        print(f"{label}: ZeroDivisionError {e!s}")
    print("    state:", state(calc))


def mk_shot(table=TableG7, bc=0.223, mv=2750.0, sh=2.0, twist=12.0, look=0.0, rel=0.0, cant=0.0,
            atmo=None, winds=None, zero_el=0.0, **ammo_kw):
    dm = DragModel(bc, table, Weight.Grain(168), Distance.Inch(0.308), Distance.Inch(1.282))
    weapon = Weapon(Distance.Inch(sh), Distance.Inch(twist), Angular.Degree(zero_el))
    ammo = Ammo(dm, Velocity.FPS(mv), **ammo_kw)
    return Shot(weapon, ammo, Angular.Degree(look), Angular.Degree(rel), Angular.Degree(cant),
                atmo, winds)


calc = Calculator()

# --- zeroing: plain, look angle up/down, cant, wind, altitude, powder sensitivity, vacuum -------------
s = mk_shot()
zero("g7 100yd", calc, s, Distance.Yard(100))
zero("g7 100yd again (starts from the found zero)", calc, s, Distance.Yard(100))
zero("g7 600m no set", calc, s, Distance.Meter(600), use_set=False)
zero("g7 float distance (preferred unit)", calc, s, 250)
fire("g7 after zero, default step", calc, s, Distance.Yard(800))
fire("g7 after zero, int step", calc, s, Distance.Yard(800), 200)
fire("g7 after zero, float step", calc, s, Distance.Yard(800), 133.3)
fire("g7 after zero, Distance step", calc, s, Distance.Yard(800), Distance.Meter(150))
fire("g7 after zero, zero Distance step object", calc, s, Distance.Yard(5), Distance.Yard(1), False)
fire("g7 extra_data=True", calc, s, Distance.Yard(800), Distance.Yard(200), True)
fire("g7 extra_data=1 time_step", calc, s, Distance.Yard(400), Distance.Yard(200), 1, 0.1)
fire("g7 extra_data kw", calc, s, Distance.Yard(400), trajectory_step=0, extra_data=True, time_step=0.0)
fire("g7 float range", calc, s, 300.0)
print("    state:", state(calc))

winds = [Wind(Velocity.MPH(12), Angular.Degree(75), Distance.Yard(250)),
         Wind(Velocity.MPH(8), Angular.Degree(260), Distance.Yard(600)),
         Wind(Velocity.MPH(20), Angular.Degree(10))]
s2 = mk_shot(TableG1, 0.462, 2600.0, sh=2.5, twist=-10.0, look=7.5, cant=12.0,
             atmo=Atmo(Distance.Foot(5200), Pressure.InHg(24.6), Temperature.Fahrenheit(35), 70),
             winds=winds)
zero("g1 look/cant/wind/alt 300yd", calc, s2, Distance.Yard(300))
fire("g1 look/cant/wind/alt", calc, s2, Distance.Yard(1000), Distance.Yard(125))
s2.relative_angle = Angular.Mil(3.0)
fire("g1 look/cant/wind/alt + relative angle", calc, s2, Distance.Yard(1000), Distance.Yard(125), True)

s3 = mk_shot(look=-12.0, sh=3.0, cant=-30.0)
zero("look down, cant left 400yd", calc, s3, Distance.Yard(400))
fire("look down, cant left", calc, s3, Distance.Yard(700), Distance.Yard(100))

s4 = mk_shot(mv=2700.0, atmo=Atmo(Distance.Foot(0), Pressure.InHg(29.92), Temperature.Celsius(15), 0,
                                  Temperature.Celsius(-10)),
             powder_temp=Temperature.Celsius(15), temp_modifier=0.012, use_powder_sensitivity=True)
zero("powder sensitivity 200yd", calc, s4, Distance.Yard(200))
fire("powder sensitivity", calc, s4, Distance.Yard(500), Distance.Yard(100))

s5 = mk_shot(atmo=Vacuum(Distance.Foot(1000)), sh=1.5)
zero("vacuum 500yd", calc, s5, Distance.Yard(500))
fire("vacuum", calc, s5, Distance.Yard(1000), Distance.Yard(250), True)

s6 = mk_shot(sh=0.0, twist=0.0)
zero("no sight height, no twist 50yd", calc, s6, Distance.Yard(50))
fire("no sight height, no twist", calc, s6, Distance.Yard(200), Distance.Yard(50))

# --- zero finding: iteration limits and accuracy edge cases -----------------------------------------
for cfg in ({"cMaxIterations": 1}, {"cMaxIterations": 2}, {"cMaxIterations": 0}, {"cMaxIterations": -3},
            {"cMaxIterations": 2.5},
            {"cZeroFindingAccuracy": 0.0}, {"cZeroFindingAccuracy": -1.0},
            {"cZeroFindingAccuracy": float("nan")}, {"cZeroFindingAccuracy": float("inf")},
            {"cZeroFindingAccuracy": 1e-300}, {"cZeroFindingAccuracy": 1e-13},
            {"cZeroFindingAccuracy": 0.5}, {"cZeroFindingAccuracy": 100.0},
            {"cZeroFindingAccuracy": 1e-9, "cMaxIterations": 4},
            {"max_calc_step_size_feet": 2.0}, {"max_calc_step_size_feet": 0.25},
            {"cGravityConstant": -9.0}):
    c = Calculator(_config=cfg)
    sh = mk_shot(TableG1, 0.3, 2400.0, look=3.0, cant=5.0, winds=winds[:2])
    zero(f"cfg {cfg!r}", c, sh, Distance.Yard(350))
    fire(f"cfg {cfg!r} fire", c, sh, Distance.Yard(500), Distance.Yard(250))

# --- zero finding: impossible / degenerate targets --------------------------------------------------
zero("zero at distance 0", Calculator(), mk_shot(), Distance.Yard(0))
zero("zero beyond reach (RangeError propagates)", Calculator(), mk_shot(TableG1, 0.12, 900.0), Distance.Yard(3000))
zero("zero look straight up-ish", Calculator(), mk_shot(look=89.0), Distance.Yard(100))
slow = Calculator(_config={"cMinimumVelocity": 2000.0})
zero("zero, min velocity hit on the way", slow, mk_shot(), Distance.Yard(700))

# --- one engine reused for different shots (call history) -------------------------------------------
c = Calculator()
a, b = mk_shot(), mk_shot(TableG1, 0.5, 3000.0, cant=45.0, look=2.0)
zero("hist a", c, a, Distance.Yard(100))
zero("hist b", c, b, Distance.Yard(200))
fire("hist a fire", c, a, Distance.Yard(300), Distance.Yard(100))
print("    state:", state(c))
fire("hist b fire", c, b, Distance.Yard(300), Distance.Yard(100), True)
print("    state:", state(c))
print("cdm", len(c.cdm), repr(c.cdm[0]), repr(c.cdm[-1]))
