"""Equivalence digest for refactoring 1 (restructured TrajectoryCalc._integrate).

Fires a set of varied shots through the public API (Calculator.fire / set_weapon_zero /
barrel_elevation_for_target) and prints an exact (float.hex) digest of every row.
"""
import hashlib
import math
import warnings

from py_ballisticcalc import (Calculator, Shot, Weapon, Ammo, Atmo, Wind, DragModel, TableG1, TableG7,
                              RangeError, Distance, Velocity, Angular, Temperature, Pressure, Unit)
from py_ballisticcalc.conditions import Vacuum
from py_ballisticcalc.exceptions import ZeroFindingError

warnings.simplefilter("ignore")


def hx(v):
    if isinstance(v, float):
        return v.hex()
    return repr(v)


def row_digest(r):
    return ",".join((
        hx(r.time), hx(r.distance.raw_value), hx(r.velocity.raw_value), hx(r.mach), hx(r.height.raw_value),
        hx(r.target_drop.raw_value), hx(r.drop_adj.raw_value), hx(r.windage.raw_value),
        hx(r.windage_adj.raw_value), hx(r.look_distance.raw_value), hx(r.angle.raw_value),
        hx(r.density_factor), hx(r.drag), hx(r.energy.raw_value), hx(r.ogw.raw_value), repr(int(r.flag)),
    ))


def report(name, rows, extra=""):
    lines = [row_digest(r) for r in rows]
    h = hashlib.sha256("\n".join(lines).encode()).hexdigest()
    print(f"{name}: n={len(rows)} sha={h} {extra}")
    if lines:
        print("   first:", lines[0])
        print("   last: ", lines[-1])


def fire(name, calc, shot, rng, step=0, extra_data=False, time_step=0.0):
    try:
        res = calc.fire(shot, rng, step, extra_data=extra_data, time_step=time_step)
        report(name, list(res.trajectory))
    except RangeError as e:
        report(name, e.incomplete_trajectory,
               extra=f"RangeError reason={e.reason!r} last={hx(e.last_distance.raw_value) if e.last_distance is not None else None}")
    except Exception as e:  # pylint: disable=broad-except
        print(f"{name}: EXC {type(e).__name__}: {e}")


dm7 = DragModel(0.22, TableG7, 168, 0.308, 1.22)
dm1 = DragModel(0.46, TableG1, 175, 0.308, 1.2)
custom = DragModel(0.3, [{'Mach': m, 'CD': cd} for m, cd in
                         ((0.0, 0.2), (0.5, 0.21), (0.9, 0.25), (1.0, 0.38), (1.2, 0.40), (2.0, 0.31), (5.0, 0.2))])
two_pt = DragModel(0.5, [{'Mach': 0.0, 'CD': 0.3}, {'Mach': 5.0, 'CD': 0.3}])

calc = Calculator()

# 1. plain G7 / G1
fire("g7_plain", calc, Shot(Weapon(4, 12), Ammo(dm7, Velocity.FPS(2600)), atmo=Atmo.icao()),
     Distance.Yard(1000), Distance.Yard(100))
fire("g1_plain_default_step", calc, Shot(Weapon(Distance.Inch(2), 11.24), Ammo(dm1, Velocity.FPS(2750))),
     Distance.Yard(600))

# 2. zeroed, winds in segments, look angle, cant, altitude
w = Weapon(Distance.Inch(2.5), Distance.Inch(-9), sight=None)
shot = Shot(w, Ammo(dm7, Velocity.MPS(800)), look_angle=Angular.Degree(7), cant_angle=Angular.Degree(12),
            atmo=Atmo(altitude=Distance.Foot(4500), pressure=Pressure.InHg(25.1),
                      temperature=Temperature.Fahrenheit(41), humidity=63),
            winds=[Wind(Velocity.MPH(12), Angular.OClock(2), Distance.Yard(400)),
                   Wind(Velocity.MPH(7), Angular.OClock(10), Distance.Yard(150)),
                   Wind(Velocity.MPH(20), Angular.Degree(181), Distance.Yard(900))])
try:
    z = calc.set_weapon_zero(shot, Distance.Yard(300))
    print("zero:", hx(z.raw_value))
except ZeroFindingError as e:
    print("ZeroFindingError", hx(e.zero_finding_error), e.iterations_count, hx(e.last_barrel_elevation.raw_value))
fire("segments_look_cant_alt", calc, shot, Distance.Yard(1200), Distance.Yard(75))
fire("segments_extra", calc, shot, Distance.Yard(1200), Distance.Yard(200), extra_data=True)
shot.relative_angle = Angular.Mil(3.5)
fire("segments_relative", calc, shot, Distance.Meter(1000), Distance.Meter(100), time_step=0.05)
try:
    print("bel:", hx(calc.barrel_elevation_for_target(shot, Distance.Meter(777)).raw_value))
except ZeroFindingError as e:
    print("ZeroFindingError", hx(e.zero_finding_error), e.iterations_count, hx(e.last_barrel_elevation.raw_value))

# 3. steep shots: large altitude change (density / mach re-evaluated), RangeError paths
steep = Shot(Weapon(Distance.Inch(2)), Ammo(dm1, Velocity.FPS(2900)), relative_angle=Angular.Degree(35),
             atmo=Atmo.icao(Distance.Foot(1000)), winds=[Wind(Velocity.MPS(6), Angular.Degree(75))])
fire("steep_drop_or_alt", calc, steep, Distance.Meter(8000), Distance.Meter(500))
fire("steep_extra", calc, steep, Distance.Meter(3000), Distance.Meter(1000), extra_data=True)
fire("vertical", calc, Shot(Weapon(), Ammo(dm7, Velocity.FPS(2600)), relative_angle=Angular.Degree(90)),
     Distance.Meter(10), Distance.Meter(1), extra_data=True, time_step=0.1)
fire("min_velocity", calc, Shot(Weapon(2), Ammo(DragModel(0.05, TableG1), Velocity.FPS(900)),
                                relative_angle=Angular.Degree(2)), Distance.Yard(3000), Distance.Yard(100))
fire("down_slope_min_alt", Calculator({'cMinimumAltitude': -50.0}),
     Shot(Weapon(2), Ammo(dm7, Velocity.FPS(2600)), look_angle=Angular.Degree(-20),
          relative_angle=Angular.Degree(-20), atmo=Atmo.icao(0)), Distance.Yard(800), Distance.Yard(50))
fire("max_drop_custom", Calculator({'cMaximumDrop': -20.0}),
     Shot(Weapon(2), Ammo(dm7, Velocity.FPS(1200))), Distance.Yard(1500), Distance.Yard(100))
fire("strong_headwind_min_vel", Calculator({'cMinimumVelocity': 600.0}),
     Shot(Weapon(2), Ammo(custom, Velocity.FPS(1500)), winds=[Wind(Velocity.FPS(80), Angular.Degree(180))]),
     Distance.Yard(2000), Distance.Yard(250))

# 4. step refinement, custom and 2-point tables
for stp in (2.0, 0.5, 0.25, 0.05):
    fire(f"custom_step_{stp}", Calculator({'max_calc_step_size_feet': stp}),
         Shot(Weapon(Distance.Centimeter(9), 10), Ammo(custom, Velocity.MPS(930)), relative_angle=Angular.MOA(20),
              cant_angle=Angular.Degree(-30),
              winds=[Wind(Velocity.MPS(4), Angular.Degree(90), Distance.Meter(200)),
                     Wind(Velocity.MPS(8), Angular.Degree(270), Distance.Meter(450))]),
         Distance.Meter(700), Distance.Meter(70))
fire("two_point_table", calc, Shot(Weapon(1.5), Ammo(two_pt, Velocity.FPS(3000)), relative_angle=Angular.Mil(5)),
     Distance.Yard(500), Distance.Yard(33))

# 5. vacuum: closed-form parabola check values
vac = Shot(Weapon(0), Ammo(dm7, Velocity.FPS(2000)), relative_angle=Angular.Degree(3), atmo=Vacuum())
fire("vacuum", calc, vac, Distance.Foot(3000), Distance.Foot(500))
fire("vacuum_wind", calc, Shot(Weapon(3), Ammo(dm7, Velocity.FPS(2000)), relative_angle=Angular.Degree(3),
                               atmo=Vacuum(Distance.Foot(2000), Temperature.Celsius(5)),
                               winds=[Wind(Velocity.MPH(30), Angular.Degree(45))]),
     Distance.Foot(3000), Distance.Foot(500), extra_data=True)

# 6. degenerate ranges / record steps
base = Shot(Weapon(2, 12), Ammo(dm7, Velocity.FPS(2600)))
fire("zero_range", calc, base, Distance.Foot(0), Distance.Foot(10))
fire("negative_range", calc, base, Distance.Foot(-5), Distance.Foot(1))
fire("tiny_record_step", calc, base, Distance.Foot(3), Distance.Inch(1))
fire("record_step_gt_range", calc, base, Distance.Yard(100), Distance.Yard(1000))
fire("time_step_only", calc, base, Distance.Yard(200), Distance.Yard(200), time_step=0.01)

# 7. call history: same calculator reused after an aborted shot
fire("after_abort_g7_plain", calc, Shot(Weapon(4, 12), Ammo(dm7, Velocity.FPS(2600)), atmo=Atmo.icao()),
     Distance.Yard(1000), Distance.Yard(100))
print("cdm len:", len(calc.cdm))
