"""Digest of trajectories that exercise the integration loop of TrajectoryCalc._integrate:
wind segments (none, one, many, thresholds at 0, two thresholds inside one step, beyond range),
look / cant / relative angles, altitude change, vacuum, stop conditions, extra_data, time_step,
different solver step sizes, degenerate ranges, zeroing."""
import hashlib
import warnings

from py_ballisticcalc import (Calculator, Shot, Weapon, Ammo, DragModel, Atmo, Vacuum, Wind,
                              TableG1, TableG7, RangeError, ZeroFindingError)
from py_ballisticcalc.unit import Distance, Velocity, Angular, Temperature, Pressure

warnings.simplefilter("ignore")

LINES = []


def emit(*parts):
    LINES.append(" ".join(str(p) for p in parts))


def row_repr(r):
    return repr((r.time, r.distance.raw_value, r.velocity.raw_value, r.mach, r.height.raw_value,
                 r.target_drop.raw_value, r.drop_adj.raw_value, r.windage.raw_value,
                 r.windage_adj.raw_value, r.look_distance.raw_value, r.angle.raw_value,
                 r.density_factor, r.drag, r.energy.raw_value, r.ogw.raw_value, int(r.flag)))


def run(label, calc, shot, rng, step=0, extra=False, time_step=0.0):
    try:
        hit = calc.fire(shot, rng, step, extra, time_step)
        rows = list(hit.trajectory)
        emit(label, "ok", len(rows))
    except RangeError as err:
        rows = list(err.incomplete_trajectory)
        emit(label, "RangeError", err.reason, len(rows))
    except Exception as err:  # pylint: disable=broad-except
        emit(label, type(err).__name__, err)
        return
    if len(rows) > 40:  # keep the text short, hash the rest
        digest = hashlib.sha256("\n".join(row_repr(r) for r in rows).encode()).hexdigest()
        emit("  sha", digest)
        rows = rows[:3] + rows[-3:]
    for r in rows:
        emit("  ", row_repr(r))


def g7():
    return DragModel(0.22, TableG7, 168, 0.308, 1.22)


def g1():
    return DragModel(0.47, TableG1, 180, 0.308, 1.3)


def mph(v, clock, until=None):
    return Wind(Velocity.MPH(v), Angular.OClock(clock), None if until is None else Distance.Yard(until))


calc = Calculator()
weapon = Weapon(Distance.Inch(2.5), Distance.Inch(11), Angular.Mil(1.5))

# 1. no explicit wind
run("nowind", calc, Shot(weapon, Ammo(g7(), Velocity.FPS(2600))), Distance.Yard(1000), Distance.Yard(100))

# 2. single wind to infinity
run("onewind", calc, Shot(weapon, Ammo(g7(), Velocity.FPS(2600)), winds=[mph(10, 3)]),
    Distance.Yard(800), Distance.Yard(100))

# 3. several segments, unsorted input, last one finite (falls back to zero wind), one beyond range
winds = [mph(8, 9, 600), mph(5, 2, 200), mph(12, 4, 400), mph(3, 11, 5000)]
run("segments", calc, Shot(weapon, Ammo(g1(), Velocity.FPS(2750)), winds=winds),
    Distance.Yard(1200), Distance.Yard(150))

# 4. a segment ending at 0 and one with a negative end: switched on the very first steps
winds = [Wind(Velocity.FPS(30), Angular.Degree(90), Distance.Foot(0)),
         Wind(Velocity.FPS(40), Angular.Degree(45), Distance.Foot(-5)),
         Wind(Velocity.FPS(20), Angular.Degree(270), Distance.Foot(300))]
run("zero-length", calc, Shot(weapon, Ammo(g7(), Velocity.FPS(2600)), winds=winds),
    Distance.Foot(900), Distance.Foot(75))

# 5. several thresholds inside one integration step: only one switch per step
winds = [Wind(Velocity.FPS(15), Angular.Degree(90), Distance.Foot(100.00)),
         Wind(Velocity.FPS(25), Angular.Degree(60), Distance.Foot(100.01)),
         Wind(Velocity.FPS(35), Angular.Degree(30), Distance.Foot(100.02)),
         Wind(Velocity.FPS(45), Angular.Degree(300), Distance.Foot(100.03)),
         Wind(Velocity.FPS(5), Angular.Degree(180), Distance.Foot(100.04))]
run("dense", calc, Shot(weapon, Ammo(g7(), Velocity.FPS(2600)), winds=winds),
    Distance.Foot(102), Distance.Foot(0.2))
run("dense-extra", calc, Shot(weapon, Ammo(g7(), Velocity.FPS(2600)), winds=winds),
    Distance.Foot(101), Distance.Foot(0.25), extra=True)

# 6. threshold right at / beyond the end of the flight
winds = [Wind(Velocity.FPS(15), Angular.Degree(90), Distance.Foot(300.0)),
         Wind(Velocity.FPS(50), Angular.Degree(270), Distance.Foot(300.25))]
run("at-end", calc, Shot(weapon, Ammo(g7(), Velocity.FPS(2600)), winds=winds),
    Distance.Foot(300), Distance.Foot(100))

# 7. look angle, cant, relative angle, altitude, humidity, head/tail winds, extra data and time step
atmo = Atmo(Distance.Foot(4500), Pressure.InHg(25.1), Temperature.Fahrenheit(41), 65)
shot = Shot(Weapon(Distance.Inch(3), Distance.Inch(-9), Angular.MOA(6)), Ammo(g1(), Velocity.FPS(2900)),
            look_angle=Angular.Degree(12), relative_angle=Angular.Mil(3), cant_angle=Angular.Degree(17),
            atmo=atmo, winds=[mph(15, 12, 300), mph(9, 6, 700), mph(20, 2.5)])
run("angles", calc, shot, Distance.Yard(1500), Distance.Yard(125))
run("angles-extra", calc, shot, Distance.Yard(600), Distance.Yard(50), extra=True, time_step=0.05)

# 8. steep shot: big altitude change, wind segments, stops on a RangeError
shot = Shot(Weapon(Distance.Inch(2), Distance.Inch(10)), Ammo(g7(), Velocity.FPS(2800)),
            relative_angle=Angular.Degree(38), atmo=Atmo.icao(Distance.Foot(1000)),
            winds=[mph(10, 3, 1000), mph(20, 8, 2500), mph(7, 5, 4000)])
run("steep", calc, shot, Distance.Yard(9000), Distance.Yard(500))
run("steep-extra", calc, shot, Distance.Yard(9000), Distance.Yard(500), extra=True, time_step=1.0)

# 9. minimum-velocity stop (light, draggy projectile) with winds
shot = Shot(weapon, Ammo(DragModel(0.05, TableG1, 40, 0.224, 0.6), Velocity.FPS(1200)),
            relative_angle=Angular.Degree(4), winds=[mph(25, 12, 100), mph(25, 3, 200), mph(25, 6)])
run("slow", calc, shot, Distance.Yard(2000), Distance.Yard(50))

# 10. below the minimum altitude
shot = Shot(weapon, Ammo(g7(), Velocity.FPS(2600)), relative_angle=Angular.Degree(-30),
            atmo=Atmo.icao(Distance.Foot(-1000)), winds=[mph(10, 3, 50), mph(10, 9)])
run("pit", calc, shot, Distance.Yard(3000), Distance.Yard(100))

# 10b. nearly vertical shot (minimum velocity at the apex) and a very long fall (maximum drop)
shot = Shot(weapon, Ammo(g7(), Velocity.FPS(2600)), relative_angle=Angular.Degree(89.95),
            winds=[mph(10, 3, 1), mph(10, 9, 2), mph(3, 6)])
run("vertical", calc, shot, Distance.Yard(3000), Distance.Yard(100), time_step=2.0)
shot = Shot(weapon, Ammo(g7(), Velocity.FPS(2600)), relative_angle=Angular.Degree(-60),
            atmo=Atmo.icao(Distance.Foot(20000)), winds=[mph(10, 3, 500), mph(10, 9, 1500), mph(3, 6)])
run("fall", calc, shot, Distance.Yard(9000), Distance.Yard(300))

# 11. vacuum with winds (no drag: wind must not matter), elevated
shot = Shot(Weapon(Distance.Inch(0), Distance.Inch(0)), Ammo(g7(), Velocity.FPS(1500)),
            relative_angle=Angular.Degree(20), atmo=Vacuum(), winds=[mph(30, 3, 100), mph(30, 9)])
run("vacuum", calc, shot, Distance.Yard(3000), Distance.Yard(250))

# 12. degenerate ranges: negative (loop never entered), zero, tiny, step > range
shot = Shot(weapon, Ammo(g7(), Velocity.FPS(2600)), winds=[mph(10, 3, 0), mph(5, 9, 1)])
run("negative", calc, shot, Distance.Foot(-10), Distance.Foot(5))
run("zero", calc, shot, Distance.Foot(0), Distance.Foot(5))
run("tiny", calc, shot, Distance.Foot(0.1), Distance.Foot(0.01))
run("bigstep", calc, shot, Distance.Foot(50), Distance.Foot(500))
run("defaultstep", calc, shot, Distance.Foot(700))

# 13. other solver step sizes
for max_step in (0.05, 0.25, 1.0, 5.0, 40.0):
    c = Calculator(_config={"max_calc_step_size_feet": max_step})
    shot = Shot(weapon, Ammo(g7(), Velocity.FPS(2600)), look_angle=Angular.Degree(-5),
                cant_angle=Angular.Degree(-8),
                winds=[mph(10, 3, 101), mph(14, 7, 102), mph(6, 10, 350), mph(11, 1)])
    run(f"step{max_step}", c, shot, Distance.Yard(500), Distance.Yard(100))

# 14. zeroing (the loop without recording), then a shot with the found zero
for look in (0, 7, -11):
    w = Weapon(Distance.Inch(2.5), Distance.Inch(11))
    shot = Shot(w, Ammo(g7(), Velocity.FPS(2600)), look_angle=Angular.Degree(look),
                atmo=Atmo.icao(Distance.Foot(2000)), winds=[mph(10, 3, 50), mph(12, 10, 150), mph(4, 6)])
    try:
        zero = calc.set_weapon_zero(shot, Distance.Yard(200))
        emit("zero", look, repr(zero.raw_value))
    except ZeroFindingError as err:
        emit("zero", look, "ZeroFindingError", repr(err.zero_finding_error), err.iterations_count,
             repr(err.last_barrel_elevation.raw_value))
    run(f"zeroed{look}", calc, shot, Distance.Yard(400), Distance.Yard(100))

print("\n".join(LINES))
