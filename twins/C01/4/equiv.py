"""Equivalence digest for refactoring 1 (C01): _TrajectoryDataFilter (row selection / interpolation).

Run:  cd /tmp/wt/C01 && PYTHONPATH=/tmp/wt/C01 /venv/bin/python /tmp/twins2/C01/1/equiv.py
Prints a deterministic text; must be byte-identical on the clean tree and with patch.diff applied.
"""
import hashlib
import math
import warnings

warnings.simplefilter("ignore")

from py_ballisticcalc import (Calculator, Shot, Weapon, Ammo, Atmo, Vacuum, Wind, DragModel,
                              TableG1, TableG7, Distance, Velocity, Angular, Temperature, Pressure,
                              Weight, RangeError, TrajFlag, Vector)
from py_ballisticcalc.trajectory_calc import _TrajectoryDataFilter


def row_repr(r):
    return repr((r.time, r.distance.raw_value, r.velocity.raw_value, r.mach, r.height.raw_value,
                 r.target_drop.raw_value, r.drop_adj.raw_value, r.windage.raw_value,
                 r.windage_adj.raw_value, r.look_distance.raw_value, r.angle.raw_value,
                 r.density_factor, r.drag, r.energy.raw_value, r.ogw.raw_value, int(r.flag),
                 type(r.distance).__name__, r.distance.units.name, r.velocity.units.name,
                 r.drop_adj.units.name, r.energy.units.name, r.ogw.units.name))


def digest(label, rows, show=3):
    h = hashlib.sha256()
    for r in rows:
        h.update(row_repr(r).encode())
        h.update(b"\n")
    print(f"{label}: n={len(rows)} sha={h.hexdigest()}")
    flags = [int(r.flag) for r in rows]
    print("   flags:", repr(flags if len(flags) <= 40 else (flags[:20], '...', flags[-20:])))
    idx = sorted(set(list(range(min(show, len(rows)))) + list(range(max(0, len(rows) - show), len(rows)))))
    for i in idx:
        print("   ", i, row_repr(rows[i]))


def fire(label, calc, shot, rng, step=0, extra=False, time_step=0.0):
    try:
        res = calc.fire(shot, rng, step, extra, time_step)
        digest(label, list(res.trajectory))
    except RangeError as e:
        print(f"{label}: RangeError reason={e.reason!r} last={None if e.last_distance is None else e.last_distance.raw_value!r}")
        digest(label + " (incomplete)", e.incomplete_trajectory)


def mk_shot(table=TableG7, bc=0.223, mv=2750.0, sh=2.0, twist=12.0, look=0.0, rel=0.0, cant=0.0,
            atmo=None, winds=None, zero_el=0.0):
    dm = DragModel(bc, table, Weight.Grain(168), Distance.Inch(0.308), Distance.Inch(1.282))
    weapon = Weapon(Distance.Inch(sh), Distance.Inch(twist), Angular.Degree(zero_el))
    ammo = Ammo(dm, Velocity.FPS(mv))
    return Shot(weapon, ammo, Angular.Degree(look), Angular.Degree(rel), Angular.Degree(cant),
                atmo, winds)


calc = Calculator()

# 1. plain zeroed shots, range rows only
s = mk_shot()
calc.set_weapon_zero(s, Distance.Yard(100))
print("zero_elevation", repr(s.weapon.zero_elevation.raw_value))
fire("g7 1000yd/100yd", calc, s, Distance.Yard(1000), Distance.Yard(100))
fire("g7 default step", calc, s, Distance.Yard(733))

# 2. extra_data=True: ZERO_UP / ZERO_DOWN / MACH rows + range rows
fire("g7 extra 1500yd", calc, s, Distance.Yard(1500), Distance.Yard(100), True)

# 3. G1, winds in several segments, cant, look angle, altitude
winds = [Wind(Velocity.MPH(10), Angular.Degree(90), Distance.Yard(300)),
         Wind(Velocity.MPH(15), Angular.Degree(200), Distance.Yard(700)),
         Wind(Velocity.MPH(5), Angular.Degree(-45), Distance.Yard(2000))]
s2 = mk_shot(TableG1, 0.462, 2600.0, sh=2.5, twist=-10.0, look=5.0, cant=7.0,
             atmo=Atmo(Distance.Foot(4500), Pressure.InHg(25.1), Temperature.Fahrenheit(41), 60),
             winds=winds)
calc.set_weapon_zero(s2, Distance.Yard(200))
print("zero_elevation", repr(s2.weapon.zero_elevation.raw_value))
fire("g1 wind/cant/look", calc, s2, Distance.Yard(1200), Distance.Yard(75))
fire("g1 wind/cant/look extra", calc, s2, Distance.Yard(1200), Distance.Yard(75), True)
fire("g1 wind/cant/look extra+time_step", calc, s2, Distance.Yard(600), Distance.Yard(150), True, 0.05)

# 4. record step smaller than the integration step (several record distances skipped per step)
fire("tiny record step", calc, s, Distance.Foot(12), Distance.Inch(1))
calc_big = Calculator(_config={"max_calc_step_size_feet": 6.0})
fire("big calc step, small record step", calc_big, s, Distance.Foot(60), Distance.Foot(0.7))
fire("big calc step, extra", calc_big, s, Distance.Yard(400), Distance.Yard(50), True)
calc_small = Calculator(_config={"max_calc_step_size_feet": 0.1})
fire("small calc step", calc_small, s, Distance.Yard(300), Distance.Yard(100))

# 5. downward look angle, sight below bore, negative relative angle (ZERO_DOWN set-up branch)
s3 = mk_shot(look=-10.0, sh=-1.5, rel=-0.2)
fire("look down, sight below bore", calc, s3, Distance.Yard(500), Distance.Yard(100), True)
s4 = mk_shot(look=0.0, sh=2.0, rel=-0.3)
fire("barrel below sight line", calc, s4, Distance.Yard(300), Distance.Yard(100), True)

# 6. time-step-only recording on a steep shot, and vacuum
s5 = mk_shot(rel=80.0, mv=900.0)
fire("steep, time_step", calc, s5, Distance.Yard(300), Distance.Yard(100), True, 0.25)
s6 = mk_shot(atmo=Vacuum(), rel=1.0)
fire("vacuum", calc, s6, Distance.Yard(1000), Distance.Yard(250), True)

# 7. early termination (RangeError) with partial rows
s7 = mk_shot(TableG1, 0.12, 1100.0, rel=0.5)
fire("min velocity", calc, s7, Distance.Yard(3000), Distance.Yard(100), True)
calc_drop = Calculator(_config={"cMaximumDrop": -20.0})
fire("max drop", calc_drop, s, Distance.Yard(1500), Distance.Yard(100))

# 8. the filter driven directly (it is exported by py_ballisticcalc.trajectory_calc)
def drive(label, flt, samples):
    out = []
    for pos, vel, mach, t in samples:
        flt.clear_current_flag()
        d = flt.should_record(pos, vel, mach, t)
        out.append((None if d is None else (d.time, tuple(d.position), tuple(d.velocity), d.mach),
                    int(flt.current_flag), int(flt.seen_zero), flt.next_record_distance,
                    flt.time_of_last_record, flt.previous_v_mach, flt.previous_time,
                    tuple(flt.previous_position), tuple(flt.previous_velocity), flt.previous_mach))
    print(label)
    for o in out:
        print("   ", repr(o))


p0 = Vector(0.0, -0.2, 0.0)
v0 = Vector(2000.0, 30.0, 0.0)
samples = [
    (p0, v0, 1116.0, 0.0),
    (Vector(0.0, -0.1, 0.0), Vector(1990.0, 29.0, 1.0), 1116.0, 0.001),      # x does not advance
    (Vector(3.3, 0.01, 0.1), Vector(1500.0, 20.0, 2.0), 1115.0, 0.003),      # skips several records, crosses up
    (Vector(3.9, 0.2, 0.2), Vector(1117.0, 10.0, 3.0), 1115.0, 0.0035),
    (Vector(4.0, 0.25, 0.2), Vector(1110.0, 5.0, 3.0), 1115.5, 0.0040),      # exactly on record distance, mach crossing
    (Vector(4.2, -0.05, 0.3), Vector(1000.0, -5.0, 3.0), 1115.5, 0.3),       # crosses down, time step fires
    (Vector(4.1, -0.5, 0.3), Vector(-10.0, -50.0, 3.0), 1115.5, 0.9),        # moves backwards
    (Vector(9.0, -3.0, 0.3), Vector(900.0, -50.0, 3.0), 1115.5, 1.0),
]
for flags in (TrajFlag.NONE, TrajFlag.RANGE, TrajFlag.ALL, TrajFlag.ZERO, TrajFlag.MACH):
    f = _TrajectoryDataFilter(flags, 1.0, p0, v0, 0.25)
    f.setup_seen_zero(p0.y, 0.02, 0.01)
    drive(f"filter flags={int(flags)} range_step=1 time_step=.25", f, samples)
f = _TrajectoryDataFilter(TrajFlag.ALL, 0.0, p0, v0, 0.002)
f.setup_seen_zero(p0.y, -0.02, 0.01)
drive("filter range_step=0 time_step=.002 barrel below look", f, samples)
f = _TrajectoryDataFilter(TrajFlag.ALL, 0.0, Vector(0.0, 0.5, 0.0), v0, 0.0)
f.setup_seen_zero(0.5, 0.02, 0.01)
drive("filter no steps, starts above", f, samples)
nan = float("nan")
f = _TrajectoryDataFilter(TrajFlag.ALL, 1.0, p0, v0, 0.1)
f.setup_seen_zero(p0.y, 0.02, 0.01)
drive("filter NaN samples", f, [
    (p0, v0, 1116.0, 0.0),
    (Vector(nan, nan, 0.0), Vector(nan, 1.0, 1.0), 1116.0, 0.5),
    (Vector(2.5, 1.0, 0.0), Vector(1200.0, 1.0, 1.0), 1116.0, nan),
    (Vector(3.5, nan, 0.0), Vector(1000.0, 1.0, 1.0), nan, 1.0),
    (Vector(4.5, -1.0, 0.0), Vector(900.0, 1.0, 1.0), 1116.0, 1.5),
])

# 9. debug logging of the filter (messages are part of the observable behaviour when debug is on)
import logging
from py_ballisticcalc.logger import logger, set_debug


class _Collect(logging.Handler):
    def __init__(self):
        super().__init__(logging.DEBUG)
        self.h = hashlib.sha256()
        self.n = 0
        self.first = []

    def emit(self, record):
        msg = record.getMessage()
        self.h.update(msg.encode())
        self.n += 1
        if len(self.first) < 4:
            self.first.append(msg)


col = _Collect()
logger.addHandler(col)
set_debug(True)
fire("debug on", calc, s2, Distance.Yard(150), Distance.Yard(50), True)
set_debug(False)
logger.removeHandler(col)
print("debug messages:", col.n, col.h.hexdigest())
for m in col.first:
    print("   ", m)
