"""Equivalence digest for refactoring 3 (drag curve construction and lookup, calc step, Vector helpers).

Prints repr() of every number of every trajectory row for a set of varied shots.
Must print exactly the same text on the clean worktree and with the patch applied.
"""
import math
import warnings

warnings.simplefilter("ignore")
from py_ballisticcalc import (Calculator, Shot, Weapon, Ammo, DragModel, Atmo, Vacuum, Wind, Unit,
                              TableG1, TableG7, TableGS, RangeError, ZeroFindingError, TrajFlag,
                              InterfaceConfigDict)

LINES = []


def out(*a):
    LINES.append(" ".join(str(x) for x in a))


def row_repr(r):
    return repr((r.time, r.distance.raw_value, r.velocity.raw_value, r.mach, r.height.raw_value,
                 r.target_drop.raw_value, r.drop_adj.raw_value, r.windage.raw_value,
                 r.windage_adj.raw_value, r.look_distance.raw_value, r.angle.raw_value,
                 r.density_factor, r.drag, r.energy.raw_value, r.ogw.raw_value, int(r.flag)))


def dump(label, rows):
    out("##", label, "rows", len(rows))
    for r in rows:
        out(row_repr(r))


def fire(label, calc, shot, rng, step=0, **kw):
    with warnings.catch_warnings(record=True) as w:
        warnings.simplefilter("always")
        try:
            res = calc.fire(shot, rng, step, **kw)
            dump(label, res.trajectory)
        except RangeError as e:
            out("##", label, "RangeError", repr(e.reason), repr(str(e)),
                repr(e.last_distance.raw_value if e.last_distance is not None else None))
            dump(label + " (incomplete)", e.incomplete_trajectory)
        except Exception as e:  # pylint: disable=broad-except
            out("##", label, "EXC", type(e).__name__, repr(str(e)))
        out("warnings", sorted({(x.category.__name__, str(x.message)) for x in w}))


def weapon(sh=2.0, twist=12.0, zero=0.0):
    return Weapon(Unit.Inch(sh), Unit.Inch(twist), Unit.Degree(zero))


def ammo_g7():
    return Ammo(DragModel(0.223, TableG7, Unit.Grain(168), Unit.Inch(0.308), Unit.Inch(1.282)), Unit.FPS(2750))


def ammo_g1():
    return Ammo(DragModel(0.5, TableG1), Unit.FPS(2600))


CUSTOM = [{'Mach': 0.0, 'CD': 0.25}, {'Mach': 0.7, 'CD': 0.22}, {'Mach': 0.95, 'CD': 0.31},
          {'Mach': 1.1, 'CD': 0.45}, {'Mach': 2.0, 'CD': 0.36}, {'Mach': 4.0, 'CD': 0.27}]

calc = Calculator()

# 1. plain G7 shot with a zero, default step
shot = Shot(weapon(), ammo_g7(), atmo=Atmo.icao())
z = calc.set_weapon_zero(shot, Unit.Yard(100))
out("zero elevation", repr(z.raw_value))
fire("g7 plain", calc, shot, Unit.Yard(1000), Unit.Yard(100))
fire("g7 extra_data", calc, shot, Unit.Yard(300), Unit.Yard(50), extra_data=True)
fire("g7 time_step", calc, shot, Unit.Yard(400), Unit.Yard(200), time_step=0.05)
fire("g7 default trajectory_step", calc, shot, Unit.Yard(500))

# 2. three wind segments of different direction, look angle, cant, relative angle, humid high station
winds = [Wind(Unit.MPH(10), Unit.Degree(90), Unit.Yard(200)),
         Wind(Unit.MPH(15), Unit.Degree(-45), Unit.Yard(450)),
         Wind(Unit.MPH(8), Unit.Degree(180), Unit.Yard(700))]
atmo = Atmo(Unit.Foot(5000), Unit.InHg(24.9), Unit.Fahrenheit(35), 65)
shot2 = Shot(weapon(sh=3.0, twist=-9.0, zero=0.12), ammo_g1(), look_angle=Unit.Degree(7),
             relative_angle=Unit.MOA(3), cant_angle=Unit.Degree(12), atmo=atmo, winds=winds)
fire("g1 winds/look/cant", calc, shot2, Unit.Yard(900), Unit.Yard(75))
fire("g1 winds/look/cant extra", calc, shot2, Unit.Yard(500), Unit.Yard(125), extra_data=True)
z2 = calc.barrel_elevation_for_target(shot2, Unit.Yard(350))
out("barrel elevation for target", repr(z2.raw_value))

# 3. finer and coarser solver step, custom drag table
for step_ft in (0.1, 0.5, 3.0):
    c = Calculator(_config=InterfaceConfigDict(max_calc_step_size_feet=step_ft))
    s = Shot(weapon(sh=1.5, twist=0, zero=0.3), Ammo(DragModel(0.31, CUSTOM), Unit.MPS(820)),
             atmo=Atmo.icao(Unit.Meter(300)), winds=[Wind(Unit.MPS(6), Unit.Degree(250), Unit.Meter(150)),
                                                     Wind(Unit.MPS(3), Unit.Degree(20), Unit.Meter(9999))])
    fire(f"custom table step {step_ft}", c, s, Unit.Meter(600), Unit.Meter(100))

# 4. high-angle shot: altitude changes by far more than 30 ft, density and mach re-evaluated
shot4 = Shot(weapon(zero=0), ammo_g7(), relative_angle=Unit.Degree(35), atmo=Atmo.icao(Unit.Foot(1000)),
             winds=[Wind(Unit.MPH(20), Unit.Degree(60), Unit.Yard(1500))])
fire("high angle", calc, shot4, Unit.Yard(3000), Unit.Yard(500))

shot4b = Shot(weapon(zero=0), ammo_g7(), relative_angle=Unit.Degree(60), atmo=Atmo.icao(Unit.Foot(35500)))
fire("above troposphere (warnings)", calc, shot4b, Unit.Yard(2000), Unit.Yard(500))

# 5. vacuum: closed-form parabola
shot5 = Shot(weapon(sh=0, twist=0, zero=0), ammo_g7(), relative_angle=Unit.Degree(2), atmo=Vacuum())
fire("vacuum", calc, shot5, Unit.Yard(600), Unit.Yard(200))

# 6. the three termination reasons
cvel = Calculator(_config=InterfaceConfigDict(cMinimumVelocity=700.0))
fire("min velocity", cvel, Shot(weapon(), Ammo(DragModel(0.05, TableG1), Unit.FPS(900))), Unit.Yard(3000), Unit.Yard(50))
cdrop = Calculator(_config=InterfaceConfigDict(cMaximumDrop=-20.0))
fire("max drop", cdrop, Shot(weapon(), ammo_g1()), Unit.Yard(2000), Unit.Yard(250))
calt = Calculator(_config=InterfaceConfigDict(cMinimumAltitude=-10.0))
fire("min altitude", calt, Shot(weapon(), ammo_g1(), atmo=Atmo.icao(Unit.Foot(5))), Unit.Yard(2000), Unit.Yard(250))
fire("shooting down", calc, Shot(weapon(), ammo_g1(), look_angle=Unit.Degree(-20), relative_angle=Unit.Degree(0.2)),
     Unit.Yard(1500), Unit.Yard(300))

# 7. degenerate ranges: record step smaller than calc step, very short range, fewer than two rows
fire("tiny step", calc, shot, Unit.Foot(3), Unit.Foot(0.1))
fire("short range", calc, shot, Unit.Foot(0.1), Unit.Foot(0.1))
fire("big record step", calc, shot, Unit.Yard(100), Unit.Yard(1000))
fire("negative range", calc, shot, Unit.Yard(-10), Unit.Yard(5))

# 8. wind strong enough to keep air speed low (delta_time clamp max(1, v)), GS sphere
slow = Shot(weapon(sh=1, twist=0, zero=5), Ammo(DragModel(0.02, TableGS), Unit.FPS(120)),
            winds=[Wind(Unit.FPS(100), Unit.Degree(0), Unit.Foot(30)), Wind(Unit.FPS(60), Unit.Degree(170), Unit.Foot(90))])
cslow = Calculator(_config=InterfaceConfigDict(cMinimumVelocity=0.0))
fire("slow sphere with tail wind", cslow, slow, Unit.Foot(200), Unit.Foot(20))

# 9. a second zero on the same calculator (no state carried over between calls)
shot9 = Shot(weapon(sh=2.5, twist=10), ammo_g1(), look_angle=Unit.Degree(-4), cant_angle=Unit.Degree(-30),
             winds=[Wind(Unit.MPH(5), Unit.Degree(135), Unit.Yard(100)), Wind(Unit.MPH(12), Unit.Degree(300))])
try:
    out("zero 2", repr(calc.set_weapon_zero(shot9, Unit.Yard(250)).raw_value))
except ZeroFindingError as e:
    out("ZeroFindingError", repr(e.zero_finding_error), e.iterations_count, repr(e.last_barrel_elevation.raw_value))
fire("after second zero", calc, shot9, Unit.Yard(600), Unit.Yard(60))
fire("g7 plain again", calc, shot, Unit.Yard(1000), Unit.Yard(100))

# 10. direct probes of the refactored pieces
from py_ballisticcalc import Vector, TableG2, TableG5, TableG6, TableG8, TableGI, TableRA4
from py_ballisticcalc.trajectory_calc._trajectory_calc import calculate_curve
from py_ballisticcalc.drag_model import make_data_points

TWO = [{'Mach': 0.0, 'CD': 0.3}, {'Mach': 3.0, 'CD': 0.2}]
THREE = [{'Mach': 0.5, 'CD': 0.3}, {'Mach': 1.0, 'CD': 0.5}, {'Mach': 3.0, 'CD': 0.2}]
FOUR = [{'Mach': 0.5, 'CD': 0.3}, {'Mach': 1.0, 'CD': 0.5}, {'Mach': 2.0, 'CD': 0.4}, {'Mach': 3.0, 'CD': 0.2}]
UNSORTED = [{'Mach': 0.0, 'CD': 0.25}, {'Mach': 1.1, 'CD': 0.45}, {'Mach': 0.7, 'CD': 0.22}, {'Mach': 4.0, 'CD': 0.27},
            {'Mach': 0.95, 'CD': 0.31}, {'Mach': 2.0, 'CD': 0.36}, {'Mach': 3.0, 'CD': 0.30}]
INTS = [{'Mach': 0, 'CD': 1}, {'Mach': 1, 'CD': 2}, {'Mach': 2, 'CD': 2}, {'Mach': 3, 'CD': 1}, {'Mach': 5, 'CD': 1}]
DUP = [{'Mach': 0.0, 'CD': 0.25}, {'Mach': 0.7, 'CD': 0.22}, {'Mach': 0.7, 'CD': 0.31}, {'Mach': 2.0, 'CD': 0.36}]
DUP_FIRST = [{'Mach': 0.5, 'CD': 0.25}, {'Mach': 0.5, 'CD': 0.22}, {'Mach': 0.7, 'CD': 0.31}]
DUP_LAST = [{'Mach': 0.5, 'CD': 0.25}, {'Mach': 0.6, 'CD': 0.22}, {'Mach': 0.7, 'CD': 0.31}, {'Mach': 0.7, 'CD': 0.33}]
ONE = [{'Mach': 0.5, 'CD': 0.25}]

tables = (("G1", TableG1), ("G7", TableG7), ("G2", TableG2), ("G5", TableG5), ("G6", TableG6), ("G8", TableG8),
          ("GI", TableGI), ("GS", TableGS), ("RA4", TableRA4), ("custom", CUSTOM), ("two", TWO), ("three", THREE),
          ("four", FOUR), ("unsorted", UNSORTED), ("ints", INTS), ("dup", DUP), ("dup first", DUP_FIRST),
          ("dup last", DUP_LAST), ("one", ONE))

for name, table in tables:
    pts = make_data_points(table)
    try:
        curve = calculate_curve(pts)
        out("## curve", name, len(curve), repr([tuple(c) for c in curve]), sorted({type(c).__name__ for c in curve}))
    except Exception as e:  # pylint: disable=broad-except
        out("## curve", name, "EXC", type(e).__name__, repr(str(e)))
    # drag term through the solver object, as the reference solution uses it
    try:
        c = Calculator()
        c.fire(Shot(weapon(), Ammo(DragModel(0.37, table), Unit.FPS(2000))), Unit.Yard(50), Unit.Yard(25))
    except Exception as e:  # pylint: disable=broad-except
        out("fire", name, "EXC", type(e).__name__, repr(str(e)))
        continue
    out("cdm", name, len(c.cdm), repr(c.cdm[0]), repr(c.cdm[-1]))
    machs = [-1.0, 0.0, 1e-12, 0.3, 0.5, 0.6, 0.7, 0.75, 0.825, 0.95, 1.0, 1.025, 1.05, 1.5, 2.0, 2.5, 2.9999, 3.0, 3.5,
             4.0, 4.5, 5.0, 5.1, 10.0, 1e6, float('inf'), float('-inf'), float('nan')]
    machs += [p.Mach for p in pts[:6]] + [(p.Mach + q.Mach) / 2 for p, q in zip(pts, pts[1:])][:12]
    vals = []
    for m in machs:
        try:
            vals.append(repr(c._calc.drag_by_mach(m)))
        except Exception as e:  # pylint: disable=broad-except
            vals.append("EXC " + type(e).__name__ + " " + repr(str(e)))
    out("drag_by_mach", name, vals)

for cfg_step in (0.5, 0.1, 3.0, 1e-3):
    c = Calculator(_config=InterfaceConfigDict(max_calc_step_size_feet=cfg_step))
    out("calc_step", repr(cfg_step), [repr(c._calc.get_calc_step(x)) for x in
                                      (0, 0.0, -0.0, 0.05, 0.5, 1, 10.0, -2.0, float('nan'), float('inf'), True, False)],
        repr(c._calc.get_calc_step()))

vs = [Vector(1.0, 2.0, 3.0), Vector(-0.1, 1e-300, 1e300), Vector(0.0, -0.0, 0.0), Vector(3, 4, 0), Vector(1e200, 1e200, 1e-5),
      Vector(float('nan'), 1.0, 2.0), Vector(0.1, 0.2, 0.3)]
for v in vs:
    res = [repr(v.magnitude()), repr(tuple(v.mul_by_const(0.1))), repr(tuple(v * 3)), repr(tuple(2.5 * v)), repr(tuple(v * True)),
           repr(v * vs[0]), repr(vs[6] * v), repr(tuple(v.normalize())), type(v * 2).__name__, type(v * v).__name__]
    for bad in ("x", None, [1, 2, 3], (1.0, 2.0, 3.0), 1j):
        try:
            res.append(repr(v * bad))
        except Exception as e:  # pylint: disable=broad-except
            res.append("EXC " + type(e).__name__ + " " + repr(str(e)))
    w = v
    w *= 2.0
    res.append(repr(tuple(w)))
    out("vector", res)

import hashlib
text = "\n".join(LINES)
print(text)
print("sha256", hashlib.sha256(text.encode()).hexdigest(), "lines", len(LINES))
