"""Digest of the standard-atmosphere helpers (Atmo.icao / standard_temperature / standard_pressure),
the speed-of-sound helpers (machF / machC / machK), the humidity setter and Vacuum, and of trajectories
flown in those atmospheres (including the vacuum parabola)."""
import hashlib
import math
import warnings

from py_ballisticcalc import (Calculator, Shot, Weapon, Ammo, DragModel, Atmo, Vacuum, Wind,
                              TableG1, TableG7, RangeError)
from py_ballisticcalc.unit import Distance, Velocity, Angular, Temperature, Pressure, Unit, PreferredUnits

LINES = []


def emit(*parts):
    LINES.append(" ".join(str(p) for p in parts))


def attempt(fn):
    """repr of the result (or the exception) plus the warnings raised on the way (text and category only)"""
    with warnings.catch_warnings(record=True) as caught:
        warnings.simplefilter("always")
        try:
            out = repr(fn())
        except Exception as err:  # pylint: disable=broad-except
            out = f"{type(err).__name__}: {err}"
    notes = [f"{w.category.__name__}: {w.message}" for w in caught]
    return out + (" " + repr(notes) if notes else "")


def atmo_repr(a):
    return repr((a.altitude.raw_value, a.altitude.units.name, a.pressure.raw_value, a.pressure.units.name,
                 a.temperature.raw_value, a.temperature.units.name, a.powder_temp.raw_value,
                 a.humidity, a.density_ratio, a.mach.raw_value, a._mach, a._a0, a._t0, a._p0,
                 a.density_metric, a.density_imperial, a.cLowestTempC, str(a)))


def probe(a):
    """density ratio and Mach at a ladder of altitudes around and far from the station"""
    base = a._a0
    out = []
    for dh in (0, 29.9, 30, -30.5, 500, -500, 5000, 20000, 40000, -2000):
        out.append(attempt(lambda: a.get_density_factor_and_mach_for_altitude(base + dh)))
    return hashlib.sha256("|".join(out).encode()).hexdigest()[:24] + " " + out[0] + " " + out[4]


# 1. speed of sound helpers
for f in (59, 59.0, 10, 99, -40, 0, -129.9, -130, -459.67, -459.68, -500, -1e9, 1e6, float("nan"),
          float("inf"), float("-inf"), True):
    emit("machF", repr(f), attempt(lambda: Atmo.machF(f)))
for c in (15, -20, 0, -273.15, -273.16, -300, 1e6, float("nan"), float("inf"), float("-inf")):
    emit("machC", repr(c), attempt(lambda: Atmo.machC(c)))
for k in (288.15, 0, 1e-300, 1e6, -1, float("nan"), float("inf")):
    emit("machK", repr(k), attempt(lambda: Atmo.machK(k)))
emit("machF-via-subclass", attempt(lambda: Vacuum.machF(70)), attempt(lambda: Vacuum().machF(-1000)))

# 2. standard temperature / pressure
for alt in (Distance.Foot(0), Distance.Foot(-1000), Distance.Foot(1), Distance.Meter(1500), Distance.Yard(3000),
            Distance.Foot(36089), Distance.Foot(100000), Distance.Kilometer(44.3), Distance.Kilometer(44.4),
            Distance.Kilometer(50), Distance.Foot(float("inf")), Distance.Foot(float("nan")),
            Distance.Foot(-1e7), 0, 1000.0, None):
    emit("standard", repr(alt),
         attempt(lambda: (lambda t: (t.raw_value, t.units.name))(Atmo.standard_temperature(alt))),
         attempt(lambda: (lambda p: (p.raw_value, p.units.name))(Atmo.standard_pressure(alt))))

# 3. icao / standard / default constructor
ICAO_ARGS = [
    (), (0,), (1000,), (-500.5,), (Distance.Meter(2500),), (Distance.Foot(36089),), (Distance.Foot(120000),),
    (Distance.Kilometer(50),), (None,), ("x",), (float("nan"),),
    (0, Temperature.Celsius(30)), (Distance.Foot(7000), Temperature.Fahrenheit(-20)),
    (0, Temperature.Fahrenheit(-500)), (0, 80.0), (0, "warm"),
    (Distance.Foot(3000), None, 55), (Distance.Foot(3000), Temperature.Celsius(5), 0.55), (0, None, 100),
    (0, None, 101), (0, None, -0.1), (0, None, 1), (0, None, 1.5), (0, None, float("nan")),
]
for args in ICAO_ARGS:
    emit("icao", repr(args), attempt(lambda: atmo_repr(Atmo.icao(*args))))
    emit("  probe", attempt(lambda: probe(Atmo.icao(*args))))
emit("icao-kw", attempt(lambda: atmo_repr(Atmo.icao(humidity=30, altitude=Distance.Yard(800)))),
     attempt(lambda: atmo_repr(Atmo.standard(Distance.Foot(5000)))),
     attempt(lambda: atmo_repr(Atmo.standard(temperature=Temperature.Celsius(-5)))))
emit("same-as-ctor", atmo_repr(Atmo.icao(Distance.Foot(4321))) == atmo_repr(Atmo(Distance.Foot(4321))),
     atmo_repr(Atmo()) == atmo_repr(Atmo.icao()))
emit("ctor", attempt(lambda: atmo_repr(Atmo())), attempt(lambda: atmo_repr(Atmo(altitude=0))),
     attempt(lambda: atmo_repr(Atmo(Distance.Foot(2000), Pressure.InHg(27.5), Temperature.Fahrenheit(75), 45,
                                    Temperature.Fahrenheit(90)))))
PreferredUnits.set(distance=Unit.Meter, pressure=Unit.hPa, temperature=Unit.Celsius)
emit("icao-metric", attempt(lambda: atmo_repr(Atmo.icao(1200))), attempt(lambda: atmo_repr(Atmo.icao(300, 12.5, 60))),
     attempt(lambda: atmo_repr(Vacuum(1200, 20))))
PreferredUnits.defaults()
a1 = Atmo.icao(Distance.Foot(1500))
alt_arg = Distance.Foot(1500)
a2 = Atmo.icao(alt_arg)
emit("arg-converted", alt_arg.units.name, repr(alt_arg.raw_value), a2.altitude is alt_arg)

# 4. humidity setter (after construction: the density ratio follows)
for h in (0, 0.0, 0.3, 1, 1.0, 1.0000001, 2, 50, 99.9, 100, 100.0000001, -1e-9, -5, float("nan"), True, "wet"):
    atmo = Atmo.icao(Distance.Foot(500), Temperature.Fahrenheit(85))

    def set_h():
        atmo.humidity = h
        return (atmo.humidity, atmo.density_ratio)
    emit("humidity", repr(h), attempt(set_h), repr(atmo.humidity), repr(atmo.density_ratio))
    emit("humidity-ctor", repr(h), attempt(lambda: (lambda a: (a.humidity, a.density_ratio))(Atmo(0, None, None, h))))

# 5. Vacuum
for args in ((), (None, None), (Distance.Foot(3000),), (0, Temperature.Celsius(-10)), (5000, 100), (Distance.Kilometer(50),)):
    emit("vacuum", repr(args), attempt(lambda: atmo_repr(Vacuum(*args))))
    emit("  probe", attempt(lambda: probe(Vacuum(*args))))
v = Vacuum(Distance.Foot(100))
v.humidity = 70
emit("vacuum-humid", repr(v.humidity), repr(v.density_ratio), repr(v.pressure.raw_value), list(vars(v)),
     repr(Atmo.cLowestTempC), repr(v.cLowestTempC), attempt(lambda: v.temperature_at_altitude(90000)))


# 6. trajectories
def row_repr(r):
    return repr((r.time, r.distance.raw_value, r.velocity.raw_value, r.mach, r.height.raw_value,
                 r.target_drop.raw_value, r.drop_adj.raw_value, r.windage.raw_value, r.windage_adj.raw_value,
                 r.look_distance.raw_value, r.angle.raw_value, r.density_factor, r.drag,
                 r.energy.raw_value, r.ogw.raw_value, int(r.flag)))


def run(label, calc, shot, rng, step=0, extra=False):
    with warnings.catch_warnings(record=True) as caught:
        warnings.simplefilter("always")
        try:
            rows = list(calc.fire(shot, rng, step, extra).trajectory)
            emit(label, "ok", len(rows))
        except RangeError as err:
            rows = list(err.incomplete_trajectory)
            emit(label, "RangeError", err.reason, len(rows))
    emit("  warnings", sorted({f"{w.category.__name__}: {w.message}" for w in caught}))
    if len(rows) > 14:
        emit("  sha", hashlib.sha256("\n".join(row_repr(r) for r in rows).encode()).hexdigest())
        rows = rows[:2] + rows[-2:]
    for r in rows:
        emit("  ", row_repr(r))
    return rows


calc = Calculator()
weapon = Weapon(Distance.Inch(2), Distance.Inch(12), Angular.Mil(2))
ammo = Ammo(DragModel(0.223, TableG7, 168, 0.308, 1.2), Velocity.FPS(2750))
winds = [Wind(Velocity.MPH(8), Angular.OClock(3), Distance.Yard(300)), Wind(Velocity.MPH(4), Angular.OClock(8))]
run("default-atmo", calc, Shot(weapon, ammo), Distance.Yard(800), Distance.Yard(100))
for alt in (0, 2500, 9000, -800):
    run(f"icao{alt}", calc, Shot(weapon, ammo, atmo=Atmo.icao(Distance.Foot(alt)), winds=winds),
        Distance.Yard(900), Distance.Yard(150))
run("icao-hot-humid", calc, Shot(weapon, ammo, look_angle=Angular.Degree(8), cant_angle=Angular.Degree(5),
                                atmo=Atmo.icao(Distance.Meter(1200), Temperature.Celsius(35), 90), winds=winds),
    Distance.Yard(1000), Distance.Yard(125))
run("icao-lob", calc, Shot(weapon, Ammo(DragModel(0.5, TableG1, 300, 0.338, 1.7), Velocity.FPS(2900)),
                          relative_angle=Angular.Degree(30), atmo=Atmo.icao(Distance.Foot(500)), winds=winds),
    Distance.Yard(6000), Distance.Yard(500))
run("icao-cold-high", calc, Shot(weapon, ammo, relative_angle=Angular.Degree(60),
                                atmo=Atmo.icao(Distance.Foot(30000)), winds=winds),
    Distance.Yard(4000), Distance.Yard(500))

# vacuum: compare with the closed-form parabola as well
for elev, v0, alt in ((10, 1000, None), (45, 800, Distance.Foot(2000)), (1, 3000, Distance.Meter(100))):
    shot = Shot(Weapon(Distance.Inch(0), Distance.Inch(0)), Ammo(DragModel(0.3, TableG1), Velocity.FPS(v0)),
                relative_angle=Angular.Degree(elev), atmo=Vacuum(alt, Temperature.Celsius(10)), winds=winds)
    rows = run(f"vacuum{elev}", calc, shot, Distance.Foot(3000), Distance.Foot(500))
    g = 32.17405
    th = math.radians(elev)
    worst = 0.0
    for r in rows:
        x = r.distance >> Distance.Foot
        y = x * math.tan(th) - g * x * x / (2 * (v0 * math.cos(th)) ** 2)
        worst = max(worst, abs((r.height >> Distance.Foot) - y))
    emit("  parabola-gap", repr(worst))

print("\n".join(LINES))
