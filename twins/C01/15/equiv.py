"""Equivalence digest for refactoring 3 (drag curve construction / lookup, drag_by_mach).

Fires a set of varied shots through the public API (Calculator.fire / set_weapon_zero /
barrel_elevation_for_target) and prints an exact (float.hex) digest of every row.
"""
import hashlib
import math
import warnings

from py_ballisticcalc import (Calculator, Shot, Weapon, Ammo, Atmo, Wind, DragModel, TableG1, TableG7,
                              RangeError, Distance, Velocity, Angular, Temperature, Pressure, Unit)
from py_ballisticcalc.conditions import Vacuum
from py_ballisticcalc.exceptions import ZeroFindingError

warnings.simplefilter("ignore")


def hx(v):
    if isinstance(v, float):
        return v.hex()
    return repr(v)


def row_digest(r):
    return ",".join((
        hx(r.time), hx(r.distance.raw_value), hx(r.velocity.raw_value), hx(r.mach), hx(r.height.raw_value),
        hx(r.target_drop.raw_value), hx(r.drop_adj.raw_value), hx(r.windage.raw_value),
        hx(r.windage_adj.raw_value), hx(r.look_distance.raw_value), hx(r.angle.raw_value),
        hx(r.density_factor), hx(r.drag), hx(r.energy.raw_value), hx(r.ogw.raw_value), repr(int(r.flag)),
    ))


def report(name, rows, extra=""):
    lines = [row_digest(r) for r in rows]
    h = hashlib.sha256("\n".join(lines).encode()).hexdigest()
    print(f"{name}: n={len(rows)} sha={h} {extra}")
    if lines:
        print("   first:", lines[0])
        print("   last: ", lines[-1])


def fire(name, calc, shot, rng, step=0, extra_data=False, time_step=0.0):
    try:
        res = calc.fire(shot, rng, step, extra_data=extra_data, time_step=time_step)
        report(name, list(res.trajectory))
    except RangeError as e:
        report(name, e.incomplete_trajectory,
               extra=f"RangeError reason={e.reason!r} last={hx(e.last_distance.raw_value) if e.last_distance is not None else None}")
    except Exception as e:  # pylint: disable=broad-except
        print(f"{name}: EXC {type(e).__name__}: {e}")


import py_ballisticcalc.drag_tables as drag_tables
from py_ballisticcalc.drag_model import DragDataPoint, make_data_points, DragModelMultiBC, BCPoint
from py_ballisticcalc.trajectory_calc._trajectory_calc import (
    calculate_curve, _get_only_mach_data, _calculate_by_curve_and_mach_list)


def digest(items):
    return hashlib.sha256("\n".join(items).encode()).hexdigest()


def probe_machs(machs):
    """table nodes, mid-points between nodes (ties), points just beside them, and values outside the table"""
    out = [-1.0, -0.0, 0.0, 1e-300, float("inf"), float("-inf"), float("nan"), 1e6]
    for lo, hi in zip(machs, machs[1:]):
        mid = (lo + hi) / 2
        out += [lo, math.nextafter(lo, -math.inf), math.nextafter(lo, math.inf), mid,
                math.nextafter(mid, -math.inf), math.nextafter(mid, math.inf), lo + (hi - lo) * 0.3]
    out += [machs[-1], machs[-1] * 1.5 + 0.1]
    return out


def curve_report(name, table):
    try:
        pts = make_data_points(table)
        curve = calculate_curve(pts)
        machs = _get_only_mach_data(pts)
    except Exception as e:  # pylint: disable=broad-except
        print(f"curve {name}: EXC {type(e).__name__}: {e}")
        return
    cur = [",".join(hx(v) for v in cp) + ":" + "".join(type(v).__name__[0] for v in cp) + ":" + type(cp).__name__
           for cp in curve]
    vals = []
    for m in probe_machs(machs):
        try:
            vals.append(hx(m) + "=" + hx(_calculate_by_curve_and_mach_list(machs, curve, m)))
        except Exception as e:  # pylint: disable=broad-except
            vals.append(hx(m) + "=EXC " + type(e).__name__)
    print(f"curve {name}: n={len(curve)} type={type(curve).__name__}/{type(machs).__name__} "
          f"machs={digest([hx(float(m)) for m in machs])[:16]} curve={digest(cur)} lookups({len(vals)})={digest(vals)}")
    print("   ", cur[0], "|", cur[len(cur) // 2], "|", cur[-1])
    print("   ", vals[0], vals[8], vals[11], vals[-1])


# 1. every shipped table
for tname in sorted(n for n in dir(drag_tables) if n.startswith("Table")):
    curve_report(tname, getattr(drag_tables, tname))

# 2. hand-made tables: sorted, unsorted, 2 / 3 / 4 points, equal CDs, int values, DragDataPoint input
curve_report("custom7", [{'Mach': m, 'CD': cd} for m, cd in
                         ((0.0, 0.2), (0.5, 0.21), (0.9, 0.25), (1.0, 0.38), (1.2, 0.40), (2.0, 0.31), (5.0, 0.2))])
curve_report("unsorted", [{'Mach': m, 'CD': cd} for m, cd in
                          ((0.0, 0.2), (2.0, 0.31), (0.9, 0.25), (1.2, 0.40), (0.5, 0.21), (5.0, 0.2), (1.0, 0.38),
                           (3.0, 0.27), (0.7, 0.22))])
curve_report("descending", [{'Mach': m, 'CD': cd} for m, cd in ((3.0, 0.2), (2.0, 0.3), (1.0, 0.4), (0.5, 0.25), (0.0, 0.2))])
curve_report("two", [{'Mach': 0.0, 'CD': 0.3}, {'Mach': 5.0, 'CD': 0.25}])
curve_report("three", [DragDataPoint(0.0, 0.3), DragDataPoint(1.0, 0.5), DragDataPoint(4.0, 0.2)])
curve_report("four_ints", [DragDataPoint(0, 1), DragDataPoint(1, 3), DragDataPoint(2, 2), DragDataPoint(4, 1)])
curve_report("flat", [{'Mach': float(i), 'CD': 0.3} for i in range(6)])
# 3. tables on which the construction fails: which exception, and from which piece
curve_report("one_point", [{'Mach': 1.0, 'CD': 0.3}])
curve_report("dup_first", [{'Mach': 0.0, 'CD': 0.3}, {'Mach': 0.0, 'CD': 0.4}, {'Mach': 1.0, 'CD': 0.5}])
curve_report("dup_middle", [{'Mach': 0.0, 'CD': 0.3}, {'Mach': 1.0, 'CD': 0.4}, {'Mach': 1.0, 'CD': 0.5}, {'Mach': 2.0, 'CD': 0.5}])
curve_report("dup_last", [{'Mach': 0.0, 'CD': 0.3}, {'Mach': 1.0, 'CD': 0.4}, {'Mach': 2.0, 'CD': 0.5}, {'Mach': 2.0, 'CD': 0.6}])
curve_report("dup_ints", [DragDataPoint(0, 1), DragDataPoint(0, 3), DragDataPoint(2, 2)])
curve_report("collinear_x", [{'Mach': 0.0, 'CD': 0.3}, {'Mach': 1.0, 'CD': 0.4}, {'Mach': 0.0, 'CD': 0.5}, {'Mach': 2.0, 'CD': 0.5}])
curve_report("bad_cd", [{'Mach': 0.0, 'CD': 0.3}, {'Mach': 1.0, 'CD': None}, {'Mach': 2.0, 'CD': 0.5}])
curve_report("nan_mach", [{'Mach': 0.0, 'CD': 0.3}, {'Mach': float('nan'), 'CD': 0.4}, {'Mach': 2.0, 'CD': 0.5}, {'Mach': 3.0, 'CD': 0.5}])
for exc_table in ([], ()):
    try:
        print("empty:", calculate_curve(list(exc_table)))
    except Exception as e:  # pylint: disable=broad-except
        print("empty: EXC", type(e).__name__, e)
print("mach-data empty:", _get_only_mach_data([]))

# 4. drag_by_mach of the engine as the reference of the property uses it (black-box coefficient function)
calc = Calculator()
dm7 = DragModel(0.22, TableG7, 168, 0.308, 1.22)
dm1 = DragModel(0.46, TableG1, 175, 0.308, 1.2)
custom = DragModel(0.3, [{'Mach': m, 'CD': cd} for m, cd in
                         ((0.0, 0.2), (0.5, 0.21), (0.9, 0.25), (1.0, 0.38), (1.2, 0.40), (2.0, 0.31), (5.0, 0.2))])
unsorted_dm = DragModel(1, [{'Mach': m, 'CD': cd} for m, cd in
                            ((0.0, 0.2), (2.0, 0.31), (0.9, 0.25), (1.2, 0.40), (0.5, 0.21), (5.0, 0.2), (1.0, 0.38))])
two_pt = DragModel(0.5, [{'Mach': 0.0, 'CD': 0.3}, {'Mach': 5.0, 'CD': 0.3}])
mbc = DragModelMultiBC([BCPoint(0.275, V=Velocity.MPS(800)), BCPoint(0.255, V=Velocity.MPS(500)),
                        BCPoint(0.26, V=Velocity.MPS(700))], TableG7, weight=178, diameter=.308)
for name, dm in (("g7", dm7), ("g1", dm1), ("custom", custom), ("unsorted", unsorted_dm), ("two", two_pt), ("mbc", mbc)):
    shot = Shot(Weapon(2, 12), Ammo(dm, Velocity.FPS(2800)), relative_angle=Angular.MOA(12),
                winds=[Wind(Velocity.MPH(9), Angular.OClock(3))])
    fire("traj_" + name, calc, shot, Distance.Yard(900), Distance.Yard(100))
    machs = [p.Mach for p in calc.cdm]
    vals = [hx(calc._calc.drag_by_mach(m)) for m in probe_machs(machs) if m == m]
    print(f"drag_by_mach {name}: n={len(vals)} sha={digest(vals)} {vals[2]} {vals[9]} {vals[-1]}")
print("nan drag:", hx(calc._calc.drag_by_mach(float("nan"))))

# 5. step refinement and altitude change with the custom table
for stp in (1.0, 0.5, 0.1):
    fire(f"custom_step_{stp}", Calculator({'max_calc_step_size_feet': stp}),
         Shot(Weapon(Distance.Centimeter(9), 10), Ammo(custom, Velocity.MPS(930)), relative_angle=Angular.Degree(20),
              atmo=Atmo.icao(Distance.Foot(3000)), cant_angle=Angular.Degree(8), look_angle=Angular.Degree(2)),
         Distance.Meter(2500), Distance.Meter(250))
fire("vacuum", calc, Shot(Weapon(0), Ammo(dm7, Velocity.FPS(2000)), relative_angle=Angular.Degree(3), atmo=Vacuum()),
     Distance.Foot(3000), Distance.Foot(500))
