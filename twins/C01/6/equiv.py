"""Equivalence digest for refactoring 3 (C01): reporting side - create_trajectory_row, the _new_* unit
constructors, get_correction, spin_drift and the stop-condition / row-recording code at the end of the
_integrate loop.

Run:  cd /tmp/wt/C01 && PYTHONPATH=/tmp/wt/C01 /venv/bin/python /tmp/twins2/C01/3/equiv.py
Prints a deterministic text; must be byte-identical on the clean tree and with patch.diff applied.
"""
import hashlib
import warnings

warnings.simplefilter("ignore")

from py_ballisticcalc import (Calculator, Shot, Weapon, Ammo, Atmo, Vacuum, Wind, DragModel,
                              TableG1, TableG7, Distance, Velocity, Angular, Temperature, Pressure,
                              Weight, Energy, RangeError, TrajFlag, Vector, Unit,
                              create_trajectory_row, get_correction, calculate_energy, calculate_ogw)


def dim(d):
    return (type(d).__name__, d.raw_value, type(d.raw_value).__name__, d.units.name)


def row_repr(r):
    return repr((r.time, dim(r.distance), dim(r.velocity), r.mach, dim(r.height), dim(r.target_drop),
                 dim(r.drop_adj), dim(r.windage), dim(r.windage_adj), dim(r.look_distance), dim(r.angle),
                 r.density_factor, r.drag, dim(r.energy), dim(r.ogw), r.flag, type(r.flag).__name__))


def digest(label, rows, show=2):
    h = hashlib.sha256()
    for r in rows:
        h.update(row_repr(r).encode())
        h.update(b"\n")
    print(f"{label}: n={len(rows)} sha={h.hexdigest()}")
    print("   flags:", repr([int(r.flag) for r in rows][:40]))
    idx = sorted(set(list(range(min(show, len(rows)))) + list(range(max(0, len(rows) - show), len(rows)))))
    for i in idx:
        print("   ", i, row_repr(rows[i]))
    if rows:
        r = rows[-1]
        print("    formatted:", r.formatted())
        print("    in_def_units:", r.in_def_units())


def fire(label, calc, shot, rng, *args, **kw):
    try:
        res = calc.fire(shot, rng, *args, **kw)
        digest(label, list(res.trajectory))
    except RangeError as e:
        print(f"{label}: RangeError reason={e.reason!r} msg={str(e)!r} "
              f"last={None if e.last_distance is None else dim(e.last_distance)!r}")
        digest(label + " (incomplete)", e.incomplete_trajectory)


def mk_shot(table=TableG7, bc=0.223, mv=2750.0, sh=2.0, twist=12.0, look=0.0, rel=0.0, cant=0.0,
            atmo=None, winds=None, zero_el=0.0, weight=168, diameter=0.308, length=1.282):
    dm = DragModel(bc, table, Weight.Grain(weight), Distance.Inch(diameter), Distance.Inch(length))
    weapon = Weapon(Distance.Inch(sh), Distance.Inch(twist), Angular.Degree(zero_el))
    ammo = Ammo(dm, Velocity.FPS(mv))
    return Shot(weapon, ammo, Angular.Degree(look), Angular.Degree(rel), Angular.Degree(cant),
                atmo, winds)


calc = Calculator()

# --- complete trajectories: all row fields, right / left / no twist (spin drift), look angles -------
s = mk_shot()
calc.set_weapon_zero(s, Distance.Yard(100))
fire("g7 right twist", calc, s, Distance.Yard(1000), Distance.Yard(100))
fire("g7 right twist extra", calc, s, Distance.Yard(1200), Distance.Yard(300), True)
s_l = mk_shot(twist=-9.0, zero_el=0.07)
fire("g7 left twist", calc, s_l, Distance.Yard(1000), Distance.Yard(100))
s_0 = mk_shot(twist=0.0, zero_el=0.07)
fire("g7 no twist", calc, s_0, Distance.Yard(600), Distance.Yard(100))
s_nl = mk_shot(length=0.0, zero_el=0.07)
fire("g7 no bullet length (stability 0)", calc, s_nl, Distance.Yard(600), Distance.Yard(100))
fire("vacuum (pressure 0 => stability 0)", calc, mk_shot(atmo=Vacuum(), rel=0.5),
     Distance.Yard(800), Distance.Yard(200), True)

winds = [Wind(Velocity.MPH(10), Angular.Degree(90), Distance.Yard(300)),
         Wind(Velocity.MPH(15), Angular.Degree(200), Distance.Yard(700)),
         Wind(Velocity.MPH(5), Angular.Degree(-45), Distance.Yard(2000))]
for look in (-25.0, -3.0, 0.0, 4.0, 33.0):
    sh = mk_shot(TableG1, 0.462, 2600.0, sh=2.5, twist=10.0, look=look, cant=7.0,
                 atmo=Atmo(Distance.Foot(4500), Pressure.InHg(25.1), Temperature.Fahrenheit(41), 60),
                 winds=winds)
    calc.set_weapon_zero(sh, Distance.Yard(200))
    fire(f"g1 wind/cant look={look}", calc, sh, Distance.Yard(900), Distance.Yard(150), True)

# time-step rows, tiny steps, different calc steps
fire("time step rows", calc, mk_shot(rel=70.0, mv=1200.0), Distance.Yard(400), Distance.Yard(100), True, 0.2)
fire("1 ft rows", calc, s, Distance.Foot(9), Distance.Foot(1))
fire("coarse engine", Calculator(_config={"max_calc_step_size_feet": 5.0}), s, Distance.Yard(500), Distance.Yard(100), True)
fire("fine engine", Calculator(_config={"max_calc_step_size_feet": 0.2}), s, Distance.Yard(200), Distance.Yard(100))

# fewer than two recorded rows => the final point is appended
fire("range 0", calc, s, Distance.Yard(0), Distance.Yard(100))
fire("step beyond range", calc, s, Distance.Yard(10), Distance.Yard(100))
rows = calc._calc._integrate(s, 300.0, 300.0, TrajFlag.NONE)  # what zero_angle asks for
digest("filter NONE (zero finding request)", rows)

# --- the three stop conditions, alone and competing ---------------------------------------------------
lob = mk_shot(TableG1, 0.12, 1100.0, rel=0.5)
fire("stop: min altitude (default limits)", calc, lob, Distance.Yard(3000), Distance.Yard(100), True)
fire("stop: min velocity", Calculator(_config={"cMinimumVelocity": 600.0}), lob, Distance.Yard(3000), Distance.Yard(100))
fire("stop: max drop", Calculator(_config={"cMaximumDrop": -20.0}), s, Distance.Yard(1500), Distance.Yard(100))
fire("stop: min altitude tight", Calculator(_config={"cMinimumAltitude": -3.0}), s, Distance.Yard(1500), Distance.Yard(100))
fire("stop: velocity and drop violated together -> velocity wins",
     Calculator(_config={"cMinimumVelocity": 5000.0, "cMaximumDrop": 10.0, "cMinimumAltitude": 1e6}),
     s, Distance.Yard(300), Distance.Yard(100))
fire("stop: drop and altitude violated together -> drop wins",
     Calculator(_config={"cMaximumDrop": 10.0, "cMinimumAltitude": 1e6}),
     s, Distance.Yard(300), Distance.Yard(100))
fire("stop: altitude only, at first step",
     Calculator(_config={"cMinimumAltitude": 1e6}), s, Distance.Yard(300), Distance.Yard(100), True)
fire("stop: limits exactly met are not violated (strict <)",
     Calculator(_config={"cMinimumVelocity": 0.0, "cMaximumDrop": -1e9, "cMinimumAltitude": -1e9}),
     s, Distance.Yard(300), Distance.Yard(100))
fire("stop: nan limits never trigger",
     Calculator(_config={"cMinimumVelocity": float("nan"), "cMaximumDrop": float("nan"),
                         "cMinimumAltitude": float("nan")}),
     s, Distance.Yard(300), Distance.Yard(100))
hi = mk_shot(atmo=Atmo(Distance.Foot(-1400), Pressure.InHg(31.0), Temperature.Celsius(30), 10), rel=-1.0)
fire("stop: min altitude below sea level start", calc, hi, Distance.Yard(1500), Distance.Yard(100))

# --- create_trajectory_row driven directly (exported function) ---------------------------------------
def direct(label, *args):
    try:
        r = create_trajectory_row(*args)
        print(f"{label}: {row_repr(r)}")
    except Exception as e:  # noqa
        print(f"{label}: {type(e).__name__}: {e}")


inf, nan = float("inf"), float("nan")
P, V = Vector(300.0, -1.5, 0.25), Vector(2000.0, -20.0, 1.0)
direct("row plain", 0.15, P, V, V.magnitude(), 1116.4, 0.01, 0.02, 1.05, 0.0009, 168.0, TrajFlag.RANGE)
direct("row x=0", 0.0, Vector(0.0, -0.2, 0.0), V, 2000.0, 1116.4, 0, 0.3, 1.0, 0.0, 168.0, TrajFlag.RANGE)
direct("row x=-0.0", 0.0, Vector(-0.0, -0.2, 0.1), V, 2000.0, 1116.4, 0, 0.3, 1.0, 0.0, 168.0, 0)
direct("row x<0", 0.5, Vector(-5.0, 2.0, 0.1), Vector(-10.0, 5.0, 0.0), 11.2, 1116.4, 0.1, -0.3, 0.9, 0.1, 55.0, 3)
direct("row ints", 1, Vector(100, 2, 0), Vector(1000, 0, 0), 1000, 1000, 0, 0, 1, 0, 100, 8)
direct("row mach=0", 0.1, P, V, 2000.0, 0.0, 0.0, 0.0, 1.0, 0.0, 168.0, 8)
direct("row look=inf", 0.1, P, V, 2000.0, 1116.4, 0.0, inf, 1.0, 0.0, 168.0, 8)
direct("row look=inf and mach=0", 0.1, P, V, 2000.0, 0.0, 0.0, inf, 1.0, 0.0, 168.0, 8)
direct("row look=pi/2", 0.1, P, V, 2000.0, 1116.4, 0.0, 1.5707963267948966, 1.0, 0.0, 168.0, 8)
direct("row nan position", 0.1, Vector(nan, nan, nan), V, 2000.0, 1116.4, 0.0, 0.1, 1.0, 0.0, 168.0, 8)
direct("row nan velocity", 0.1, P, Vector(nan, 1.0, 1.0), nan, 1116.4, 0.0, 0.1, 1.0, 0.0, 168.0, 8)
direct("row huge velocity (pow overflow)", 0.1, P, V, 1e200, 1116.4, 0.0, 0.1, 1.0, 0.0, 168.0, 8)
direct("row huge velocity and look=inf", 0.1, P, V, 1e200, 1116.4, 0.0, inf, 1.0, 0.0, 168.0, 8)
direct("row inf x", 0.1, Vector(inf, 1.0, 1.0), V, 2000.0, 1116.4, 0.0, 0.1, 1.0, 0.0, 168.0, 8)
direct("row none velocity", 0.1, P, V, None, 1116.4, 0.0, 0.1, 1.0, 0.0, 168.0, 8)
direct("row none x", 0.1, Vector(None, 1.0, 1.0), V, 2000.0, 1116.4, 0.0, 0.1, 1.0, 0.0, 168.0, 8)
direct("row tuple position", 0.1, (1.0, 2.0, 3.0), V, 2000.0, 1116.4, 0.0, 0.1, 1.0, 0.0, 168.0, 8)

for d, o in ((0, 1.0), (0.0, 1.0), (-0.0, 5.0), (100.0, 0.0), (100.0, -2.5), (-3.0, 1.0), (nan, 1.0),
             (1.0, nan), (inf, 1.0), (1e-320, 1.0), (5, 2), (False, 1.0), (True, 1.0)):
    print("get_correction", repr(d), repr(o), "->", repr(get_correction(d, o)))
for w, v in ((168.0, 2750.0), (0.0, 100.0), (55, 3200), (750.0, 0.0)):
    print("energy/ogw", w, v, repr(calculate_energy(w, v)), repr(calculate_ogw(w, v)))

# --- spin drift on its own --------------------------------------------------------------------------
eng = calc._calc
for sc, tw in ((1.8, 12.0), (1.8, -12.0), (0.0, 12.0), (0, 12.0), (1.8, 0.0), (1.8, 0), (-0.0, 12.0),
               (nan, 12.0), (1.8, nan), (nan, nan), (-0.5, 8.0)):
    eng.stability_coefficient, eng.twist = sc, tw
    print("spin_drift", repr(sc), repr(tw), "->",
          [repr(eng.spin_drift(t)) for t in (0.0, 0, 0.5, 1.0, 2.75)])
