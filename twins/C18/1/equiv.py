"""Equivalence digest for refactoring 1 (unit-name / value-string parsing in py_ballisticcalc/unit.py).

Prints a deterministic text; must be identical on the clean worktree and with the patch.
"""
import hashlib
import logging
import random

import py_ballisticcalc
from py_ballisticcalc import Unit, UnitAliases, PreferredUnits, loadImperialUnits
from py_ballisticcalc.unit import _parse_unit, _parse_value
from py_ballisticcalc import unit as unit_module
from py_ballisticcalc.logger import logger

# collect library log messages into the digest instead of stderr
records = []


class _Collect(logging.Handler):
    def emit(self, record):
        records.append(f"{record.levelname}:{record.getMessage()}")


for h in list(logger.handlers):
    logger.removeHandler(h)
logger.addHandler(_Collect())

lines = []


def out(*a):
    lines.append(" ".join(str(x) for x in a))


def show(v):
    """repr that distinguishes Unit members, None, dimensions"""
    if isinstance(v, Unit):
        return f"Unit.{v.name}({int(v)})"
    if isinstance(v, py_ballisticcalc.AbstractDimension):
        return f"{type(v).__name__}(raw={v.raw_value!r}, units=Unit.{v.units.name})"
    return repr(v)


def call(f, *a):
    try:
        return show(f(*a))
    except BaseException as e:  # noqa
        return f"!{type(e).__name__}:{e}"


def variants(s):
    yield s
    yield s.lower()
    yield s.upper()
    yield s.title()
    yield s.swapcase()
    yield "  " + s + " "
    yield "\t" + s.upper() + "\n"


loadImperialUnits()
py_ballisticcalc.reset_globals()

# 1. every enumeration name, every alias, every letter case, surrounding blanks
out("== _parse_unit: names")
for u in Unit:
    for v in variants(u.name):
        out(repr(v), "->", call(_parse_unit, v))
out("== _parse_unit: aliases")
for names, u in UnitAliases.items():
    for alias in names:
        for v in variants(alias):
            out(repr(v), "->", call(_parse_unit, v), "expected", u.name)
out("== _parse_unit: props names/symbols")
for u, props in py_ballisticcalc.UnitPropsDict.items():
    out(repr(props.name), "->", call(_parse_unit, props.name), repr(props.symbol), "->", call(_parse_unit, props.symbol))

# 2. preferred-unit slot names, unknown names, bad types
out("== _parse_unit: slots / unknown / bad types")
PreferredUnits.set(distance=Unit.Meter, angular=Unit.Radian, velocity="kmh")
for s in list(PreferredUnits.__dataclass_fields__) + ["Distance ", " ANGULAR", "", " ", "nope", "rad ian", "radians",
                                                      "0", "inchh", "set", "defaults", "key", "name", "_value_",
                                                      "__members__", "ft lb", "ft·lb", "°", "°f", "k", "K", "j"]:
    out(repr(s), "->", call(_parse_unit, s))
for bad in (None, 5, 1.5, b"inch", Unit.Inch, ("inch",), ["inch"]):
    out(repr(bad), "->", call(_parse_unit, bad))
loadImperialUnits()

# 3. _find_unit_by_alias directly (private but part of the mechanism)
out("== _find_unit_by_alias")
f = unit_module._find_unit_by_alias
for s in ("rad", "RAD", "j", "J", "mmhg", "mmHg", "", "ft", "feet"):
    out(repr(s), "->", call(f, s, UnitAliases))
custom = {("A", "b"): Unit.Radian, ("b", "c"): Unit.Inch, (): Unit.Foot, ("d",): None}
for s in ("a", "A", "b", "c", "d", "e", ""):
    out("custom", repr(s), "->", call(f, s, custom))
out("empty", call(f, "x", {}))

# 4. value strings: numeric prefix x alias, bare numbers, garbage
out("== _parse_value")
numbers = ["10", "-10", "10.", ".5", "-.5", "0.25", "-0", "1 000", " 1 2 . 5 ", "007", "1e3", "+5", "--5", "5-", "1.2.3",
           ".", "-", "", " ", "5\n", "5\n\n", "\n5", "5.\n", "5 \n", "1_000", "١٢", "5,5", "nan", "inf", "-inf", "1/2"]
prefs = [Unit.FootPound, Unit.Radian, "footpound", "ft*lb", "energy", "distance", "RADIAN", " Rad ", "nope", "", None, 5,
         Unit.Inch, "°F"]
for n in numbers:
    for p in prefs:
        out(repr(n), repr(p), "->", call(_parse_value, n, p))
for n in (10, -2.5, 0, True, 1e300, float("inf")):
    for p in prefs:
        out(repr(n), repr(p), "->", call(_parse_value, n, p))
for bad in (None, b"5", [5], (5,), {"v": 5}, 5j):
    out(repr(bad), "->", call(_parse_value, bad, Unit.Inch))

out("== _parse_value: prefix x every name/alias")
for u in Unit:
    for num in ("2", "-3.5", ".25", "7."):
        for v in (u.name, u.name.upper(), " " + u.name.lower() + " "):
            out(repr(num + v), "->", call(_parse_value, num + v, None))
            out(repr(num + " " + v), "->", call(_parse_value, num + " " + v, "nope"))
for names, u in UnitAliases.items():
    for alias in names:
        for v in (alias, alias.upper(), alias.lower()):
            out(repr("1.5" + v), "->", call(_parse_value, "1.5" + v, Unit.Inch), "expected", u.name)
for s in ("5 distance", "5velocity", "5 nope", "5 5", "5.5.5", "5-", "5 -", "5in\n", "5in\nch", "5\nin", "5 ft lb",
          "5ft\n", "-5 Foot-Pound", "3 RAD", "3rad ", "3 R a d", "1.e5m", "1e5m", "5e", "5E", "0x10", "5 °f", "5°"):
    out(repr(s), "->", call(_parse_value, s, Unit.Yard))

# 5. deterministic fuzz over the characters that matter to the number/alias split
out("== fuzz")
rng = random.Random(18)
alphabet = "0159.-- \n\tinfmrad°JK"
for _ in range(6000):
    s = "".join(rng.choice(alphabet) for _ in range(rng.randint(0, 7)))
    out(repr(s), "->", call(_parse_value, s, rng.choice([Unit.Radian, "mil", "zz"])))

# 6. preferred-unit setters fed with strings
out("== PreferredUnits.set with strings")
for u in Unit:
    PreferredUnits.defaults()
    PreferredUnits.set(twist=u.name.swapcase(), drop=" %s " % u.name.upper())
    out(u.name, show(PreferredUnits.twist), show(PreferredUnits.drop))
PreferredUnits.defaults()
PreferredUnits.set(distance="nope", velocity="", angular="rad", bogus="inch", drop=5, ogw=None, weight="weight")
out(repr(PreferredUnits).replace("\n", "; "))
PreferredUnits.defaults()
loadImperialUnits()

out("== log records")
lines.extend(records)

text = "\n".join(lines)
print("lines", len(lines))
print("sha256", hashlib.sha256(text.encode("utf-8")).hexdigest())
# a readable sample as well as the digest
for ln in lines[:12] + lines[-12:]:
    print(ln)
sections = {}
cur = None
for ln in lines:
    if ln.startswith("== "):
        cur = ln
        sections[cur] = hashlib.sha256()
    elif cur:
        sections[cur].update(ln.encode("utf-8") + b"\n")
for k, v in sections.items():
    print(k, v.hexdigest()[:16])
