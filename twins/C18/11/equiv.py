"""Equivalence digest for C18 / round 4 / refactoring 2 (PreferredUnits.defaults() and the preset loaders).

Prints a deterministic text; must be identical on the clean worktree and with the patch applied.
"""
import logging
import os
import tempfile
import warnings

warnings.simplefilter("ignore")

import py_ballisticcalc
from py_ballisticcalc import (Calculator, InterfaceConfigDict, DragModel, TableG7, Ammo, Weapon, Shot, Distance,
                              Velocity, Weight, Angular, Unit, UnitAliases, PreferredUnits, basicConfig,
                              loadImperialUnits, loadMetricUnits, loadMixedUnits, logger,
                              set_global_max_calc_step_size, get_global_max_calc_step_size, reset_globals)
from py_ballisticcalc.unit import _parse_unit, _parse_value


class ListHandler(logging.Handler):
    def __init__(self):
        super().__init__(logging.DEBUG)
        self.lines = []

    def emit(self, record):
        msg = record.getMessage()
        if "Found " in msg and " at " in msg:      # contains an absolute path: keep only the file name
            msg = msg.split(" at ")[0]
        self.lines.append(f"{record.levelname}:{msg}")


handler = ListHandler()
for _h in list(logger.handlers):    # keep the digest on stdout only
    logger.removeHandler(_h)
logger.addHandler(handler)
logger.propagate = False
logger.setLevel(logging.DEBUG)

FIELDS = tuple(PreferredUnits.__dataclass_fields__)


def state(cls=PreferredUnits):
    return ", ".join(f"{name}={getattr(cls, name)!r}/{int(getattr(cls, name))}" for name in FIELDS)


def show(title):
    print(f"{title}: {state()} | step={get_global_max_calc_step_size().raw_value!r}"
          f" {get_global_max_calc_step_size().units!r}")
    if handler.lines:
        print("   log:", handler.lines)
        handler.lines.clear()


def back_to_defaults():
    PreferredUnits.defaults()
    reset_globals()


back_to_defaults()
show("defaults at start")
print(repr(PreferredUnits))
print("field defaults", [(n, repr(f.default)) for n, f in PreferredUnits.__dataclass_fields__.items()])
print("instance", PreferredUnits())

# ---- presets in every order, defaults() in between and not in between
for name, loader in (("imperial", loadImperialUnits), ("metric", loadMetricUnits), ("mixed", loadMixedUnits)):
    loader()
    show(f"after {name}")
    print("   return of defaults():", PreferredUnits.defaults())
    show(f"after {name} + defaults()")
for seq in ((loadMetricUnits, loadImperialUnits), (loadMixedUnits, loadMetricUnits, loadMixedUnits),
            (loadImperialUnits, loadMixedUnits)):
    for loader in seq:
        loader()
    show("after " + ">".join(f.__name__ for f in seq))
back_to_defaults()
print("loader names", loadImperialUnits.__name__, loadMetricUnits.__name__, loadMixedUnits.__name__,
      py_ballisticcalc._load_imperial_units is loadImperialUnits)
print("loader returns", loadImperialUnits(), loadMetricUnits(), loadMixedUnits())
back_to_defaults()

# ---- a preset does not touch the global step; a config file with a calculator section does
set_global_max_calc_step_size(Distance.Meter(0.2))
loadMetricUnits()
show("step 0.2 m then metric")
back_to_defaults()
show("defaults again")

# ---- set(): names of every unit and every alias in several letter cases, unknown names, wrong types
for unit in Unit:
    for spelling in (unit.name, unit.name.lower(), unit.name.upper(), f"  {unit.name.swapcase()} "):
        PreferredUnits.defaults()
        PreferredUnits.set(twist=spelling)
        assert PreferredUnits.twist == _parse_unit(spelling)
        print(f"set twist={spelling!r} -> {PreferredUnits.twist!r}", handler.lines)
        handler.lines.clear()
for aliases, unit in UnitAliases.items():
    for alias in aliases:
        got = [_parse_unit(a) for a in (alias, alias.upper(), alias.lower(), alias.title(), f" {alias}\t")]
        print(f"alias {alias!r}: {got!r} expected {unit!r}")
PreferredUnits.defaults()
PreferredUnits.set(distance="parsec", velocity=None, nonsense=Unit.Meter, drop=Unit.Centimeter, ogw="KG",
                   energy=31, angular=True, weight="distance")
show("after odd set()")
PreferredUnits.defaults()
show("after defaults()")
for text, pref in (("10", "distance"), ("1.5 FT", Unit.Meter), (" -3.e0 Mi. ", "yard"), (".5Rad", "degree"),
                   (7, "TWIST"), (2.5, Unit.KT), ("3 lb", None), ("12 furlong", Unit.Meter), ("x", Unit.Meter),
                   ("4", "furlong")):
    try:
        v = _parse_value(text, pref)
        print(f"value {text!r} {pref!r} -> {type(v).__name__} {v.raw_value!r} {v.units!r}")
    except Exception as e:  # pylint: disable=broad-except
        print(f"value {text!r} {pref!r} -> {type(e).__name__}: {e}")


# ---- defaults() on a subclass only touches the subclass
class MyUnits(PreferredUnits):
    pass


loadMetricUnits()
MyUnits.defaults()
print("subclass", state(MyUnits))
show("base after subclass defaults()")
print("own attributes of subclass", sorted(k for k in vars(MyUnits) if not k.startswith("__")))
back_to_defaults()

# ---- basicConfig: arguments, files
basicConfig(preferred_units={"distance": Unit.Meter, "velocity": "mps"}, max_calc_step_size=Unit.Meter(0.3))
show("basicConfig(manual)")
try:
    basicConfig("x.toml", preferred_units={"distance": Unit.Meter})
except ValueError as e:
    print("ValueError", e)
back_to_defaults()
with tempfile.TemporaryDirectory() as tmp:
    path = os.path.join(tmp, "custom.toml")
    with open(path, "w", encoding="utf-8") as fp:
        fp.write('[pybc.preferred_units]\ndistance = "KiloMeter"\nvelocity = "km/H"\nfoo = "meter"\ntwist = "nope"\n'
                 '[pybc.calculator.max_calc_step_size]\nvalue = 10\nunits = "CM"\n')
    basicConfig(path)
    show("basicConfig(file)")
    with open(path, "w", encoding="utf-8") as fp:
        fp.write('[pybc.calculator.max_calc_step_size]\nvalue = -1\nunits = "inch"\n')
    basicConfig(path)
    show("basicConfig(file with bad step)")
    loadImperialUnits()
    show("imperial after file")
back_to_defaults()
show("defaults at the end")

# ---- the preferred distance unit decides how bare numbers given to a calculator are read
dm = DragModel(0.223, TableG7, Weight.Grain(168), Distance.Inch(0.308), Distance.Inch(1.282))
for loader in (PreferredUnits.defaults, loadMetricUnits, loadImperialUnits, loadMixedUnits, PreferredUnits.defaults):
    loader()
    shot = Shot(weapon=Weapon(2, 12), ammo=Ammo(dm, 800), relative_angle=0.1)
    calc = Calculator(_config=InterfaceConfigDict(max_calc_step_size_feet=1.0))
    hit = calc.fire(shot, 300, 100)
    print(getattr(loader, "__name__", "?"), [(repr(r.distance.raw_value), repr(r.height.raw_value),
                                              repr(r.velocity.raw_value), str(r.distance)) for r in hit.trajectory])
back_to_defaults()
