"""Equivalence digest for C18 / round 3 / refactoring 1: discovery of the pybc.toml config file.

Drives basicConfig()/_load_config through the public API from different working directories and prints
which file was picked (relative to a scratch tree, never the checkout path) and the settings that resulted.
"""
import logging
import os
import shutil
import tempfile
import warnings

warnings.simplefilter("ignore")

import py_ballisticcalc as pbc
from py_ballisticcalc import (basicConfig, PreferredUnits, Calculator, Unit, Distance, logger,
                              get_global_max_calc_step_size, set_global_max_calc_step_size, reset_globals)

START_CWD = os.getcwd()
ROOT = os.path.realpath(tempfile.mkdtemp(prefix="c18r1_"))


class Capture(logging.Handler):
    def __init__(self):
        super().__init__(level=logging.DEBUG)
        self.lines = []

    def emit(self, record):
        msg = record.getMessage()
        if msg.startswith("Found "):
            # "Found <basename> at <dirname>": keep the directory only if it is inside the scratch tree
            head, _, where = msg.partition(" at ")
            where = os.path.realpath(where)
            if where == ROOT or where.startswith(ROOT + os.sep):
                where = "<root>/" + os.path.relpath(where, ROOT).replace(os.sep, "/")
            else:
                where = "<outside scratch tree>"
            msg = f"{head} at {where}"
        self.lines.append(f"{record.levelname}:{msg}")


capture = Capture()
logger.addHandler(capture)
for h in list(logger.handlers):
    if h is not capture:
        logger.removeHandler(h)
logger.setLevel(logging.DEBUG)


def write(relpath, text):
    path = os.path.join(ROOT, relpath)
    os.makedirs(os.path.dirname(path), exist_ok=True)
    with open(path, "w", encoding="utf-8") as fp:
        fp.write(text)
    return path


def toml(distance, velocity, step=None, extra=""):
    text = f"[pybc.preferred_units]\ndistance = '{distance}'\nvelocity = '{velocity}'\n{extra}"
    if step is not None:
        value, units = step
        text += f"\n[pybc.calculator]\nmax_calc_step_size = {{ value = {value}, units = \"{units}\" }}\n"
    return text


def state():
    calc = Calculator()
    return (f"distance={PreferredUnits.distance!r} velocity={PreferredUnits.velocity!r} "
            f"drop={PreferredUnits.drop!r} "
            f"global_step_ft={(get_global_max_calc_step_size() >> Distance.Foot)!r} "
            f"new_calc_step={calc._calc.get_calc_step()!r}")


def scenario(title, cwd=None, **kwargs):
    PreferredUnits.defaults()
    reset_globals()
    capture.lines.clear()
    print(f"== {title}")
    try:
        if cwd is not None:
            os.chdir(os.path.join(ROOT, cwd))
        try:
            basicConfig(**kwargs)
            print("   result: ok")
        except Exception as exc:  # pylint: disable=broad-except
            print(f"   result: {type(exc).__name__}")
    finally:
        os.chdir(START_CWD)
    for line in capture.lines:
        print("   log:", line)
    print("   state:", state())


try:
    # scratch tree
    write("a/pybc.toml", toml("meter", "MPS", (0.25, "FOOT")))
    os.makedirs(os.path.join(ROOT, "a/b/c"))
    write("both/.pybc.toml", toml("Kilometer", "kmh", (3, "inch")))
    write("both/pybc.toml", toml("Mile", "mph", (9, "inch")))
    write("plain/pybc.toml", toml(" FT ", "Kt", (10, "cm")))
    write("near/pybc.toml", toml("line", "fps", (1, "ft")))
    write("near/x/y/.pybc.toml", toml("nmi", "m/s", (2, "Centimeter")))
    os.makedirs(os.path.join(ROOT, "near/x/y/z"))
    os.makedirs(os.path.join(ROOT, "empty/deep/deeper"))
    os.makedirs(os.path.join(ROOT, "dirnamed/.pybc.toml"))          # a directory with the config's name
    write("dirnamed/pybc.toml", toml("yard", "fps"))
    write("dirnamed2/sub/keep.txt", "")
    os.makedirs(os.path.join(ROOT, "dirnamed2/pybc.toml"))          # only a directory named pybc.toml
    write("bad/pybc.toml", toml("parsec", "warp", (0.5, "cubit"), extra="nonsense = 'Meter'\ndrop = 'CM'\n"))
    write("neg/pybc.toml", toml("m", "mps", (-1, "foot")))
    write("nosect/pybc.toml", "title = 'nothing here'\n")
    write("nocalc/.pybc.toml", "[pybc.preferred_units]\ndistance = 'RADIAN'\n")
    explicit = write("elsewhere/custom.toml", toml("centimeter", "KMH", (0.125, "Yard")))

    scenario("config in a parent directory (walk up two levels)", cwd="a/b/c")
    scenario("config in the working directory itself", cwd="a")
    scenario("both names present: .pybc.toml takes precedence", cwd="both")
    scenario("only pybc.toml present; blanks and upper case in unit names", cwd="plain")
    scenario("nearest directory wins over a farther one", cwd="near/x/y/z")
    scenario("farther one is used when started above the nearer one", cwd="near/x")
    scenario("nothing up to the root from cwd: falls back to the package location", cwd="empty/deep/deeper")
    scenario("explicit file name beats the working directory", cwd="both", filename=explicit)
    scenario("explicit file name, suppress warnings", cwd="nosect", filename=os.path.join(ROOT, "nosect/pybc.toml"),
             suppress_warnings=True)
    scenario("a directory called .pybc.toml is 'found' first and cannot be opened", cwd="dirnamed")
    scenario("a directory called pybc.toml found from a child", cwd="dirnamed2/sub")
    scenario("unknown unit names and unknown slot leave settings unchanged", cwd="bad")
    scenario("non-positive step in file is rejected", cwd="neg")
    scenario("file without pybc section", cwd="nosect")
    scenario("file without calculator section; radian by name", cwd="nocalc")
    scenario("file name and mapping together", cwd="a", filename=explicit, preferred_units={"distance": Unit.Meter})
    scenario("mapping only: file search is not performed", cwd="a",
             preferred_units={"distance": "mi.", "velocity": Unit.KT}, max_calc_step_size=Distance.Inch(3))

    # the working directory is consulted on every call, even with an explicit file: a vanished cwd raises
    gone = os.path.join(ROOT, "gone")
    os.makedirs(gone)
    PreferredUnits.defaults()
    reset_globals()
    capture.lines.clear()
    print("== working directory deleted, explicit file name given")
    os.chdir(gone)
    os.rmdir(gone)
    try:
        basicConfig(filename=explicit)
        print("   result: ok")
    except Exception as exc:  # pylint: disable=broad-except
        print(f"   result: {type(exc).__name__}")
    finally:
        os.chdir(START_CWD)
    for line in capture.lines:
        print("   log:", line)
    print("   state:", state())

    # global default step affects only calculators created afterwards
    PreferredUnits.defaults()
    reset_globals()
    before = Calculator()
    os.chdir(os.path.join(ROOT, "a/b"))
    basicConfig()
    os.chdir(START_CWD)
    after = Calculator()
    own = Calculator(_config={"max_calc_step_size_feet": 2.0})
    reset_globals()
    later = Calculator()
    print("== independence:", repr(before._calc.get_calc_step()), repr(after._calc.get_calc_step()),
          repr(own._calc.get_calc_step()), repr(later._calc.get_calc_step()))
    for bad in (0, -0.5, Distance.Meter(0)):
        try:
            set_global_max_calc_step_size(bad)
            print("   set", bad, "accepted")
        except ValueError as exc:
            print("   set", bad, "->", type(exc).__name__, exc)
    print("   final:", state())
finally:
    os.chdir(START_CWD)
    shutil.rmtree(ROOT, ignore_errors=True)
