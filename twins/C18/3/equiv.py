"""Equivalence digest for refactoring 3 (config creation, global step, how TrajectoryCalc consumes the settings).

Prints a deterministic text; must be identical on the clean worktree and with the patch.
"""
import collections
import hashlib
import itertools
import logging

import py_ballisticcalc
from py_ballisticcalc import (Unit, PreferredUnits, Distance, Angular, Velocity, Calculator, Shot, Weapon, Ammo, Atmo,
                              Wind, DragModel, TableG7, TableG1, RangeError, ZeroFindingError, loadImperialUnits,
                              get_global_max_calc_step_size, set_global_max_calc_step_size, reset_globals,
                              InterfaceConfigDict)
from py_ballisticcalc import trajectory_calc
from py_ballisticcalc.interface_config import create_interface_config, Config
from py_ballisticcalc.logger import logger

records = []


class _Collect(logging.Handler):
    def emit(self, record):
        records.append(f"{record.levelname}:{record.getMessage()}")


for h in list(logger.handlers):
    logger.removeHandler(h)
logger.addHandler(_Collect())
logger.setLevel(logging.DEBUG)  # the engine logs its iteration count per integration at DEBUG

lines = []


def out(*a):
    lines.append(" ".join(str(x) for x in a))


def err(e):
    return f"!{type(e).__name__}:{e}"


def call(f, *a, **kw):
    try:
        return repr(f(*a, **kw))
    except BaseException as e:  # noqa
        return err(e)


def row_key(r):
    return (r.time, r.distance.raw_value, r.velocity.raw_value, r.mach, r.height.raw_value, r.target_drop.raw_value,
            r.drop_adj.raw_value, r.windage.raw_value, r.windage_adj.raw_value, r.look_distance.raw_value,
            r.angle.raw_value, r.density_factor, r.drag, r.energy.raw_value, r.ogw.raw_value, int(r.flag))


def digest(rows):
    h = hashlib.sha256()
    for r in rows:
        h.update(repr(row_key(r)).encode())
    return h.hexdigest()[:20]


loadImperialUnits()
PreferredUnits.defaults()
reset_globals()

SETTINGS = dict(
    max_calc_step_size_feet=0.3,
    chart_resolution=0.7,
    cZeroFindingAccuracy=0.0001,
    cMinimumVelocity=900.0,
    cMaximumDrop=-40.0,
    cMaxIterations=7,
    cGravityConstant=-30.0,
    cMinimumAltitude=-20.0,
)

# 1. all 256 subsets of the 8 settings, in two key orders, under two values of the global step
out("== subsets")
keys = list(SETTINGS)
for global_step in (None, Distance.Foot(1.25)):
    reset_globals()
    if global_step is not None:
        set_global_max_calc_step_size(global_step)
    for n in range(len(keys) + 1):
        for sub in itertools.combinations(keys, n):
            cfg = {k: SETTINGS[k] for k in sub}
            rev = {k: SETTINGS[k] for k in reversed(sub)}
            a = Calculator(_config=cfg)._calc._config
            b = create_interface_config(rev)
            assert isinstance(a, Config)
            out(",".join(k[:6] for k in sub) or "-", "|", tuple(a), "|", a == b, a._fields == b._fields)
reset_globals()

# 2. things that are not a plain dict of known settings
out("== odd configs")
odd = [None, {}, [], [("cMaxIterations", 3)], (), "cMaxIterations", 0, 5, Config(1, 2, 3, 4, 5, 6, 7, 8),
       collections.OrderedDict(cMaxIterations=3, cGravityConstant=-1.0),
       collections.defaultdict(float, cMaximumDrop=-1.0),
       InterfaceConfigDict(cMinimumVelocity=1.0),
       {"cMaxIterations": None}, {"cGravityConstant": "g"},
       {"unknown": 1}, {"unknown": 1, "other": 2, "cMaxIterations": 1}, {"cMaxIterations": 1, "zzz": 0, "aaa": 0},
       {1: 2}, {"cMaxIterations": 2, 3: 4}, {"max_calc_step_size_feet": -1.0}, {"max_calc_step_size_feet": 0}]
for cfg in odd:
    out(repr(cfg), "->", call(create_interface_config, cfg))
    out("   Calculator:", call(lambda c=cfg: tuple(Calculator(c)._calc._config)))
out("no argument ->", call(create_interface_config))
given = {"cMaxIterations": 9}
create_interface_config(given)
Calculator(given)
out("argument left untouched:", given)

# 3. histories of the global step interleaved with calculator creation
out("== global step histories")
made = []


def snap(label):
    made.append((label, Calculator()))
    out(label, "| global_ft", repr(trajectory_calc._globalMaxCalcStepSizeFeet),
        "| get", call(lambda: (get_global_max_calc_step_size().raw_value, get_global_max_calc_step_size().units.name)),
        "| all so far:", [c._calc._config.max_calc_step_size_feet for _, c in made])


def setter(v):
    shown = f"{type(v).__name__}(raw={v.raw_value!r},{v.units.name})" if hasattr(v, "raw_value") else repr(v)
    out("   set", shown, "->", call(set_global_max_calc_step_size, v))


snap("initial")
for v in (1, Distance.Foot(0.25), 0, 0.0, -0.0, -1, Distance.Meter(-1), Distance.Inch(0), float("nan"), float("inf"),
          True, False, "1ft", None, Angular.Degree(1), Velocity.FPS(1), Unit.Foot, Distance.Centimeter(1), 1e-9):
    label = f"after {type(v).__name__} #{len(made)}"
    setter(v)
    snap(label)
reset_globals()
snap("after reset")
PreferredUnits.distance = Unit.Meter
setter(0.1)
snap("0.1 with preferred meter")
PreferredUnits.distance = Unit.Inch
setter(3)
snap("3 with preferred inch")
out("   get with preferred inch", call(lambda: get_global_max_calc_step_size().units.name))
PreferredUnits.defaults()
setter(Distance.Foot(0.2))
explicit = Calculator({"max_calc_step_size_feet": 0.9})
out("explicit step wins over global:", explicit._calc._config.max_calc_step_size_feet)
reset_globals()
reset_globals()
snap("after double reset")
out("module default:", repr(trajectory_calc._globalMaxCalcStepSizeFeet), repr(trajectory_calc._globalChartResolution),
    repr(trajectory_calc._globalUsePowderSensitivity))
trajectory_calc._globalChartResolution = 0.4
out("chart resolution read at creation:", Calculator()._calc._config.chart_resolution)
reset_globals()
out("reset_globals leaves chart resolution:", Calculator()._calc._config.chart_resolution)
trajectory_calc._globalChartResolution = 0.2

# 4. get_calc_step
out("== get_calc_step")
for cfg in ({}, {"max_calc_step_size_feet": 0.3}, {"max_calc_step_size_feet": -2.0},
            {"max_calc_step_size_feet": float("nan")}, {"max_calc_step_size_feet": 7}):
    tc = Calculator(cfg)._calc
    for s in ("default", 0, 0.0, -0.0, False, 0.1, 0.3, 10, -1, float("nan"), float("inf"), 1):
        out(cfg, repr(s), "->", call(tc.get_calc_step) if s == "default" else call(tc.get_calc_step, s))

# 5. the settings govern the computation (and only of their own calculator)
out("== trajectories")
dm = DragModel(0.223, TableG7, 168, 0.308, 1.282)


def new_shot(**kw):
    return Shot(weapon=Weapon(Distance.Inch(2), Distance.Inch(12)), ammo=Ammo(dm, Velocity.FPS(2600)), **kw)


def fire(calc, rng=Distance.Yard(100), step=Distance.Yard(25), extra=True, time_step=0.0, **kw):
    del records[:]
    try:
        hit = calc.fire(new_shot(**kw), rng, step, extra_data=extra, time_step=time_step)
        rows, tag = hit.trajectory, "ok"
    except RangeError as e:
        rows, tag = e.incomplete_trajectory, f"RangeError[{e.reason}] last={e.last_distance.raw_value!r} msg={e}"
    xs = [r.distance.raw_value for r in rows]
    gaps = [b - a for a, b in zip(xs, xs[1:])]
    return (f"{tag} | n={len(rows)} maxgap_in={max(gaps) if gaps else None!r} last=({rows[-1].time!r},"
            f" {rows[-1].distance.raw_value!r}, {rows[-1].height.raw_value!r}, {rows[-1].velocity.raw_value!r})"
            f" sha={digest(rows)} log={records}")


calcs = collections.OrderedDict()
calcs["default"] = Calculator()
calcs["step 0.05"] = Calculator({"max_calc_step_size_feet": 0.05})
calcs["step 2"] = Calculator({"max_calc_step_size_feet": 2.0})
calcs["gravity 0"] = Calculator({"cGravityConstant": 0.0})
calcs["gravity -10"] = Calculator({"cGravityConstant": -10.0})
calcs["gravity +5"] = Calculator({"cGravityConstant": 5.0})
calcs["minvel 2500"] = Calculator({"cMinimumVelocity": 2500.0})
calcs["maxdrop -0.2"] = Calculator({"cMaximumDrop": -0.2})
calcs["minalt -0.2"] = Calculator({"cMinimumAltitude": -0.2})
calcs["minalt 99.9"] = Calculator({"cMinimumAltitude": 99.9})
calcs["all three at once"] = Calculator({"cMinimumVelocity": 1e9, "cMaximumDrop": 1e9, "cMinimumAltitude": 1e9})
calcs["drop+alt at once"] = Calculator({"cMaximumDrop": 1e9, "cMinimumAltitude": 1e9})
calcs["vel+alt at once"] = Calculator({"cMinimumVelocity": 1e9, "cMinimumAltitude": 1e9})
calcs["alt only at once"] = Calculator({"cMinimumAltitude": 1e9})
calcs["nan limits"] = Calculator({"cMinimumVelocity": float("nan"), "cMaximumDrop": float("nan"),
                                  "cMinimumAltitude": float("nan")})
calcs["equal-to-limit"] = Calculator({"cMinimumVelocity": 0.0, "cMaximumDrop": -1e9, "cMinimumAltitude": -1e9})
for _ in range(2):  # second pass: earlier use of one calculator must not influence another
    for name, c in calcs.items():
        out(name, "| extra:", fire(c, time_step=1e-9))
        out(name, "| rows :", fire(c, extra=False))
    calcs = collections.OrderedDict(reversed(list(calcs.items())))
out("alt 100ft, minalt 99.9:", fire(calcs["minalt 99.9"], Distance.Yard(300), atmo=Atmo(altitude=Distance.Foot(100))))
out("alt 100ft, default   :", fire(calcs["default"], Distance.Yard(300), atmo=Atmo(altitude=Distance.Foot(100))))
out("uphill+wind+cant step 2:", fire(calcs["step 2"], Distance.Yard(300), look_angle=Angular.Degree(20),
                                     cant_angle=Angular.Degree(5), time_step=0.01,
                                     winds=[Wind(Velocity.MPH(10), Angular.Degree(90), Distance.Yard(150)),
                                            Wind(Velocity.MPH(5), Angular.Degree(270), Distance.Yard(500))]))
out("steep shot, default    :", fire(calcs["default"], Distance.Yard(2000), Distance.Yard(500), extra=False,
                                     relative_angle=Angular.Degree(60)))
out("steep shot, maxdrop    :", fire(Calculator({"cMaximumDrop": -100.0}), Distance.Yard(5000), Distance.Yard(500),
                                     extra=False, relative_angle=Angular.Degree(30)))
out("record step below calc step:", fire(calcs["step 2"], Distance.Foot(30), Distance.Foot(0.25), extra=False))
out("default trajectory_step:", call(lambda: digest(calcs["default"].fire(new_shot(), Distance.Yard(50)).trajectory)))

# 6. zero finding: accuracy and iteration cap
out("== zero finding")
g1 = DragModel(0.5, TableG1, 150, 0.308, 1.2)
for cfg in ({}, {"cMaxIterations": 1}, {"cMaxIterations": 2}, {"cMaxIterations": 0}, {"cMaxIterations": -3},
            {"cMaxIterations": 2.5}, {"cMaxIterations": 40, "cZeroFindingAccuracy": 1e-9},
            {"cZeroFindingAccuracy": 1.0}, {"cZeroFindingAccuracy": 0.01}, {"cZeroFindingAccuracy": 0.0},
            {"cZeroFindingAccuracy": -1.0}, {"cZeroFindingAccuracy": float("nan")},
            {"cZeroFindingAccuracy": float("inf")}, {"cGravityConstant": -10.0}, {"max_calc_step_size_feet": 3.0},
            {"cMinimumVelocity": 2500.0}, {"cZeroFindingAccuracy": 1e-7, "cMaxIterations": 3}):
    calc = Calculator(cfg)
    for case, (dist, look) in enumerate(((Distance.Yard(100), None), (Distance.Meter(400), Angular.Degree(10)))):
        shot = Shot(weapon=Weapon(Distance.Inch(2), Distance.Inch(10)), ammo=Ammo(g1, Velocity.FPS(2700)),
                    look_angle=look)
        del records[:]
        try:
            e1 = calc.barrel_elevation_for_target(shot, dist)
            res = f"elev={e1.raw_value!r}"
            e2 = calc.set_weapon_zero(shot, dist)
            res += f" zero={e2.raw_value!r} stored={shot.weapon.zero_elevation.raw_value!r}"
        except ZeroFindingError as e:
            res = (f"ZeroFindingError err={e.zero_finding_error!r} it={e.iterations_count!r}"
                   f" last={e.last_barrel_elevation.raw_value!r} msg={e}")
        except RangeError as e:
            res = f"RangeError[{e.reason}] n={len(e.incomplete_trajectory)} msg={e}"
        out(cfg, "flat 100yd" if case == 0 else "uphill 400m", "->", res, "| integrations:", len(records), records[-1:] )

loadImperialUnits()
PreferredUnits.defaults()
reset_globals()

text = "\n".join(lines)
print(text)
print("lines", len(lines))
print("sha256", hashlib.sha256(text.encode("utf-8")).hexdigest())
