"""Equivalence digest for C18 / round 3 / refactoring 2: TrajectoryCalc._integrate (launch state, loop header, speeds).

Fires shots and finds zeros through the public Calculator API with different solver settings and prints a
deterministic digest (row counts, sha256 of the repr of every number, some rows in full).
"""
import hashlib
import logging
import math
import warnings

warnings.simplefilter("ignore")

from py_ballisticcalc import (Calculator, Shot, Weapon, Ammo, Atmo, Wind, DragModel, TableG1, TableG7,
                              Distance, Velocity, Angular, Weight, Temperature, Unit, PreferredUnits,
                              RangeError, ZeroFindingError, TrajFlag, logger, reset_globals,
                              set_global_max_calc_step_size)

PreferredUnits.defaults()
reset_globals()


class Capture(logging.Handler):
    """keeps the 'euler py it N' iteration counts logged by the integrator"""
    def __init__(self):
        super().__init__(level=logging.DEBUG)
        self.lines = []

    def emit(self, record):
        self.lines.append(record.getMessage())


capture = Capture()
for h in list(logger.handlers):
    logger.removeHandler(h)
logger.addHandler(capture)
logger.setLevel(logging.DEBUG)


def row_numbers(row):
    return (row.time, row.distance.raw_value, row.velocity.raw_value, row.mach, row.height.raw_value,
            row.target_drop.raw_value, row.drop_adj.raw_value, row.windage.raw_value, row.windage_adj.raw_value,
            row.look_distance.raw_value, row.angle.raw_value, row.density_factor, row.drag,
            row.energy.raw_value, row.ogw.raw_value, int(row.flag))


def digest(rows):
    text = "\n".join(repr(row_numbers(r)) for r in rows)
    return hashlib.sha256(text.encode()).hexdigest()[:20]


def max_advance(rows):
    """largest straight-line distance (ft) between consecutive recorded rows"""
    best = 0.0
    for a, b in zip(rows, rows[1:]):
        dx = (b.distance.raw_value - a.distance.raw_value) / 12
        dy = (b.height.raw_value - a.height.raw_value) / 12
        best = max(best, math.sqrt(dx * dx + dy * dy))
    return best


def show(title, rows, full=(0, -1)):
    print(f"== {title}: rows={len(rows)} sha={digest(rows)} iterations={capture.lines[-1:]}")
    for i in full:
        if rows:
            print(f"   [{i}] {row_numbers(rows[i])!r}")


def make_shot(bc=0.223, table=TableG7, mv=2750, twist=12, sight=2.0, zero_elev=None, **kwargs):
    dm = DragModel(bc, table, Weight.Grain(168), Distance.Inch(0.308), Distance.Inch(1.282))
    weapon = Weapon(Distance.Inch(sight), Distance.Inch(twist))
    if zero_elev is not None:
        weapon.zero_elevation = zero_elev
    ammo = Ammo(dm, Velocity.FPS(mv))
    return Shot(weapon=weapon, ammo=ammo, **kwargs)


def fire(title, calc, shot, rng, step=0, full=(0, -1), **kwargs):
    capture.lines.clear()
    try:
        rows = calc.fire(shot, rng, step, **kwargs).trajectory
        show(title, rows, full)
        return rows
    except RangeError as err:
        print(f"== {title}: RangeError {err.reason!r} last_distance={err.last_distance!r}")
        show("   incomplete", err.incomplete_trajectory, full)
        return err.incomplete_trajectory
    except Exception as exc:  # pylint: disable=broad-except
        print(f"== {title}: {type(exc).__name__}: {exc}")
        return []


# 1. default settings, plain shot, several ranges and record steps
default_calc = Calculator()
shot = make_shot(zero_elev=Angular.Mil(1.5))
fire("default 1000yd/100yd", default_calc, shot, Distance.Yard(1000), Distance.Yard(100))
fire("default 300m default step", default_calc, shot, Distance.Meter(300))
fire("default 50ft step 0.1ft (record step below calc step)", default_calc, shot, Distance.Foot(50),
     Distance.Foot(0.1))
fire("default extra_data 600yd", default_calc, shot, Distance.Yard(600), Distance.Yard(50), extra_data=True)

# 2. step settings: every consecutive pair of a step trace is no farther apart than the maximum step
for step_ft in (0.5, 0.1, 2.0, 7.0):
    calc = Calculator(_config={"max_calc_step_size_feet": step_ft})
    rows = fire(f"step trace max_step={step_ft}ft", calc, shot, Distance.Foot(200), Distance.Foot(1000),
                extra_data=True, time_step=1e-12)
    adv = max_advance(rows)
    print(f"   max advance between recorded steps: {adv!r}  within max step: {adv <= step_ft}")
# slow projectile (speed below 1 fps clamps the time step), strong head wind
slow = make_shot(mv=40, zero_elev=Angular.Degree(30), winds=[Wind(Velocity.FPS(30), Angular.OClock(12), Distance.Foot(5)),
                                                              Wind(Velocity.FPS(60), Angular.OClock(3), Distance.Foot(9))])
calc = Calculator(_config={"max_calc_step_size_feet": 0.25, "cMinimumVelocity": 0.0, "cMaximumDrop": -40.0})
rows = fire("slow lob with two winds, step trace", calc, slow, Distance.Foot(60), Distance.Foot(5),
            extra_data=True, time_step=1e-12)
print(f"   max advance: {max_advance(rows)!r}")

# 3. limits
fire("minimum velocity 2000fps", Calculator(_config={"cMinimumVelocity": 2000.0}), shot, Distance.Yard(1000),
     Distance.Yard(100))
fire("maximum drop -3ft", Calculator(_config={"cMaximumDrop": -3.0}), shot, Distance.Yard(1000), Distance.Yard(100))
fire("minimum altitude -2ft", Calculator(_config={"cMinimumAltitude": -2.0}), shot, Distance.Yard(1000),
     Distance.Yard(100))
fire("all three limits tight at once", Calculator(_config={"cMinimumVelocity": 2740.0, "cMaximumDrop": -0.1,
                                                           "cMinimumAltitude": -0.1}),
     shot, Distance.Yard(100), Distance.Yard(10))
high = make_shot(zero_elev=Angular.Mil(1.5), atmo=Atmo.icao(Distance.Foot(5000)))
fire("minimum altitude 4999ft from 5000ft", Calculator(_config={"cMinimumAltitude": 4999.0}), high,
     Distance.Yard(1000), Distance.Yard(100))
fire("still default elsewhere", default_calc, shot, Distance.Yard(400), Distance.Yard(100))

# 4. gravity
fire("moon gravity", Calculator(_config={"cGravityConstant": -5.32}), shot, Distance.Yard(800), Distance.Yard(200))
fire("no gravity", Calculator(_config={"cGravityConstant": 0.0}), shot, Distance.Yard(800), Distance.Yard(200))

# 5. launch geometry: cant, look angle, azimuth through cant, negative twist, vertical-ish
canted = make_shot(zero_elev=Angular.Mil(3), cant_angle=Angular.Degree(20), look_angle=Angular.Degree(7),
                   relative_angle=Angular.MOA(4), twist=-9, sight=3.5,
                   winds=[Wind(Velocity.MPH(10), Angular.OClock(4), Distance.Yard(200)),
                          Wind(Velocity.MPH(25), Angular.OClock(9), Distance.Yard(450))])
fire("canted, uphill, two winds", default_calc, canted, Distance.Yard(700), Distance.Yard(70), full=(0, 3, -1))
fire("canted, uphill, extra data", Calculator(_config={"max_calc_step_size_feet": 1.0}), canted,
     Distance.Yard(500), Distance.Yard(100), extra_data=True, time_step=0.05, full=(0, 1, 2, -1))
steep = make_shot(bc=0.5, table=TableG1, mv=900, zero_elev=Angular.Degree(80))
fire("steep lob time_step records", Calculator(_config={"cMaximumDrop": -50.0}), steep, Distance.Foot(3000),
     Distance.Foot(500), time_step=0.5)
down = make_shot(zero_elev=Angular.Degree(-5), look_angle=Angular.Degree(-5))
fire("downhill", default_calc, down, Distance.Yard(300), Distance.Yard(60), extra_data=True)

# 6. degenerate ranges: loop body never runs / runs once
fire("negative range (no integration step at all)", default_calc, shot, Distance.Foot(-10))
fire("zero range", default_calc, shot, Distance.Foot(0), Distance.Foot(1))
fire("tiny range", default_calc, shot, Distance.Inch(1), Distance.Inch(1))
# NaN launch angle: position becomes NaN after the first step, which must end the loop
nan_shot = make_shot(relative_angle=Angular.Radian(float("nan")))
fire("NaN barrel elevation", default_calc, nan_shot, Distance.Yard(100), Distance.Yard(50))
inf_shot = make_shot(mv=float("inf"))
fire("infinite muzzle velocity", default_calc, inf_shot, Distance.Yard(100), Distance.Yard(50))

# 7. zeroing uses the same integrator with filter NONE
for cfg in ({}, {"cZeroFindingAccuracy": 0.01}, {"cMaxIterations": 2}, {"max_calc_step_size_feet": 3.0},
            {"cGravityConstant": -9.0}):
    calc = Calculator(_config=cfg)
    zshot = make_shot()
    capture.lines.clear()
    try:
        elev = calc.set_weapon_zero(zshot, Distance.Yard(300))
        print(f"== zero {cfg}: {elev.raw_value!r} its={capture.lines}")
    except ZeroFindingError as err:
        print(f"== zero {cfg}: ZeroFindingError {err.zero_finding_error!r} {err.iterations_count} "
              f"{err.last_barrel_elevation.raw_value!r} its={capture.lines}")
    fire(f"   after zero {cfg}", calc, zshot, Distance.Yard(400), Distance.Yard(100), full=(3,))
zl = make_shot(look_angle=Angular.Degree(12), cant_angle=Angular.Degree(-8))
print("== zero with look angle and cant:", repr(default_calc.barrel_elevation_for_target(zl, Distance.Meter(450)).raw_value))

# 8. the global default step only reaches calculators created afterwards
before = Calculator()
set_global_max_calc_step_size(Distance.Foot(4))
after = Calculator()
reset_globals()
fire("created before global change", before, shot, Distance.Yard(200), Distance.Yard(100), full=(-1,))
fire("created after global change", after, shot, Distance.Yard(200), Distance.Yard(100), full=(-1,))
fire("created after reset", Calculator(), shot, Distance.Yard(200), Distance.Yard(100), full=(-1,))
