"""Equivalence digest for C18 / round 4 / refactoring 1 (record filter of the pure-python engine).

Prints a deterministic text; must be identical on the clean worktree and with the patch applied.
"""
import hashlib
import logging
import math
import warnings

warnings.simplefilter("ignore")
logging.disable(logging.CRITICAL)

from py_ballisticcalc import (Calculator, InterfaceConfigDict, DragModel, TableG1, TableG7, Ammo, Weapon, Shot, Atmo,
                              Wind, Distance, Velocity, Weight, Angular, Unit, RangeError, TrajFlag, PreferredUnits,
                              set_global_max_calc_step_size, get_global_max_calc_step_size, reset_globals)
from py_ballisticcalc.trajectory_calc._trajectory_calc import _TrajectoryDataFilter, TrajectoryCalc
from py_ballisticcalc.vector import Vector

assert TrajectoryCalc.__module__ == 'py_ballisticcalc.trajectory_calc._trajectory_calc', "pure python engine expected"

PreferredUnits.defaults()
reset_globals()


def row_repr(r):
    return repr((r.time, r.distance.raw_value, r.velocity.raw_value, r.mach, r.height.raw_value,
                 r.target_drop.raw_value, r.drop_adj.raw_value, r.windage.raw_value, r.windage_adj.raw_value,
                 r.look_distance.raw_value, r.angle.raw_value, r.density_factor, r.drag,
                 r.energy.raw_value, r.ogw.raw_value, int(r.flag)))


def digest(title, rows):
    text = "\n".join(row_repr(r) for r in rows)
    print(f"{title}: n={len(rows)} sha={hashlib.sha256(text.encode()).hexdigest()[:20]}")
    if rows:
        print("   first", row_repr(rows[0]))
        print("   last ", row_repr(rows[-1]))
    flags = [int(r.flag) for r in rows]
    print("   flags", {f: flags.count(f) for f in sorted(set(flags))})


def make_shot(look=0.0, rel=0.2, sight=2.0, twist=12.0, winds=None, table=TableG7, bc=0.223, mv=2750.0, cant=0.0,
              atmo=None):
    dm = DragModel(bc, table, Weight.Grain(168), Distance.Inch(0.308), Distance.Inch(1.282))
    shot = Shot(weapon=Weapon(Distance.Inch(sight), Distance.Inch(twist)), ammo=Ammo(dm, Velocity.FPS(mv)),
                look_angle=Angular.Degree(look), relative_angle=Angular.Degree(rel), cant_angle=Angular.Degree(cant),
                atmo=atmo if atmo is not None else Atmo.icao(), winds=winds)
    return shot


def fire(title, calc, shot, rng, step=0, extra=False, time_step=0.0):
    try:
        hit = calc.fire(shot, rng, step, extra_data=extra, time_step=time_step)
        digest(title, hit.trajectory)
    except RangeError as e:
        print(f"{title}: RangeError {e.reason!r} last={e.last_distance.raw_value if e.last_distance else None!r}")
        digest(title + " (incomplete)", e.incomplete_trajectory)


# ---- 1. public API: calculators with different settings, records by range, by time, and both
default_calc = Calculator()
small_step = Calculator(_config=InterfaceConfigDict(max_calc_step_size_feet=0.1))
big_step = Calculator(_config=InterfaceConfigDict(max_calc_step_size_feet=3.0))
moon = Calculator(_config=InterfaceConfigDict(cGravityConstant=-5.32, max_calc_step_size_feet=1.0))
limited = Calculator(_config=InterfaceConfigDict(cMinimumVelocity=1800.0, cMaximumDrop=-20.0, cMinimumAltitude=-5.0))

shot = make_shot()
fire("default 1000yd/100yd", default_calc, shot, Distance.Yard(1000), Distance.Yard(100))
fire("default 1000yd/100yd extra", default_calc, shot, Distance.Yard(1000), Distance.Yard(100), extra=True)
fire("default default-step", default_calc, shot, Distance.Yard(500))
fire("small  300yd/25yd extra", small_step, shot, Distance.Yard(300), Distance.Yard(25), extra=True)
fire("big    300yd/25yd extra", big_step, shot, Distance.Yard(300), Distance.Yard(25), extra=True)
# step trace: a tiny time step records (nearly) every integration step; the record step is beyond the range
for name, calc in (("default", default_calc), ("small", small_step), ("big", big_step), ("moon", moon)):
    fire(f"{name} step trace", calc, shot, Distance.Foot(60), Distance.Foot(1000), time_step=1e-9)
# record step smaller than the integration step: several record distances are passed in one step
fire("default tiny record step", default_calc, shot, Distance.Foot(20), Distance.Foot(0.07))
fire("big tiny record step", big_step, shot, Distance.Foot(30), Distance.Inch(1.3), extra=True)
# records both by range and by time
fire("default range+time", default_calc, shot, Distance.Yard(200), Distance.Yard(50), time_step=0.01)
fire("default range+time extra", default_calc, shot, Distance.Yard(200), Distance.Yard(50), extra=True, time_step=0.01)
# look angle, negative and zero sight height, cant, winds, subsonic transition (mach flag)
fire("look 5 deg", default_calc, make_shot(look=5.0, rel=0.3), Distance.Yard(600), Distance.Yard(100), extra=True)
fire("look -7 deg", default_calc, make_shot(look=-7.0, rel=0.1), Distance.Yard(600), Distance.Yard(100), extra=True)
fire("sight below bore", default_calc, make_shot(sight=-1.5, rel=-0.05), Distance.Yard(300), Distance.Yard(50), extra=True)
fire("zero sight height", default_calc, make_shot(sight=0.0, rel=0.0), Distance.Yard(300), Distance.Yard(50), extra=True)
fire("cant+winds", default_calc,
     make_shot(cant=10.0, winds=[Wind(Velocity.MPH(10), Angular.OClock(3), Distance.Yard(200)),
                                 Wind(Velocity.MPH(5), Angular.OClock(9), Distance.Yard(500))]),
     Distance.Yard(700), Distance.Yard(100), extra=True)
fire("transonic G1", default_calc, make_shot(table=TableG1, bc=0.3, mv=1400.0, rel=0.6), Distance.Yard(600),
     Distance.Yard(60), extra=True)
fire("steep 80 deg", moon, make_shot(rel=80.0, mv=900.0), Distance.Yard(300), Distance.Yard(30), extra=True,
     time_step=0.05)
# limits
fire("limited velocity", limited, shot, Distance.Yard(1000), Distance.Yard(100))
fire("limited drop", Calculator(_config=InterfaceConfigDict(cMaximumDrop=-20.0)), make_shot(rel=-3.0), Distance.Yard(1000), Distance.Yard(50), extra=True)
fire("limited altitude", limited, make_shot(rel=-1.0, atmo=Atmo.icao(Distance.Foot(-2.0))), Distance.Yard(1000),
     Distance.Yard(50), time_step=0.001)
# zeroing uses filter flags NONE (no filter calls) - still part of the digest
for name, calc in (("default", default_calc), ("small", small_step), ("moon", moon)):
    s = make_shot(look=2.0)
    print(name, "zero", repr(calc.set_weapon_zero(s, Distance.Yard(200)).raw_value))
    fire(f"{name} zeroed", calc, s, Distance.Yard(400), Distance.Yard(100), extra=True)
# global step history: only calculators created afterwards are affected
set_global_max_calc_step_size(Distance.Foot(0.25))
later = Calculator()
fire("later(0.25) step trace", later, shot, Distance.Foot(30), Distance.Foot(1000), time_step=1e-9)
fire("default again step trace", default_calc, shot, Distance.Foot(30), Distance.Foot(1000), time_step=1e-9)
reset_globals()
print("global", repr(get_global_max_calc_step_size().raw_value))


# ---- 2. the filter driven directly with synthetic points (edge cases incl. NaN, x <= 0, standing still)
def drive(title, flt, points, setup=None):
    if setup is not None:
        flt.setup_seen_zero(*setup)
    out = []
    for pos, vel, mach, t in points:
        flt.clear_current_flag()
        data = flt.should_record(Vector(*pos), Vector(*vel), mach, t)
        state = (flt.current_flag, flt.seen_zero, flt.next_record_distance, flt.time_of_last_record,
                 flt.previous_time, tuple(flt.previous_position), tuple(flt.previous_velocity), flt.previous_mach,
                 flt.previous_v_mach)
        out.append(repr((None if data is None else (data.time, tuple(data.position), tuple(data.velocity), data.mach),
                         state)))
    text = "\n".join(out)
    print(f"{title}: sha={hashlib.sha256(text.encode()).hexdigest()[:20]}")
    for line in out[:3] + out[-2:]:
        print("   ", line)


nan = float('nan')
inf = float('inf')
pts = [((0.0, -0.2, 0.0), (2000.0, 10.0, 0.0), 1100.0, 0.0),
       ((0.7, -0.19, 0.0), (1999.0, 9.9, 0.0), 1100.0, 0.00035),
       ((0.7, -0.19, 0.0), (1999.0, 9.9, 0.0), 1100.0, 0.0007),      # no progress downrange
       ((3.9, 0.05, 0.01), (1990.0, 9.0, 0.1), 1100.0, 0.002),       # passes several record distances
       ((4.0, 0.06, 0.01), (1500.0, 8.0, 0.1), 1101.0, 0.0021),
       ((5.0, 0.01, 0.02), (1099.0, -8.0, 0.1), 1102.0, 0.003),      # becomes subsonic
       ((6.5, -0.3, 0.02), (1000.0, -20.0, 0.1), 1102.0, 0.0045),    # falls below the sight line
       ((6.4, -0.4, 0.02), (-10.0, -30.0, 0.1), 1102.0, 0.006),      # moves backwards
       ((nan, -0.5, 0.02), (900.0, -30.0, 0.1), 1102.0, 0.007),
       ((9.0, nan, 0.02), (900.0, nan, 0.1), 1102.0, 0.008),
       ((12.0, -1.0, 0.02), (800.0, -30.0, 0.1), 1102.0, 0.5),
       ((inf, -1.0, 0.02), (800.0, -30.0, 0.1), 1102.0, 0.6)]
for flags in (TrajFlag.NONE, TrajFlag.RANGE, TrajFlag.ALL, TrajFlag.ZERO, TrajFlag.MACH):
    for range_step, time_step in ((1.0, 0.0), (0.0, 0.001), (0.5, 0.001), (0.0, 0.0), (-1.0, 0.0005), (nan, 0.001),
                                  (100.0, nan)):
        for setup in (None, (-0.2, 0.01, 0.0), (0.1, 0.01, 0.02), (-0.2, -0.01, 0.03)):
            f = _TrajectoryDataFilter(flags, range_step, Vector(0.0, -0.2, 0.0), Vector(2000.0, 10.0, 0.0), time_step)
            drive(f"filter flags={int(flags)} rs={range_step!r} ts={time_step!r} setup={setup!r}", f,
                  pts if not (range_step == range_step and math.isinf(pts[-1][0][0]) and range_step > 0)
                  else pts[:-1],  # an infinite distance with a positive range step never terminates (both versions)
                  setup)
