"""Digest of config-file loading and basicConfig (C18, refactoring 3).

Run:  cd /tmp/wt/t5_C18 && PYTHONPATH=/tmp/wt/t5_C18 /venv/bin/python /tmp/twins5/C18/3/equiv.py
"""
import logging
import os
import shutil
import warnings

warnings.simplefilter("ignore")

import py_ballisticcalc as pbc
from py_ballisticcalc import (Unit, PreferredUnits, Distance, Velocity, Calculator, basicConfig, loadMetricUnits,
                              loadImperialUnits, loadMixedUnits, reset_globals, logger,
                              get_global_max_calc_step_size, set_global_max_calc_step_size)
from py_ballisticcalc import trajectory_calc as tc

START_DIR = os.getcwd()
SANDBOX = os.path.join(os.path.dirname(os.path.abspath(__file__)), "sandbox")


class ListHandler(logging.Handler):
    def __init__(self):
        super().__init__(level=logging.DEBUG)
        self.records = []

    def emit(self, record):
        self.records.append(f"{record.levelname}:{record.getMessage()}")

    def take(self):
        r, self.records = self.records, []
        return r


handler = ListHandler()
for h in list(logger.handlers):
    logger.removeHandler(h)
logger.addHandler(handler)
logger.setLevel(logging.DEBUG)


def out(label, value):
    print(f"{label}: {value}")


def show(v):
    return f"Unit.{v.name}" if isinstance(v, Unit) else repr(v)


def state():
    changed = {f: show(getattr(PreferredUnits, f)) for f in PreferredUnits.__dataclass_fields__}
    step = tc._globalMaxCalcStepSizeFeet
    return (f"step={step!r} new_calc_step={Calculator()._calc._config.max_calc_step_size_feet!r} "
            f"units={','.join(changed.values())}")


def fresh():
    PreferredUnits.defaults()
    reset_globals()
    handler.take()


def attempt(label, fn, *a, **kw):
    fresh()
    try:
        res = repr(fn(*a, **kw))
    except Exception as e:  # pylint: disable=broad-except
        res = f"{type(e).__name__}: {e}"
    out(label, f"{res} | {state()} | log={handler.take()}")


out("state after import (cwd config)", state())

if os.path.isdir(SANDBOX):
    shutil.rmtree(SANDBOX)
os.makedirs(SANDBOX)


def write(rel, text):
    path = os.path.join(SANDBOX, rel)
    os.makedirs(os.path.dirname(path), exist_ok=True)
    with open(path, "w", encoding="utf-8") as f:
        f.write(text)
    return path


UNITS = "[pybc.preferred_units]\ndistance = 'Meter'\nvelocity = 'KMH'\nangular = 'RAD'\nbogus = 'm'\ndrop = 'bogus'\n"
files = {
    "full": UNITS + "[pybc.calculator]\nmax_calc_step_size = { value = 0.25, units = 'Foot' }\n",
    "full_table": UNITS + "[pybc.calculator.max_calc_step_size]\nvalue = 10\nunits = ' CM '\n",
    "empty": "",
    "no_pybc": "title = 'x'\n[other]\na = 1\n",
    "empty_pybc": "[pybc]\n",
    "only_units": UNITS,
    "only_calc": "[pybc.calculator]\nmax_calc_step_size = { value = 1, units = 'm' }\n",
    "empty_units_and_calc": "[pybc.preferred_units]\n[pybc.calculator]\n",
    "calc_without_step": UNITS + "[pybc.calculator]\nother = 1\n",
    "step_upper": "[pybc.calculator]\nmax_calc_step_size = { value = 2, units = 'INCH' }\n",
    "step_alias": "[pybc.calculator]\nmax_calc_step_size = { value = 0.1, units = 'yd' }\n",
    "step_field_name": "[pybc.preferred_units]\ndistance='cm'\n[pybc.calculator]\nmax_calc_step_size = { value = 5, units = 'distance' }\n",
    "step_bad_units": "[pybc.calculator]\nmax_calc_step_size = { value = 2, units = 'parsec' }\n",
    "step_no_units": "[pybc.calculator]\nmax_calc_step_size = { value = 2 }\n",
    "step_no_value": "[pybc.calculator]\nmax_calc_step_size = { units = 'Foot' }\n",
    "step_only_other": "[pybc.calculator]\nmax_calc_step_size = { x = 1 }\n",
    "step_empty": "[pybc.calculator]\nmax_calc_step_size = { }\n",
    "step_zero": "[pybc.calculator]\nmax_calc_step_size = { value = 0, units = 'Foot' }\n",
    "step_negative": "[pybc.calculator]\nmax_calc_step_size = { value = -0.5, units = 'Foot' }\n",
    "step_nan": "[pybc.calculator]\nmax_calc_step_size = { value = nan, units = 'Foot' }\n",
    "step_inf": "[pybc.calculator]\nmax_calc_step_size = { value = inf, units = 'Foot' }\n",
    "step_string_value": "[pybc.calculator]\nmax_calc_step_size = { value = '0.5', units = 'Foot' }\n",
    "step_bool_value": "[pybc.calculator]\nmax_calc_step_size = { value = true, units = 'Foot' }\n",
    "step_velocity_units": "[pybc.calculator]\nmax_calc_step_size = { value = 1, units = 'fps' }\n",
    "step_int_units": "[pybc.calculator]\nmax_calc_step_size = { value = 1, units = 11 }\n",
    "step_is_number": "[pybc.calculator]\nmax_calc_step_size = 0.5\n",
    "step_is_zero": "[pybc.calculator]\nmax_calc_step_size = 0\n",
    "step_is_string": "[pybc.calculator]\nmax_calc_step_size = '0.5ft'\n",
    "step_is_list": "[pybc.calculator]\nmax_calc_step_size = [0.5, 'ft']\n",
    "pybc_number": "pybc = 5\n",
    "pybc_zero": "pybc = 0\n",
    "pybc_string": "pybc = 'x'\n",
    "units_string": "[pybc]\npreferred_units = 'abc'\n",
    "units_list": "[pybc]\npreferred_units = ['abc']\n",
    "units_nonstring_values": "[pybc.preferred_units]\ndistance = 17\nvelocity = true\nangular = 1.5\ndrop = ['cm']\n",
    "calc_number": "[pybc]\ncalculator = 7\n",
    "calc_false": UNITS + "[pybc]\ncalculator = false\n",
    "invalid_toml": "[pybc\n",
}
for name, text in files.items():
    path = write(f"files/{name}.toml", text)
    for suppress in (False, True):
        attempt(f"file {name} suppress={suppress}", basicConfig, path, suppress_warnings=suppress)
attempt("file missing", basicConfig, os.path.join(SANDBOX, "files", "does_not_exist.toml"))
attempt("file is dir", basicConfig, os.path.join(SANDBOX, "files"))

# ---- argument combinations of basicConfig
full = os.path.join(SANDBOX, "files", "full.toml")
os.chdir(START_DIR)
combos = [
    dict(),
    dict(filename=None),
    dict(filename=""),
    dict(filename=full),
    dict(filename=full, preferred_units={"distance": Unit.Meter}),
    dict(filename=full, max_calc_step_size=0.3),
    dict(filename=full, max_calc_step_size=0),
    dict(filename=full, preferred_units={}),
    dict(filename=full, preferred_units={}, max_calc_step_size=Distance.Foot(0)),
    dict(preferred_units={"distance": Unit.Meter, "velocity": "mps"}),
    dict(preferred_units={"distance": "nope", "nope": Unit.Meter}),
    dict(max_calc_step_size=0.3),
    dict(max_calc_step_size=Unit.Meter(0.3)),
    dict(max_calc_step_size=Distance.Foot(0)),
    dict(max_calc_step_size=-1),
    dict(max_calc_step_size=0),
    dict(max_calc_step_size=0.0, preferred_units={}),
    dict(max_calc_step_size=Velocity.FPS(1)),
    dict(max_calc_step_size="0.3"),
    dict(preferred_units={"distance": Unit.Centimeter}, max_calc_step_size=10),
    dict(preferred_units={"distance": Unit.Centimeter}, max_calc_step_size=-10),
    dict(preferred_units={"distance": Unit.Centimeter}, max_calc_step_size=0),
    dict(preferred_units=[("distance", Unit.Meter)]),
    dict(suppress_warnings=True),
    dict(filename=os.path.join(SANDBOX, "files", "no_pybc.toml"), suppress_warnings=True),
    dict(filename=os.path.join(SANDBOX, "files", "no_pybc.toml"), suppress_warnings=False),
]
for kw in combos:
    label = repr(kw).replace(SANDBOX, "<sandbox>")
    attempt(f"basicConfig {label}", basicConfig, **kw)

# ---- search for the file from the working directory upwards
write("tree/pybc.toml", "[pybc.preferred_units]\ndistance = 'Kilometer'\n[pybc.calculator]\n"
                        "max_calc_step_size = { value = 3, units = 'Foot' }\n")
write("tree/a/.pybc.toml", "[pybc.preferred_units]\ndistance = 'Mile'\n[pybc.calculator]\n"
                           "max_calc_step_size = { value = 4, units = 'Foot' }\n")
write("tree/a/pybc.toml", "[pybc.preferred_units]\ndistance = 'Inch'\n[pybc.calculator]\n"
                          "max_calc_step_size = { value = 5, units = 'Foot' }\n")
write("tree/a/b/c/keep.txt", "")
write("tree/d/e/keep.txt", "")
os.makedirs(os.path.join(SANDBOX, "tree", "f", "pybc.toml"))  # a directory with the name of the config file
os.makedirs(os.path.join(SANDBOX, "tree", "f", "g"))
write("none/x/keep.txt", "")
for rel in ("tree", "tree/a", "tree/a/b", "tree/a/b/c", "tree/d", "tree/d/e", "tree/f/g", "none/x", "files"):
    os.chdir(os.path.join(SANDBOX, rel))
    attempt(f"cwd {rel} basicConfig()", basicConfig)
    attempt(f"cwd {rel} basicConfig(step=0)", basicConfig, max_calc_step_size=0)
    attempt(f"cwd {rel} explicit file", basicConfig, full)
    attempt(f"cwd {rel} loadMetricUnits", loadMetricUnits)
os.chdir(START_DIR)

# ---- the working directory is resolved at every load, also when a file is named
gone = os.path.join(SANDBOX, "gone")
os.makedirs(gone)
os.chdir(gone)
os.rmdir(gone)
attempt("cwd removed basicConfig()", basicConfig)
attempt("cwd removed explicit file", basicConfig, full)
attempt("cwd removed loadImperialUnits", loadImperialUnits)
attempt("cwd removed units only", basicConfig, preferred_units={"distance": Unit.Meter})
os.chdir(START_DIR)

# ---- presets and interleaving with calculators
fresh()
c_before = Calculator()
loadMixedUnits()
set_global_max_calc_step_size(Distance.Foot(0.2))
c_mid = Calculator()
basicConfig(full)
c_after = Calculator()
out("interleaved", (c_before._calc._config.max_calc_step_size_feet, c_mid._calc._config.max_calc_step_size_feet,
                    c_after._calc._config.max_calc_step_size_feet, show(get_global_max_calc_step_size().units),
                    get_global_max_calc_step_size().raw_value))
for loader in (loadMetricUnits, loadImperialUnits, loadMixedUnits):
    attempt(loader.__name__, loader)
fresh()
logger.setLevel(logging.INFO)
attempt("info level full", basicConfig, full)
attempt("info level no_pybc", basicConfig, os.path.join(SANDBOX, "files", "no_pybc.toml"))
fresh()
out("end", state())
shutil.rmtree(SANDBOX)
