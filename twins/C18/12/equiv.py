"""Equivalence digest for C18 / round 4 / refactoring 3 (the integration step of the pure-python engine).

Prints a deterministic text; must be identical on the clean worktree and with the patch applied.
"""
import hashlib
import itertools
import logging
import math
import warnings

warnings.simplefilter("ignore")
logging.disable(logging.CRITICAL)

from py_ballisticcalc import (Calculator, InterfaceConfigDict, DragModel, TableG1, TableG7, Ammo, Weapon, Shot, Atmo,
                              Vacuum, Wind, Distance, Velocity, Weight, Angular, Temperature, RangeError,
                              ZeroFindingError, TrajFlag, PreferredUnits, set_global_max_calc_step_size,
                              get_global_max_calc_step_size, reset_globals)
from py_ballisticcalc.trajectory_calc._trajectory_calc import TrajectoryCalc

assert TrajectoryCalc.__module__ == 'py_ballisticcalc.trajectory_calc._trajectory_calc', "pure python engine expected"

PreferredUnits.defaults()
reset_globals()


def row_repr(r):
    return repr((r.time, r.distance.raw_value, r.velocity.raw_value, r.mach, r.height.raw_value,
                 r.target_drop.raw_value, r.drop_adj.raw_value, r.windage.raw_value, r.windage_adj.raw_value,
                 r.look_distance.raw_value, r.angle.raw_value, r.density_factor, r.drag,
                 r.energy.raw_value, r.ogw.raw_value, int(r.flag)))


def digest(title, rows, steps=False):
    text = "\n".join(row_repr(r) for r in rows)
    print(f"{title}: n={len(rows)} sha={hashlib.sha256(text.encode()).hexdigest()[:20]}")
    if rows:
        print("   first", row_repr(rows[0]))
        print("   last ", row_repr(rows[-1]))
    flags = [int(r.flag) for r in rows]
    print("   flags", {f: flags.count(f) for f in sorted(set(flags))})
    if steps and len(rows) > 1:
        # length (feet) of the path between consecutive recorded points = length of the integration steps
        lengths = [math.sqrt(((b.distance.raw_value - a.distance.raw_value) / 12) ** 2
                             + ((b.height.raw_value - a.height.raw_value) / 12) ** 2) for a, b in zip(rows, rows[1:])]
        print("   longest step", repr(max(lengths)), "shortest", repr(min(lengths)))


def make_shot(look=0.0, rel=0.2, sight=2.0, twist=12.0, winds=None, table=TableG7, bc=0.223, mv=2750.0, cant=0.0,
              atmo=None):
    dm = DragModel(bc, table, Weight.Grain(168), Distance.Inch(0.308), Distance.Inch(1.282))
    return Shot(weapon=Weapon(Distance.Inch(sight), Distance.Inch(twist)), ammo=Ammo(dm, Velocity.FPS(mv)),
                look_angle=Angular.Degree(look), relative_angle=Angular.Degree(rel), cant_angle=Angular.Degree(cant),
                atmo=atmo if atmo is not None else Atmo.icao(), winds=winds)


def fire(title, calc, shot, rng, step=0, extra=False, time_step=0.0, steps=False):
    try:
        hit = calc.fire(shot, rng, step, extra_data=extra, time_step=time_step)
        digest(title, hit.trajectory, steps)
    except RangeError as e:
        print(f"{title}: RangeError {e.reason!r} last={e.last_distance.raw_value if e.last_distance else None!r}"
              f" msg={str(e)!r}")
        digest(title + " (incomplete)", e.incomplete_trajectory, steps)


def zero(title, calc, shot, dist):
    try:
        print(f"{title}: zero {calc.set_weapon_zero(shot, dist).raw_value!r}")
    except ZeroFindingError as e:
        print(f"{title}: ZeroFindingError {e.zero_finding_error!r} {e.iterations_count!r} "
              f"{e.last_barrel_elevation.raw_value!r} msg={str(e)!r}")
    except RangeError as e:
        print(f"{title}: zero RangeError {e.reason!r} n={len(e.incomplete_trajectory)} "
              f"last={e.last_distance.raw_value if e.last_distance else None!r}")


shot = make_shot()

# ---- every single setting on its own and a few combinations; calculators are used interleaved
settings = dict(max_calc_step_size_feet=0.2, cZeroFindingAccuracy=0.01, cMinimumVelocity=2300.0, cMaximumDrop=-1.0,
                cMaxIterations=2, cGravityConstant=-10.0, cMinimumAltitude=-0.5, chart_resolution=0.7)
calcs = [("defaults", Calculator()), ("None", Calculator(_config=None)), ("empty", Calculator(_config={}))]
for key, value in settings.items():
    calcs.append((key, Calculator(_config=InterfaceConfigDict(**{key: value}))))
for a, b in itertools.islice(itertools.combinations(settings, 2), 0, None, 5):
    calcs.append((f"{a}+{b}", Calculator(_config=InterfaceConfigDict(**{a: settings[a], b: settings[b]}))))
calcs.append(("all", Calculator(_config=InterfaceConfigDict(**settings))))
for rnd in range(2):   # second round: same results again (no state carried over between shots / calculators)
    for name, calc in calcs:
        fire(f"[{rnd}] {name} fire", calc, shot, Distance.Yard(600), Distance.Yard(100), extra=bool(rnd))
for name, calc in calcs:
    zero(f"{name}", calc, make_shot(look=1.0), Distance.Yard(300))
    print("   config", tuple(calc._calc._config), "step", repr(calc._calc.get_calc_step()),
          repr(calc._calc.get_calc_step(0.3)), "g", tuple(calc._calc.gravity_vector))

# ---- step trace (a record for every integration step) for several maximum steps: no step longer than the maximum
for max_step in (0.05, 0.5, 1.0, 2.0, 7.5):
    calc = Calculator(_config=InterfaceConfigDict(max_calc_step_size_feet=max_step))
    fire(f"step trace max={max_step}", calc, shot, Distance.Foot(50), Distance.Foot(1000), time_step=1e-9, steps=True)
    fire(f"step trace max={max_step} slow", calc, make_shot(mv=300.0, rel=5.0, table=TableG1, bc=0.1),
         Distance.Foot(40), Distance.Foot(1000), time_step=1e-9, steps=True)
    fire(f"step trace max={max_step} head wind", calc,
         make_shot(winds=[Wind(Velocity.MPS(60), Angular.Degree(180), Distance.Yard(1000))]),
         Distance.Foot(40), Distance.Foot(1000), time_step=1e-9, steps=True)
    fire(f"step trace max={max_step} tail+cross wind", calc,
         make_shot(mv=600.0, winds=[Wind(Velocity.MPS(80), Angular.Degree(20), Distance.Foot(15)),
                                    Wind(Velocity.MPS(40), Angular.Degree(270), Distance.Foot(30))]),
         Distance.Foot(40), Distance.Foot(1000), time_step=1e-9, steps=True)

# ---- global default step: history of set / reset interleaved with creation
default_calc = Calculator()
set_global_max_calc_step_size(Distance.Inch(3))
c3 = Calculator()
set_global_max_calc_step_size(2)          # bare number -> preferred distance unit (yard)
c2yd = Calculator()
for bad in (0, -1, Distance.Meter(-0.1)):
    try:
        set_global_max_calc_step_size(bad)
    except ValueError as e:
        print("rejected", repr(bad), e, repr(get_global_max_calc_step_size().raw_value))
reset_globals()
c_reset = Calculator()
for name, calc in (("default", default_calc), ("3in", c3), ("2yd", c2yd), ("after reset", c_reset)):
    print(name, "config step", repr(calc._calc._config.max_calc_step_size_feet))
    fire(f"global history {name}", calc, shot, Distance.Foot(45), Distance.Foot(1000), time_step=1e-9, steps=True)

# ---- other shots: limits, vacuum, look angle, cant, transonic, steep, hot/cold, high altitude, Distance-valued limits
default = Calculator()
fire("vacuum", default, make_shot(atmo=Vacuum()), Distance.Yard(500), Distance.Yard(100), extra=True)
fire("look 6 deg winds", default,
     make_shot(look=6.0, cant=5.0, winds=[Wind(Velocity.MPH(12), Angular.OClock(2), Distance.Yard(150)),
                                          Wind(Velocity.MPH(7), Angular.OClock(10), Distance.Yard(400))]),
     Distance.Yard(600), Distance.Yard(75), extra=True)
fire("transonic G1", default, make_shot(table=TableG1, bc=0.3, mv=1400.0, rel=0.6), Distance.Yard(700),
     Distance.Yard(70), extra=True)
fire("left twist", default, make_shot(twist=-9.0), Distance.Yard(500), Distance.Yard(100))
fire("no twist", default, make_shot(twist=0.0), Distance.Yard(500), Distance.Yard(100))
fire("hot high", default, make_shot(atmo=Atmo(Distance.Foot(7000), None, Temperature.Celsius(35), 0.8)),
     Distance.Yard(800), Distance.Yard(100), extra=True)
fire("default limits: velocity", default, make_shot(mv=400.0, rel=88.0, table=TableG1, bc=0.02), Distance.Yard(3000),
     Distance.Yard(100))
fire("default limits: drop", default, make_shot(mv=3000.0, rel=-60.0, bc=2.0, atmo=Atmo.icao(Distance.Foot(20000))), Distance.Yard(20000),
     Distance.Yard(1000))
fire("default limits: altitude", default, make_shot(rel=-30.0, atmo=Atmo.icao(Distance.Foot(-1000))),
     Distance.Yard(3000), Distance.Yard(100))
fire("short range (single point + extra row)", default, shot, Distance.Foot(0.1), Distance.Foot(1000))
fire("zero range", default, shot, Distance.Foot(0), Distance.Foot(10))
ground = Calculator(_config=InterfaceConfigDict(cMinimumVelocity=0, cMinimumAltitude=Distance.Meter(0),
                                                cMaximumDrop=Distance.Meter(0)))
fire("ground level 20 deg", ground, make_shot(rel=20.0, mv=500.0, sight=0.0), Distance.Yard(3000), Distance.Yard(200),
     extra=True)
fire("ground level 89 deg", ground, make_shot(rel=89.0, mv=300.0, sight=0.0, table=TableG1, bc=0.05),
     Distance.Yard(100), Distance.Yard(10), extra=True, time_step=0.25)
one_iter = Calculator(_config=InterfaceConfigDict(cMaxIterations=1))
zero("one iteration", one_iter, make_shot(), Distance.Yard(500))
zero("zero iterations", Calculator(_config=InterfaceConfigDict(cMaxIterations=0)), make_shot(), Distance.Yard(500))
zero("coarse accuracy", Calculator(_config=InterfaceConfigDict(cZeroFindingAccuracy=5.0)), make_shot(),
     Distance.Yard(500))
