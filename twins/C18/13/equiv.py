"""Digest of the behaviour governed by solver settings (C18, refactoring 1).

Run:  cd /tmp/wt/t5_C18 && PYTHONPATH=/tmp/wt/t5_C18 /venv/bin/python /tmp/twins5/C18/1/equiv.py
"""
import hashlib
import math
import warnings

warnings.simplefilter("ignore")

import py_ballisticcalc as pbc
from py_ballisticcalc import (Calculator, InterfaceConfigDict, DragModel, TableG1, TableG7, Weight, Distance, Ammo,
                              Velocity, Weapon, Shot, Angular, Atmo, Wind, RangeError, ZeroFindingError, Unit,
                              PreferredUnits, get_global_max_calc_step_size, set_global_max_calc_step_size,
                              reset_globals, TrajectoryCalc)
from py_ballisticcalc import trajectory_calc as tc
from py_ballisticcalc.interface_config import create_interface_config

PreferredUnits.defaults()
reset_globals()


def out(label, value):
    print(f"{label}: {value}")


def row_key(r):
    return (r.time, r.distance.raw_value, r.velocity.raw_value, r.mach, r.height.raw_value,
            r.target_drop.raw_value, r.drop_adj.raw_value, r.windage.raw_value, r.windage_adj.raw_value,
            r.look_distance.raw_value, r.angle.raw_value, r.density_factor, r.drag, r.energy.raw_value,
            r.ogw.raw_value, int(r.flag))


def digest(rows):
    h = hashlib.sha256()
    for r in rows:
        h.update(repr(row_key(r)).encode())
    return f"n={len(rows)} sha={h.hexdigest()[:20]} last={row_key(rows[-1])[:5]!r}"


def make_shot(look=0.0, rel=0.0, winds=None, alt=0.0):
    dm = DragModel(0.223, TableG7, Weight.Grain(168), Distance.Inch(0.308), Distance.Inch(1.282))
    ammo = Ammo(dm, Velocity.FPS(2750))
    weapon = Weapon(Distance.Inch(2), Distance.Inch(11.24))
    atmo = Atmo.icao(Distance.Foot(alt))
    shot = Shot(weapon=weapon, ammo=ammo, atmo=atmo, winds=winds,
                look_angle=Angular.Degree(look), relative_angle=Angular.Degree(rel))
    return shot


def fire(label, calc, shot, rng, step=0, extra=False, time_step=0.0):
    try:
        hr = calc.fire(shot, rng, step, extra, time_step)
        out(label, digest(hr.trajectory))
    except RangeError as e:
        out(label, f"RangeError reason={e.reason!r} last_distance={e.last_distance.raw_value!r} "
                   f"msg={str(e)!r} {digest(e.incomplete_trajectory)}")
    except Exception as e:  # pylint: disable=broad-except
        out(label, f"{type(e).__name__}: {e}")


# ---- 1. create_interface_config: defaults, overrides, odd arguments
out("defaults", create_interface_config())
out("defaults(None)", create_interface_config(None))
out("defaults({})", create_interface_config({}))
for bad in ([("cMaxIterations", 3)], "cMaxIterations", 5, ("a",), 0, False):
    out(f"non-dict {bad!r}", create_interface_config(bad))
overrides = [
    {"max_calc_step_size_feet": 0.25},
    {"cGravityConstant": -9.81, "cMaxIterations": 7},
    {"cMinimumAltitude": -10, "cMaximumDrop": -5, "cMinimumVelocity": 100, "cZeroFindingAccuracy": 1e-3,
     "chart_resolution": 1.0, "max_calc_step_size_feet": 2, "cGravityConstant": 0.0, "cMaxIterations": 1},
    {"cMaximumDrop": Distance.Meter(0), "cMinimumAltitude": Distance.Meter(0)},
    {"cMinimumVelocity": None},
]
for o in overrides:
    out(f"override {sorted(o)}", create_interface_config(o))
    out(f"override(InterfaceConfigDict) {sorted(o)}", create_interface_config(InterfaceConfigDict(**o)))
for bad in ({"nope": 1}, {"zzz": 1, "aaa": 2, "cMaxIterations": 2}, {1: 2}, {"cMaxIterations": 2, 3: 4}):
    try:
        out(f"unknown {bad!r}", create_interface_config(bad))
    except Exception as e:  # pylint: disable=broad-except
        out(f"unknown {bad!r}", f"{type(e).__name__}: {e}")


class OddDict(dict):
    def keys(self):
        return ["cMaxIterations"]

    def __getitem__(self, k):
        return 99


out("dict subclass", create_interface_config(OddDict(cMaxIterations=4, cMinimumVelocity=1.0)))

# ---- 2. global step: set / reset / creation interleaved
history = []
c0 = Calculator()
history.append(("c0", c0._calc._config.max_calc_step_size_feet))
for v in (0.3, Distance.Meter(0.3), Distance.Inch(1), 2, Unit.Foot(0.125), 1e-9, float("inf")):
    set_global_max_calc_step_size(v)
    c = Calculator()
    c_over = Calculator(_config={"max_calc_step_size_feet": 0.7})
    history.append((repr(v), tc._globalMaxCalcStepSizeFeet, c._calc._config.max_calc_step_size_feet,
                    c_over._calc._config.max_calc_step_size_feet, c0._calc._config.max_calc_step_size_feet,
                    get_global_max_calc_step_size().raw_value, get_global_max_calc_step_size().units,
                    c._calc.get_calc_step(), c_over._calc.get_calc_step()))
for v in (0, 0.0, -0.0, -1, Distance.Meter(-0.1), Distance.Foot(0), float("-inf"), float("nan"), "1", None,
          Velocity.FPS(1)):
    before = tc._globalMaxCalcStepSizeFeet
    label = repr(v)
    try:
        set_global_max_calc_step_size(v)
        res = "accepted"
    except Exception as e:  # pylint: disable=broad-except
        res = f"{type(e).__name__}: {e}"
    history.append((label, res, repr(before), repr(tc._globalMaxCalcStepSizeFeet),
                    repr(Calculator()._calc._config.max_calc_step_size_feet)))
    if res == "accepted":
        reset_globals()
tc._globalUsePowderSensitivity = True
set_global_max_calc_step_size(0.9)
reset_globals()
history.append(("reset", tc._globalMaxCalcStepSizeFeet, tc._globalUsePowderSensitivity,
                Calculator()._calc._config.max_calc_step_size_feet, get_global_max_calc_step_size().raw_value))
PreferredUnits.distance = Unit.Meter
set_global_max_calc_step_size(0.2)  # 0.2 m
history.append(("0.2 preferred meter", tc._globalMaxCalcStepSizeFeet, get_global_max_calc_step_size().units,
                get_global_max_calc_step_size().raw_value))
PreferredUnits.defaults()
pbc.basicConfig(max_calc_step_size=Unit.Meter(0.3))
history.append(("basicConfig 0.3m", tc._globalMaxCalcStepSizeFeet))
try:
    pbc.basicConfig(max_calc_step_size=Unit.Meter(-0.3))
except Exception as e:  # pylint: disable=broad-except
    history.append(("basicConfig -0.3m", f"{type(e).__name__}: {e}", tc._globalMaxCalcStepSizeFeet))
reset_globals()
for h in history:
    out("history", h)

# ---- 3. get_calc_step
for mx in (0.5, 0.25, 2, 1e-3):
    calc = TrajectoryCalc(create_interface_config({"max_calc_step_size_feet": mx}))
    vals = []
    for s in (0, 0.0, -0.0, 0.1, 0.25, 0.5, 1, 3, 1e-12, -1, float("inf"), float("nan"), True, False):
        vals.append(repr(calc.get_calc_step(s)))
    out(f"get_calc_step max={mx}", vals + [repr(calc.get_calc_step())])

# ---- 4. settings govern the computation; calculators are independent
configs = {
    "default": None,
    "step0.1": {"max_calc_step_size_feet": 0.1},
    "step3": {"max_calc_step_size_feet": 3.0},
    "minvel2000": {"cMinimumVelocity": 2000.0},
    "minvel=": {"cMinimumVelocity": 2750.0},
    "maxdrop-1": {"cMaximumDrop": -1.0},
    "maxdrop0": {"cMaximumDrop": 0},
    "minalt-3": {"cMinimumAltitude": -3.0},
    "minalt+drop": {"cMinimumAltitude": -2.0, "cMaximumDrop": -2.0},
    "all3": {"cMinimumAltitude": 1e9, "cMaximumDrop": 1e9, "cMinimumVelocity": 1e9},
    "drop+alt": {"cMinimumAltitude": 1e9, "cMaximumDrop": 1e9},
    "alt only": {"cMinimumAltitude": 1e9},
    "nan limits": {"cMinimumAltitude": float("nan"), "cMaximumDrop": float("nan"),
                   "cMinimumVelocity": float("nan")},
    "units as limits": {"cMinimumVelocity": 0, "cMinimumAltitude": Distance.Meter(0),
                        "cMaximumDrop": Distance.Meter(0)},
    "none limit": {"cMinimumVelocity": None},
    "none drop": {"cMaximumDrop": None},
    "gravity0": {"cGravityConstant": 0.0},
    "gravity moon": {"cGravityConstant": -5.32},
    "gravity up": {"cGravityConstant": 10.0, "cMinimumAltitude": -1e9},
}
calcs = {name: Calculator(_config=cfg) for name, cfg in configs.items()}
winds = [Wind(Velocity.MPH(10), Angular.Degree(90), Distance.Yard(300)),
         Wind(Velocity.MPH(5), Angular.Degree(-45), Distance.Yard(600))]
for rnd in (1, 2):  # second round: same calculators again, after all others were used
    for name, calc in calcs.items():
        fire(f"r{rnd} {name} flat", calc, make_shot(), Distance.Yard(1000), Distance.Yard(100))
        fire(f"r{rnd} {name} extra", calc, make_shot(look=5, rel=0.3, winds=winds, alt=1500),
             Distance.Yard(400), Distance.Yard(50), True, 0.01)
        out(f"r{rnd} {name} config", calc._calc._config)
# trace of every step via a tiny time step: no step longer than the maximum
for name in ("default", "step0.1", "step3"):
    calc = calcs[name]
    hr = calc.fire(make_shot(rel=1.0), Distance.Yard(60), Distance.Yard(1000), True, 1e-9)
    pts = [(r.distance >> Distance.Foot, r.height >> Distance.Foot, r.windage >> Distance.Foot)
           for r in hr.trajectory]
    longest = max(math.dist(a, b) for a, b in zip(pts, pts[1:]))
    out(f"trace {name}", f"{digest(hr.trajectory)} longest={longest!r} "
                         f"within={longest <= calc._calc._config.max_calc_step_size_feet}")
# steep / falling shots for the drop and altitude limits
fire("vertical default", calcs["default"], make_shot(rel=90), Distance.Meter(10), Distance.Meter(1))
fire("vertical ground", calcs["units as limits"], make_shot(rel=90), Distance.Meter(10), Distance.Meter(1))
fire("lob ground", calcs["units as limits"], make_shot(rel=30), Distance.Meter(9000), Distance.Meter(500))
fire("lob default alt", calcs["default"], make_shot(rel=30, alt=-1000), Distance.Meter(9000), Distance.Meter(500))
fire("lob minalt", Calculator(_config={"cMinimumAltitude": 900.0, "cMaximumDrop": -1e9}),
     make_shot(rel=10, alt=1000), Distance.Meter(9000), Distance.Meter(500))
fire("down maxdrop", Calculator(_config={"cMaximumDrop": -50.0}),
     make_shot(rel=-20, alt=5000), Distance.Meter(900), Distance.Meter(50))

# ---- 5. zero finding settings
for name, cfg in {"default": None, "acc1e-2": {"cZeroFindingAccuracy": 1e-2}, "it1": {"cMaxIterations": 1},
                  "it0": {"cMaxIterations": 0}, "acc0": {"cZeroFindingAccuracy": 0.0},
                  "acc-1": {"cZeroFindingAccuracy": -1.0}, "it2.5": {"cMaxIterations": 2.5},
                  "step2 it3": {"max_calc_step_size_feet": 2.0, "cMaxIterations": 3},
                  "grav": {"cGravityConstant": -9.0}, "minvel": {"cMinimumVelocity": 2600.0}}.items():
    calc = Calculator(_config=cfg)
    for look in (0.0, 20.0):
        shot = make_shot(look=look)
        try:
            el = calc.set_weapon_zero(shot, Distance.Yard(200))
            out(f"zero {name} look={look}", repr(el.raw_value))
        except ZeroFindingError as e:
            out(f"zero {name} look={look}", f"ZeroFindingError {e.zero_finding_error!r} {e.iterations_count!r} "
                                            f"{e.last_barrel_elevation.raw_value!r}")
        except Exception as e:  # pylint: disable=broad-except
            out(f"zero {name} look={look}", f"{type(e).__name__}: {e}")
out("final global", (tc._globalMaxCalcStepSizeFeet, tc._globalUsePowderSensitivity, tc._globalChartResolution))
