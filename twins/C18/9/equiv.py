"""Equivalence digest for C18 / round 3 / refactoring 3: Calculator (creation, fire, zeroing) and the
per-shot setup of the engine (TrajectoryCalc.trajectory / _init_trajectory).

Everything goes through the public Calculator API; a deterministic digest is printed.
"""
import dataclasses
import hashlib
import logging
import warnings

warnings.simplefilter("ignore")

from py_ballisticcalc import (Calculator, Shot, Weapon, Ammo, Atmo, Wind, DragModel, TableG1, TableG7,
                              Distance, Velocity, Angular, Weight, Temperature, Pressure, Unit, PreferredUnits,
                              RangeError, ZeroFindingError, logger, reset_globals, set_global_max_calc_step_size,
                              get_global_max_calc_step_size, InterfaceConfigDict)

PreferredUnits.defaults()
reset_globals()


class Capture(logging.Handler):
    """keeps the 'euler py it N' iteration counts logged by the integrator"""
    def __init__(self):
        super().__init__(level=logging.DEBUG)
        self.lines = []

    def emit(self, record):
        self.lines.append(record.getMessage())


capture = Capture()
for h in list(logger.handlers):
    logger.removeHandler(h)
logger.addHandler(capture)
logger.setLevel(logging.DEBUG)


def row_numbers(row):
    return (row.time, row.distance.raw_value, row.velocity.raw_value, row.mach, row.height.raw_value,
            row.target_drop.raw_value, row.drop_adj.raw_value, row.windage.raw_value, row.windage_adj.raw_value,
            row.look_distance.raw_value, row.angle.raw_value, row.density_factor, row.drag,
            row.energy.raw_value, row.ogw.raw_value, int(row.flag))


def digest(rows):
    text = "\n".join(repr(row_numbers(r)) for r in rows)
    return hashlib.sha256(text.encode()).hexdigest()[:20]


def show(title, rows, full=(1, -1)):
    print(f"== {title}: rows={len(rows)} sha={digest(rows)} iterations={capture.lines[-1:]}")
    for i in full:
        if -len(rows) <= i < len(rows):
            print(f"   [{i}] {row_numbers(rows[i])!r}")


def make_shot(bc=0.223, table=TableG7, mv=2750, twist=12, sight=2.0, zero_elev=None, ammo_kwargs=None, **kwargs):
    dm = DragModel(bc, table, Weight.Grain(168), Distance.Inch(0.308), Distance.Inch(1.282))
    weapon = Weapon(Distance.Inch(sight), Distance.Inch(twist))
    if zero_elev is not None:
        weapon.zero_elevation = zero_elev
    ammo = Ammo(dm, Velocity.FPS(mv), **(ammo_kwargs or {}))
    return Shot(weapon=weapon, ammo=ammo, **kwargs)


def fire(title, calc, shot, *args, full=(1, -1), **kwargs):
    capture.lines.clear()
    try:
        result = calc.fire(shot, *args, **kwargs)
        print(f"   (extra={result.extra} same shot={result.shot is shot})")
        show(title, result.trajectory, full)
        return result
    except RangeError as err:
        print(f"== {title}: RangeError {err.reason!r} last_distance={err.last_distance!r}")
        show("   incomplete", err.incomplete_trajectory, full)
    except Exception as exc:  # pylint: disable=broad-except
        print(f"== {title}: {type(exc).__name__}: {exc}")
    return None


# 1. the Calculator dataclass itself
print("fields:", [(f.name, f.default, f.init, f.repr, f.compare) for f in dataclasses.fields(Calculator)
                  if f.name == "_config"],
      [(f.name, f.init, f.repr, f.compare) for f in dataclasses.fields(Calculator) if f.name != "_config"])
print("repr:", repr(Calculator()), "|", repr(Calculator({"cMaxIterations": 5})), "|",
      repr(Calculator(_config=InterfaceConfigDict(cGravityConstant=-1.0))))
print("eq:", Calculator() == Calculator(), Calculator({"cMaximumDrop": -1}) == Calculator(),
      Calculator({"cMaximumDrop": -1}) == Calculator({"cMaximumDrop": -1}))
for cfg in (None, {}, {"max_calc_step_size_feet": 1.5}, {"cGravityConstant": -10.0, "cMinimumAltitude": 0.0},
            {"chart_resolution": 1.0, "cZeroFindingAccuracy": 1e-3, "cMinimumVelocity": 10.0, "cMaximumDrop": -5.0,
             "cMaxIterations": 7}, "not a dict", [("cMaxIterations", 3)]):
    c = Calculator(cfg)
    print("config", repr(cfg), "->", tuple(c._calc._config), "gravity", tuple(c._calc.gravity_vector),
          "kept", c._config is cfg)
for cfg in ({"bogus": 1}, {"cMaxIterations": 5, "max_step": 1}):
    try:
        Calculator(cfg)
        print("config", cfg, "accepted")
    except TypeError as exc:
        print("config", cfg, "-> TypeError", exc)
# creation-time snapshot of the global step; later changes do not reach existing calculators
first = Calculator()
set_global_max_calc_step_size(Distance.Inch(3))
second = Calculator()
own = Calculator({"max_calc_step_size_feet": 0.75})
reset_globals()
third = Calculator()
print("steps:", [c._calc._config.max_calc_step_size_feet for c in (first, second, own, third)],
      "global now", repr(get_global_max_calc_step_size() >> Distance.Foot))

# 2. fire: the record step (default = a tenth of the range; given as number, as Distance, falsy values)
calc = Calculator()
shot = make_shot(zero_elev=Angular.Mil(1.5))
fire("no step given", calc, shot, Distance.Yard(500))
fire("step 0", calc, shot, Distance.Yard(500), 0)
fire("step 0.0 keyword", calc, shot, Distance.Yard(500), trajectory_step=0.0)
fire("step None", calc, shot, Distance.Yard(500), None)
fire("step False", calc, shot, Distance.Yard(500), False)
fire("step number (preferred unit yard)", calc, shot, 500, 125)
fire("step Distance metres", calc, shot, Distance.Meter(400), Distance.Meter(80))
fire("step Distance zero (an object, so it counts as given)", calc, shot, Distance.Yard(100), Distance.Yard(0))
fire("step negative number", calc, shot, Distance.Yard(100), -10)
fire("range as number with default step", calc, shot, 300)
fire("range zero, default step", calc, shot, 0)
fire("range negative, default step", calc, shot, Distance.Foot(-30))
fire("range as string", calc, shot, "100")
fire("step as string", calc, shot, Distance.Yard(100), "10")
fire("extra data", calc, shot, Distance.Yard(300), Distance.Yard(100), True, full=(1, 2, -1))
fire("extra data + time step keyword", calc, shot, Distance.Yard(300), Distance.Yard(100), extra_data=True,
     time_step=0.1, full=(1, 2, -1))
fire("truthy non-bool extra_data", calc, shot, Distance.Yard(200), Distance.Yard(100), extra_data="yes")
fire("falsy non-bool extra_data", calc, shot, Distance.Yard(200), Distance.Yard(100), extra_data=[])
# preferred distance unit changes the meaning of bare numbers (and of nothing else)
PreferredUnits.distance = Unit.Meter
fire("numbers in metres", calc, shot, 300, 60)
fire("numbers in metres, default step", calc, shot, 300)
d = Distance.Yard(200)
fire("Distance argument is relabelled to the preferred unit", calc, shot, d)
print("   relabelled:", repr(d.units), repr(d.raw_value))
PreferredUnits.defaults()

# 3. per-shot setup: geometry, atmosphere, powder temperature, drag model parts
canted = make_shot(zero_elev=Angular.Mil(3), cant_angle=Angular.Degree(20), look_angle=Angular.Degree(7),
                   relative_angle=Angular.MOA(4), twist=-9, sight=3.5,
                   atmo=Atmo(Distance.Foot(3500), Pressure.InHg(26.1), Temperature.Fahrenheit(41), 0.6),
                   winds=[Wind(Velocity.MPH(10), Angular.OClock(4), Distance.Yard(200)),
                          Wind(Velocity.MPH(25), Angular.OClock(9), Distance.Yard(450))])
fire("canted uphill, thin air, two winds", Calculator({"max_calc_step_size_feet": 1.0}), canted,
     Distance.Yard(600), Distance.Yard(100), full=(0, 1, -1))
dm = DragModel(0.5, TableG1, Weight.Grain(300), Distance.Inch(0.338), Distance.Inch(1.7))
ammo = Ammo(dm, Velocity.MPS(800), Temperature.Celsius(15))
ammo.calc_powder_sens(Velocity.MPS(780), Temperature.Celsius(-10))
cold = Shot(weapon=Weapon(Distance.Centimeter(9), Distance.Inch(10)), ammo=ammo,
            atmo=Atmo.icao(Distance.Meter(1200), Temperature.Celsius(-20)))
for sens in (False, True):
    ammo.use_powder_sensitivity = sens
    c = Calculator()
    fire(f"powder sensitivity {sens}", c, cold, Distance.Meter(800), Distance.Meter(200))
    print("   cdm points:", len(c.cdm), repr(c.cdm[0]), repr(c.cdm[-1]))
    e = c._calc
    print("   engine:", repr((e.look_angle, e.twist, e.length, e.diameter, e.weight, e.barrel_elevation,
                              e.barrel_azimuth, e.sight_height, e.cant_cosine, e.cant_sine, e.alt0, e.calc_step,
                              e.muzzle_velocity, e.stability_coefficient)))
no_twist = make_shot(twist=0)
fire("no twist (no spin drift)", calc, no_twist, Distance.Yard(300), Distance.Yard(100))
try:
    calc.fire(Shot(weapon=None, ammo=ammo), Distance.Yard(100))
except Exception as exc:  # pylint: disable=broad-except
    print("== shot without weapon:", type(exc).__name__, exc)
try:
    calc.fire(Shot(weapon=Weapon(), ammo=None), Distance.Yard(100))
except Exception as exc:  # pylint: disable=broad-except
    print("== shot without ammo:", type(exc).__name__, exc)

# 4. zeroing
for cfg in ({}, {"cZeroFindingAccuracy": 0.01}, {"cMaxIterations": 1}, {"max_calc_step_size_feet": 3.0},
            {"cGravityConstant": -9.0}):
    c = Calculator(cfg)
    zshot = make_shot(look_angle=Angular.Degree(4))
    capture.lines.clear()
    try:
        elev = c.barrel_elevation_for_target(zshot, Distance.Yard(300))
        print(f"== elevation {cfg}: {elev.raw_value!r} units={elev.units!r} its={len(capture.lines)}",
              "weapon untouched:", repr(zshot.weapon.zero_elevation.raw_value))
        ret = c.set_weapon_zero(zshot, 300)
        print(f"   set_weapon_zero: {ret.raw_value!r} stored is returned: {ret is zshot.weapon.zero_elevation}")
    except ZeroFindingError as err:
        print(f"== elevation {cfg}: ZeroFindingError {err.zero_finding_error!r} {err.iterations_count} "
              f"{err.last_barrel_elevation.raw_value!r}", "weapon:", repr(zshot.weapon.zero_elevation.raw_value))
    fire(f"   after zero {cfg}", c, zshot, Distance.Yard(400), Distance.Yard(100), full=(3,))
PreferredUnits.distance = Unit.Meter
zm = make_shot()
print("== zero at bare 100 (metres):", repr(Calculator().set_weapon_zero(zm, 100).raw_value))
PreferredUnits.defaults()
zy = make_shot()
print("== zero at bare 100 (yards):", repr(Calculator().set_weapon_zero(zy, 100).raw_value))
try:
    Calculator().set_weapon_zero(make_shot(), Distance.Yard(0))
except Exception as exc:  # pylint: disable=broad-except
    print("== zero at distance 0:", type(exc).__name__, exc)
