"""Equivalence digest for refactoring 2 (config-file loading, basicConfig, PreferredUnits.set).

Prints a deterministic text; must be identical on the clean worktree and with the patch.
Writes its scratch .toml files into a fixed directory next to this file and removes it afterwards.
"""
import hashlib
import logging
import os
import shutil

import py_ballisticcalc
from py_ballisticcalc import (Unit, PreferredUnits, Distance, Angular, basicConfig, loadImperialUnits, loadMetricUnits,
                              loadMixedUnits, get_global_max_calc_step_size, set_global_max_calc_step_size,
                              reset_globals, Calculator, Shot, Weapon, Ammo, DragModel, TableG7, Velocity)
from py_ballisticcalc import trajectory_calc
from py_ballisticcalc.logger import logger

HERE = os.path.dirname(os.path.abspath(__file__))
WORK = os.path.join(HERE, "work")
START_CWD = os.getcwd()

records = []


class _Collect(logging.Handler):
    def emit(self, record):
        records.append(f"{record.levelname}:{record.getMessage()}")


for h in list(logger.handlers):
    logger.removeHandler(h)
logger.addHandler(_Collect())
logger.setLevel(logging.DEBUG)

lines = []


def out(*a):
    lines.append(" ".join(str(x) for x in a))


def state():
    pu = "; ".join(f"{f}={getattr(PreferredUnits, f)!r}/{type(getattr(PreferredUnits, f)).__name__}"
                   for f in PreferredUnits.__dataclass_fields__)
    return f"step_ft={trajectory_calc._globalMaxCalcStepSizeFeet!r} | {pu}"


def reset():
    PreferredUnits.defaults()
    reset_globals()
    del records[:]


def run(label, f, *a, **kw):
    reset()
    try:
        r = f(*a, **kw)
        res = f"returned {r!r}"
    except BaseException as e:  # noqa
        res = f"!{type(e).__name__}:{e}"
    out("--", label)
    out("  ", res)
    out("  ", state())
    for rec in records:
        out("   log", rec)


def write(name, text):
    path = os.path.join(WORK, name)
    os.makedirs(os.path.dirname(path), exist_ok=True)
    with open(path, "w", encoding="utf-8") as fp:
        fp.write(text)
    return path


shutil.rmtree(WORK, ignore_errors=True)
os.makedirs(WORK)

FILES = {
    "full": """
[pybc.preferred_units]
angular = 'RADIAN'
distance = 'meter'
velocity = ' m/s '
pressure = 'HPA'
temperature = '°c'
drop = 'Cm'
twist = 'LN'
[pybc.calculator]
max_calc_step_size = { value = 10, units = "CM" }
""",
    "empty": "",
    "no_pybc": "title = 'x'\n[other]\na = 1\n",
    "pybc_empty": "[pybc]\n",
    "pybc_scalar": "pybc = 5\n",
    "pybc_zero": "pybc = 0\n",
    "only_calc": "[pybc.calculator]\nmax_calc_step_size = { value = 2, units = 'inch' }\n",
    "only_units": "[pybc.preferred_units]\ndistance = 'km'\n",
    "units_empty": "[pybc.preferred_units]\n[pybc.calculator]\nmax_calc_step_size = { value = 1, units = 'ft' }\n",
    "calc_empty": "[pybc.preferred_units]\ndistance = 'Mile'\n[pybc.calculator]\n",
    "calc_other": "[pybc.preferred_units]\ndistance = 'Mile'\n[pybc.calculator]\nother = 1\n",
    "calc_string": "[pybc]\ncalculator = 'x'\n[pybc.preferred_units]\ndistance = 'Mile'\n",
    "step_scalar": "[pybc.calculator]\nmax_calc_step_size = 5\n",
    "step_zero": "[pybc.calculator]\nmax_calc_step_size = 0\n",
    "step_string": "[pybc.calculator]\nmax_calc_step_size = '5ft'\n",
    "step_bad_units": "[pybc.calculator]\nmax_calc_step_size = { value = 1, units = 'parsec' }\n",
    "step_no_units": "[pybc.calculator]\nmax_calc_step_size = { value = 1 }\n",
    "step_no_value": "[pybc.calculator]\nmax_calc_step_size = { units = 'ft' }\n",
    "step_str_value": "[pybc.calculator]\nmax_calc_step_size = { value = '1', units = 'ft' }\n",
    "step_negative": "[pybc.calculator]\nmax_calc_step_size = { value = -1, units = 'ft' }\n",
    "step_zero_value": "[pybc.calculator]\nmax_calc_step_size = { value = 0, units = 'ft' }\n",
    "step_angular": "[pybc.calculator]\nmax_calc_step_size = { value = 1, units = 'degree' }\n",
    "step_radian": "[pybc.calculator]\nmax_calc_step_size = { value = 1, units = 'Radian' }\n",
    "step_slot": "[pybc.preferred_units]\ndistance='m'\n[pybc.calculator]\nmax_calc_step_size = { value = 0.2, units = 'distance' }\n",
    "step_int_units": "[pybc.calculator]\nmax_calc_step_size = { value = 1, units = 11 }\n",
    "step_bool_value": "[pybc.calculator]\nmax_calc_step_size = { value = true, units = ' YARD ' }\n",
    "units_mixed": """
[pybc.preferred_units]
bogus = 'inch'
distance = 'parsec'
velocity = ''
angular = 'rad'
drop = 5
ogw = true
weight = 1.5
length = ['inch']
twist = 'distance'
sight_height = 'FeEt'
""",
}
PATHS = {k: write(k + ".toml", v) for k, v in FILES.items()}

out("== _load_config through basicConfig(filename)")
for name, path in PATHS.items():
    for suppress in (False, True):
        run(f"{name} suppress={suppress}", basicConfig, path, suppress_warnings=suppress)
run("missing file", basicConfig, os.path.join(WORK, "does_not_exist.toml"))
bad = write("broken.toml", "[pybc\n")
run("broken toml", basicConfig, bad)

out("== directory search")
deep = os.path.join(WORK, "tree", "a", "b", "c")
os.makedirs(deep)
write(os.path.join("tree", "pybc.toml"), "[pybc.preferred_units]\ndistance = 'km'\n")
os.chdir(deep)
run("found upward: pybc.toml", basicConfig)
write(os.path.join("tree", "a", ".pybc.toml"), "[pybc.preferred_units]\ndistance = 'cm'\n")
run("nearer wins: a/.pybc.toml", basicConfig)
write(os.path.join("tree", "a", "pybc.toml"), "[pybc.preferred_units]\ndistance = 'mm'\n")
run("same dir: dotted name wins", basicConfig)
run("explicit None filename, falsy overrides", basicConfig, None, 0, {})
run("empty-string filename", basicConfig, "")
os.chdir(WORK)
run("nothing upward of cwd -> package directory search", basicConfig)
gone = os.path.join(WORK, "gone")
os.makedirs(gone)
os.chdir(gone)
os.rmdir(gone)
run("deleted cwd, explicit file", basicConfig, PATHS["full"])
run("deleted cwd, search", basicConfig)
run("deleted cwd, overrides only", basicConfig, preferred_units={"distance": Unit.Foot})
os.chdir(START_CWD)

out("== basicConfig argument combinations")
f = PATHS["full"]
run("file + units", basicConfig, f, preferred_units={"distance": Unit.Meter})
run("file + step", basicConfig, f, max_calc_step_size=1.0)
run("file + step + units", basicConfig, f, 1.0, {"distance": Unit.Meter})
run("file + zero step + empty units", basicConfig, f, 0, {})
run("file + Distance(0) step", basicConfig, f, Distance.Foot(0))
run("units only", basicConfig, preferred_units={"distance": Unit.Meter, "angular": "RAD", "nope": "x", "drop": "zz"})
run("step only float (preferred yard)", basicConfig, max_calc_step_size=0.25)
run("step only Distance", basicConfig, max_calc_step_size=Distance.Centimeter(7))
run("step only negative", basicConfig, max_calc_step_size=-1)
run("step only Distance(0)", basicConfig, max_calc_step_size=Distance.Inch(0))
run("step only wrong dimension", basicConfig, max_calc_step_size=Angular.Degree(1))
run("step only string", basicConfig, max_calc_step_size="1ft")
run("units + step: units first", basicConfig, None, 2, {"distance": "m"})
run("units + bad step: units stay", basicConfig, None, -2, {"distance": "m"})
run("units not a mapping", basicConfig, preferred_units=[("distance", "m")])
run("loadMetricUnits", loadMetricUnits)
run("loadImperialUnits", loadImperialUnits)
run("loadMixedUnits", loadMixedUnits)

out("== PreferredUnits.set directly")
run("set units/str/bool/other", PreferredUnits.set, distance=Unit.Radian, angular=" moa ", velocity=True, drop=False,
    weight=0, ogw=None, twist="twist", length=Unit.Radian, energy="J", bogus=1, temperature="k")
run("set nothing", PreferredUnits.set)
run("set every unit by name", lambda: [PreferredUnits.set(twist=u.name.upper()) or PreferredUnits.twist for u in Unit])
run("set dunder", PreferredUnits.set, __doc__="inch", __module__=Unit.Inch)

# any existing attribute name is accepted as a slot, even a method name: keep and restore the classmethod
_saved = PreferredUnits.__dict__["defaults"]
_saved_set = PreferredUnits.__dict__["set"]
reset()
PreferredUnits.set(defaults="inch", set=Unit.Radian)
out("-- method names as slots", repr(PreferredUnits.__dict__["defaults"]), repr(PreferredUnits.__dict__["set"]))
PreferredUnits.defaults = _saved
PreferredUnits.set = _saved_set

out("== the loaded step governs calculators created afterwards")
reset()
dm = DragModel(0.223, TableG7, 168, 0.308, 1.282)


def trace(calc):
    shot = Shot(weapon=Weapon(2, 12), ammo=Ammo(dm, Velocity.FPS(2600)))
    hit = calc.fire(shot, Distance.Yard(20), Distance.Yard(20), extra_data=True, time_step=1e-9)
    xs = [p.distance.raw_value for p in hit.trajectory]
    return len(xs), repr(max(b - a for a, b in zip(xs, xs[1:]))), repr(xs[-1])


before = Calculator()
basicConfig(PATHS["full"])
after = Calculator()
basicConfig(max_calc_step_size=Distance.Foot(2))
later = Calculator()
reset_globals()
out("before", before._calc._config, trace(before))
out("after ", after._calc._config, trace(after))
out("later ", later._calc._config, trace(later))
out("fresh ", Calculator()._calc._config)

reset()
loadImperialUnits()
os.chdir(START_CWD)
shutil.rmtree(WORK, ignore_errors=True)

text = "\n".join(lines).replace(HERE, "<HERE>")
print(text)
print("lines", len(lines))
print("sha256", hashlib.sha256(text.encode("utf-8")).hexdigest())
