"""Equivalence probe for C18 refactoring 1 (global step state, get_calc_step, step duration)."""
import hashlib
import logging
import math
import warnings

warnings.simplefilter("ignore")

from py_ballisticcalc import (Calculator, DragModel, TableG1, TableG7, Weight, Distance, Velocity, Ammo, Weapon,
                              Shot, Angular, Unit, Wind, PreferredUnits, RangeError, basicConfig,
                              get_global_max_calc_step_size, set_global_max_calc_step_size, reset_globals,
                              logger)
from py_ballisticcalc import trajectory_calc
from py_ballisticcalc.trajectory_calc import TrajectoryCalc
from py_ballisticcalc.interface_config import create_interface_config

logger.setLevel(logging.CRITICAL)
PreferredUnits.defaults()
reset_globals()


def row_repr(r):
    return repr((r.time, r.distance.raw_value, r.velocity.raw_value, r.mach, r.height.raw_value,
                 r.target_drop.raw_value, r.drop_adj.raw_value, r.windage.raw_value, r.windage_adj.raw_value,
                 r.look_distance.raw_value, r.angle.raw_value, r.density_factor, r.drag, r.energy.raw_value,
                 r.ogw.raw_value, int(r.flag)))


def digest(rows):
    h = hashlib.sha256()
    for r in rows:
        h.update(row_repr(r).encode())
    return f"n={len(rows)} sha={h.hexdigest()[:24]} last={row_repr(rows[-1])}"


def make_shot(winds=None, look=0.0, elev=0.3):
    dm = DragModel(0.223, TableG7, Weight.Grain(168), Distance.Inch(0.308), Distance.Inch(1.282))
    weapon = Weapon(Distance.Inch(2), Distance.Inch(11.24), Angular.Degree(elev))
    return Shot(weapon=weapon, ammo=Ammo(dm, Velocity.FPS(2750)), look_angle=Angular.Degree(look),
                winds=winds)


def fire(calc, shot, rng, **kw):
    try:
        return "ok " + digest(calc.fire(shot, rng, **kw).trajectory)
    except RangeError as e:
        return f"RangeError[{e.reason}] " + digest(e.incomplete_trajectory)


def step_trace(calc, shot, rng):
    """every integration step as a row (tiny time_step) -> largest advance through the air is visible"""
    try:
        rows = calc.fire(shot, rng, Distance.Foot(10000), time_step=1e-12).trajectory
    except RangeError as e:
        rows = e.incomplete_trajectory
    worst = 0.0
    for a, b in zip(rows, rows[1:]):
        dx = (b.distance >> Distance.Foot) - (a.distance >> Distance.Foot)
        dy = (b.height >> Distance.Foot) - (a.height >> Distance.Foot)
        dz = (b.windage >> Distance.Foot) - (a.windage >> Distance.Foot)
        worst = max(worst, math.sqrt(dx * dx + dy * dy + dz * dz))
    return f"{digest(rows)} worst_advance={worst!r}"


def attempt(label, fn):
    try:
        print(label, "->", repr(fn()))
    except Exception as e:  # pylint: disable=broad-except
        print(label, "-> EXC", type(e).__name__, e)


def show_global(label):
    g = get_global_max_calc_step_size()
    print(label, repr(trajectory_calc._globalMaxCalcStepSizeFeet), repr(g.raw_value), repr(g.units), str(g),
          repr(trajectory_calc._globalUsePowderSensitivity))


print("== defaults")
show_global("initial")
print(repr(create_interface_config()))
c_default = Calculator()
print(repr(c_default._calc._config), repr(c_default._calc.gravity_vector))

print("== get_calc_step")
for cfg in (None, {"max_calc_step_size_feet": 0.1}, {"max_calc_step_size_feet": 3}, {"max_calc_step_size_feet": 0},
            {"max_calc_step_size_feet": -1.5}, {"max_calc_step_size_feet": float("nan")},
            {"max_calc_step_size_feet": float("inf")}):
    tc = TrajectoryCalc(create_interface_config(cfg))
    out = [repr(tc.get_calc_step())]
    for step in (0, 0.0, -0.0, 1, 0.05, 0.1, 0.5, 3, 3.0, 7, -2, -2.5, float("nan"), float("inf"), float("-inf"),
                 True, False):
        out.append(f"{step!r}:{tc.get_calc_step(step)!r}")
    print(cfg, " ".join(out))

print("== history of the global step")
calcs = [("c0", Calculator())]
attempt("set 0", lambda: set_global_max_calc_step_size(0))
attempt("set -1", lambda: set_global_max_calc_step_size(-1))
attempt("set -0.0", lambda: set_global_max_calc_step_size(-0.0))
attempt("set Distance.Meter(-0.2)", lambda: set_global_max_calc_step_size(Distance.Meter(-0.2)))
attempt("set Velocity", lambda: set_global_max_calc_step_size(Velocity.FPS(3)))
attempt("set '1'", lambda: set_global_max_calc_step_size("1"))
attempt("set None", lambda: set_global_max_calc_step_size(None))
show_global("after rejected")
calcs.append(("c1", Calculator()))
set_global_max_calc_step_size(2)  # yards (preferred distance)
show_global("after set 2 (yd)")
calcs.append(("c2", Calculator()))
arg = Distance.Meter(0.3)
set_global_max_calc_step_size(arg)
print("argument after call:", repr(arg.units), repr(arg.raw_value))
show_global("after set 0.3 m")
calcs.append(("c3", Calculator()))
calcs.append(("c3o", Calculator(_config={"max_calc_step_size_feet": 0.2})))
PreferredUnits.distance = Unit.Meter
set_global_max_calc_step_size(0.05)
show_global("after set 0.05 (preferred m)")
calcs.append(("c4", Calculator()))
PreferredUnits.defaults()
set_global_max_calc_step_size(float("nan"))
show_global("after set nan")
calcs.append(("c5", Calculator()))
trajectory_calc._globalUsePowderSensitivity = True
reset_globals()
show_global("after reset")
calcs.append(("c6", Calculator()))
basicConfig(max_calc_step_size=Unit.Foot(0.25))
show_global("after basicConfig 0.25 ft")
calcs.append(("c7", Calculator()))
attempt("basicConfig -1", lambda: basicConfig(max_calc_step_size=-1))
show_global("after basicConfig -1")
reset_globals()
for name, c in calcs:
    print(name, repr(c._calc._config.max_calc_step_size_feet), repr(c._calc.get_calc_step()))

print("== step traces (each calculator keeps the step it was created with)")
shot = make_shot()
windy = make_shot(winds=[Wind(Velocity.MPH(10), Angular.Degree(90), Distance.Yard(30)),
                         Wind(Velocity.MPH(25), Angular.Degree(200), Distance.Yard(9999))])
for name, c in calcs:
    if name == "c5":
        attempt("c5 nan step", lambda: fire(c, shot, Distance.Yard(20)))
        continue
    print(name, step_trace(c, shot, Distance.Yard(40)))
print("c3 windy", step_trace(calcs[3][1], windy, Distance.Yard(60)))

print("== slow projectile: air speed at or below 1 fps")
dm = DragModel(0.05, TableG1, Weight.Grain(20), Distance.Inch(0.3), Distance.Inch(0.5))
for mv in (0.5, 1.0, 1.0000001, 3.0):
    slow = Shot(weapon=Weapon(Distance.Inch(0), Distance.Inch(10), Angular.Degree(45)), ammo=Ammo(dm, Velocity.FPS(mv)))
    c = Calculator(_config={"cMinimumVelocity": 0, "cMaximumDrop": -3, "max_calc_step_size_feet": 0.2})
    print(mv, step_trace(c, slow, Distance.Foot(2)))
tail = Shot(weapon=Weapon(Distance.Inch(0), Distance.Inch(10), Angular.Degree(1)), ammo=Ammo(dm, Velocity.FPS(5)),
            winds=[Wind(Velocity.FPS(4.5), Angular.Degree(0), Distance.Yard(1000))])
c = Calculator(_config={"cMinimumVelocity": 0, "cMaximumDrop": -2, "max_calc_step_size_feet": 0.3})
print("tailwind", step_trace(c, tail, Distance.Foot(3)))

print("== ordinary use")
print(fire(Calculator(), shot, Distance.Yard(600), trajectory_step=Distance.Yard(100)))
print(fire(Calculator(_config={"max_calc_step_size_feet": 1.7}), windy, Distance.Yard(500), extra_data=True))
z = Calculator(_config={"max_calc_step_size_feet": 0.8})
print(repr(z.set_weapon_zero(make_shot(look=3.0), Distance.Yard(300)).raw_value))
show_global("final")
