"""Digest of unit-name parsing and preferred-unit setting (C18, refactoring 2).

Run:  cd /tmp/wt/t5_C18 && PYTHONPATH=/tmp/wt/t5_C18 /venv/bin/python /tmp/twins5/C18/2/equiv.py
"""
import hashlib
import logging
import warnings

warnings.simplefilter("ignore")

import py_ballisticcalc as pbc
from py_ballisticcalc import (Unit, UnitAliases, UnitPropsDict, PreferredUnits, Distance, Velocity, Angular,
                              basicConfig, loadMetricUnits, loadImperialUnits, loadMixedUnits, reset_globals, logger)
from py_ballisticcalc.unit import _parse_unit, _parse_value, _find_unit_by_alias
from py_ballisticcalc.munition import Weapon


class ListHandler(logging.Handler):
    def __init__(self):
        super().__init__(level=logging.DEBUG)
        self.records = []

    def emit(self, record):
        self.records.append(f"{record.levelname}:{record.getMessage()}")

    def take(self):
        r, self.records = self.records, []
        return r


handler = ListHandler()
for h in list(logger.handlers):
    logger.removeHandler(h)
logger.addHandler(handler)
logger.setLevel(logging.INFO)

PreferredUnits.defaults()
reset_globals()
handler.take()


def out(label, value):
    print(f"{label}: {value}")


def show(v):
    """repr that tells enum members from plain ints and dimensions by raw value"""
    if isinstance(v, Unit):
        return f"Unit.{v.name}"
    if hasattr(v, "raw_value"):
        return f"{type(v).__name__}({v.raw_value!r}, Unit.{v.units.name})"
    return repr(v)


def attempt(fn, *a, **kw):
    try:
        return show(fn(*a, **kw))
    except Exception as e:  # pylint: disable=broad-except
        return f"{type(e).__name__}: {e}"


def cases(s):
    swapped = s.swapcase()
    alt = "".join(c.upper() if i % 2 else c.lower() for i, c in enumerate(s))
    return [s, s.lower(), s.upper(), s.title(), swapped, alt]


def blanks(s):
    return [s, " " + s, s + "  ", "\t" + s + "\n", "  " + s + " \r\n"]


def prefs():
    return ", ".join(f"{f}={show(getattr(PreferredUnits, f))}" for f in PreferredUnits.__dataclass_fields__)


# ---- 1. every unit name and every alias, in letter cases and with blanks, resolves to its unit
names = [(u.name, u) for u in Unit] + [(alias, u) for group, u in UnitAliases.items() for alias in group] \
        + [(p.name, u) for u, p in UnitPropsDict.items()] + [(p.symbol, u) for u, p in UnitPropsDict.items()]
h = hashlib.sha256()
wrong = []
total = 0
for name, unit in names:
    for c in cases(name):
        for b in blanks(c):
            total += 1
            got = attempt(_parse_unit, b)
            h.update(f"{b!r}->{got};".encode())
            if got != f"Unit.{unit.name}":
                wrong.append((b, unit.name, got))
out("names x cases x blanks", f"total={total} sha={h.hexdigest()[:24]} not_own_unit={len(wrong)}")
for w in sorted(set((x[0].strip().lower(), x[1], x[2]) for x in wrong)):
    out("  differs", w)
for name, unit in names:
    out(f"  parse {name!r}", attempt(_parse_unit, name))

# unknown names, field names, odd input
odd = ["", " ", "x", "metre", "meters", "feet ", "inchs", "rad ian", "degrees", "0", "17", "Unit.Meter", "unit.meter",
       "m/s2", "mm hg", "mmhg", "in hg", "°", "°f", "K", "k", "j", "J", "N", "n", "nmi", "mi.", "liniа", "linia",
       "distance", "Distance", " VELOCITY ", "angular", "twist", "ogw", "sight_height", "set", "defaults", "_", "İ",
       "ſ", "ß", "ft⋅lbf", "FT⋅LBF", "ft·lb", "″hg", "″Hg", "hpa", "HPA", "nautical mile", "nauticalmile", "mil", "mile",
       "mils", "kt", "kn", "knots", "lbf/in2", "LBF/IN2", "inch/100yd", "in/100yard", "cm/100m", "cmper100m", "oclock",
       "h", "hour"]
for s in odd:
    out(f"  odd {s!r}", attempt(_parse_unit, s))
for bad in (None, 5, 5.0, b"meter", Unit.Meter, ["meter"], ("m",)):
    out(f"  bad type {bad!r}", attempt(_parse_unit, bad))

# after changing a preferred unit, field names resolve to the current value
PreferredUnits.distance = Unit.Kilometer
out("field after change", (attempt(_parse_unit, "distance"), attempt(_parse_unit, " Distance\n")))
PreferredUnits.defaults()

# ---- 2. _find_unit_by_alias directly
table = {("a", "B"): Unit.Meter, ("b", "c"): Unit.Foot, (): Unit.Yard, ("", "C"): Unit.Radian}
for s in ("a", "b", "B", "c", "C", "", "d"):
    out(f"find {s!r}", attempt(_find_unit_by_alias, s, table))
out("find in empty", attempt(_find_unit_by_alias, "m", {}))
out("find radian", attempt(_find_unit_by_alias, "rad", UnitAliases))
out("find Rad (not lowered)", attempt(_find_unit_by_alias, "Rad", UnitAliases))
out("find bad table", attempt(_find_unit_by_alias, "m", {(1, 2): Unit.Meter}))

# ---- 3. _parse_value
h = hashlib.sha256()
bad_values = []
total = 0
for name, unit in names:
    for c in (name, name.upper(), name.lower()):
        for text in (f"2{c}", f"-1.5 {c}", f" .25  {c} ", f"3.{c}", f"7 {c}\n"):
            for preferred in (Unit.Meter, "fps", None):
                total += 1
                got = attempt(_parse_value, text, preferred)
                h.update(f"{text!r}/{preferred!r}->{got};".encode())
                if f"Unit.{unit.name})" not in got:
                    bad_values.append((text.strip().lower(), unit.name, got))
out("values", f"total={total} sha={h.hexdigest()[:24]} not_own_unit={len(bad_values)}")
for w in sorted(set(bad_values)):
    out("  value differs", w)
plain = [1, 1.5, -2, 0, True, False, "10", "-10", "10.", ".5", "-.5", "1.5", " 1 . 5 ", "1e3", "1.5e3m", "+5", "+5m",
         "--5", "-", ".", "-.", "", " ", "abc", "m5", "5 5", "5,5", "5\n", "5\n\n", "5\nm", "5m\n", "5\tm", "5 m m",
         "5meter", "5 Meter", "5METER", "5 foot-pound", "1ft*lb", "12.5 FT·LB", "3ft⋅lbf", "100 yd", "100yd.", "2 rad",
         "2RADIAN", "1distance", "1 velocity", "5 °F", "5°f", "5 degF", "300 K", "300k", "1 nautical mile", "١٢", "١٢m",
         "1_000", "0x10", "nan", "inf", "1e", "5 .", "5 .5", "-0", "-0.0ft", "00012.500 cm", "1.2.3", "1..m"]
for v in plain:
    for preferred in (Unit.Yard, Unit.Radian, "m", " Inch ", "DISTANCE", "nope", "", None, 5, True):
        out(f"  value {v!r} as {preferred!r}", attempt(_parse_value, v, preferred))
for v in (None, b"5", [5], (5,), Distance.Meter(5), Unit.Meter, 1 + 2j):
    out(f"  value {v!r}", attempt(_parse_value, v, Unit.Meter))

# ---- 4. PreferredUnits.set
handler.take()
steps = [
    dict(distance="m"), dict(distance="METER", velocity=" mps "), dict(angular="radian"), dict(angular="RAD"),
    dict(angular=Unit.Radian), dict(adjustment=Unit.MOA, drop="cm"), dict(distance="nope"),
    dict(nope="m"), dict(nope=Unit.Meter), dict(distance=5), dict(distance=5.0), dict(distance=None),
    dict(distance=True), dict(velocity=False), dict(distance=b"m"), dict(distance=["m"]),
    dict(distance="velocity"), dict(drop="drop"), dict(twist="", length=" "),
    dict(temperature="°c", pressure="HPA", weight="KG", energy="j", ogw="LB", sight_height="mm",
         target_height="Ft", twist="IN", length="Line", diameter="ln"),
    dict(distance=Unit.FPS), dict(distance="fps"), dict(velocity=0), dict(velocity=Unit(0)),
    dict(a=1, distance="yd", b="m", velocity="nope", angular="deg"),
    {},
]
for kw in steps:
    before = prefs()
    res = attempt(PreferredUnits.set, **kw)
    after = prefs()
    changed = [x for x, y in zip(after.split(", "), before.split(", ")) if x != y]
    out(f"set {kw!r}", f"{res} changed={changed} log={handler.take()}")
out("prefs after sets", prefs())
out("repr", repr(PreferredUnits).replace("\n", "; "))
PreferredUnits.defaults()
out("prefs after defaults", prefs())
# every unit name / alias through the public setter, radian included
h = hashlib.sha256()
miss = []
for name, unit in names:
    for c in cases(name):
        PreferredUnits.defaults()
        PreferredUnits.set(ogw=f" {c} ")
        h.update(f"{c!r}->{show(PreferredUnits.ogw)};".encode())
        if PreferredUnits.ogw is not unit:
            miss.append((c.lower(), unit.name, show(PreferredUnits.ogw)))
out("set every name", f"sha={h.hexdigest()[:24]} not_own_unit={len(miss)} log_sha="
                      f"{hashlib.sha256(repr(handler.take()).encode()).hexdigest()[:24]}")
for w in sorted(set(miss)):
    out("  set differs", w)
PreferredUnits.defaults()

# ---- 5. through basicConfig / preset files and users of the preferred units
for loader in (loadMetricUnits, loadImperialUnits, loadMixedUnits):
    loader()
    out(loader.__name__, f"{prefs()} log={handler.take()}")
    w = Weapon(2, 10)
    out("  weapon", (show(w.sight_height), show(w.twist)))
PreferredUnits.defaults()
out("basicConfig units", attempt(basicConfig, preferred_units={"distance": "KM", "velocity": Unit.KMH, "x": "m",
                                                               "angular": "thousandth", "drop": "bogus"}))
out("  prefs", f"{prefs()} log={handler.take()}")
out("  distance(3)", show(PreferredUnits.distance(3)))
out("  angular(1)", show(PreferredUnits.angular(1)))
PreferredUnits.defaults()
reset_globals()
out("end", prefs())
