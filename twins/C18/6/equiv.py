"""Equivalence probe for C18 refactoring 3 (zero_angle loop, limit checks and final rows of _integrate)."""
import hashlib
import logging
import warnings

warnings.simplefilter("ignore")

from py_ballisticcalc import (Calculator, DragModel, TableG1, TableG7, Weight, Distance, Velocity, Ammo, Weapon,
                              Shot, Angular, Wind, Atmo, PreferredUnits, RangeError, ZeroFindingError,
                              reset_globals, logger)

logger.setLevel(logging.CRITICAL)
PreferredUnits.defaults()
reset_globals()
NAN = float("nan")
INF = float("inf")


def row_repr(r):
    return repr((r.time, r.distance.raw_value, r.velocity.raw_value, r.mach, r.height.raw_value,
                 r.target_drop.raw_value, r.drop_adj.raw_value, r.windage.raw_value, r.windage_adj.raw_value,
                 r.look_distance.raw_value, r.angle.raw_value, r.density_factor, r.drag, r.energy.raw_value,
                 r.ogw.raw_value, int(r.flag)))


def digest(rows):
    h = hashlib.sha256()
    for r in rows:
        h.update(row_repr(r).encode())
    return f"n={len(rows)} sha={h.hexdigest()[:20]} last={row_repr(rows[-1])}"


def make_shot(look=0.0, elev=0.2, alt=0.0, winds=None, twist=11.24, mv=2750.0, table=TableG7, bc=0.223):
    dm = DragModel(bc, table, Weight.Grain(168), Distance.Inch(0.308), Distance.Inch(1.282))
    weapon = Weapon(Distance.Inch(2), Distance.Inch(twist), Angular.Degree(elev))
    return Shot(weapon=weapon, ammo=Ammo(dm, Velocity.FPS(mv)), look_angle=Angular.Degree(look),
                atmo=Atmo.icao(Distance.Foot(alt)), winds=winds)


def fire(cfg, shot, rng, **kw):
    try:
        return "ok " + digest(Calculator(_config=cfg).fire(shot, rng, **kw).trajectory)
    except RangeError as e:
        ld = None if e.last_distance is None else e.last_distance.raw_value
        return f"RangeError[{e.reason}] last_distance={ld!r} msg={e} " + digest(e.incomplete_trajectory)
    except Exception as e:  # pylint: disable=broad-except
        return f"EXC {type(e).__name__}: {e}"


def zero(cfg, shot, dist, calc=None):
    calc = calc or Calculator(_config=cfg)
    before = shot.weapon.zero_elevation.raw_value
    try:
        res = calc.set_weapon_zero(shot, dist)
        return f"zero={res.raw_value!r} units={res.units.name} internal={calc._calc.barrel_elevation!r}"
    except ZeroFindingError as e:
        return (f"ZeroFindingError err={e.zero_finding_error!r} it={e.iterations_count!r} "
                f"last={e.last_barrel_elevation.raw_value!r} msg={e} kept={shot.weapon.zero_elevation.raw_value == before}")
    except RangeError as e:
        return f"RangeError[{e.reason}] " + digest(e.incomplete_trajectory)
    except Exception as e:  # pylint: disable=broad-except
        return f"EXC {type(e).__name__}: {e}"


print("== limits: which one stops the shot, and with which rows")
long_rng = Distance.Yard(3000)
limit_cfgs = [
    None,
    {"cMinimumVelocity": 2000.0},
    {"cMinimumVelocity": 2750.0},
    {"cMinimumVelocity": 1e9},
    {"cMinimumVelocity": 0},
    {"cMinimumVelocity": 0, "cMaximumDrop": -50},
    {"cMaximumDrop": -1.0},
    {"cMaximumDrop": 0.0},
    {"cMaximumDrop": 1e9},
    {"cMinimumAltitude": -3.0},
    {"cMinimumAltitude": 1e9},
    {"cMinimumVelocity": 1e9, "cMaximumDrop": 1e9, "cMinimumAltitude": 1e9},
    {"cMaximumDrop": 1e9, "cMinimumAltitude": 1e9},
    {"cMinimumVelocity": 1500.0, "cMaximumDrop": -10.0, "cMinimumAltitude": -5.0},
    {"cMinimumVelocity": 900.0, "cMaximumDrop": -10.0, "cMinimumAltitude": -5.0},
    {"cMinimumVelocity": 900.0, "cMaximumDrop": -10.0, "cMinimumAltitude": -15.0},
    {"cMinimumVelocity": NAN, "cMaximumDrop": NAN, "cMinimumAltitude": NAN},
    {"cMinimumVelocity": -INF, "cMaximumDrop": -INF, "cMinimumAltitude": -INF},
    {"cMinimumVelocity": 0, "cMinimumAltitude": Distance.Meter(0), "cMaximumDrop": Distance.Meter(0)},
    {"cMinimumVelocity": Velocity.MPS(400), "cMaximumDrop": Distance.Meter(-3)},
    {"cMaximumDrop": None},
    {"cMinimumVelocity": 1e9, "cMaximumDrop": None},
    {"cMinimumAltitude": "low"},
    {"cMaximumDrop": 1e9, "cMinimumAltitude": "low"},
]
for cfg in limit_cfgs:
    for label, shot, kw in (("flat", make_shot(), {}),
                            ("alt+extra", make_shot(alt=4.0, elev=0.05), {"extra_data": True}),
                            ("steep", make_shot(elev=35.0, look=2.0), {"trajectory_step": Distance.Yard(500)})):
        print(cfg, label, fire(cfg, shot, long_rng, **kw)[:420])

print("== limits reached on the very first step / below the muzzle")
print(fire({"cMinimumAltitude": 100.0}, make_shot(alt=50.0), Distance.Yard(100)))
print(fire({"cMaximumDrop": 0.5}, make_shot(), Distance.Yard(100), time_step=0.001))
print(fire({"cMinimumVelocity": 2749.0}, make_shot(), Distance.Yard(100), trajectory_step=Distance.Yard(1)))

print("== range ends: short ranges, record step below the calculation step, fewer than two rows")
for rng, step in ((Distance.Foot(0), Distance.Foot(0)), (Distance.Foot(0.1), Distance.Foot(0.01)),
                  (Distance.Foot(1), Distance.Foot(1)), (Distance.Foot(1), Distance.Foot(5)),
                  (Distance.Yard(10), Distance.Inch(1)), (Distance.Yard(100), Distance.Yard(100)),
                  (Distance.Yard(100), Distance.Yard(33)), (Distance.Foot(-5), Distance.Foot(1))):
    for cfg in (None, {"max_calc_step_size_feet": 3.0}, {"max_calc_step_size_feet": 0.07}):
        print(rng.raw_value, step.raw_value, cfg, fire(cfg, make_shot(), rng, trajectory_step=step)[:300])

print("== zeroing: accuracy and iteration cap")
zero_cfgs = [
    None,
    {"cZeroFindingAccuracy": 0.01},
    {"cZeroFindingAccuracy": 1e-9},
    {"cZeroFindingAccuracy": 1e-13, "cMaxIterations": 6},
    {"cZeroFindingAccuracy": 0},
    {"cZeroFindingAccuracy": 0.0, "cMaxIterations": 0},
    {"cZeroFindingAccuracy": -1.0},
    {"cZeroFindingAccuracy": NAN},
    {"cZeroFindingAccuracy": INF},
    {"cZeroFindingAccuracy": 1e6},
    {"cMaxIterations": 0},
    {"cMaxIterations": -3},
    {"cMaxIterations": 1},
    {"cMaxIterations": 2},
    {"cMaxIterations": 2.5},
    {"cMaxIterations": 3},
    {"cMaxIterations": 100},
    {"cMaxIterations": NAN},
    {"cMaxIterations": INF, "cZeroFindingAccuracy": 1e-7},
    {"cGravityConstant": 0.0},
    {"cGravityConstant": -5.3},
    {"cGravityConstant": 32.17405},
    {"max_calc_step_size_feet": 2.5, "cZeroFindingAccuracy": 1e-4},
    {"cMinimumVelocity": 2600.0},
    {"cMaximumDrop": -0.01},
    {"cZeroFindingAccuracy": None},
    {"cMaxIterations": None},
]
for cfg in zero_cfgs:
    for label, look, dist in (("100yd", 0.0, Distance.Yard(100)), ("400m up", 7.5, Distance.Meter(400)),
                              ("150yd down", -12.0, Distance.Yard(150))):
        print(cfg, label, zero(cfg, make_shot(look=look), dist))
print("zero at 0", zero(None, make_shot(), Distance.Yard(0)))
print("zero at 0 acc=10", zero({"cZeroFindingAccuracy": 10.0}, make_shot(), Distance.Yard(0)))
print("zero at 1in", zero(None, make_shot(), Distance.Inch(1)))
print("zero vertical look", zero(None, make_shot(look=90.0), Distance.Yard(100)))
print("zero too far", zero(None, make_shot(mv=800.0, table=TableG1, bc=0.1), Distance.Yard(1500)))
print("zero too far, more iterations", zero({"cMaxIterations": 60}, make_shot(mv=800.0, table=TableG1, bc=0.1),
                                            Distance.Yard(1500)))
windy = make_shot(winds=[Wind(Velocity.MPH(12), Angular.Degree(75), Distance.Yard(120)),
                         Wind(Velocity.MPH(30), Angular.Degree(260), Distance.Yard(5000))], twist=-9.0)
print("zero windy", zero({"cZeroFindingAccuracy": 1e-6}, windy, Distance.Yard(350)))

print("== calculators are independent; a zeroed shot fired by another calculator")
a = Calculator(_config={"cZeroFindingAccuracy": 0.05, "cMaxIterations": 2, "cMinimumVelocity": 1800.0})
b = Calculator(_config={"cGravityConstant": -3.7, "cMaximumDrop": -4.0})
c = Calculator()
sa, sb, sc = make_shot(), make_shot(), make_shot()
print("a", zero(None, sa, Distance.Yard(200), a))
print("b", zero(None, sb, Distance.Yard(200), b))
print("c", zero(None, sc, Distance.Yard(200), c))
print("a again", zero(None, sa, Distance.Yard(300), a))
for name, calc, shot in (("a", a, sa), ("b", b, sb), ("c", c, sc), ("c fires a's shot", c, sa), ("b fires c's shot", b, sc)):
    try:
        print(name, "ok", digest(calc.fire(shot, Distance.Yard(1200), Distance.Yard(100)).trajectory)[:300])
    except RangeError as e:
        print(name, f"RangeError[{e.reason}]", digest(e.incomplete_trajectory)[:300])
print(repr(a._calc._config), repr(b._calc._config), repr(c._calc._config), sep="\n")
