"""Equivalence probe for C18 refactoring 2 (Unit.__call__ : the constructor behind every parsed/configured value)."""
import hashlib
import logging
import os
import tempfile
import warnings

warnings.simplefilter("ignore")

from py_ballisticcalc import (Unit, UnitAliases, PreferredUnits, Distance, Velocity, Angular, Temperature, Pressure,
                              Energy, Weight, AbstractDimension, basicConfig, loadMetricUnits, loadImperialUnits,
                              loadMixedUnits, get_global_max_calc_step_size, reset_globals, Calculator, logger)
from py_ballisticcalc.unit import _parse_unit, _parse_value
from py_ballisticcalc import trajectory_calc

logger.setLevel(logging.CRITICAL)
PreferredUnits.defaults()
reset_globals()


def show(x):
    if isinstance(x, AbstractDimension):
        return f"{type(x).__name__}({x.raw_value!r}, {x.units.name}, {x.unit_value!r}, {x!s})"
    return repr(x)


def attempt(label, fn):
    try:
        return f"{label} -> {show(fn())}"
    except Exception as e:  # pylint: disable=broad-except
        return f"{label} -> EXC {type(e).__name__}: {e}"


lines = []
out = lines.append

out("== every unit called with a number")
for u in Unit:
    for v in (0, 1, -2.5, 1234.5678, True, float("inf")):
        out(attempt(f"{u.name}({v!r})", lambda: u(v)))
    out(attempt(f"{u.name}(nan) type", lambda: type(u(float("nan"))).__name__))

out("== every unit called with bad values")
for u in (Unit.Radian, Unit.OClock, Unit.Inch, Unit.Line, Unit.Meter, Unit.FootPound, Unit.Joule, Unit.MmHg, Unit.PSI,
          Unit.Fahrenheit, Unit.Rankin, Unit.MPS, Unit.KT, Unit.Grain, Unit.Newton):
    for v in (None, "12", [1], 1 + 2j):
        out(attempt(f"{u.name}({v!r})", lambda: u(v)))

out("== every unit called with a dimension (conversion in place)")
samples = [Distance.Meter(3), Angular.Mil(2), Velocity.KMH(50), Temperature.Celsius(15), Pressure.hPa(1000),
           Energy.Joule(3000), Weight.Gram(10)]
for u in Unit:
    for s in samples:
        fresh = type(s)(s.unit_value, s.units)
        out(attempt(f"{u.name}({type(s).__name__})", lambda: u(fresh)))
        out(attempt("   read back", lambda: fresh.unit_value))

out("== unbound calls with non-member selectors")
for sel in (-1, 9, 10, 19, 20, 25, 29, 30, 39, 45, 59, 69, 79, 80, 99, 100, 1000, -10, -11):
    out(attempt(f"Unit.__call__({sel!r}, 1.5)", lambda: Unit.__call__(sel, 1.5)))

out("== names and aliases with a numeric prefix, any case, blanks")
names = [u.name for u in Unit] + [a for group in UnitAliases for a in group]
for name in names:
    for spell in (name, name.upper(), name.lower(), name.title(), "  " + name + " "):
        for num in ("10", "-.5", "3.", "1 2.5"):
            out(attempt(f"_parse_value({num + spell!r})", lambda: _parse_value(num + spell, None)))
        out(attempt(f"_parse_value(7, {spell!r})", lambda: _parse_value(7, spell)))
        out(attempt(f"_parse_value('8.25', {spell!r})", lambda: _parse_value("8.25", spell)))
        out(attempt(f"_parse_unit({spell!r})", lambda: _parse_unit(spell)))
for bad in ("10parsec", "abc", "", "10", "--1m", "1e3m", "5 k m", "12 degK", "1.2.3m"):
    out(attempt(f"_parse_value({bad!r}, None)", lambda: _parse_value(bad, None)))
    out(attempt(f"_parse_value({bad!r}, 'parsec')", lambda: _parse_value(bad, "parsec")))
    out(attempt(f"_parse_value({bad!r}, Unit.Yard)", lambda: _parse_value(bad, Unit.Yard)))
out(attempt("_parse_value(None, Unit.Yard)", lambda: _parse_value(None, Unit.Yard)))
out(attempt("_parse_value(3, 'distance')", lambda: _parse_value(3, "distance")))

out("== preferred units as constructors, presets, config files")
for loader in (loadMetricUnits, loadImperialUnits, loadMixedUnits, PreferredUnits.defaults):
    loader()
    out(f"{loader.__name__}: " + repr(PreferredUnits).replace("\n", "; "))
    for field in PreferredUnits.__dataclass_fields__:
        out(attempt(f"  PreferredUnits.{field}(2.5)", lambda: getattr(PreferredUnits, field)(2.5)))
        out(attempt(f"  PreferredUnits.{field}(Distance.Foot(3))", lambda: getattr(PreferredUnits, field)(Distance.Foot(3))))

tmpdir = tempfile.mkdtemp(prefix="c18_r2_")
for i, (value, units) in enumerate([("0.3", '"meter"'), ("10", '"CM"'), ("2", '"Foot"'), ("1", '"yd"'), ("6", '" in "'),
                                    ("1", '"MOA"'), ("1", '"parsec"'), ("-1", '"ft"'), ("0", '"ft"'),
                                    ('"0.5"', '"ft"'), ("0.5", "11"), ("true", '"ft"'), ("0.001", '"km"'),
                                    ("3", '"ln"'), ("1", '"mph"'), ("1", '"distance"')]):
    path = os.path.join(tmpdir, f"cfg{i}.toml")
    with open(path, "w", encoding="utf-8") as fp:
        fp.write("[pybc.preferred_units]\ndistance = 'yard'\n\n[pybc.calculator.max_calc_step_size]\n"
                 f"value = {value}\nunits = {units}\n")
    reset_globals()
    PreferredUnits.defaults()
    out(attempt(f"basicConfig(value={value}, units={units})", lambda: basicConfig(path)))
    g = get_global_max_calc_step_size()
    out(f"   global={trajectory_calc._globalMaxCalcStepSizeFeet!r} {show(g)} "
        f"calc={Calculator()._calc._config.max_calc_step_size_feet!r}")
    os.remove(path)
os.rmdir(tmpdir)
reset_globals()
PreferredUnits.defaults()
out(attempt("basicConfig(max_calc_step_size=Unit.Meter(0.3))", lambda: basicConfig(max_calc_step_size=Unit.Meter(0.3))))
out(f"   global={trajectory_calc._globalMaxCalcStepSizeFeet!r} {show(get_global_max_calc_step_size())}")
reset_globals()

text = "\n".join(lines)
print(f"lines={len(lines)} sha256={hashlib.sha256(text.encode()).hexdigest()}")
# a readable sample on top of the digest
for ln in lines[:12] + [l for l in lines if "EXC" in l][:25] + lines[-45:]:
    print(ln)
