"""Equivalence digest for C15 / refactoring 1 (inlined crossing checks in should_record,
hoisted loop invariants in TrajectoryCalc._integrate).

Runs a set of shots through the public API (Calculator.fire / set_weapon_zero /
HitResult.zeros) and prints, per scenario, every flagged row in clear text plus a
sha256 over the repr() of every number of every row.  Output must be byte-identical
with and without the patch.
"""
import hashlib
import logging
import math
import warnings

from py_ballisticcalc import (Ammo, Atmo, Calculator, DragModel, RangeError, Shot, TableG1, TableG7,
                              Weapon, Wind)
from py_ballisticcalc.exceptions import ZeroFindingError
from py_ballisticcalc.logger import logger, set_debug
from py_ballisticcalc.trajectory_data import TrajFlag
from py_ballisticcalc.unit import Angular, Distance, Temperature, Pressure, Velocity

warnings.simplefilter("ignore")


def row_numbers(r):
    return (r.time, r.distance.raw_value, r.velocity.raw_value, r.mach, r.height.raw_value,
            r.target_drop.raw_value, r.drop_adj.raw_value, r.windage.raw_value,
            r.windage_adj.raw_value, r.look_distance.raw_value, r.angle.raw_value,
            r.density_factor, r.drag, r.energy.raw_value, r.ogw.raw_value, r.flag,
            type(r.flag).__name__)


def digest(name, rows, note=""):
    h = hashlib.sha256()
    for r in rows:
        h.update(repr(row_numbers(r)).encode())
    print(f"== {name}: rows={len(rows)} sha256={h.hexdigest()} {note}")
    for i, r in enumerate(rows):
        if r.flag & (TrajFlag.ZERO | TrajFlag.MACH):
            print(f"   [{i}] flag={r.flag} {TrajFlag.name(r.flag)} t={r.time!r} x={r.distance.raw_value!r} "
                  f"drop={r.target_drop.raw_value!r} mach={r.mach!r}")
    flags = [r.flag for r in rows]
    print("   flag histogram:", sorted((f, flags.count(f)) for f in set(flags)))
    times = [r.time for r in rows]
    print("   time ordered:", all(a <= b for a, b in zip(times, times[1:])))


def run(name, calc, shot, rng, step=0, extra=True, time_step=0.0):
    try:
        hit = calc.fire(shot, rng, step, extra_data=extra, time_step=time_step)
        rows = hit.trajectory
        note = "ok"
    except RangeError as e:
        hit = None
        rows = e.incomplete_trajectory
        note = f"RangeError({e.reason!r}, last={e.last_distance!r})"
    except Exception as e:  # pylint: disable=broad-except
        print(f"== {name}: raised {type(e).__name__}: {e}")
        return
    digest(name, rows, note)
    if hit is not None:
        try:
            z = hit.zeros()
            print("   zeros():", [(r.flag, repr(r.time)) for r in z])
        except (ArithmeticError, AttributeError) as e:
            print("   zeros() raised", type(e).__name__, str(e).split(' has no')[-1][:60])


def main():
    calc = Calculator()
    g7 = DragModel(0.22, TableG7, 168, 0.308, 1.22)
    g1 = DragModel(0.223, TableG1, 168, 0.308, 1.282)
    std = Atmo.icao()
    hot = Atmo(altitude=Distance.Foot(3000), pressure=Pressure.InHg(27.1), temperature=Temperature.Fahrenheit(95),
               humidity=0.3)

    # 1. classic: sight above bore, zeroed at 100 yd
    w = Weapon(Distance.Inch(2), Distance.Inch(12))
    shot = Shot(weapon=w, ammo=Ammo(g7, Velocity.FPS(2600)), atmo=std)
    print("zero elevation", repr(calc.set_weapon_zero(shot, Distance.Yard(100)).raw_value))
    run("classic 1000yd/100", calc, shot, Distance.Yard(1000), Distance.Yard(100))
    run("classic 1000yd/100 no-extra", calc, shot, Distance.Yard(1000), Distance.Yard(100), extra=False)
    run("classic 1500yd default step", calc, shot, Distance.Yard(1500))
    run("classic tiny step 30ft/0.1ft", calc, shot, Distance.Foot(30), Distance.Foot(0.1))
    run("classic time_step", calc, shot, Distance.Yard(400), Distance.Yard(200), time_step=0.05)
    run("classic zero range", calc, shot, Distance.Yard(0))

    # 2. sight below bore (height >= 0 -> ZERO_UP pre-marked), then sight on the bore
    for sh in (-1.5, 0.0):
        w2 = Weapon(Distance.Inch(sh), Distance.Inch(10), zero_elevation=Angular.Mil(1.0))
        s2 = Shot(weapon=w2, ammo=Ammo(g1, Velocity.FPS(2750)), atmo=hot)
        run(f"sight_height={sh} 600yd/50", calc, s2, Distance.Yard(600), Distance.Yard(50))

    # 3. barrel below the sight line with the sight above the bore (ZERO_DOWN pre-marked, no crossing)
    w3 = Weapon(Distance.Inch(2.5), Distance.Inch(9), zero_elevation=Angular.Mil(-2.0))
    s3 = Shot(weapon=w3, ammo=Ammo(g7, Velocity.FPS(2600)), atmo=std)
    run("barrel below sight line 500yd/100", calc, s3, Distance.Yard(500), Distance.Yard(100))
    # barrel exactly parallel to sight line
    w3b = Weapon(Distance.Inch(2.5), Distance.Inch(9), zero_elevation=Angular.Mil(0.0))
    s3b = Shot(weapon=w3b, ammo=Ammo(g7, Velocity.FPS(2600)), atmo=std)
    run("barrel parallel 300yd/100", calc, s3b, Distance.Yard(300), Distance.Yard(100))

    # 4. inclined sight lines, with wind and cant
    for la in (15.0, -10.0, 45.0):
        w4 = Weapon(Distance.Inch(1.75), Distance.Inch(-8))
        s4 = Shot(weapon=w4, ammo=Ammo(g7, Velocity.FPS(2900)), atmo=hot, look_angle=Angular.Degree(la),
                  cant_angle=Angular.Degree(3.0),
                  winds=[Wind(Velocity.MPH(8), Angular.OClock(3), until_distance=Distance.Yard(300)),
                         Wind(Velocity.MPH(4), Angular.OClock(10), until_distance=Distance.Yard(900))])
        try:
            print("zero elevation", la, repr(calc.set_weapon_zero(s4, Distance.Yard(300)).raw_value))
        except ZeroFindingError as e:
            print("zero elevation", la, "ZeroFindingError", repr(e.zero_finding_error), e.iterations_count,
                  repr(e.last_barrel_elevation.raw_value))
            s4.weapon.zero_elevation = Angular.Mil(3.0)
        run(f"look_angle={la} 1200yd/75", calc, s4, Distance.Yard(1200), Distance.Yard(75))
        s4.relative_angle = Angular.Mil(-4.0)
        run(f"look_angle={la} hold under 700yd/70", calc, s4, Distance.Yard(700), Distance.Yard(70))

    # 5. transonic and subsonic launches, coarser/finer calculation steps
    for mv in (1180.0, 1116.5, 1050.0, 850.0):
        for cfg in (None, {"max_calc_step_size_feet": 2.0}, {"max_calc_step_size_feet": 0.1}):
            c5 = Calculator(cfg) if cfg else calc
            w5 = Weapon(Distance.Inch(1.5), Distance.Inch(16))
            s5 = Shot(weapon=w5, ammo=Ammo(g1, Velocity.FPS(mv)), atmo=std)
            c5.set_weapon_zero(s5, Distance.Yard(50))
            run(f"mv={mv} cfg={cfg} 300yd/25", c5, s5, Distance.Yard(300), Distance.Yard(25))

    # 6. steep shots: time_step rows, speed falling through Mach 1 and rising again on the way down
    w6 = Weapon(Distance.Inch(2), Distance.Inch(12))
    for elev in (35.0, 80.0):
        s6 = Shot(weapon=w6, ammo=Ammo(g7, Velocity.FPS(2700)), atmo=std, relative_angle=Angular.Degree(elev))
        c6 = Calculator({"max_calc_step_size_feet": 5.0, "cMinimumVelocity": 0.0})
        run(f"steep {elev} deg", c6, s6, Distance.Yard(6000), Distance.Yard(500), time_step=1.0)
        run(f"steep {elev} deg limited drop", Calculator({"max_calc_step_size_feet": 5.0, "cMaximumDrop": -200.0,
                                                          "cMinimumVelocity": 0.0}),
            s6, Distance.Yard(9000), Distance.Yard(1000), time_step=0.5)

    # 7. early termination
    s7 = Shot(weapon=w, ammo=Ammo(g7, Velocity.FPS(2600)), atmo=std)
    run("min velocity stop", Calculator({"cMinimumVelocity": 1500.0}), s7, Distance.Yard(1000), Distance.Yard(100))
    run("min altitude stop", Calculator({"cMinimumAltitude": -3.0}), s7, Distance.Yard(1000), Distance.Yard(100))

    # 8. debug logging path of the filter (messages captured and hashed)
    class _Collect(logging.Handler):
        def __init__(self):
            super().__init__()
            self.h = hashlib.sha256()
            self.n = 0

        def emit(self, record):
            self.h.update(record.getMessage().encode())
            self.n += 1

    col = _Collect()
    logger.addHandler(col)
    set_debug(True)
    try:
        run("debug logging 100yd/50", calc, shot, Distance.Yard(100), Distance.Yard(50))
    finally:
        set_debug(False)
        logger.removeHandler(col)
    print("   debug messages:", col.n, col.h.hexdigest())


if __name__ == "__main__":
    main()
