"""Equivalence digest for property C15 (event rows: sight-line and sonic crossings).

Run:  cd <checkout> && PYTHONPATH=<checkout> /venv/bin/python equiv.py
Prints a deterministic text digest; it must be identical before and after the refactoring.
Only the public API is used (Calculator.fire / set_weapon_zero / HitResult.zeros / RangeError).
"""
import hashlib
import logging
import warnings

warnings.simplefilter("ignore")

from py_ballisticcalc import (Calculator, DragModel, Ammo, Weapon, Shot, Wind, Atmo,
                              TableG7, TableG1, RangeError, TrajFlag, Vacuum, logger)
from py_ballisticcalc.logger import set_debug
from py_ballisticcalc.unit import Distance, Velocity, Angular, Temperature, Pressure

EVENTS = TrajFlag.ZERO | TrajFlag.MACH


def raw(row):
    """All 16 fields of a row as plain python numbers"""
    return (row.time, row.distance.raw_value, row.velocity.raw_value, row.mach, row.height.raw_value,
            row.target_drop.raw_value, row.drop_adj.raw_value, row.windage.raw_value,
            row.windage_adj.raw_value, row.look_distance.raw_value, row.angle.raw_value,
            row.density_factor, row.drag, row.energy.raw_value, row.ogw.raw_value, int(row.flag))


def digest(name, rows):
    h = hashlib.sha256()
    for r in rows:
        h.update(repr(raw(r)).encode())
    times = [r.time for r in rows]
    print(f"[{name}] rows={len(rows)} sha={h.hexdigest()} time_ordered={times == sorted(times)}")
    print(f"[{name}] flags={''.join(format(int(r.flag), 'x').rjust(2, '0') for r in rows if r.flag != TrajFlag.RANGE)[:400]}")
    for i, r in enumerate(rows):
        if r.flag & EVENTS:
            print(f"[{name}]   #{i} {TrajFlag.name(r.flag)} t={r.time!r} x={r.distance.raw_value!r} "
                  f"y={r.height.raw_value!r} drop={r.target_drop.raw_value!r} mach={r.mach!r} "
                  f"v={r.velocity.raw_value!r}")


def run(name, calc, shot, rng, step, extra=True, time_step=0.0):
    try:
        hit = calc.fire(shot, Distance.Yard(rng), Distance.Yard(step), extra_data=extra, time_step=time_step)
        rows = hit.trajectory
        digest(name, rows)
        try:
            zs = hit.zeros()
            print(f"[{name}] zeros={[(TrajFlag.name(z.flag), z.time, z.distance.raw_value) for z in zs]!r}")
        except (ArithmeticError, AttributeError) as e:
            print(f"[{name}] zeros raised {type(e).__name__}: {str(e)[-60:]}")
    except RangeError as e:
        print(f"[{name}] RangeError reason={e.reason!r} last={e.last_distance.raw_value if e.last_distance else None!r}")
        digest(name + "/incomplete", e.incomplete_trajectory)
    except Exception as e:  # pylint: disable=broad-except
        print(f"[{name}] raised {type(e).__name__}: {e}")


def main():
    calc = Calculator()
    g7 = DragModel(0.22, TableG7, 168, 0.308, 1.22)
    g1 = DragModel(0.4, TableG1, 150, 0.308, 1.1)
    atmo = Atmo.icao()

    def zeroed(weapon, ammo, zero_yd, **kw):
        shot = Shot(weapon=weapon, ammo=ammo, atmo=kw.pop('atmo', atmo), **kw)
        calc.set_weapon_zero(shot, Distance.Yard(zero_yd))
        print(f"  zero_elevation={weapon.zero_elevation.raw_value!r}")
        return shot

    # 1. sight above the bore, level sight line, supersonic launch: UP, DOWN and MACH rows
    w = Weapon(Distance.Inch(2), Distance.Inch(12))
    s = zeroed(w, Ammo(g7, Velocity.FPS(2600)), 100)
    run("above/level/super", calc, s, 1200, 100)
    run("above/level/super/fine", calc, s, 300, 1)
    run("above/level/super/noextra", calc, s, 1000, 100, extra=False)
    run("above/level/super/tstep", calc, s, 1000, 250, time_step=0.05)

    # 2. sight on the bore (height == -0.0 >= 0): the upward crossing is pre-marked
    w = Weapon(Distance.Inch(0), Distance.Inch(12))
    s = zeroed(w, Ammo(g7, Velocity.FPS(2600)), 200)
    run("onbore/level", calc, s, 600, 50)

    # 3. sight below the bore (negative sight height -> muzzle above the sight line)
    w = Weapon(Distance.Inch(-1.5), Distance.Inch(10))
    s = zeroed(w, Ammo(g7, Velocity.FPS(2750)), 150)
    run("below/level", calc, s, 700, 100)

    # 4. barrel below the sight line (sight above bore): no crossing at all, the downward one is pre-marked
    w = Weapon(Distance.Inch(2), Distance.Inch(12), zero_elevation=Angular.Mil(-3))
    s = Shot(weapon=w, ammo=Ammo(g7, Velocity.FPS(2600)), atmo=atmo)
    run("above/barrel-down", calc, s, 400, 100)
    # 4b. barrel exactly along the sight line (elevation == look angle): only UP can never happen
    w = Weapon(Distance.Inch(2), Distance.Inch(12))
    s = Shot(weapon=w, ammo=Ammo(g7, Velocity.FPS(2600)), atmo=atmo, look_angle=Angular.Degree(3))
    run("above/barrel-parallel", calc, s, 400, 100)

    # 5. inclined sight lines, up and down, with wind and cant
    w = Weapon(Distance.Inch(2.5), Distance.Inch(9))
    s = zeroed(w, Ammo(g1, Velocity.FPS(2900)), 300, look_angle=Angular.Degree(12),
               winds=[Wind(Velocity.MPH(8), Angular.OClock(3), Distance.Yard(200)),
                      Wind(Velocity.MPH(15), Angular.OClock(10), Distance.Yard(600)),
                      Wind(Velocity.MPH(4), Angular.OClock(6), Distance.Yard(900))])
    run("above/uphill/wind", calc, s, 1500, 75)
    w = Weapon(Distance.Inch(2.5), Distance.Inch(-9))
    s = zeroed(w, Ammo(g1, Velocity.FPS(2900)), 250, look_angle=Angular.Degree(-17),
               cant_angle=Angular.Degree(6))
    run("above/downhill/cant", calc, s, 1100, 100)

    # 6. transonic and subsonic launches
    w = Weapon(Distance.Inch(1.5), Distance.Inch(16))
    s = zeroed(w, Ammo(g1, Velocity.FPS(1150)), 50)
    run("above/level/transonic", calc, s, 300, 25)
    s = zeroed(Weapon(Distance.Inch(1.5), Distance.Inch(16)), Ammo(g1, Velocity.FPS(950)), 50)
    run("above/level/subsonic", calc, s, 200, 20)
    # launch at exactly Mach 1 is hard to hit; launch a hair above instead
    s = zeroed(Weapon(Distance.Inch(1.5), Distance.Inch(16)),
               Ammo(g1, Velocity.FPS(1116.5)), 50, atmo=Atmo.icao(Distance.Foot(0)))
    run("above/level/mach1+", calc, s, 100, 10)

    # 7. mortar-like shot: high elevation, falls back through the sound barrier twice is impossible,
    #    but the speed drops subsonic on the way up and the time step produces extra rows
    w = Weapon(Distance.Inch(2), Distance.Inch(12), zero_elevation=Angular.Degree(40))
    s = Shot(weapon=w, ammo=Ammo(g7, Velocity.FPS(2400)), atmo=Atmo.icao(Distance.Foot(3000)))
    run("above/lofted", calc, s, 3000, 500, time_step=0.5)

    # 8. early terminations (RangeError): minimum velocity, maximum drop, minimum altitude
    w = Weapon(Distance.Inch(2), Distance.Inch(12))
    s = zeroed(w, Ammo(g1, Velocity.FPS(900)), 50)
    run("stop/min-velocity", Calculator(_config={'cMinimumVelocity': 700.0}), s, 1500, 100)
    run("stop/max-drop", Calculator(_config={'cMaximumDrop': -20.0}), s, 1500, 100)
    run("stop/min-altitude", Calculator(_config={'cMinimumAltitude': -5.0}), s, 1500, 100)
    run("stop/min-velocity/noextra", Calculator(_config={'cMinimumVelocity': 700.0}), s, 1500, 100, extra=False)

    # 9. coarser and finer integration steps, record step below the calculation step
    w = Weapon(Distance.Inch(2), Distance.Inch(12))
    s = zeroed(w, Ammo(g7, Velocity.FPS(2600)), 100)
    run("step/coarse", Calculator(_config={'max_calc_step_size_feet': 5.0}), s, 1200, 100)
    run("step/fine-record", Calculator(_config={'max_calc_step_size_feet': 2.0}), s, 30, 0.1)
    run("range/zero", calc, s, 0, 1)
    run("range/short", calc, s, 0.05, 100)

    # 10. cold thin air, heavy head wind
    cold = Atmo(Distance.Foot(9000), Pressure.InHg(21.0), Temperature.Fahrenheit(-20), 0.2)
    s = zeroed(Weapon(Distance.Inch(3), Distance.Inch(8)), Ammo(g7, Velocity.FPS(3050)), 400,
               atmo=cold, winds=[Wind(Velocity.MPH(30), Angular.OClock(12))])
    run("cold/headwind", calc, s, 2500, 200)

    # 11. debug mode: results unchanged, and the debug messages themselves (per-step dump of the filter,
    #     iteration count of the integration loop) are the same text
    class Collect(logging.Handler):
        def __init__(self):
            super().__init__(logging.DEBUG)
            self.lines = []

        def emit(self, record):
            self.lines.append(record.getMessage())

    collector = Collect()
    logger.handlers[:] = [collector]
    set_debug(True)
    s = zeroed(Weapon(Distance.Inch(2), Distance.Inch(12)), Ammo(g7, Velocity.FPS(2600)), 100)
    run("debug-log", calc, s, 200, 50)
    run("debug-log/stop", Calculator(_config={'cMaximumDrop': -0.2}), s, 400, 100)
    set_debug(False)
    logger.handlers[:] = [logging.NullHandler()]
    print(f"[debug-log] messages={len(collector.lines)} "
          f"sha={hashlib.sha256(chr(10).join(collector.lines).encode()).hexdigest()}")
    print(f"[debug-log] iterations={[m for m in collector.lines if m.startswith('euler')]!r}")

    # 12. range limit already passed at the muzzle (negative range): the loop body never runs
    run("range/negative", calc, s, -10, 1)

    # 13. no air
    s = zeroed(Weapon(Distance.Inch(2), Distance.Inch(12)), Ammo(g7, Velocity.FPS(1500)), 100,
               atmo=Vacuum(Distance.Foot(500)))
    run("vacuum", calc, s, 800, 100)

    # 14. flight above the troposphere: the atmosphere model warns (under the "once" filter set by the solver)
    w = Weapon(Distance.Inch(2), Distance.Inch(12), zero_elevation=Angular.Degree(30))
    s = Shot(weapon=w, ammo=Ammo(g7, Velocity.FPS(3000)), atmo=Atmo.icao(Distance.Foot(35500)))
    with warnings.catch_warnings(record=True) as caught:
        warnings.simplefilter("always")
        run("troposphere", calc, s, 2500, 500)
    print(f"[troposphere] warnings={[(w_.category.__name__, str(w_.message)[:40]) for w_ in caught]!r}")


if __name__ == '__main__':
    main()
