"""Equivalence digest for property C15 (event rows: zero-up / zero-down / Mach).

Prints a deterministic text: for every scenario the flagged rows (repr of the floats) and a sha256
over every row of the trajectory.  Must be byte-identical on the clean tree and with the patch.
"""
import hashlib
import math
import warnings

from py_ballisticcalc import (Calculator, Shot, Weapon, Ammo, Atmo, Wind, DragModel, TableG1, TableG7,
                              Distance, Angular, Velocity, Unit, TrajFlag, RangeError)
from py_ballisticcalc.trajectory_calc import _TrajectoryDataFilter
from py_ballisticcalc.trajectory_calc._trajectory_calc import TrajectoryCalc as PyCalc
from py_ballisticcalc.vector import Vector
import py_ballisticcalc.interface as _iface

assert _iface.TrajectoryCalc is PyCalc, "pure-python backend expected"
warnings.simplefilter("ignore")

EVENT = TrajFlag.ZERO | TrajFlag.MACH


def row_key(r):
    return (r.time, r.distance.raw_value, r.velocity.raw_value, r.mach, r.height.raw_value,
            r.target_drop.raw_value, r.drop_adj.raw_value, r.windage.raw_value, r.windage_adj.raw_value,
            r.look_distance.raw_value, r.angle.raw_value, r.density_factor, r.drag,
            r.energy.raw_value, r.ogw.raw_value, int(r.flag))


def digest(rows):
    h = hashlib.sha256()
    for r in rows:
        h.update(repr(row_key(r)).encode())
    return h.hexdigest()


def report(name, rows):
    print(f"== {name}: rows={len(rows)} sha256={digest(rows)}")
    times = [r.time for r in rows]
    print("   time-ordered:", times == sorted(times))
    for i, r in enumerate(rows):
        if r.flag & EVENT:
            print("   ", i, TrajFlag.name(r.flag), repr(r.time), repr(r.distance.raw_value),
                  repr(r.height.raw_value), repr(r.target_drop.raw_value), repr(r.mach))


def zeros_report(hit):
    try:
        z = hit.zeros()
        print("   zeros():", [(int(r.flag), repr(r.time), repr(r.distance.raw_value)) for r in z])
    except (ArithmeticError, AttributeError) as e:
        print("   zeros() raised", type(e).__name__, str(e).split(" has no")[-1][:60])


def run(name, shot, rng, step, extra=True, time_step=0.0, config=None, zero=None):
    calc = Calculator(_config=config)
    try:
        if zero is not None:
            ze = calc.set_weapon_zero(shot, zero)
            print(f"-- {name}: zero_elevation={ze.raw_value!r}")
        hit = calc.fire(shot, rng, step, extra_data=extra, time_step=time_step)
        report(name, hit.trajectory)
        zeros_report(hit)
    except RangeError as e:
        print(f"== {name}: RangeError {e.reason!r} last={e.last_distance!r}")
        report(name + " (incomplete)", e.incomplete_trajectory)


def g7(mv=2750):
    return Ammo(DragModel(0.223, TableG7, 168, 0.308, 1.2), Velocity.FPS(mv))


def g1(mv=2600, bc=0.365):
    return Ammo(DragModel(bc, TableG1, 69, 0.223, 0.9), Velocity.FPS(mv))


yd, ft, inch, deg = Distance.Yard, Distance.Foot, Distance.Inch, Angular.Degree

# 1. classic: sight above bore, zeroed at 100 yd, supersonic -> transonic within 1500 yd
run("sight above, zero 100yd, to 1500yd", Shot(Weapon(inch(2), inch(12)), g7()), yd(1500), yd(100), zero=yd(100))
# 2. same with fine record step (smaller than calc step) and custom calc step
run("fine step", Shot(Weapon(inch(2), inch(12)), g7()), yd(400), ft(0.2), zero=yd(200),
    config={"max_calc_step_size_feet": 1.0})
# 3. sight on the bore line (height 0): ZERO_UP pre-marked
run("sight on bore", Shot(Weapon(inch(0), inch(12)), g1()), yd(600), yd(50), zero=yd(100))
# 4. sight BELOW bore (negative sight height): muzzle starts above the sight line
run("sight below bore", Shot(Weapon(inch(-2), inch(10)), g1()), yd(500), yd(25), zero=yd(100))
# 5. sight above bore, barrel pointing below the sight line: no crossing can occur
run("barrel below sight line", Shot(Weapon(inch(2), inch(12)), g7(), relative_angle=deg(-0.5)), yd(300), yd(50))
# 6. barrel exactly along the sight line (elevation == look angle)
run("barrel parallel", Shot(Weapon(inch(2), inch(12)), g7()), yd(300), yd(50))
# 7. inclined sight lines, up and down, zeroed along the look line
run("look +15deg", Shot(Weapon(inch(2.5), inch(9)), g7(), look_angle=deg(15)), yd(1200), yd(100), zero=yd(300))
run("look -20deg", Shot(Weapon(inch(2.5), inch(9)), g7(), look_angle=deg(-20)), yd(1200), yd(100), zero=yd(300))
# 8. inclined, sight below bore and barrel depressed relative to sight line
run("look +5deg sight below, barrel down",
    Shot(Weapon(inch(-1.5), inch(9)), g1(), look_angle=deg(5), relative_angle=deg(-0.2)), yd(400), yd(40))
# 9. subsonic launch (no Mach row), high arc
run("subsonic", Shot(Weapon(inch(1.5), inch(16)), g1(mv=1000, bc=0.15)), yd(300), yd(30), zero=yd(50))
# 10. just-supersonic launch (transonic): Mach row very early
run("transonic launch", Shot(Weapon(inch(1.5), inch(16)), g1(mv=1130, bc=0.12)), yd(200), yd(20), zero=yd(25))
# 11. launch at v/mach only slightly above 1 in hot air / altitude
run("altitude atmo", Shot(Weapon(inch(2), inch(12)), g7(mv=1500), atmo=Atmo.icao(altitude=ft(5000))),
    yd(800), yd(100), zero=yd(100))
# 12. high-angle shot with time_step records and RangeError termination (comes back down through sight line)
run("lob 60deg", Shot(Weapon(inch(2), inch(12)), g1(mv=800, bc=0.1), relative_angle=deg(60)),
    yd(3000), yd(100), time_step=0.5)
# 13. lob with inclined look line
run("lob 45deg, look 10deg", Shot(Weapon(inch(2), inch(12)), g1(mv=900, bc=0.2), look_angle=deg(10),
                                   relative_angle=deg(35)), yd(5000), yd(250), time_step=1.0)
# 14. cant angle and winds
run("cant + winds", Shot(Weapon(inch(3), inch(-8)), g7(), cant_angle=deg(10),
                         winds=[Wind(Velocity.MPH(10), deg(90), yd(300)), Wind(Velocity.MPH(20), deg(-45), yd(700))]),
    yd(1000), yd(100), zero=yd(200))
# 15. no extra data: only RANGE rows, zeros() refuses
run("no extra", Shot(Weapon(inch(2), inch(12)), g7()), yd(500), yd(100), extra=False, zero=yd(100))
# 16. minimum velocity termination while extra data requested
run("min velocity stop", Shot(Weapon(inch(2), inch(12)), g1(mv=2600, bc=0.05)), yd(3000), yd(200), zero=yd(100),
    config={"cMinimumVelocity": 700.0})
# 17. tiny range (ends before any crossing), large step
run("tiny range", Shot(Weapon(inch(2), inch(12)), g7()), yd(3), yd(10), zero=yd(100))
# 18. max drop termination with custom config
run("max drop stop", Shot(Weapon(inch(2), inch(12)), g1(mv=1200, bc=0.3)), yd(2000), yd(100), zero=yd(100),
    config={"cMaximumDrop": -100.0})
# 19. min altitude termination, downhill
run("min altitude stop", Shot(Weapon(inch(2), inch(12)), g1(mv=1500, bc=0.3), look_angle=deg(-30)), yd(2000), yd(100),
    zero=yd(100), config={"cMinimumAltitude": -500.0})

# --- direct exercise of the filter object, including NaN and x <= 0 positions
print("== direct filter")
nan = float("nan")
for (h, be, la) in [(0.0, 0.0, 0.0), (-0.2, 0.001, 0.0), (-0.2, -0.001, 0.0), (0.2, 0.0, 0.1), (-0.2, 0.1, 0.1),
                    (nan, 0.0, 0.0), (-0.2, nan, 0.0), (-0.0, 0.0, 0.0), (-0.2, 0.2, -0.3)]:
    f = _TrajectoryDataFilter(TrajFlag.ALL, 10.0, Vector(0.0, h, 0.0), Vector(1200.0, 0.0, 0.0), 0.0)
    f.setup_seen_zero(h, be, la)
    out = [(int(f.seen_zero), repr(f.look_angle))]
    pts = [(-1.0, 5.0), (0.0, 5.0), (1.0, -1.0), (2.0, nan), (3.0, 3.0 * math.tan(la)), (4.0, 9.0), (5.0, 9.0),
           (6.0, -9.0), (7.0, 9.0), (8.0, -9.0), (nan, 0.0)]
    speeds = [1200.0, 1116.45, 1116.4, 1200.0, 1116.0, 1116.0, nan, 900.0, 1300.0, 1116.45 * (1 - 1e-16), 100.0]
    t = 0.0
    for (x, y), v in zip(pts, speeds):
        f.clear_current_flag()
        d = f.should_record(Vector(x, y, 0.0), Vector(v, 0.0, 0.0), 1116.45, t)
        out.append((int(f.current_flag), int(f.seen_zero), repr(f.previous_v_mach),
                    None if d is None else (repr(d.time), repr(d.position.x), repr(d.position.y), repr(d.mach))))
        t += 0.001
    # methods called on their own
    f.clear_current_flag()
    f.check_zero_crossing(Vector(9.0, 100.0, 0.0))
    f.check_mach_crossing(2000.0, 1000.0)
    f.check_mach_crossing(1000.0, 1000.0)
    f.check_mach_crossing(1000.0, 1000.0)
    f.check_next_time(5.0)
    out.append((int(f.current_flag), int(f.seen_zero), repr(f.previous_v_mach), repr(f.time_of_last_record)))
    print("  ", (h, be, la), hashlib.sha256(repr(out).encode()).hexdigest()[:16], out[0], out[-1])

# --- debug log stream of should_record (the function that was split): messages and their order
import logging
from py_ballisticcalc.logger import logger as _lg, set_debug


class _Collect(logging.Handler):
    def __init__(self):
        super().__init__(logging.DEBUG)
        self.h = hashlib.sha256()
        self.n = 0

    def emit(self, record):
        self.h.update(record.getMessage().encode())
        self.n += 1


_c = _Collect()
_lg.addHandler(_c)
set_debug(True)
try:
    hit = Calculator().fire(Shot(Weapon(inch(2), inch(12), zero_elevation=Angular.Radian(0.006)), g7(mv=1200)),
                            yd(250), yd(20), extra_data=True, time_step=0.01)
    report("debug run", hit.trajectory)
finally:
    set_debug(False)
    _lg.removeHandler(_c)
print("== debug log", _c.n, _c.h.hexdigest())

# --- HitResult.zeros() on hand-made results: empty trajectory, incomplete trajectory, result type
from py_ballisticcalc import HitResult
_shot = Shot(Weapon(inch(2), inch(12), zero_elevation=Angular.Radian(0.9)), g1(mv=800, bc=0.1))
zeros_report(HitResult(_shot, [], True))
zeros_report(HitResult(_shot, [], False))
try:
    Calculator().fire(_shot, yd(3000), yd(100), extra_data=True)
except RangeError as e:
    hr = HitResult(_shot, e.incomplete_trajectory, True)
    zeros_report(hr)
    z = hr.zeros()
    print("   type:", type(z).__name__, [hr.trajectory.index(r) for r in z], z is not hr.trajectory)
# zero-finding path (filter_flags == NONE: single appended row) with look angle, and its error path
for la in (0, 12, -12):
    c = Calculator()
    sh = Shot(Weapon(inch(2), inch(12)), g7(), look_angle=deg(la))
    print("   zero", la, repr(c.set_weapon_zero(sh, yd(350)).raw_value))
try:
    Calculator(_config={"cMaxIterations": 2}).set_weapon_zero(Shot(Weapon(inch(2), inch(12)), g7()), yd(900))
except Exception as e:  # ZeroFindingError
    print("  ", type(e).__name__, e)
