"""Equivalence digest for refactoring 1 of property C15 (zero / Mach crossing rows).

Run:  cd /tmp/wt/t5_C15 && PYTHONPATH=/tmp/wt/t5_C15 /venv/bin/python /tmp/twins5/C15/1/equiv.py
The text printed must be identical on the clean worktree and with patch.diff applied.
"""
import hashlib
import math
import warnings

warnings.simplefilter("ignore")

from py_ballisticcalc import (Ammo, Angular, Atmo, Calculator, Distance, DragModel, RangeError, Shot,  # noqa: E402
                              TableG1, TableG7, TrajFlag, Vector, Velocity, Weapon, Wind)
from py_ballisticcalc.trajectory_calc import _TrajectoryDataFilter  # noqa: E402


def row_repr(row):
    """Every field of a row, raw values, repr() of the floats."""
    out = []
    for item in row:
        raw = getattr(item, "raw_value", item)
        out.append(repr(raw))
    return "(" + ", ".join(out) + ")"


def digest(rows):
    h = hashlib.sha256()
    for row in rows:
        h.update(row_repr(row).encode())
        h.update(b"\n")
    return h.hexdigest()


def report(name, calc, shot, rng, step, extra=True, time_step=0.0):
    print(f"=== {name}")
    try:
        hit = calc.fire(shot, rng, step, extra_data=extra, time_step=time_step)
        rows = hit.trajectory
        print("completed rows", len(rows))
    except RangeError as err:
        hit = None
        rows = err.incomplete_trajectory
        print("RangeError", err.reason, "rows", len(rows))
    print("all-rows sha256", digest(rows))
    print("flags", [r.flag for r in rows if r.flag != TrajFlag.RANGE])
    print("times monotone", all(a.time <= b.time for a, b in zip(rows, rows[1:])))
    for i, r in enumerate(rows):
        if r.flag & (TrajFlag.ZERO | TrajFlag.MACH):
            print(" event", i, TrajFlag.name(r.flag), type(r.flag).__name__, repr(r.time),
                  repr(r.distance.raw_value), repr(r.height.raw_value),
                  repr(r.target_drop.raw_value), repr(r.mach))
    if hit is not None:
        try:
            z = hit.zeros()
            print("zeros()", type(z).__name__, len(z), digest(z), [r.flag for r in z])
        except (ArithmeticError, AttributeError) as err:
            print("zeros() raised", type(err).__name__, str(err).split(" has no extra")[-1])


def main():
    calc = Calculator()
    coarse = Calculator(_config={"max_calc_step_size_feet": 3.0})
    fine = Calculator(_config={"max_calc_step_size_feet": 0.1})

    dm1 = DragModel(0.223, TableG1, 168, 0.308, 1.282)
    dm7 = DragModel(0.223, TableG7, 69, 0.223, 0.9)

    def shot(sight_in=2.0, zero=0.0, mv=2750.0, look=0.0, rel=0.0, cant=0.0, dm=dm1, twist=12.0, winds=None,
             atmo=None):
        return Shot(weapon=Weapon(Distance.Inch(sight_in), Distance.Inch(twist), Angular.Radian(zero)),
                    ammo=Ammo(dm, Velocity.FPS(mv)),
                    look_angle=Angular.Degree(look), relative_angle=Angular.Degree(rel),
                    cant_angle=Angular.Degree(cant), atmo=atmo or Atmo.icao(), winds=winds)

    # sight above the bore, zeroed at 100 yd: zero-up, zero-down and Mach rows
    s = shot()
    calc.set_weapon_zero(s, Distance.Yard(100))
    print("zero elevation", repr(s.weapon.zero_elevation.raw_value))
    report("sight above, zeroed 100yd, 1500yd/100yd", calc, s, Distance.Yard(1500), Distance.Yard(100))
    report("same, coarse step", coarse, s, Distance.Yard(1500), Distance.Yard(100))
    report("same, fine step, 300yd", fine, s, Distance.Yard(300), Distance.Yard(50))
    report("same, no extra data", calc, s, Distance.Yard(500), Distance.Yard(100), extra=False)
    report("same, record step below calc step", calc, s, Distance.Yard(120), Distance.Inch(1.5))
    report("same, time_step", calc, s, Distance.Yard(400), Distance.Yard(200), time_step=0.01)
    report("same, default step", calc, s, Distance.Yard(1000), 0)

    # sight on the bore line (height -0.0) and below the bore (height > 0)
    report("sight on bore, elevated", calc, shot(sight_in=0.0, zero=0.002), Distance.Yard(400), Distance.Yard(50))
    report("sight on bore, level", calc, shot(sight_in=0.0, zero=0.0), Distance.Yard(200), Distance.Yard(50))
    report("sight below bore, elevated", calc, shot(sight_in=-2.0, zero=0.001), Distance.Yard(600), Distance.Yard(100))
    report("sight below bore, depressed", calc, shot(sight_in=-2.0, zero=-0.001), Distance.Yard(300), Distance.Yard(100))

    # barrel below the sight line: zero-down is pre-marked, zero-up never comes
    report("barrel below sight line", calc, shot(sight_in=2.0, zero=-0.002), Distance.Yard(300), Distance.Yard(100))
    report("barrel along sight line", calc, shot(sight_in=2.0, zero=0.0), Distance.Yard(300), Distance.Yard(100))

    # inclined sight lines
    for look in (10.0, -10.0, 35.0):
        s = shot(look=look, dm=dm7, mv=2900.0)
        calc.set_weapon_zero(s, Distance.Yard(200))
        report(f"look {look} deg zeroed 200yd", calc, s, Distance.Yard(1200), Distance.Yard(100))
        report(f"look {look} deg zeroed 200yd coarse", coarse, s, Distance.Yard(700), Distance.Yard(70))
    report("look -10 barrel below", calc, shot(look=-10.0, zero=-0.003), Distance.Yard(300), Distance.Yard(100))
    report("look 10 relative angle", calc, shot(look=10.0, zero=0.001, rel=0.2), Distance.Yard(900), Distance.Yard(100))

    # canted rifle: the cosine of the cant decides the sign of the starting height
    report("cant 45", calc, shot(zero=0.003, cant=45.0), Distance.Yard(500), Distance.Yard(100))
    report("cant 120 (sight ends below bore)", calc, shot(zero=0.003, cant=120.0), Distance.Yard(500), Distance.Yard(100))

    # transonic / subsonic launches, winds
    report("transonic launch 1130 fps", calc, shot(zero=0.004, mv=1130.0), Distance.Yard(400), Distance.Yard(50))
    report("transonic launch 1117 fps", calc, shot(zero=0.004, mv=1117.0), Distance.Yard(200), Distance.Yard(50))
    report("subsonic launch 900 fps", calc, shot(zero=0.006, mv=900.0), Distance.Yard(400), Distance.Yard(50))
    report("with winds", calc,
           shot(zero=0.0015, winds=[Wind(Velocity.MPH(10), Angular.OClock(3), Distance.Yard(300)),
                                    Wind(Velocity.MPH(25), Angular.OClock(7), Distance.Yard(800))]),
           Distance.Yard(1200), Distance.Yard(100))
    report("headwind transonic", calc,
           shot(zero=0.004, mv=1140.0, winds=[Wind(Velocity.MPH(40), Angular.OClock(12), Distance.Yard(2000))]),
           Distance.Yard(300), Distance.Yard(50))
    report("cold high altitude", calc, shot(zero=0.002, atmo=Atmo.icao(Distance.Foot(9000))),
           Distance.Yard(1500), Distance.Yard(250))

    # trajectories that end in a RangeError
    report("min velocity", calc, shot(zero=0.02, mv=1500.0, dm=dm7), Distance.Yard(6000), Distance.Yard(500))
    report("high angle, max drop / altitude", calc, shot(zero=0.0, look=0.0, rel=60.0), Distance.Yard(20000),
           Distance.Yard(1000), time_step=0.5)
    report("steep downhill", calc, shot(look=-60.0, zero=0.001), Distance.Yard(3000), Distance.Yard(200))
    report("min velocity limit", Calculator(_config={"cMinimumVelocity": 1500.0}), shot(zero=0.002),
           Distance.Yard(1500), Distance.Yard(100))
    report("max drop limit", Calculator(_config={"cMaximumDrop": -3.0}), shot(zero=0.002),
           Distance.Yard(1500), Distance.Yard(100))
    report("max drop limit hit on an event step", Calculator(_config={"cMaximumDrop": -0.1657}), shot(zero=0.0),
           Distance.Yard(300), Distance.Yard(100))

    # one calculator reused: no state may leak from one shot to the next
    s1, s2 = shot(zero=0.002), shot(sight_in=-1.0, zero=-0.002, look=5.0)
    for k in range(2):
        report(f"reuse {k} a", calc, s1, Distance.Yard(500), Distance.Yard(100))
        report(f"reuse {k} b", calc, s2, Distance.Yard(500), Distance.Yard(100))

    # the exported filter object driven directly (edge cases the solver never produces)
    print("=== filter driven directly")
    nan = math.nan
    for height, elev, look in ((1.0, 0.1, 0.0), (0.0, 0.1, 0.0), (-0.0, 0.1, 0.0), (-1.0, 0.1, 0.0),
                               (-1.0, -0.1, 0.0), (-1.0, 0.05, 0.05), (-1.0, 0.05, 0.2), (nan, -0.1, 0.0),
                               (-1.0, nan, 0.0), (-1.0, 0.0, nan), (nan, nan, nan), (-0.2, 0.3, -0.4), (-1.0, 0.0, math.inf),
                               (True, 0, 0), (-1, -1, 0)):
        f = _TrajectoryDataFilter(TrajFlag.ALL, 10.0, Vector(0.0, height, 0.0), Vector(100.0, 0.0, 0.0))
        res = f.setup_seen_zero(height, elev, look)
        trace = [repr(res), repr(f.seen_zero), repr(f.look_angle)]
        pts = [Vector(0.0, height, 0.0), Vector(-1.0, 5.0, 0.0), Vector(1.0, -0.5, 0.0), Vector(2.0, 0.9, 0.0),
               Vector(3.0, 3.0 * math.tan(look) if math.isfinite(look) else 0.0, 0.0), Vector(4.0, 2.0, 0.0),
               Vector(5.0, nan, 0.0), Vector(nan, 1.0, 0.0), Vector(6.0, -3.0, 0.0), Vector(7.0, 4.0, 0.0),
               Vector(8.0, -4.0, 0.0), Vector(math.inf, 1.0, 0.0)]
        for p in pts:
            f.clear_current_flag()
            try:
                r = f.check_zero_crossing(p)
            except ValueError as err:
                r = "ValueError " + str(err)
            trace.append((repr(r), f.current_flag, f.seen_zero, type(f.current_flag).__name__,
                          type(f.seen_zero).__name__))
        print(" zero", (height, elev, look), trace)
    f = _TrajectoryDataFilter(TrajFlag.ALL, 10.0, Vector(0.0, 0.0, 0.0), Vector(100.0, 0.0, 0.0))
    trace = []
    for v, m in ((1200.0, 1100.0), (1100.0, 1100.0), (1099.0, 1100.0), (1200.0, 1100.0), (1000.0, 1100.0),
                 (nan, 1100.0), (900.0, 1100.0), (1500.0, nan), (800.0, 1100.0), (1101.0, 1100.0),
                 (1100.0000000000002, 1100.0), (1100.0, 1100.0), (math.inf, 1.0), (1.0, math.inf), (2.0, 1)):
        f.clear_current_flag()
        r = f.check_mach_crossing(v, m)
        trace.append((repr(r), f.current_flag, repr(f.previous_v_mach)))
    try:
        f.check_mach_crossing(1.0, 0.0)
    except ZeroDivisionError as err:
        trace.append(("ZeroDivisionError", str(err), f.current_flag, repr(f.previous_v_mach)))
    print(" mach", trace)
    # should_record end to end on a hand-made path
    f = _TrajectoryDataFilter(TrajFlag.ALL, 2.0, Vector(0.0, -0.2, 0.0), Vector(1000.0, 10.0, 0.0), 0.001)
    f.setup_seen_zero(-0.2, 0.01, 0.0)
    t = 0.0
    for i, (x, y, spd) in enumerate(((0.0, -0.2, 1200.0), (0.9, -0.1, 1150.0), (1.8, 0.0, 1120.0),
                                     (2.7, 0.1, 1110.0), (3.6, 0.05, 1090.0), (4.5, -0.01, 1080.0),
                                     (9.5, -0.5, 1070.0), (9.6, -0.6, 1060.0), (9.6, -0.7, 1050.0))):
        f.clear_current_flag()
        d = f.should_record(Vector(x, y, 0.0), Vector(spd, 0.0, 0.0), 1100.0, t)
        print(" rec", i, f.current_flag, f.seen_zero, repr(f.previous_v_mach), repr(f.next_record_distance),
              repr(f.time_of_last_record), repr(d))
        t += 0.0009


if __name__ == "__main__":
    main()
