"""Equivalence digest for C15 (event rows: zero-up / zero-down / Mach).

Fires a set of varied shots through the public API with extra_data=True (and a few
without), and prints a deterministic digest: every flagged row in full repr(), plus a
sha256 over the repr of ALL rows of each shot, plus HitResult.zeros().
"""
import hashlib
import logging
import warnings

warnings.simplefilter("ignore")

from py_ballisticcalc import (Calculator, Shot, Weapon, Ammo, DragModel, TableG1, TableG7, Atmo, Wind,
                              Distance, Velocity, Angular, Unit, Weight, Temperature, Pressure,
                              RangeError, HitResult, TrajFlag)
from py_ballisticcalc.logger import logger

logger.setLevel(logging.WARNING)


def row_repr(r):
    return repr((r.time, r.distance.raw_value, r.velocity.raw_value, r.mach, r.height.raw_value,
                 r.target_drop.raw_value, r.drop_adj.raw_value, r.windage.raw_value,
                 r.windage_adj.raw_value, r.look_distance.raw_value, r.angle.raw_value,
                 r.density_factor, r.drag, r.energy.raw_value, r.ogw.raw_value, r.flag,
                 type(r.flag).__name__))


def digest(name, rows, hit=None):
    h = hashlib.sha256()
    for r in rows:
        h.update(row_repr(r).encode())
    print(f"== {name}: rows={len(rows)} sha={h.hexdigest()}")
    for i, r in enumerate(rows):
        if r.flag & (TrajFlag.ZERO | TrajFlag.MACH) or i in (0, len(rows) - 1):
            print(f"   [{i}] {TrajFlag.name(r.flag)} {row_repr(r)}")
    if hit is not None:
        try:
            z = hit.zeros()
            print("   zeros:", [(rows.index(r), r.flag) for r in z])
        except Exception as e:  # ArithmeticError / AttributeError
            msg = str(e) if isinstance(e, ArithmeticError) else ""  # AttributeError text holds an address
            print("   zeros raised:", type(e).__name__, msg)


def fire(name, calc, shot, rng, step=0, extra=True, time_step=0.0):
    try:
        hit = calc.fire(shot, rng, step, extra_data=extra, time_step=time_step)
        digest(name, hit.trajectory, hit)
    except RangeError as e:
        print(f"   RangeError: {e.reason}")
        digest(name + " (incomplete)", e.incomplete_trajectory,
               HitResult(shot, e.incomplete_trajectory, extra))
    except Exception as e:  # any other error must be identical too
        print(f"== {name}: raised {type(e).__name__}: {e}")


def main():
    calc = Calculator()
    g7 = DragModel(0.223, TableG7, Weight.Grain(168), Distance.Inch(0.308), Distance.Inch(1.282))
    g1 = DragModel(0.275, TableG1, Weight.Grain(40), Distance.Inch(0.224), Distance.Inch(0.7))

    # 1. classic: sight above bore, zeroed at 100 yd, supersonic -> subsonic
    w = Weapon(Distance.Inch(2), Distance.Inch(12))
    a = Ammo(g7, Velocity.FPS(2750))
    s = Shot(weapon=w, ammo=a, atmo=Atmo.icao())
    calc.set_weapon_zero(s, Distance.Yard(100))
    fire("sight-above zero100 1500yd", calc, s, Distance.Yard(1500), Distance.Yard(100))
    fire("sight-above zero100 1500yd no-extra", calc, s, Distance.Yard(1500), Distance.Yard(100), extra=False)
    fire("sight-above zero100 fine step", calc, s, Distance.Yard(300), Distance.Foot(0.2))
    fire("sight-above zero100 time-step", calc, s, Distance.Yard(400), Distance.Yard(150), time_step=0.05)

    # 2. sight on the bore (height 0): ZERO_UP pre-marked
    w0 = Weapon(Distance.Inch(0), Distance.Inch(10))
    s0 = Shot(weapon=w0, ammo=a, atmo=Atmo.icao())
    calc.set_weapon_zero(s0, Distance.Yard(200))
    fire("sight-on-bore zero200", calc, s0, Distance.Yard(600), Distance.Yard(50))

    # 3. sight below bore (negative sight height): muzzle starts above the sight line
    wn = Weapon(Distance.Inch(-1.5), Distance.Inch(-9))
    sn = Shot(weapon=wn, ammo=a, atmo=Atmo.icao())
    fire("sight-below-bore level barrel", calc, sn, Distance.Yard(400), Distance.Yard(100))
    sn2 = Shot(weapon=wn, ammo=a, atmo=Atmo.icao(), relative_angle=Angular.Mil(3))
    fire("sight-below-bore barrel up", calc, sn2, Distance.Yard(700), Distance.Yard(100))

    # 4. barrel below the sight line with sight above the bore: ZERO_DOWN pre-marked, no crossing
    sd = Shot(weapon=Weapon(Distance.Inch(2), Distance.Inch(12)), ammo=a, atmo=Atmo.icao(),
              relative_angle=Angular.Degree(-0.5))
    fire("barrel-below-sight-line", calc, sd, Distance.Yard(300), Distance.Yard(100))

    sd2 = Shot(weapon=Weapon(Distance.Inch(2), Distance.Inch(12)), ammo=a, atmo=Atmo.icao(),
               look_angle=Angular.Degree(10), relative_angle=Angular.Degree(-0.2))
    fire("barrel-below-inclined-sight-line", calc, sd2, Distance.Yard(300), Distance.Yard(100))

    # 5. inclined sight lines, up and down, with zeroed weapon and wind
    for la in (15.0, -12.0, 45.0):
        si = Shot(weapon=w, ammo=a, atmo=Atmo.icao(), look_angle=Angular.Degree(la),
                  winds=[Wind(Velocity.MPH(10), Angular.OClock(3), Distance.Yard(300)),
                         Wind(Velocity.MPH(5), Angular.OClock(9), Distance.Yard(9000))])
        si.weapon.zero_elevation = s.weapon.zero_elevation
        fire(f"inclined {la}", calc, si, Distance.Yard(1200), Distance.Yard(200))

    # 6. transonic and subsonic launches (G1 light bullet), hot/high atmosphere
    atmo = Atmo(Distance.Foot(5000), Pressure.InHg(25.0), Temperature.Fahrenheit(95), 0.4)
    for mv in (1200.0, 1160.0, 1150.0, 1050.0, 3400.0):
        wt = Weapon(Distance.Inch(1.5), Distance.Inch(8))
        st = Shot(weapon=wt, ammo=Ammo(g1, Velocity.FPS(mv)), atmo=atmo)
        calc.set_weapon_zero(st, Distance.Yard(50))
        fire(f"g1 mv={mv}", calc, st, Distance.Yard(500), Distance.Yard(100))

    # 7. steep lob: long flight, velocity rises again in the fall (Mach up, then maybe down again),
    #    ends in RangeError; and a canted rifle
    sl = Shot(weapon=Weapon(Distance.Inch(2), Distance.Inch(12)), ammo=a, atmo=Atmo.icao(),
              relative_angle=Angular.Degree(35))
    fire("lob 35deg", calc, sl, Distance.Yard(6000), Distance.Yard(500))
    sl2 = Shot(weapon=Weapon(Distance.Inch(2), Distance.Inch(12)), ammo=a, atmo=Atmo.icao(),
               relative_angle=Angular.Degree(80))
    fire("lob 80deg time-step", calc, sl2, Distance.Yard(3000), Distance.Yard(500), time_step=1.0)
    sc = Shot(weapon=Weapon(Distance.Inch(2.5), Distance.Inch(12)), ammo=a, atmo=Atmo.icao(),
              cant_angle=Angular.Degree(20))
    sc.weapon.zero_elevation = s.weapon.zero_elevation
    fire("canted 20deg", calc, sc, Distance.Yard(500), Distance.Yard(100))

    # 8. degenerate ranges: zero range, tiny range, record step larger than range
    fire("tiny range", calc, s, Distance.Foot(1), Distance.Foot(1))
    fire("step > range", calc, s, Distance.Yard(120), Distance.Yard(500))
    fire("range 0", calc, s, Distance.Foot(0), Distance.Foot(1))

    # 8b. seeded random sweep: sight height of either sign, look angle, barrel offset, speed, step
    import random
    rnd = random.Random(15)
    for k in range(24):
        sh = rnd.choice([-2.0, -0.5, 0.0, 0.0, 1.5, 3.0])
        la = rnd.choice([0.0, 0.0, rnd.uniform(-30, 30)])
        rel = rnd.choice([0.0, rnd.uniform(-0.3, 0.6), rnd.uniform(-2, 8)])
        mv = rnd.choice([900.0, 1100.0, 1180.0, 1400.0, 2600.0, 3100.0])
        dm = rnd.choice([g1, g7])
        rng = rnd.choice([150, 400, 900, 1600])
        stp = rnd.choice([0, 25, 100, 333])
        ts = rnd.choice([0.0, 0.0, 0.1])
        sr = Shot(weapon=Weapon(Distance.Inch(sh), Distance.Inch(rnd.choice([-10, 8, 12]))),
                  ammo=Ammo(dm, Velocity.FPS(mv)), atmo=rnd.choice([Atmo.icao(), atmo]),
                  look_angle=Angular.Degree(la), relative_angle=Angular.Degree(rel),
                  winds=rnd.choice([None, [Wind(Velocity.MPH(12), Angular.OClock(rnd.choice([2, 6, 10])),
                                              Distance.Yard(2000))]]))
        if rnd.random() < 0.5:
            try:
                calc.set_weapon_zero(sr, Distance.Yard(rnd.choice([50, 100, 250])))
            except Exception as e:
                print("   zeroing raised", type(e).__name__)
        fire(f"random {k} sh={sh} la={la!r} rel={rel!r} mv={mv} rng={rng} step={stp} ts={ts}",
             calc, sr, Distance.Yard(rng), Distance.Yard(stp), time_step=ts)

    # 9. zeroing (the flag-less integration path) still yields the same elevations
    for zd in (25, 100, 300, 800):
        sz = Shot(weapon=Weapon(Distance.Inch(2), Distance.Inch(12)), ammo=a, atmo=Atmo.icao())
        print("zero", zd, repr(calc.set_weapon_zero(sz, Distance.Yard(zd)).raw_value))


def exhaustive_checks():
    """Drive the two per-step checks directly over a grid of states and inputs, incl. NaN / inf / -0.0."""
    import itertools
    import math
    from py_ballisticcalc.trajectory_calc import _TrajectoryDataFilter
    from py_ballisticcalc.vector import Vector
    nan, inf = float("nan"), float("inf")
    h = hashlib.sha256()
    n = 0
    xs = (-1.0, -0.0, 0.0, 5e-324, 1e-9, 5.0, 1e300, nan, inf, -inf)
    ys = (-inf, -1.0, -0.0, 0.0, 1e-12, 0.5, 0.501, 1.0, nan, inf)
    for seen, la, x, y in itertools.product(range(4), (0.0, 0.1, -0.1, 1.5), xs, ys):
        f = _TrajectoryDataFilter(TrajFlag.ALL, 100.0, Vector(0.0, -0.1, 0.0), Vector(2000.0, 1.0, 0.0))
        f.seen_zero = seen
        f.look_angle = la
        f.current_flag = TrajFlag.NONE
        out = []
        for step_y in (y, 0.5 * 5.0 * 0.1, y):  # three consecutive steps through the same filter
            r = f.check_zero_crossing(Vector(x, step_y, 0.0))
            out.append((r, f.current_flag, f.seen_zero))
        line = repr((seen, la, x, y, out))
        h.update(line.encode())
        n += 1
    print("zero-crossing grid", n, h.hexdigest())
    h = hashlib.sha256()
    n = 0
    ms = (0.0, 0.5, 1.0 - 2**-53, 1.0, 1.0 + 2**-52, 2.0, nan, inf)
    for prev, speed, sos in itertools.product(ms, (0.0, 1115.0, 1116.45, 1117.0, 3000.0, nan, inf),
                                              (1116.45, 1000.0, nan, inf)):
        f = _TrajectoryDataFilter(TrajFlag.ALL, 100.0, Vector(0.0, -0.1, 0.0), Vector(2000.0, 1.0, 0.0))
        f.previous_v_mach = prev
        f.current_flag = TrajFlag.NONE
        out = []
        for v in (speed, speed * 0.999, 900.0, 1200.0, 1000.0):
            r = f.check_mach_crossing(v, sos)
            out.append((r, f.current_flag, f.previous_v_mach))
            f.current_flag = TrajFlag.NONE
        line = repr((prev, speed, sos, out))
        h.update(line.encode())
        n += 1
    print("mach grid", n, h.hexdigest())
    try:
        _TrajectoryDataFilter(TrajFlag.ALL, 100.0, Vector(0.0, 0.0, 0.0), Vector(1.0, 0.0, 0.0)
                              ).check_mach_crossing(100.0, 0.0)
    except Exception as e:
        print("mach sos=0:", type(e).__name__, e)
    f = _TrajectoryDataFilter(TrajFlag.ALL, 100.0, Vector(0.0, 0.0, 0.0), Vector(1.0, 0.0, 0.0))
    f.look_angle = inf
    for x in (0.0, 1.0):
        try:
            print("tan(inf) x=", x, f.check_zero_crossing(Vector(x, 1.0, 0.0)))
        except Exception as e:
            print("tan(inf) x=", x, type(e).__name__, e)


if __name__ == "__main__":
    main()
    exhaustive_checks()
