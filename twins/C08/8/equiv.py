"""Equivalence digest for refactoring 2 (CIPM-2007 moist-air density written as straight-line code).

Prints repr() of Atmo.calculate_air_density and of everything derived from it (density_ratio, density_metric,
density_imperial, the altitude extrapolation that scales density_ratio) for a handful of hand-picked inputs, the
exception type/message for the inputs that fail, and a sha256 over a dense grid.  Same text before and after.
"""
import hashlib
import itertools
import warnings

warnings.simplefilter("ignore")  # the "pure python mode" notice at import time carries a file path
from py_ballisticcalc import Atmo, Vacuum, Distance, Pressure, Temperature, Velocity, PreferredUnits

warnings.resetwarnings()
PreferredUnits.defaults()

nan = float("nan")
inf = float("inf")


def call(fn, *args):
    with warnings.catch_warnings(record=True) as caught:
        warnings.simplefilter("always")
        try:
            out = repr(fn(*args))
        except Exception as e:  # pylint: disable=broad-except
            out = f"{type(e).__name__}: {e}"
    if caught:
        out += " | " + "; ".join(sorted({f"{w.category.__name__}: {w.message}" for w in caught}))
    return out


print("== calculate_air_density(t, p, humidity): hand-picked")
cases = [
    (20, 1013, 0), (20, 1013, 1), (15.0, 1013.25, 0.0), (15, 1013.25, 0.5), (15.0, 1013.25, 100),
    (-60.0, 500.0, 0.0), (-60.0, 1100.0, 1.0), (60.0, 500.0, 1.0), (60.0, 1100.0, 0.0), (59.99, 1099.9, 0.37),
    (0.0, 1000.0, 0.0), (-0.0, 1000.0, 0.0), (0.1 + 0.2, 700.3, 0.99), (1e-9, 1e-9, 1e-9), (35.5, 955.0, 0.85),
    (-90.0, 226.0, 0.0), (-273.0, 1000.0, 0.5), (-273.15, 1000.0, 0.0), (-300.0, 1000.0, 0.2), (1000.0, 1000.0, 1.0),
    (20.0, 0.0, 0.5), (20.0, 0, 0), (20.0, -50.0, 0.5), (20.0, 1e-300, 1.0), (20.0, 1e300, 1.0),
    (1e200, 1000.0, 0.0), (1e154, 1000.0, 0.0), (-1e200, 1000.0, 0.0), (10 ** 400, 1000.0, 0.0), (20, 10 ** 400, 0.0),
    (nan, 1000.0, 0.0), (20.0, nan, 0.0), (20.0, 1000.0, nan), (inf, 1000.0, 0.0), (-inf, 1000.0, 0.0),
    (20.0, inf, 0.5), (20.0, 1000.0, inf), (20.0, 1000.0, -1.0), (20.0, 1000.0, 250.0), (True, 1000, False),
    ("20", 1000.0, 0.0), (20.0, None, 0.0), (20.0, 1000.0, "x"),
]
for c in cases:
    print(f"   {c!r:40} -> {call(Atmo.calculate_air_density, *c)}")

print("== calculate_air_density: grid digest")
h = hashlib.sha256()
n = 0
ts = [-60 + 120 * i / 48 for i in range(49)]
ps = [500 + 600 * i / 24 for i in range(25)]
hs = [0.0, 0.01, 0.25, 0.5, 0.75, 1.0, 1, 30, 100]
for t, p, hum in itertools.product(ts, ps, hs):
    h.update(repr(Atmo.calculate_air_density(t, p, hum)).encode())
    n += 1
print(f"   {n} points sha256={h.hexdigest()}")

print("== Atmo objects: density_ratio / density_metric / density_imperial / mach / str")


def describe(a):
    return (a.density_ratio, a.density_metric, a.density_imperial, a.mach.raw_value, a.humidity,
            a.temperature.raw_value, a.pressure.raw_value, a.altitude.raw_value, str(a))


stations = [
    ("icao()", lambda: Atmo.icao()),
    ("standard(10000 ft)", lambda: Atmo.standard(Distance.Foot(10000))),
    ("standard(1000 m)", lambda: Atmo.standard(Distance.Meter(1000))),
    ("icao(-1400 ft)", lambda: Atmo.icao(Distance.Foot(-1400))),
    ("icao(36000 ft)", lambda: Atmo.icao(Distance.Foot(36000))),
    ("icao(0, 35 C, humidity 80)", lambda: Atmo.icao(0, Temperature.Celsius(35), 80)),
    ("icao(0, 35 C, humidity 0.8)", lambda: Atmo.icao(0, Temperature.Celsius(35), 0.8)),
    ("Atmo()", lambda: Atmo()),
    ("Atmo(30 F, 31 inHg, 0.5)", lambda: Atmo(temperature=Temperature.Fahrenheit(30), pressure=Pressure.InHg(31), humidity=0.5)),
    ("Atmo(350 m, 955 hPa, 38 C, 85)", lambda: Atmo(Distance.Meter(350), Pressure.hPa(955), Temperature.Celsius(38), 85)),
    ("Atmo(-60 C, 1100 hPa, 0)", lambda: Atmo(0, Pressure.hPa(1100), Temperature.Celsius(-60), 0)),
    ("Atmo(60 C, 500 hPa, 100)", lambda: Atmo(0, Pressure.hPa(500), Temperature.Celsius(60), 100)),
    ("Atmo(humidity=1)", lambda: Atmo(humidity=1)),
    ("Atmo(humidity=1.0000001)", lambda: Atmo(humidity=1.0000001)),
    ("Atmo(humidity=100.0000001)", lambda: Atmo(humidity=100.0000001)),
    ("Atmo(humidity=-1e-12)", lambda: Atmo(humidity=-1e-12)),
    ("Atmo(humidity=nan)", lambda: Atmo(humidity=nan)),
    ("Atmo(pressure=0 hPa)", lambda: Atmo(0, Pressure.hPa(0), Temperature.Celsius(15), 0)),
    ("Atmo(-273.15 C)", lambda: Atmo(0, Pressure.hPa(1000), Temperature.Celsius(-273.15), 0)),
    ("Vacuum()", lambda: Vacuum()),
    ("Vacuum(3000 ft, 5 C)", lambda: Vacuum(Distance.Foot(3000), Temperature.Celsius(5))),
]
for label, mk in stations:
    print(f"   {label:34} -> {call(lambda: describe(mk()))}")

print("== humidity setter recomputes density (fraction and percent mean the same)")
a = Atmo(Distance.Foot(500), Pressure.hPa(990), Temperature.Celsius(27), 0)
for hum in (0, 0.2, 20, 0.5, 50, 1, 100, 1.5, 0.015, 99.999):
    a.humidity = hum
    print(f"   humidity={hum!r:8} -> stored {a.humidity!r} ratio {a.density_ratio!r} metric {a.density_metric!r} "
          f"imperial {a.density_imperial!r}")
for bad in (-0.1, 100.1, 1e9):
    print(f"   humidity={bad!r:8} -> {call(setattr, a, 'humidity', bad)}; still {a.humidity!r} {a.density_ratio!r}")
v = Vacuum(Distance.Foot(100))
v.humidity = 55
print(f"   Vacuum after humidity=55 -> {v.humidity!r} {v.density_ratio!r} {v.density_imperial!r} {v.pressure.raw_value!r}")

print("== density ratio carried to other altitudes")
for label, mk in stations[:12] + stations[-2:]:
    st = mk()
    a0 = st.altitude >> Distance.Foot
    res = [call(st.get_density_factor_and_mach_for_altitude, a0 + d)
           for d in (0, 29.999, -29.999, 30, -30, 31, -500, 2500, 12000)]
    print(f"   {label:34} -> {res!r}")

print("== monotonicity spot checks on the patched/unpatched numbers")
base = Atmo.calculate_air_density(15.0, 1013.25, 0.0)
print("  ", base < Atmo.calculate_air_density(15.0, 1020.0, 0.0), base > Atmo.calculate_air_density(16.0, 1013.25, 0.0),
      base > Atmo.calculate_air_density(15.0, 1013.25, 1.0), repr(base / 1.2250))
