"""Equivalence digest for refactoring 3 (table-driven Unit.__call__, the constructor behind every
PreferredUnits.x(...) / Temperature.Fahrenheit(...) / Pressure.hPa(...) / Velocity.FPS(...) in the atmosphere)."""
import hashlib
import warnings

from py_ballisticcalc import (Atmo, Vacuum, Wind, Unit, Distance, Pressure, Temperature, Velocity, Angular,
                              Energy, Weight, PreferredUnits)

warnings.simplefilter("ignore")
out = []


def emit(*parts):
    out.append(" ".join(repr(p) for p in parts))


def attempt(label, fn):
    try:
        emit(label, fn())
    except Exception as e:  # noqa
        emit(label, type(e).__name__, str(e))


def show(d):
    return (type(d).__name__, d.units, type(d.raw_value).__name__, d.raw_value, str(d), repr(d))


# 1. every Unit member builds the same object of the same class
for u in Unit:
    for v in (0, 1, -2.5, 59.0, 1013.25, 1e-9, True, float("inf"), float("nan")):
        attempt(f"{u!r}({v!r})", lambda: show(u(v)))
    attempt(f"{u!r}('x')", lambda: show(u("x")))
    attempt(f"{u!r}(None)", lambda: show(u(None)))

# 2. a dimension handed to a unit is re-labelled in place (same object), whatever the unit's block
for u in (Unit.Foot, Unit.Meter, Unit.hPa, Unit.Celsius, Unit.FPS, Unit.Degree, Unit.Joule, Unit.Grain):
    for d in (Distance.Yard(100), Pressure.InHg(29.92), Temperature.Fahrenheit(59), Velocity.MPS(340)):
        def relabel():
            r = u(d)
            return (r is d, d.units, type(d).__name__, d.raw_value)
        attempt(f"{u!r}(<{type(d).__name__}>)", relabel)
        attempt("  then str", lambda: str(d))

# 3. codes that belong to no block / are not Unit members, through the unbound method
for code in (-1, 0, 9, 10, 19, 20, 25, 29, 30, 39, 40, 49, 50, 59, 60, 69, 70, 79, 80, 100, 9.5, 19.999, 20.0,
             "11", None):
    attempt(f"Unit.__call__({code!r}, 1.5)", lambda: show(Unit.__call__(code, 1.5)))

# 4. the atmosphere built on top of it, with several preferred-unit settings
def digest(tag):
    for alt in (-1400, 0, 29, 31, 5000, 36000):
        a = Atmo.icao(Distance.Foot(alt))
        emit(tag, "icao", alt, show(a.altitude), show(a.pressure), show(a.temperature), show(a.powder_temp),
             show(a.mach), a.density_ratio, a._t0, a._p0, a._a0, a._mach, str(a))
        for q in (-1000, alt, alt + 29.5, alt + 30, 12000.25, 36000):
            emit(tag, "  at", q, a.get_density_factor_and_mach_for_altitude(q))
    def plain():
        a = Atmo(1, 27.5, 41, 55, 70)
        return (show(a.altitude), show(a.pressure), show(a.temperature), show(a.powder_temp),
                a._t0, a._p0, a._a0, a._mach, a.density_ratio, a.density_metric, a.density_imperial)
    attempt(f"{tag} plain numbers", plain)
    a = Atmo(Distance.Meter(300), Pressure.Bar(0.98), Temperature.Kelvin(280), 0.3, Temperature.Rankin(520))
    emit(tag, "dimensions", show(a.altitude), show(a.pressure), show(a.temperature), show(a.powder_temp),
         a._t0, a._p0, a._a0, a._mach, a.density_ratio, a.get_density_factor_and_mach_for_altitude(4000))
    alt_obj = Distance.Kilometer(1.5)
    a = Atmo.standard(alt_obj)
    emit(tag, "caller's altitude object after icao()", show(alt_obj), a.altitude is alt_obj)
    emit(tag, "std fns", show(Atmo.standard_temperature(Distance.Meter(2000))),
         show(Atmo.standard_pressure(Distance.Meter(2000))))
    def vac():
        v = Vacuum(0.5, 20)
        return (show(v.altitude), show(v.pressure), show(v.temperature), v.density_ratio, show(v.mach),
                v.get_density_factor_and_mach_for_altitude(v._a0),
                v.get_density_factor_and_mach_for_altitude(9000))
    attempt(f"{tag} vacuum", vac)
    attempt(f"{tag} vacuum far outside the model", lambda: Vacuum(500000, 20))
    w = Wind(5, 90)
    emit(tag, "wind", show(w.velocity), show(w.direction_from), show(w.until_distance))
    for bad in (-1, 100.5):
        attempt(f"{tag} humidity {bad}", lambda: Atmo(humidity=bad))


digest("default")
PreferredUnits.set(distance=Unit.Meter, pressure=Unit.hPa, temperature=Unit.Celsius, velocity=Unit.MPS)
digest("metric")
PreferredUnits.set(distance=Unit.Kilometer, pressure=Unit.PSI, temperature=Unit.Rankin, velocity=Unit.KT)
digest("odd")
# a preferred unit of the wrong dimension must fail the same way
PreferredUnits.set(pressure=Unit.Meter)
attempt("pressure preferred as Meter", lambda: show(Atmo(0, 760).pressure))
PreferredUnits.set(temperature=Unit.Joule)
attempt("temperature preferred as Joule", lambda: show(Atmo(0, None, 15).temperature))
PreferredUnits.defaults()
digest("defaults again")

text = "\n".join(out)
print(text)
print("lines", len(out), "sha256", hashlib.sha256(text.encode()).hexdigest())
