"""Equivalence digest for C08 / refactoring 1 (formula library split out of Atmo into a base class).

Run:  cd /tmp/wt/C08 && PYTHONPATH=/tmp/wt/C08 /venv/bin/python /tmp/twins4/C08/1/equiv.py
Prints only values computed through the public API; must be byte-identical with and without the patch.
"""
import math
import warnings

warnings.simplefilter("ignore")  # silence the "pure python mode" import warning
from py_ballisticcalc import (Atmo, Vacuum, Distance, Temperature, Pressure, Velocity, Unit, PreferredUnits,
                              Calculator, Shot, Ammo, Weapon, DragModel, TableG7, RangeError)


def h(x):
    """bit-exact rendering of a number"""
    if isinstance(x, float):
        if x != x:
            return f"nan(sign {math.copysign(1.0, x)!r})"
        return f"{x!r}/{x.hex()}"
    return f"{type(x).__name__}:{x!r}"


def call(label, fn, *args):
    """run fn, print result or exception, and every warning raised on the way (in order)"""
    with warnings.catch_warnings(record=True) as caught:
        warnings.simplefilter("always")
        try:
            res = fn(*args)
            if isinstance(res, tuple):
                out = "(" + ", ".join(h(v) for v in res) + ")"
            else:
                out = h(res)
        except Exception as exc:  # pylint: disable=broad-except
            out = f"EXC {type(exc).__name__}: {exc}"
    print(label, "->", out)
    for w in caught:
        print("    warn", w.category.__name__, str(w.message))


def dump(label, a):
    print(label, type(a).__name__, str(a))
    print("   ", h(a.altitude.raw_value), a.altitude.units, h(a.pressure.raw_value), a.pressure.units,
          h(a.temperature.raw_value), a.temperature.units, h(a.powder_temp.raw_value), h(a.humidity))
    print("   ", h(a._a0), h(a._t0), h(a._p0), h(a._mach), h(a.density_ratio), h(a.mach.raw_value),
          h(a.density_metric), h(a.density_imperial), h(a.cLowestTempC))


print("== class layout as seen by users")
for cls in (Atmo, Vacuum):
    for name in ("standard_temperature", "standard_pressure", "icao", "standard", "machF", "machC", "machK",
                 "calculate_air_density", "cLowestTempC"):
        print(cls.__name__, name, hasattr(cls, name), callable(getattr(cls, name)))
print(Atmo.standard is Atmo.icao, Vacuum.machK is Atmo.machK, issubclass(Vacuum, Atmo), h(Atmo.cLowestTempC))

print("== ISA formulas")
for ft in (-1400, -1000.5, 0, 1, 29.99, 30, 1000, 5000, 10000, 20000.25, 36000, 36089, 40000):
    d = Distance.Foot(ft)
    call(f"std_T {ft}ft", lambda d=d: Atmo.standard_temperature(d).raw_value)
    call(f"std_P {ft}ft", lambda d=d: Atmo.standard_pressure(d).raw_value)
for m in (-400, 0, 1000, 11000, 44330, 44331, 50000):
    d = Distance.Meter(m)
    call(f"std_T {m}m", lambda d=d: Atmo.standard_temperature(d) >> Temperature.Celsius)
    call(f"std_P {m}m", lambda d=d: Atmo.standard_pressure(d) >> Pressure.hPa)
call("std_T float", Atmo.standard_temperature, 100.0)
call("std_P float", Atmo.standard_pressure, 100.0)

print("== speed of sound")
for f in (59, 10, 99, -130, -459.67, -459.68, -500, 0.0, 1e6, float("nan"), float("inf")):
    call(f"machF {f}", Atmo.machF, f)
for c in (-20, 15, 0, -273.15, -273.16, -300, 60, float("nan")):
    call(f"machC {c}", Atmo.machC, c)
    call(f"Vacuum.machC {c}", Vacuum.machC, c)
for k in (288.15, 0, 0.0, -1, 1e-300, float("inf"), float("nan")):
    call(f"machK {k}", Atmo.machK, k)
call("machK str", Atmo.machK, "x")

print("== CIPM density")
for t in (-60, -20.5, 0, 15, 20, 37.7, 60):
    for p in (500, 850.5, 1013, 1013.25, 1100):
        for hum in (0, 0.5, 1, 50, 100):
            call(f"rho t={t} p={p} h={hum}", Atmo.calculate_air_density, t, p, hum)
call("rho p=0", Atmo.calculate_air_density, 15, 0, 0)
call("rho t=-273.15", Atmo.calculate_air_density, -273.15, 1000, 0)
call("rho nan", Atmo.calculate_air_density, float("nan"), 1000, 0.3)
call("rho via Vacuum", Vacuum.calculate_air_density, 15, 1000, 0.3)

print("== formulas reached through instances and subclasses; Atmo-level overrides are still honoured")
inst = Atmo.icao(Distance.Foot(250))
call("inst.machF", inst.machF, 59)
call("inst.machC", inst.machC, -280)
call("inst.standard_pressure", lambda: inst.standard_pressure(Distance.Foot(250)).raw_value)
call("inst.calculate_air_density", inst.calculate_air_density, 15, 1000, 0.5)
call("Vacuum().standard_temperature", lambda: Vacuum().standard_temperature(Distance.Foot(250)).raw_value)


class Tweaked(Atmo):
    @staticmethod
    def machF(fahrenheit):  # Atmo.__init__ names Atmo.machF explicitly, so this must NOT change the station
        return 1.0

    @staticmethod
    def calculate_air_density(t, p, humidity):  # same for update_density_ratio
        return 1.0


dump("Tweaked", Tweaked(Distance.Foot(100), Pressure.hPa(1000), Temperature.Celsius(10), 30))
call("Tweaked D,M", Tweaked().get_density_factor_and_mach_for_altitude, 4000.0)

saved_floor, saved_machk = Atmo.cLowestTempC, Atmo.machK
try:
    Atmo.cLowestTempC = -40.0
    Atmo.machK = staticmethod(lambda kelvin: kelvin * 2.0)
    call("patched machC(-300)", Atmo.machC, -300)
    call("patched machC(10)", Atmo.machC, 10)
    call("patched Vacuum.machC(10)", Vacuum.machC, 10)
    call("patched D,M@30000", Atmo.icao().get_density_factor_and_mach_for_altitude, 30000.0)
    call("patched D,M@10", Atmo.icao().get_density_factor_and_mach_for_altitude, 10.0)
finally:
    Atmo.cLowestTempC = saved_floor
    Atmo.machK = staticmethod(saved_machk)
call("restored machC(-300)", Atmo.machC, -300)
call("restored D,M@30000", Atmo.icao().get_density_factor_and_mach_for_altitude, 30000.0)

print("== standard stations")
dump("icao()", Atmo.icao())
dump("Atmo()", Atmo())
dump("standard(10000ft)", Atmo.standard(Distance.Foot(10000)))
dump("standard(1000m)", Atmo.standard(Distance.Meter(1000)))
dump("icao(-1400ft)", Atmo.icao(Distance.Foot(-1400)))
dump("icao(36000ft)", Atmo.icao(Distance.Foot(36000)))
dump("icao(5000, T=5C, h=40)", Atmo.icao(5000, Temperature.Celsius(5), 40))
dump("Vacuum.icao(2000)", Vacuum.icao(2000))
call("icao(50km)", lambda: Atmo.icao(Distance.Kilometer(50)))

print("== custom stations, humidity handling")
dump("custom", Atmo(temperature=Temperature.Fahrenheit(30), pressure=Pressure.InHg(31), humidity=0.5))
dump("metric", Atmo(Unit.Meter(100), Unit.hPa(1000), Unit.Celsius(20), 50, Unit.Celsius(15)))
for tc in (-60, -5, 25.5, 60):
    for ph in (500, 1013.25, 1100):
        for hum in (0, 0.3, 1, 1.0001, 30, 100):
            a = Atmo(Distance.Foot(1234.5), Pressure.hPa(ph), Temperature.Celsius(tc), hum)
            print(tc, ph, hum, h(a.humidity), h(a.density_ratio), h(a.mach.raw_value))
for bad in (-0.1, -1e-300, 100.0001, 1e9, float("inf"), float("-inf"), float("nan"), "50", None):
    call(f"Atmo(humidity={bad!r})", lambda bad=bad: Atmo(humidity=bad).humidity)
a = Atmo(Distance.Foot(500), Pressure.hPa(990), Temperature.Celsius(22), 10)
dump("before set", a)
a.humidity = 0.8
dump("after 0.8", a)
a.humidity = 80
dump("after 80", a)
call("set 101", lambda: setattr(a, "humidity", 101))
call("set -1", lambda: setattr(a, "humidity", -1))
dump("after failed sets", a)
a.update_density_ratio()
dump("after explicit update", a)

print("== altitude extrapolation")
stations = [
    Atmo.icao(),
    Atmo.icao(Distance.Foot(5000)),
    Atmo.icao(Distance.Meter(1500)),
    Atmo.icao(Distance.Foot(-1400)),
    Atmo(Distance.Foot(1000), Pressure.hPa(950), Temperature.Celsius(30), 60),
    Atmo(Distance.Foot(36000)),
    Atmo(Distance.Foot(100), Pressure.hPa(1020), Temperature.Celsius(-85), 0),
    Vacuum(),
    Vacuum(Distance.Foot(3000), Temperature.Celsius(-10)),
]
offsets = (0, 1e-9, 29, 29.999999, 30, 30.000001, -29.999999, -30, -30.000001, 100, -100, 1000, -1400.0, 5000,
           20000, 36000, 36089, 36089.5, 36090, 60000, 100_000, 145000, 146000, 200000)
for i, st in enumerate(stations):
    dump(f"station {i}", st)
    for off in offsets:
        alt = st._a0 + off
        call(f"  s{i} T@{off}", st.temperature_at_altitude, alt)
        call(f"  s{i} P@{off}", st.pressure_at_altitude, alt)
        call(f"  s{i} D,M@{off}", st.get_density_factor_and_mach_for_altitude, alt)
    for alt in (0, 0.0, -0.0, 15, 36089, 36090, float("nan"), float("inf"), float("-inf")):
        call(f"  s{i} D,M abs {alt}", st.get_density_factor_and_mach_for_altitude, alt)
    call(f"  s{i} D,M None", st.get_density_factor_and_mach_for_altitude, None)

print("== standard station vs. prediction from another standard station")
for a0 in (0, 2500, 10000):
    base = Atmo.icao(Distance.Foot(a0))
    for a1 in (-1400, 0, 15, 2500, 7777.7, 20000, 36000):
        there = Atmo.icao(Distance.Foot(a1))
        call(f"{a0}->{a1}", base.get_density_factor_and_mach_for_altitude, a1)
        print("      there", h(there.density_ratio), h(there._mach))

print("== vacuum")
v = Vacuum(Distance.Foot(700), Temperature.Celsius(3))
dump("vacuum", v)
v.humidity = 55
dump("vacuum humid", v)
call("vacuum set 101", lambda: setattr(v, "humidity", 101))
v.update_density_ratio()
dump("vacuum updated", v)

print("== preferred units switched")
PreferredUnits.set(distance=Unit.Meter, pressure=Unit.hPa, temperature=Unit.Celsius)
dump("metric icao(1500)", Atmo.icao(1500))
dump("metric Atmo(200, 1000, 12, 45, 30)", Atmo(200, 1000, 12, 45, 30))
call("metric D,M", Atmo(200, 1000, 12, 45).get_density_factor_and_mach_for_altitude, 3000.0)
PreferredUnits.defaults()
dump("back to default icao(1500)", Atmo.icao(1500))

print("== through the solver")
calc = Calculator()
ammo = Ammo(DragModel(0.22, TableG7), mv=Velocity.FPS(2750))
for atmo, look in ((Atmo.icao(), 0), (Atmo.icao(Distance.Foot(4000)), 12),
                   (Atmo(Distance.Foot(900), Pressure.hPa(930), Temperature.Celsius(28), 70), -8),
                   (Vacuum(), 20)):
    shot = Shot(weapon=Weapon(Distance.Inch(2), Distance.Inch(10)), ammo=ammo, atmo=atmo,
                look_angle=Unit.Degree(look))
    with warnings.catch_warnings():
        warnings.simplefilter("ignore")
        try:
            calc.set_weapon_zero(shot, Distance.Yard(100))
            rows = calc.fire(shot, Distance.Yard(1200), Distance.Yard(300)).trajectory
        except RangeError as err:
            rows = err.incomplete_trajectory
    for r in rows:
        print(look, h(r.distance.raw_value), h(r.height.raw_value), h(r.velocity.raw_value), h(r.mach),
              h(r.density_factor), h(r.drag), h(r.time))
