"""Equivalence digest for C08 refactoring 3 (shared barometric helper, constructor / humidity setter helpers, icao, Vacuum).

Prints repr() of every number / warning / exception obtained through the public API.
Must print the same text before and after the patch.
"""
import warnings

from py_ballisticcalc import (Atmo, Vacuum, Distance, Temperature, Pressure, Velocity, Unit, PreferredUnits,
                              Ammo, Weapon, Shot, Calculator, DragModel, TableG7, Angular)

INF, NAN = float("inf"), float("nan")


def call(label, fn, *args, **kwargs):
    with warnings.catch_warnings(record=True) as caught:
        warnings.simplefilter("always")
        try:
            out = fn(*args, **kwargs)
            out = dump(out) if isinstance(out, Atmo) else repr(out)
        except Exception as exc:  # pylint: disable=broad-except
            out = f"EXC {type(exc).__name__}: {exc}"
    print(label, out, [f"{w.category.__name__}: {w.message}" for w in caught])


def dump(a):
    """Everything observable about an atmosphere, including the cached station values"""
    getters = [lambda: type(a).__name__, lambda: a.altitude, lambda: a.pressure, lambda: a.temperature,
               lambda: a.powder_temp, lambda: a.humidity, lambda: a.density_ratio, lambda: a.mach,
               lambda: a.density_metric, lambda: a.density_imperial, lambda: a._t0, lambda: a._p0, lambda: a._a0,
               lambda: a._mach, lambda: a._initializing, lambda: a.altitude.units, lambda: a.pressure.units,
               lambda: a.temperature.units, lambda: a.powder_temp.units, lambda: a.altitude.raw_value,
               lambda: a.pressure.raw_value, lambda: a.temperature.raw_value, lambda: a.powder_temp.raw_value,
               lambda: a.cLowestTempC, lambda: str(a), lambda: sorted(vars(a))]
    out = []
    for getter in getters:
        try:
            out.append(repr(getter()))
        except Exception as exc:  # pylint: disable=broad-except
            out.append(f"EXC {type(exc).__name__}: {exc}")
    return " | ".join(out)


# 1. static standard model, altitude in several units, troposphere and beyond
ALTS = [Distance.Foot(-1400), Distance.Foot(-0.0), Distance.Foot(0), Distance.Foot(29.99), Distance.Foot(30),
        Distance.Foot(1234.5), Distance.Meter(1000), Distance.Meter(2500.25), Distance.Yard(3333), Distance.Kilometer(8),
        Distance.Mile(5), Distance.Inch(120000), Distance.Foot(36000), Distance.Foot(36089), Distance.Meter(11000),
        Distance.Meter(44330), Distance.Meter(44331), Distance.Meter(50000), Distance.Foot(1e7), Distance.Foot(-1e6),
        Distance.Foot(INF), Distance.Foot(NAN)]
for alt in ALTS:
    call(f"std_t({alt!r})", lambda x: (Atmo.standard_temperature(x).raw_value, Atmo.standard_temperature(x).units), alt)
    call(f"std_p({alt!r})", lambda x: (Atmo.standard_pressure(x).raw_value, Atmo.standard_pressure(x).units), alt)
    call(f"icao({alt!r})", Atmo.icao, alt)
    call(f"standard({alt!r},h=40)", Atmo.standard, alt, humidity=40)
    call(f"icao({alt!r},T=-5C)", Atmo.icao, alt, Temperature.Celsius(-5))
    call(f"Atmo({alt!r})", Atmo, alt)
    call(f"Vacuum({alt!r})", Vacuum, alt)
for raw in (None, 0, 0.0, 100, -50.5, 2500.0):  # plain numbers are in PreferredUnits
    call(f"Atmo({raw!r})", Atmo, raw)
    call(f"Vacuum({raw!r})", Vacuum, raw)
    if raw is not None:
        call(f"icao({raw!r})", Atmo.icao, raw)
call("icao()", Atmo.icao)
call("standard is icao", lambda: Atmo.standard is Atmo.icao)
for bad in (Temperature.Celsius(3), "x", None, 5.0):
    call(f"std_t(bad {bad!r})", Atmo.standard_temperature, bad)
    call(f"std_p(bad {bad!r})", Atmo.standard_pressure, bad)
call("icao(bad Temperature)", Atmo.icao, Temperature.Celsius(3))
call("icao('x')", Atmo.icao, "x")
call("Atmo(altitude=Temperature, p, t)", Atmo, Temperature.Celsius(3), Pressure.hPa(1000), Temperature.Celsius(10))
call("Atmo(pressure=Distance)", Atmo, None, Distance.Foot(3))
call("Atmo(temperature=Distance)", Atmo, None, None, Distance.Foot(3))
call("Atmo(powder_t=Distance)", Atmo, None, None, None, 0, Distance.Foot(3))

# 2. constructor variety
CASES = [
    dict(),
    dict(altitude=Distance.Foot(5000)),
    dict(altitude=Distance.Meter(150), pressure=Pressure.hPa(1000), temperature=Temperature.Celsius(20), humidity=50,
         powder_t=Temperature.Celsius(15)),
    dict(temperature=Temperature.Fahrenheit(30), pressure=Pressure.InHg(31), humidity=0.5),
    dict(pressure=Pressure.MmHg(700), humidity=1),
    dict(pressure=Pressure.PSI(12.5), temperature=Temperature.Kelvin(250), humidity=100),
    dict(pressure=29.5, temperature=75, altitude=1200, humidity=1.0000001, powder_t=60),
    dict(temperature=Temperature.Celsius(-60), pressure=Pressure.hPa(500)),
    dict(temperature=Temperature.Celsius(60), pressure=Pressure.hPa(1100), humidity=99.999),
    dict(temperature=Temperature.Fahrenheit(-500)),         # below absolute zero: machF warns
    dict(temperature=Temperature.Celsius(-273.15)),         # 0 K: division by zero in the density
    dict(pressure=Pressure.hPa(0)),
    dict(humidity=-0.0), dict(humidity=0), dict(humidity=True), dict(humidity=NAN),
    dict(humidity=-1e-12), dict(humidity=100.0000001), dict(humidity=INF), dict(humidity=None), dict(humidity="50"),
]
for kw in CASES:
    call(f"Atmo(**{kw!r})", Atmo, **kw)
call("Vacuum(T)", Vacuum, None, Temperature.Celsius(-40))
call("Vacuum(kw)", Vacuum, temperature=Temperature.Fahrenheit(100), altitude=Distance.Meter(1234))
call("Vacuum(pressure=) not accepted", lambda: Vacuum(pressure=Pressure.hPa(5)))

# 3. humidity setter: fraction == percent, boundaries, rejection leaves the old state, call histories
a = Atmo(Distance.Foot(2000), Pressure.hPa(940), Temperature.Celsius(25), 30)
print("start", dump(a))
for h in (0, 0.3, 30, 1, 1.0, 100, 1.0000001, 0.999999, 50.0, 0.5, True, False, -0.0, NAN):
    a.humidity = h
    print("set", repr(h), repr(a.humidity), repr(a.density_ratio), repr(a._initializing),
          repr(a.get_density_factor_and_mach_for_altitude(2000)), repr(a.get_density_factor_and_mach_for_altitude(6000)))
a.humidity = 42
for h in (-1e-9, -5, 100.5, 1e9, INF, -INF, None, "7", [1]):
    call(f"reject {h!r}", setattr, a, "humidity", h)
    print("  after", repr(a.humidity), repr(a.density_ratio), repr(a._initializing))
# failed re-initialisation followed by further use of the object
b = Atmo(Distance.Foot(100), humidity=10)
call("reinit bad humidity", b.__init__, Distance.Foot(3000), None, None, 150)
print("  after", dump(b))
b.humidity = 90
print("  then set 90", dump(b))
call("reinit ok", b.__init__, Distance.Foot(4000), None, None, 20)
print("  after", dump(b))
b.humidity = 90
print("  then set 90", dump(b))
call("reinit bad altitude", b.__init__, "high")
print("  after", dump(b))
v = Vacuum(Distance.Foot(500))
v.humidity = 70
print("vac set 70", dump(v))
call("vac reject", setattr, v, "humidity", 101)
print("  after", dump(v))
v.update_density_ratio()
print("vac update", dump(v))

# 4. altitude model of the instance (pressure_at_altitude now shares the helper with standard_pressure)
for name, st in (("std0", Atmo.icao()), ("std8000", Atmo.icao(Distance.Foot(8000))),
                 ("custom", Atmo(Distance.Meter(700), Pressure.hPa(905.5), Temperature.Celsius(-12.5), 65)),
                 ("zeroK", None), ("vac", Vacuum(Distance.Foot(1000)))):
    if st is None:
        st = Atmo.icao()
        st._t0 = -273.15   # only to reach the division by zero inside the formula
    for alt in (-1400, 0, 0.0, 29, 31, 1000, 8000, 8029.9, 8030.1, 20000.5, 36000, 36089, 50000, 145000, 145400, 150000,
                1e6, -1e6, INF, -INF, NAN, None, "x"):
        call(f"{name}.p_at({alt!r})", st.pressure_at_altitude, alt)
        call(f"{name}.gdfm({alt!r})", st.get_density_factor_and_mach_for_altitude, alt)

# 5. a standard station predicts what a standard station created there reports
base = Atmo.icao()
for ft in (-1400, 500, 5000, 15000, 36000):
    there = Atmo.icao(Distance.Foot(ft))
    print("xcheck", ft, repr(base.get_density_factor_and_mach_for_altitude(ft)), repr(there.density_ratio), repr(there._mach),
          repr(base.pressure_at_altitude(ft)), repr(there._p0), repr(base.temperature_at_altitude(ft)), repr(there._t0))

# 6. preferred units other than the defaults
saved = (PreferredUnits.distance, PreferredUnits.pressure, PreferredUnits.temperature)
PreferredUnits.distance, PreferredUnits.pressure, PreferredUnits.temperature = Unit.Meter, Unit.hPa, Unit.Celsius
try:
    call("metric Atmo(300, 980, 12, 55)", Atmo, 300, 980, 12, 55)
    call("metric icao(1500)", Atmo.icao, 1500)
    call("metric icao()", Atmo.icao)
    call("metric Vacuum(1500, 3)", Vacuum, 1500, 3)
finally:
    PreferredUnits.distance, PreferredUnits.pressure, PreferredUnits.temperature = saved

# 7. trajectories (default Shot atmosphere is Atmo.icao())
ammo = Ammo(DragModel(0.22, TableG7), mv=Velocity.FPS(3000))
for label, atmo, look in (("default", None, 0), ("high", Atmo.icao(Distance.Foot(6000), humidity=30), 12),
                          ("vac", Vacuum(Distance.Foot(100)), -5)):
    with warnings.catch_warnings():
        warnings.simplefilter("ignore")
        calc = Calculator()
        shot = Shot(weapon=Weapon(), ammo=ammo, atmo=atmo, look_angle=Angular.Degree(look))
        calc.set_weapon_zero(shot, Distance.Yard(100))
        hit = calc.fire(shot, trajectory_range=Distance.Yard(1000), trajectory_step=Distance.Yard(250))
    for row in hit.trajectory:
        print("traj", label, repr(row.distance.raw_value), repr(row.height.raw_value), repr(row.velocity.raw_value),
              repr(row.mach), repr(row.time), repr(row.density_factor))
