"""Digest of the CIPM-2007 moist-air density (Atmo.calculate_air_density and everything built on it) and of the ISA
formulas Atmo.standard_temperature / Atmo.standard_pressure through the public API.
Prints the same text with and without refactoring 3."""
import itertools
import warnings

from py_ballisticcalc import (Atmo, Vacuum, Angular, Distance, Temperature, Pressure, Velocity, Ammo, Weapon, Shot,
                              Calculator, DragModel, TableG7)


def probe(label, fn, *args):
    with warnings.catch_warnings(record=True) as caught:
        warnings.simplefilter("always")
        try:
            res = fn(*args)
            res = repr(res.raw_value) + ' ' + repr(res.units) if hasattr(res, 'raw_value') else repr(res)
        except Exception as exc:  # pylint: disable=broad-except
            res = f"EXC {type(exc).__name__}: {exc}"
    print(label, args, '->', res, [(c.category.__name__, str(c.message)) for c in caught])


# --- raw density function: grid over the quantifier's ranges and beyond, ints and floats ---
TEMPS = [-60, -60.0, -40.5, -17.77, 0, 0.0, 15, 15.0, 20, 33.3, 60, 60.0]
PRESS = [500, 500.0, 701.3, 899.9, 1013, 1013.25, 1100]
HUMS = [0, 0.0, 0.01, 0.37, 0.5, 1, 1.0, 50, 100]
for t, p, h in itertools.product(TEMPS, PRESS, HUMS):
    probe('rho', Atmo.calculate_air_density, t, p, h)
EDGE = [(-273.15, 1000, 0), (-273.15, 0, 0), (20, 0, 0), (20, 0.0, 0.5), (20, -1013, 0.5), (-300, 1000, 0.5),
        (1e3, 1000, 1), (1e5, 1000, 1), (1e200, 1000, 0), (-1e200, 1000, 0), (20, 1e300, 0), (20, 1e-300, 1),
        (float('nan'), 1000, 0), (20, float('nan'), 0), (20, 1000, float('nan')), (float('inf'), 1000, 0),
        (20, float('inf'), 0), (20, 1000, -5), (20, 1000, 1e6), (True, 1000, False), ('20', 1000, 0), (20, '1000', 0),
        (20, 1000, '0'), (None, 1000, 0), (20, None, 0), (20, 1000, None), (10 ** 400, 1000, 0), (20, 10 ** 400, 0)]
for args in EDGE:
    probe('rho edge', Atmo.calculate_air_density, *args)

# --- ISA formulas, any unit of altitude, incl. outside the troposphere and the pow() domain limit ---
FEET = [-1400, -1399.999, -0.0, 0, 1, 29.9, 30, 1000, 3280.84, 5000.5, 10000, 18000, 25000.25, 36000, 36089, 40000,
        100000, 145000, 145500, 200000, 1e9, float('inf'), float('-inf'), float('nan')]
for ft in FEET:
    probe('std T', Atmo.standard_temperature, Distance.Foot(ft))
    probe('std P', Atmo.standard_pressure, Distance.Foot(ft))
for d in (Distance.Meter(1000), Distance.Kilometer(11), Distance.Yard(1760), Distance.Mile(2), Distance.Inch(12 * 5000),
          Distance.NauticalMile(3), Distance.Centimeter(250000)):
    probe('std T', Atmo.standard_temperature, d)
    probe('std P', Atmo.standard_pressure, d)
    print('units untouched', d.units)
for bad in (5000, 5000.0, None, 'x', Temperature.Celsius(5), Pressure.hPa(900)):
    probe('std T bad', Atmo.standard_temperature, bad)
    probe('std P bad', Atmo.standard_pressure, bad)


# --- atmospheres built on both: ISA table, monotonicity, fraction == percent, vacuum ---
def fields(a):
    return ' '.join(repr(x) for x in (a.temperature.raw_value, a.pressure.raw_value, a._t0, a._p0, a._a0,
                                      a.density_ratio, a.density_metric, a.density_imperial, a.mach >> Velocity.FPS,
                                      a.mach >> Velocity.MPS))


for ft in range(-1400, 36001, 850):
    a = Atmo.icao(Distance.Foot(ft))
    print('isa', ft, fields(a), fields(Atmo(Distance.Foot(ft))),
          repr(Atmo.icao().get_density_factor_and_mach_for_altitude(ft)))
for t, p, h in itertools.product((-60, -12.3, 15, 41.9, 60), (500, 870.5, 1013.25, 1100), (0, 0.25, 25, 1, 100)):
    a = Atmo(Distance.Foot(777), Pressure.hPa(p), Temperature.Celsius(t), h)
    print('atmo', t, p, h, fields(a), repr(a.get_density_factor_and_mach_for_altitude(777)),
          repr(a.get_density_factor_and_mach_for_altitude(6543.21)))
a = Atmo(Distance.Foot(777), Pressure.hPa(1000), Temperature.Celsius(25), 0)
prev = None
for h in (0, 0.1, 0.2, 30, 0.4, 50, 0.6, 70, 0.8, 90, 1, 100):
    a.humidity = h
    print('humidity sweep', h, repr(a.humidity), repr(a.density_ratio), prev is None or a.density_ratio <= prev)
    prev = a.density_ratio
for v in (Vacuum(), Vacuum(Distance.Foot(9000), Temperature.Celsius(-20))):
    print('vacuum', fields(v), [repr(v.get_density_factor_and_mach_for_altitude(x)) for x in (0, 9000, 9029, 9031, 30000)])
for f in (59, 10, 99, -130, -459.67, -459.68, -1000):
    probe('machF', Atmo.machF, f)
for c in (-20, 15, -273.15, -273.16, -500, 1e6):
    probe('machC', Atmo.machC, c)
for k in (0, 288.15, 1e6, -1, float('nan')):
    probe('machK', Atmo.machK, k)

# --- the solver ---
calc = Calculator()
ammo = Ammo(DragModel(0.22, TableG7), mv=Velocity.FPS(2900))
for atmo in (Atmo.icao(), Atmo.icao(Distance.Foot(6000)), Atmo(Distance.Foot(500), Pressure.hPa(990), Temperature.Celsius(30), 70),
             Atmo(Distance.Meter(2000), Pressure.hPa(790), Temperature.Celsius(-25), 0.9), Vacuum()):
    shot = Shot(weapon=Weapon(), ammo=ammo, atmo=atmo, look_angle=Angular.Degree(5))
    with warnings.catch_warnings(record=True) as caught:
        warnings.simplefilter("always")
        hit = calc.fire(shot, Distance.Yard(1200), Distance.Yard(300))
    for row in hit.trajectory:
        print('traj', repr(row.distance.raw_value), repr(row.height.raw_value), repr(row.velocity.raw_value),
              repr(row.mach), repr(row.time), repr(row.density_factor), repr(row.drag))
    print('traj warnings', sorted({(c.category.__name__, str(c.message)) for c in caught}))
