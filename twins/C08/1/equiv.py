"""Digest of the altitude-extrapolation path (Atmo.temperature_at_altitude, pressure_at_altitude,
get_density_factor_and_mach_for_altitude, incl. 30-ft shortcut, troposphere warning, temperature clamp,
Vacuum) through the public API.  Prints the same text with and without refactoring 1."""
import math
import warnings

from py_ballisticcalc import (Atmo, Vacuum, Angular, Distance, Temperature, Pressure, Velocity, Ammo, Weapon, Shot,
                              Calculator, DragModel, TableG7, PreferredUnits, constants)


def probe(label, fn, *args):
    """Run fn(*args) recording result / exception / warnings (category and text only)."""
    with warnings.catch_warnings(record=True) as caught:
        warnings.simplefilter("always")
        try:
            res = repr(fn(*args))
        except Exception as exc:  # pylint: disable=broad-except
            res = f"EXC {type(exc).__name__}: {exc}"
    w = [(c.category.__name__, str(c.message)) for c in caught]
    print(label, args, '->', res, w)


def stations():
    yield 'icao0', Atmo.icao()
    yield 'default', Atmo()
    yield 'icao_-1400ft', Atmo.icao(Distance.Foot(-1400))
    yield 'icao_5000ft', Atmo.icao(Distance.Foot(5000))
    yield 'icao_1000m', Atmo.icao(Distance.Meter(1000))
    yield 'icao_36000ft', Atmo.icao(Distance.Foot(36000))
    yield 'icao_float_yd', Atmo.icao(1200.5)
    yield 'hot_humid', Atmo(Distance.Foot(1234.5), Pressure.hPa(950.3), Temperature.Celsius(41.7), 83)
    yield 'cold_frac', Atmo(Distance.Meter(2500), Pressure.InHg(22.1), Temperature.Celsius(-58.9), 0.37)
    yield 'low_p', Atmo(Distance.Foot(18000), Pressure.hPa(500), Temperature.Fahrenheit(-12), 100)
    yield 'high_p', Atmo(Distance.Foot(-300), Pressure.hPa(1100), Temperature.Celsius(60), 1)
    yield 'near_clamp', Atmo(Distance.Foot(100), Pressure.hPa(1000), Temperature.Celsius(-89.9), 0)
    yield 'vacuum', Vacuum()
    yield 'vacuum_alt', Vacuum(Distance.Foot(7000), Temperature.Celsius(-3))


OFFSETS = [0, 1e-9, -1e-9, 10, -10, 29.999999, -29.999999, 30 - 1e-12, 30, -30, 30 + 1e-9, -30 - 1e-9, 31, -31,
           100, -100, 1000.25, -1400, 5000, 12345.678, 30000]
ABSOLUTE = [-1400, 0, 36000, 36088.9, 36089, 36089.0000001, 36090, 50000, 100_000, 140_000, 150_000, 1e7,
            -1e6, float('inf'), float('-inf'), float('nan'), 7, True]

for name, atmo in stations():
    print('==', name, type(atmo).__name__, repr(atmo._a0), repr(atmo._t0), repr(atmo._p0), repr(atmo._mach),
          repr(atmo.density_ratio), repr(atmo.mach >> Velocity.FPS), repr(atmo.humidity))
    a0 = atmo.altitude >> Distance.Foot
    for off in OFFSETS:
        probe(name + ' dm@a0+', atmo.get_density_factor_and_mach_for_altitude, a0 + off)
    for alt in ABSOLUTE:
        probe(name + ' dm', atmo.get_density_factor_and_mach_for_altitude, alt)
        probe(name + ' T', atmo.temperature_at_altitude, alt)
        probe(name + ' P', atmo.pressure_at_altitude, alt)
    probe(name + ' dm', atmo.get_density_factor_and_mach_for_altitude, 'high')
    probe(name + ' dm', atmo.get_density_factor_and_mach_for_altitude, None)

# self-consistency of a standard station with a standard station created at the query altitude
base = Atmo.icao()
for ft in range(-1400, 36001, 1700):
    d, m = base.get_density_factor_and_mach_for_altitude(ft)
    other = Atmo.icao(Distance.Foot(ft))
    print('consistency', ft, repr(d), repr(m), repr(other.density_ratio), repr(other.mach >> Velocity.FPS))

# humidity changed after construction is seen by the extrapolation and by the shortcut
a = Atmo.icao(Distance.Foot(2000))
for h in (0, 0.5, 50, 1, 100):
    a.humidity = h
    print('rehumid', h, repr(a.get_density_factor_and_mach_for_altitude(2000 * 3 / 3)),
          repr(a.get_density_factor_and_mach_for_altitude(9000)))

# the solver calls the extrapolation on every step
calc = Calculator()
ammo = Ammo(DragModel(0.22, TableG7), mv=Velocity.FPS(2900))
for atmo, look in ((Atmo.icao(), 0), (Atmo.icao(Distance.Foot(4000)), 12), (Atmo(Distance.Foot(500), Pressure.hPa(990),
                   Temperature.Celsius(30), 70), -8), (Vacuum(), 20)):
    shot = Shot(weapon=Weapon(), ammo=ammo, atmo=atmo, look_angle=Angular.Degree(look))
    with warnings.catch_warnings(record=True) as caught:
        warnings.simplefilter("always")
        hit = calc.fire(shot, Distance.Yard(1500), Distance.Yard(300))
    for row in hit.trajectory:
        print('traj', look, repr(row.distance.raw_value), repr(row.height.raw_value), repr(row.velocity.raw_value),
              repr(row.mach), repr(row.time), repr(row.density_factor))
    print('traj warnings', sorted({(c.category.__name__, str(c.message)) for c in caught}))

print('constants', repr(constants.cLowestTempF), repr(constants.cLapseRateKperFoot), repr(constants.cPressureExponent),
      repr(Atmo.cLowestTempC), repr(PreferredUnits.distance))
print('nan check', math.isnan(Atmo.icao().get_density_factor_and_mach_for_altitude(float('nan'))[0]))
