"""Equivalence digest for refactoring 1 (solver side of the atmosphere: _trajectory_calc.py).

Fires a handful of shots through the public API (Calculator.fire / set_weapon_zero /
barrel_elevation_for_target) in very different atmospheres and prints, for every shot, the number of
rows, a sha256 over repr() of every number in every row, the last row, the warnings that were raised
and - where the shot is cut short - the RangeError reason.  Must print the same text before and after.
"""
import hashlib
import math
import warnings

warnings.simplefilter("ignore")  # the "pure python mode" notice at import time carries a file path
from py_ballisticcalc import (Calculator, Shot, Weapon, Ammo, Atmo, Vacuum, Wind, DragModel, TableG7, TableG1,
                              Distance, Velocity, Temperature, Pressure, Angular, Weight, RangeError,
                              PreferredUnits)
from py_ballisticcalc.trajectory_calc._trajectory_calc import TrajectoryCalc
from py_ballisticcalc.interface_config import create_interface_config

warnings.resetwarnings()
PreferredUnits.defaults()


def row_numbers(r):
    return (r.time, r.distance.raw_value, r.velocity.raw_value, r.mach, r.height.raw_value,
            r.target_drop.raw_value, r.drop_adj.raw_value, r.windage.raw_value, r.windage_adj.raw_value,
            r.look_distance.raw_value, r.angle.raw_value, r.density_factor, r.drag,
            r.energy.raw_value, r.ogw.raw_value, int(r.flag))


def digest(rows):
    h = hashlib.sha256()
    for r in rows:
        h.update(repr(row_numbers(r)).encode())
    return h.hexdigest()


def report(label, fn):
    with warnings.catch_warnings(record=True) as caught:
        warnings.simplefilter("always")
        try:
            rows = list(fn())
            tail = "complete"
        except RangeError as e:
            rows = list(e.incomplete_trajectory)
            tail = f"RangeError({e.reason!r}) last_distance={e.last_distance!r} msg={str(e)!r}"
        except Exception as e:  # pylint: disable=broad-except
            rows = []
            tail = f"{type(e).__name__}: {e}"
    print(f"== {label}")
    print(f"   rows={len(rows)} sha256={digest(rows)} -> {tail}")
    if rows:
        print(f"   first={row_numbers(rows[0])!r}")
        print(f"   last ={row_numbers(rows[-1])!r}")
    msgs = sorted({f"{w.category.__name__}: {w.message}" for w in caught})
    print(f"   warnings={len(caught)} distinct={msgs!r}")


def dm_full(bc=0.223, table=TableG7):
    return DragModel(bc, table, Weight.Grain(168), Distance.Inch(0.308), Distance.Inch(1.282))


def make_shot(atmo, look=0.0, rel=0.0, cant=0.0, twist=12.0, winds=None, mv=2750.0, dm=None, zero_elev=0.0):
    weapon = Weapon(Distance.Inch(2), Distance.Inch(twist), Angular.Degree(zero_elev))
    ammo = Ammo(dm or dm_full(), Velocity.FPS(mv), Temperature.Celsius(15), 1.0)
    return Shot(weapon, ammo, Angular.Degree(look), Angular.Degree(rel), Angular.Degree(cant), atmo, winds)


calc = Calculator()

atmos = {
    "icao_sea_level": lambda: Atmo.icao(),
    "icao_5000ft": lambda: Atmo.icao(Distance.Foot(5000)),
    "hot_humid_low_pressure": lambda: Atmo(Distance.Meter(350), Pressure.hPa(955), Temperature.Celsius(38), 85),
    "cold_dry_high_pressure": lambda: Atmo(Distance.Foot(-300), Pressure.InHg(31.1), Temperature.Celsius(-35), 0.1),
    "vacuum": lambda: Vacuum(Distance.Foot(1200)),
    "vacuum_warm": lambda: Vacuum(None, Temperature.Celsius(30)),
}

# 1. flat fire, zeroed at 100 yd, fired to 1000 yd: stays inside the +-30 ft shortcut for part of the way
for name, mk in atmos.items():
    def flat(mk=mk):
        shot = make_shot(mk())
        zero = calc.set_weapon_zero(shot, Distance.Yard(100))
        print(f"   zero_elevation[{name}]={zero.raw_value!r} stability={calc._calc.stability_coefficient!r} "
              f"alt0={calc._calc.alt0!r} mv={calc._calc.muzzle_velocity!r}")
        return calc.fire(shot, Distance.Yard(1000), Distance.Yard(100))
    report(f"flat 1000yd / {name}", flat)

# 2. steep uphill / downhill: leaves the shortcut band quickly, altitude extrapolation on every step
for name in ("icao_sea_level", "hot_humid_low_pressure", "cold_dry_high_pressure", "vacuum"):
    for look in (25.0, -20.0):
        def steep(name=name, look=look):
            shot = make_shot(atmos[name](), look=look, rel=0.35, cant=7.0,
                             winds=[Wind(Velocity.MPH(12), Angular.OClock(3), Distance.Yard(400)),
                                    Wind(Velocity.MPH(6), Angular.OClock(8), Distance.Yard(900))])
            return calc.fire(shot, Distance.Yard(1500), Distance.Yard(150), extra_data=True)
        report(f"steep look={look} extra_data / {name}", steep)

# 3. barrel elevation for an inclined target (zero finding drives _integrate with filter NONE)
for name in ("icao_5000ft", "hot_humid_low_pressure", "vacuum"):
    shot = make_shot(atmos[name](), look=10.0, twist=-9.0)
    with warnings.catch_warnings(record=True):
        warnings.simplefilter("always")
        be = calc.barrel_elevation_for_target(shot, Distance.Meter(600))
    print(f"== barrel_elevation_for_target 600m look=10 / {name}: {be.raw_value!r} "
          f"stability={calc._calc.stability_coefficient!r}")

# 4. the three ways a shot is cut short, plus time-step recording of a lob
report("min altitude reached after a long lob (G1 low bc)",
       lambda: calc.fire(make_shot(Atmo.icao(), rel=30.0, mv=900.0, dm=dm_full(0.05, TableG1)),
                         Distance.Yard(3000), Distance.Yard(250)))
report("min velocity reached (near-vertical, slow)",
       lambda: calc.fire(make_shot(Atmo.icao(Distance.Foot(800)), rel=85.0, mv=300.0),
                         Distance.Yard(500), Distance.Yard(10), extra_data=True))
report("max drop reached (custom limit)",
       lambda: Calculator({"cMaximumDrop": -50.0}).fire(make_shot(Atmo.icao(Distance.Foot(3000))),
                                                       Distance.Yard(2000), Distance.Yard(200)))
report("min altitude reached (station at -1380 ft)",
       lambda: calc.fire(make_shot(Atmo.icao(Distance.Foot(-1380)), look=-3.0),
                         Distance.Yard(1500), Distance.Yard(100), extra_data=True))
report("min altitude reached first step (station below the limit)",
       lambda: calc.fire(make_shot(Atmo.icao(Distance.Foot(-1500))), Distance.Yard(300), Distance.Yard(100)))
report("high lob above the troposphere warning (mortar-like, thin air)",
       lambda: calc.fire(make_shot(Atmo.icao(Distance.Foot(35500)), rel=60.0, mv=3000.0),
                         Distance.Yard(4000), Distance.Yard(500), time_step=0.5))
report("very cold: temperature floor warning on the way up",
       lambda: calc.fire(make_shot(Atmo(Distance.Foot(20000), Pressure.hPa(460), Temperature.Celsius(-80), 0),
                                   rel=45.0, mv=3100.0),
                         Distance.Yard(3000), Distance.Yard(500)))
report("negative range: the loop body never runs",
       lambda: TrajectoryCalc(create_interface_config()).trajectory(
           make_shot(Atmo.icao()), Distance.Foot(-100), Distance.Foot(10)))

# 5. stability coefficient corner cases (no twist / no length / vacuum has zero pressure)
tc = TrajectoryCalc(create_interface_config())
for label, shot in (
        ("twist=0", make_shot(Atmo.icao(), twist=0.0)),
        ("no bullet length", make_shot(Atmo.icao(), dm=DragModel(0.3, TableG7, Weight.Grain(150), Distance.Inch(0.3), 0))),
        ("vacuum", make_shot(Vacuum())),
        ("left twist, thin hot air", make_shot(Atmo(Distance.Foot(9000), Pressure.hPa(700), Temperature.Celsius(33), 40),
                                               twist=-8.0)),
        ("powder sensitivity", None)):
    if shot is None:
        shot = make_shot(Atmo(Distance.Foot(100), Pressure.hPa(1000), Temperature.Celsius(20), 50, Temperature.Celsius(-5)))
        shot.ammo.calc_powder_sens(Velocity.FPS(2700), Temperature.Celsius(0))
        shot.ammo.use_powder_sensitivity = True
    tc._init_trajectory(shot)
    print(f"== stability {label}: {tc.stability_coefficient!r} mv={tc.muzzle_velocity!r} alt0={tc.alt0!r} "
          f"calc_step={tc.calc_step!r} spin_drift(1.3)={tc.spin_drift(1.3)!r}")
    assert not math.isnan(tc.muzzle_velocity)
