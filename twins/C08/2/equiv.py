"""Digest of Atmo / Vacuum construction (cached station state), the humidity setter, update_density_ratio and
Atmo.icao / Atmo.standard through the public API.  Prints the same text with and without refactoring 2."""
import copy
import warnings

from py_ballisticcalc import (Atmo, Vacuum, Angular, Distance, Temperature, Pressure, Velocity, Ammo, Weapon, Shot,
                              Calculator, DragModel, TableG7, PreferredUnits, Unit)


def caught_call(fn, *args, **kwargs):
    with warnings.catch_warnings(record=True) as caught:
        warnings.simplefilter("always")
        try:
            res = fn(*args, **kwargs)
            exc = None
        except Exception as e:  # pylint: disable=broad-except
            res, exc = None, f"EXC {type(e).__name__}: {e}"
    return res, exc, [(c.category.__name__, str(c.message)) for c in caught]


def state(a):
    return ' '.join(repr(x) for x in (
        type(a).__name__, a._a0, a._t0, a._p0, a._mach, a._humidity, a.humidity, a.density_ratio, a.density_metric,
        a.density_imperial, a.mach >> Velocity.FPS, a.altitude.raw_value, a.altitude.units, a.pressure.raw_value,
        a.pressure.units, a.temperature.raw_value, a.temperature.units, a.powder_temp.raw_value,
        a.powder_temp is a.temperature, a._initializing, sorted(vars(a)), str(a),
        a.get_density_factor_and_mach_for_altitude(a._a0), a.get_density_factor_and_mach_for_altitude(a._a0 + 29.9),
        a.get_density_factor_and_mach_for_altitude(a._a0 + 30), a.get_density_factor_and_mach_for_altitude(a._a0 + 4321),
        a.get_density_factor_and_mach_for_altitude(a._a0 - 987.6)))


def build(label, fn, *args, **kwargs):
    res, exc, w = caught_call(fn, *args, **kwargs)
    print(label, '->', exc if exc else state(res), w)
    return res


HUMIDITIES = [0, 0.0, -0.0, 1e-300, 0.37, 0.999999, 1, 1.0, 1.0000000001, 1.5, 37, 50, 99.99, 100, 100.0,
              100.00000001, 101, -1e-12, -1, 1e9, float('nan'), float('inf'), float('-inf'), True, False, '50', None, [1]]

for units in ('imperial', 'metric'):
    if units == 'metric':
        PreferredUnits.set(distance=Unit.Meter, pressure=Unit.hPa, temperature=Unit.Celsius, velocity=Unit.MPS)
    print('#### preferred', units)

    # --- constructor: defaults, floats in preferred units, dimension objects (their units get re-labelled) ---
    build('Atmo()', Atmo)
    build('Atmo(0)', Atmo, 0)
    build('Atmo(alt float)', Atmo, 1500.5)
    build('Atmo(alt,p,t floats)', Atmo, 250, 29.1 if units == 'imperial' else 985.4, 71.3 if units == 'imperial' else 21.8, 45)
    alt, prs, tmp, pwd = Distance.Meter(1234.5), Pressure.MmHg(700), Temperature.Kelvin(281.4), Temperature.Celsius(3)
    build('Atmo(dims)', Atmo, alt, prs, tmp, 0.66, pwd)
    print('relabelled', alt.units, prs.units, tmp.units, pwd.units)
    build('Atmo(t only)', Atmo, temperature=Temperature.Celsius(-60))
    build('Atmo(p only)', Atmo, pressure=Pressure.hPa(500))
    build('Atmo(alt+t)', Atmo, Distance.Foot(9000), None, Temperature.Celsius(60), 100)
    build('Atmo(absurd cold)', Atmo, 0, None, Temperature.Fahrenheit(-500))
    build('Atmo(abs zero)', Atmo, 0, None, Temperature.Celsius(-273.15))
    build('Atmo(zero pressure)', Atmo, 0, Pressure.hPa(0))
    build('Atmo(wrong dim)', Atmo, Temperature.Celsius(5))
    build('Atmo(wrong dim p)', Atmo, 0, Distance.Foot(5), Pressure.hPa(5))
    for h in HUMIDITIES:
        build(f'Atmo(h={h!r})', Atmo, Distance.Foot(640), Pressure.hPa(1002.2), Temperature.Celsius(24.4), h)
        build(f'Atmo.icao(h={h!r})', Atmo.icao, Distance.Foot(640), humidity=h)

    # --- humidity setter after construction, incl. rejected values leaving the state untouched ---
    a = Atmo(Distance.Foot(3210), Pressure.hPa(880), Temperature.Celsius(12.5), 20)
    v = Vacuum(Distance.Foot(3210), Temperature.Celsius(12.5))
    for h in HUMIDITIES:
        for name, obj in (('atmo', a), ('vacuum', v)):
            _, exc, w = caught_call(setattr, obj, 'humidity', h)
            print('set', name, repr(h), exc, w, state(obj))
    a.humidity = 0.5
    b = Atmo(Distance.Foot(3210), Pressure.hPa(880), Temperature.Celsius(12.5), 50)
    print('fraction==percent', a.density_ratio == b.density_ratio, repr(a.density_ratio), repr(b.density_ratio))
    a.update_density_ratio()
    v.update_density_ratio()
    print('explicit update', state(a), state(v))
    print('copies', state(copy.copy(a)), state(copy.deepcopy(v)))

    # --- icao / standard ---
    build('icao()', Atmo.icao)
    build('standard()', Atmo.standard)
    print('same function', Atmo.icao is Atmo.standard)
    for ft in (-1400, -0.0, 0, 29.9, 30, 1000, 5000.5, 10000, 18000, 25000, 36000, 36089, 40000, 80000, 150000, 250000):
        d = Distance.Foot(ft)
        build(f'icao({ft}ft)', Atmo.icao, d)
        print('relabelled', d.units)
    build('icao(float)', Atmo.icao, 1000)
    build('icao(m)', Atmo.icao, Distance.Meter(1000))
    t = Temperature.Celsius(30)
    build('icao(alt,t)', Atmo.icao, Distance.Foot(2000), t)
    print('temperature object untouched/relabelled', t.units, repr(t.raw_value))
    build('icao(alt,t,h)', Atmo.icao, Distance.Kilometer(3), Temperature.Fahrenheit(10), 80)
    build('icao(kw)', Atmo.icao, humidity=0.3, temperature=Temperature.Celsius(-5), altitude=Distance.Yard(700))
    build('icao(wrong dim)', Atmo.icao, Temperature.Celsius(5))
    build('icao(wrong dim, t)', Atmo.icao, Temperature.Celsius(5), Temperature.Celsius(5))
    build('icao(str)', Atmo.icao, 'high')
    build('icao(None)', Atmo.icao, None)
    build('icao(t wrong)', Atmo.icao, 0, Distance.Foot(3))
    build('icao(t float)', Atmo.icao, 0, 15.0)
    build('icao(nan)', Atmo.icao, float('nan'))

    # --- Vacuum ---
    build('Vacuum()', Vacuum)
    build('Vacuum(alt)', Vacuum, Distance.Foot(12000))
    build('Vacuum(alt,t)', Vacuum, 500, Temperature.Celsius(-40))
    build('Vacuum(absurd cold)', Vacuum, 0, Temperature.Fahrenheit(-600))
    vv = Vacuum(Distance.Foot(100))
    print('vacuum everywhere', [vv.get_density_factor_and_mach_for_altitude(x) for x in (100, 129.9, 130, -1400, 5000, 36000)],
          repr(vv.density_ratio), type(vv.density_ratio).__name__, repr(vv.cLowestTempC), repr(Atmo.cLowestTempC),
          repr(Vacuum.cLowestTempC), repr(vv.pressure.raw_value), repr(vv._p0))

    # --- the solver sees the cached state ---
    calc = Calculator()
    ammo = Ammo(DragModel(0.22, TableG7), mv=Velocity.FPS(2900))
    humid = Atmo(Distance.Foot(500), Pressure.hPa(990), Temperature.Celsius(30), 70)
    for atmo in (Atmo.icao(), Atmo.icao(Distance.Foot(4000)), humid, Vacuum()):
        shot = Shot(weapon=Weapon(), ammo=ammo, atmo=atmo, look_angle=Angular.Degree(7))
        res, exc, w = caught_call(calc.fire, shot, Distance.Yard(1200), Distance.Yard(400))
        for row in res.trajectory:
            print('traj', repr(row.distance.raw_value), repr(row.height.raw_value), repr(row.velocity.raw_value),
                  repr(row.mach), repr(row.time), repr(row.density_factor))
        print('traj warnings', sorted(set(w)))
    humid.humidity = 5
    res, exc, w = caught_call(calc.fire, Shot(weapon=Weapon(), ammo=ammo, atmo=humid), Distance.Yard(900), Distance.Yard(900))
    print('traj after humidity change', [(repr(r.time), repr(r.velocity.raw_value)) for r in res.trajectory], w)

PreferredUnits.defaults()
