"""Equivalence digest for refactoring 3 (read side of Atmo: accessors, derived densities, str()).

Reads every public read-only view of a varied set of stations (and of the same station after humidity changes),
checks that the views stay read-only and fail the same way on a half-built object, and runs one short shot that
consumes them.  Prints repr() of every number; must print the same text before and after.
"""
import copy
import pickle
import warnings

warnings.simplefilter("ignore")  # the "pure python mode" notice at import time carries a file path
from py_ballisticcalc import (Atmo, Vacuum, Distance, Pressure, Temperature, Velocity, PreferredUnits, Unit,
                              Calculator, Shot, Weapon, Ammo, DragModel, TableG7)

warnings.resetwarnings()
PreferredUnits.defaults()

nan = float("nan")
VIEWS = ("altitude", "pressure", "temperature", "powder_temp", "humidity", "density_ratio", "mach",
         "density_metric", "density_imperial")


def show(v):
    """repr of a number, or of a unit object down to its raw value and unit"""
    if hasattr(v, "raw_value"):
        return f"{type(v).__name__}(raw={v.raw_value!r}, units={v.units!r}, str={str(v)!r})"
    return f"{type(v).__name__}:{v!r}"


def attempt(fn, *args):
    with warnings.catch_warnings(record=True) as caught:
        warnings.simplefilter("always")
        try:
            out = fn(*args)
            out = out if isinstance(out, str) else show(out)
        except Exception as e:  # pylint: disable=broad-except
            out = f"{type(e).__name__}: {e}"
    if caught:
        out += " | " + "; ".join(sorted({f"{w.category.__name__}: {w.message}" for w in caught}))
    return out


def dump(label, a):
    print(f"== {label}  [{type(a).__name__}]")
    for name in VIEWS:
        print(f"   {name:16} = {attempt(getattr, a, name)}")
    print(f"   str()            = {attempt(str, a)}")
    # the accessors hand out the stored objects themselves, not copies
    print("   identity         =", a.altitude is a._altitude, a.pressure is a._pressure,
          a.temperature is a._temperature, a.powder_temp is a._powder_temp,
          a.powder_temp is a.temperature, a.density_ratio is a._density_ratio, a.humidity is a._humidity)
    print(f"   private          = {a._t0!r} {a._p0!r} {a._a0!r} {a._mach!r} {a._density_ratio!r} {a._humidity!r}")


stations = [
    ("icao()", lambda: Atmo.icao()),
    ("standard(10000 ft)", lambda: Atmo.standard(Distance.Foot(10000))),
    ("standard(1000 m)", lambda: Atmo.standard(Distance.Meter(1000))),
    ("icao(-1400 ft)", lambda: Atmo.icao(Distance.Foot(-1400))),
    ("icao(36000 ft)", lambda: Atmo.icao(Distance.Foot(36000))),
    ("icao(2000 ft, 35 C, 80 %)", lambda: Atmo.icao(Distance.Foot(2000), Temperature.Celsius(35), 80)),
    ("Atmo() all defaults", lambda: Atmo()),
    ("Atmo(plain floats 100, 29.5, 70, 45)", lambda: Atmo(100, 29.5, 70, 45)),
    ("Atmo(350 m, 955 hPa, 38 C, 0.85, powder 15 C)",
     lambda: Atmo(Distance.Meter(350), Pressure.hPa(955), Temperature.Celsius(38), 0.85, Temperature.Celsius(15))),
    ("Atmo(-60 C, 1100 hPa)", lambda: Atmo(0, Pressure.hPa(1100), Temperature.Celsius(-60), 0)),
    ("Atmo(60 C, 500 hPa, 100 %)", lambda: Atmo(0, Pressure.hPa(500), Temperature.Celsius(60), 100)),
    ("Atmo(humidity=nan)", lambda: Atmo(humidity=nan)),
    ("Vacuum()", lambda: Vacuum()),
    ("Vacuum(3000 ft, 5 C)", lambda: Vacuum(Distance.Foot(3000), Temperature.Celsius(5))),
]
for label, mk in stations:
    dump(label, mk())

print("== other preferred units while the station is built and shown")
PreferredUnits.set(distance=Unit.Meter, pressure=Unit.hPa, temperature=Unit.Celsius, velocity=Unit.MPS)
dump("metric preferences: Atmo(1200, 880, 7, 33)", Atmo(1200, 880, 7, 33))
dump("metric preferences: icao(500 ft)", Atmo.icao(Distance.Foot(500)))
PreferredUnits.defaults()

print("== the same station while its humidity is changed")
a = Atmo(Distance.Foot(500), Pressure.hPa(990), Temperature.Celsius(27), 0)
for hum in (0, 0.2, 20, 1, 100, 1.5, 99.999):
    a.humidity = hum
    print(f"   humidity<-{hum!r:7}: {a.humidity!r} {a.density_ratio!r} {a.density_metric!r} {a.density_imperial!r} | {a}")
for bad in (-0.1, 100.1):
    print(f"   humidity<-{bad!r:7}: {attempt(setattr, a, 'humidity', bad)} ; still {a.humidity!r} {a.density_ratio!r}")
v = Vacuum(Distance.Foot(100))
v.humidity = 55
print(f"   Vacuum humidity<-55: {v.humidity!r} {v.density_ratio!r} {v.density_metric!r} {v.density_imperial!r} | {v}")

print("== views are read-only (humidity is the only writable one)")
for name in VIEWS:
    if name == "humidity":
        continue
    print(f"   set {name:16}: {attempt(setattr, a, name, 1.0)}")
    print(f"   del {name:16}: {attempt(delattr, a, name)}")
print(f"   del humidity        : {attempt(delattr, a, 'humidity')}")
print(f"   class attribute kinds: {[type(Atmo.__dict__[n]).__name__ for n in VIEWS]!r}")
print(f"   setters present      : {[Atmo.__dict__[n].fset is not None for n in VIEWS]!r}")
print(f"   Vacuum overrides     : {sorted(n for n in VIEWS if n in Vacuum.__dict__)!r}")

print("== half-built object fails the same way")
raw = object.__new__(Atmo)
for name in VIEWS:
    print(f"   {name:16}: {attempt(getattr, raw, name)}")
print(f"   str()           : {attempt(str, raw)}")
raw._density_ratio = 0.5
print(f"   only _density_ratio set: {attempt(getattr, raw, 'density_ratio')} {attempt(getattr, raw, 'density_metric')} "
      f"{attempt(getattr, raw, 'density_imperial')} / str: {attempt(str, raw)}")

print("== copies and pickles keep the views")
b = Atmo(Distance.Meter(350), Pressure.hPa(955), Temperature.Celsius(38), 85)
for label, c in (("copy", copy.copy(b)), ("deepcopy", copy.deepcopy(b)), ("pickle", pickle.loads(pickle.dumps(b)))):
    print(f"   {label:8}: {[attempt(getattr, c, n) for n in VIEWS]!r} | {c}")

print("== a shot that consumes the views (altitude, powder_temp, temperature, pressure, density, mach)")
calc = Calculator()
for label, mk in (stations[0], stations[5], stations[8], stations[-1]):
    atmo = mk()
    ammo = Ammo(DragModel(0.223, TableG7, 168, 0.308, 1.282), Velocity.FPS(2750), Temperature.Celsius(15), 1.2, True)
    shot = Shot(Weapon(2, 11), ammo, look_angle=6.0, atmo=atmo)
    with warnings.catch_warnings(record=True):
        warnings.simplefilter("always")
        zero = calc.set_weapon_zero(shot, Distance.Yard(100))
        res = calc.fire(shot, Distance.Yard(800), Distance.Yard(200))
    rows = [(r.time, r.distance.raw_value, r.velocity.raw_value, r.mach, r.height.raw_value, r.windage.raw_value,
             r.density_factor, r.drag) for r in res]
    print(f"   {label}: zero={zero.raw_value!r}")
    for r in rows:
        print(f"      {r!r}")
