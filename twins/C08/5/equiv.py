"""Equivalence digest for refactoring 2 (speed-of-sound helpers, named model limits)."""
import hashlib
import math
import warnings

from py_ballisticcalc import Atmo, Vacuum, Distance, Pressure, Temperature, Velocity

out = []


def emit(*parts):
    out.append(" ".join(repr(p) for p in parts))


def call(label, fn, *args):
    """Result or exception of fn(*args) plus every warning it raised (category, text) - never the line number."""
    with warnings.catch_warnings(record=True) as caught:
        warnings.simplefilter("always")
        try:
            res = fn(*args)
        except Exception as e:  # noqa
            res = (type(e).__name__, str(e))
    emit(label, args, res, [(w.category.__name__, str(w.message)) for w in caught])


# 1. Mach functions, including the clamped range, the boundary, ints, inf and nan
F = [59, 59.0, 10, 99, 0, -130, -459.67, -459.66999999999996, -459.67000000000002, -459.6700000000001, -460,
     -1000.5, 1e6, float("inf"), float("-inf"), float("nan"), True]
C = [-20, 15.0, 0, -90.0, -273.15, -273.15000000000003, -273.14999999999998, -273.16, -300, -1e9, 60.5,
     float("inf"), float("-inf"), float("nan")]
K = [0, 0.0, 288.15, 1, 4, 1e-320, 1e300, -0.0, -1e-9, -1, float("inf"), float("-inf"), float("nan")]
for f in F:
    call("machF", Atmo.machF, f)
    call("Vacuum.machF", Vacuum.machF, f)
for c in C:
    call("machC", Atmo.machC, c)
for k in K:
    call("machK", Atmo.machK, k)
call("machF-str", Atmo.machF, "x")
call("machK-str", Atmo.machK, "x")
call("machC-none", Atmo.machC, None)

# warnings turned into errors: the exception must come out at the same point with the same text
for fn, arg in ((Atmo.machF, -500.0), (Atmo.machC, -300.0)):
    with warnings.catch_warnings():
        warnings.simplefilter("error")
        try:
            emit("as-error", arg, fn(arg))
        except RuntimeWarning as e:
            emit("as-error", arg, "RuntimeWarning", str(e))

# 2. humidity: bounds, fraction/percent switch, types, setter after construction
HUM = [0, 0.0, -0.0, 1e-12, 0.5, 0.999999, 1, 1.0, 1.0000000000000002, 1.5, 50, 50.0, 99.99, 100, 100.0,
       100.00000000000001, 101, -1e-300, -0.001, -5, True, False, float("nan"), float("inf"), float("-inf")]
for h in HUM:
    def mk(hh=h):
        a = Atmo(humidity=hh)
        return (type(a.humidity).__name__, a.humidity, a.density_ratio)
    call("Atmo(humidity)", mk)

    def st(hh=h):
        a = Atmo(Distance.Foot(2000), Pressure.hPa(900), Temperature.Celsius(25), 10)
        before = a.density_ratio
        a.humidity = hh
        return (before, type(a.humidity).__name__, a.humidity, a.density_ratio)
    call("set humidity", st)
call("humidity-str", lambda: Atmo(humidity="50"))
call("humidity-none", lambda: Atmo(humidity=None))
a1 = Atmo(humidity=0.37)
a2 = Atmo(humidity=37)
emit("fraction==percent", a1.humidity, a2.humidity, a1.density_ratio, a2.density_ratio,
     a1.density_ratio == a2.density_ratio)

# 3. the 30-ft shortcut and the troposphere warning, on both sides of each threshold
stations = [Atmo.icao(), Atmo.icao(Distance.Foot(5000)), Atmo.icao(Distance.Foot(-1400)),
            Atmo(Distance.Foot(36070), humidity=20),
            Atmo(Distance.Meter(1234.5), Pressure.hPa(870), Temperature.Celsius(-12), 65),
            Vacuum(Distance.Foot(100), Temperature.Celsius(5))]
for s in stations:
    a0 = s._a0
    qs = [a0, a0 + 29.999999, a0 + 30, a0 + 30.000001, a0 - 29.999999, a0 - 30, a0 - 30.000001,
          math.nextafter(a0 + 30, math.inf), math.nextafter(a0 + 30, -math.inf), a0 + 29, a0 + 31, int(a0) + 30,
          -1400, 0, 10000, 36000, 36088, 36089, 36089.0, 36089.00001, 36090, 40000, 100000,
          float("nan"), float("inf")]
    emit("station", str(s), s._mach, s.density_ratio)
    for q in qs:
        call("at", s.get_density_factor_and_mach_for_altitude, q)
    # jump at the shortcut edge
    lo = s.get_density_factor_and_mach_for_altitude(a0 + 29.999)
    with warnings.catch_warnings():
        warnings.simplefilter("ignore")
        hi = s.get_density_factor_and_mach_for_altitude(a0 + 30)
    emit("jump", lo, hi)

# 4. standard atmosphere table
with warnings.catch_warnings():
    warnings.simplefilter("ignore")
    for alt in range(-1400, 36001, 1700):
        a = Atmo.standard(Distance.Foot(alt))
        emit("std", alt, a.temperature.raw_value, a.pressure.raw_value, a.density_ratio, a.mach >> Velocity.FPS,
             a.mach >> Velocity.MPS, Atmo.icao().get_density_factor_and_mach_for_altitude(alt))

# new names must not leak into the package namespace
import py_ballisticcalc
emit("pkg", sorted(n for n in dir(py_ballisticcalc) if n.startswith("c") and n[1:2].isupper()))

text = "\n".join(out)
print(text)
print("lines", len(out), "sha256", hashlib.sha256(text.encode()).hexdigest())
