"""Equivalence digest for refactoring 1 (unit conversions used by the atmosphere model)."""
import math
import warnings

from py_ballisticcalc import (Atmo, Vacuum, Distance, Pressure, Temperature, Velocity, Unit,
                              PreferredUnits)
from py_ballisticcalc.exceptions import UnitConversionError

warnings.simplefilter("ignore")

out = []


def emit(*parts):
    out.append(" ".join(repr(p) for p in parts))


VALUES = [0, 1, -1, 3, 0.0, -0.0, 1.0, 15.0, 59.0, -40.0, 273.15, 459.67, 1013.25, 29.92, 1e-300, 1e300,
          123456.789, -1400.0, 36000.0, 0.1, 1 / 3, float("inf"), float("-inf"), float("nan"), True]

DIMS = {
    Distance: [Unit.Inch, Unit.Foot, Unit.Yard, Unit.Mile, Unit.NauticalMile, Unit.Line, Unit.Millimeter,
               Unit.Centimeter, Unit.Meter, Unit.Kilometer],
    Pressure: [Unit.MmHg, Unit.InHg, Unit.Bar, Unit.hPa, Unit.PSI],
    Temperature: [Unit.Fahrenheit, Unit.Celsius, Unit.Kelvin, Unit.Rankin],
}

# 1. every unit x every value: raw value, and read-out in every unit of the dimension
for cls, units in DIMS.items():
    for u in units:
        for v in VALUES:
            d = cls(v, u)
            emit(cls.__name__, u, v, type(d.raw_value).__name__, d.raw_value,
                 [(type(d >> w).__name__, d >> w) for w in units])
    # shortcuts
    d = cls(7.25, units[1])
    for attr in ("_inch", "_feet", "_inHg", "_F"):
        if hasattr(d, attr):
            emit(cls.__name__, attr, getattr(d, attr))

# 2. unsupported / wrong-typed units: same exception type and text
for cls in DIMS:
    for bad in (Unit.FPS, Unit.Degree, 10, 11, 18, 43, 51, 52, 999, "Foot", None, 15.0, 43.0):
        for op in ("to", "from"):
            try:
                if op == "to":
                    r = cls(1.5, bad).raw_value
                else:
                    r = cls(1.5, DIMS[cls][0]).get_in(bad)
                emit(cls.__name__, op, bad, "->", r)
            except Exception as e:  # noqa
                emit(cls.__name__, op, bad, type(e).__name__, str(e))

# 3. non-numeric values propagate the same errors
for cls, units in DIMS.items():
    for u in units:
        try:
            emit(cls.__name__, u, "str", cls("ab", u).raw_value)
        except Exception as e:  # noqa
            emit(cls.__name__, u, "str", type(e).__name__, str(e))

# 4. the atmosphere on top of it
for alt_ft in (-1400, -29.9, 0, 29.9, 30, 1000, 5000.5, 10000, 25000, 36000):
    a = Atmo.icao(Distance.Foot(alt_ft))
    emit("icao", alt_ft, a.temperature >> Temperature.Celsius, a.temperature >> Temperature.Kelvin,
         a.temperature >> Temperature.Rankin, a.pressure >> Pressure.hPa, a.pressure >> Pressure.Bar,
         a.pressure >> Pressure.InHg, a.pressure >> Pressure.PSI, a.density_ratio, a.mach >> Velocity.FPS,
         a.mach >> Velocity.MPS, a._t0, a._p0, a._a0)
    for q in (-1400, 0, 15, 2500, 12000, 36000):
        emit("  at", q, a.get_density_factor_and_mach_for_altitude(q))
for alt_m in (-400, 0, 1000, 1000.5, 11000):
    a = Atmo.standard(Distance.Meter(alt_m))
    emit("isa", alt_m, a.temperature.raw_value, a.pressure.raw_value, a.density_ratio, a._mach, str(a))
    emit("   std", Atmo.standard_temperature(Distance.Kilometer(alt_m / 1000)).raw_value,
         Atmo.standard_pressure(Distance.Kilometer(alt_m / 1000)).raw_value)

for t in (Temperature.Celsius(-60), Temperature.Celsius(60), Temperature.Kelvin(250), Temperature.Rankin(500),
          Temperature.Fahrenheit(30), 41.5):
    for p in (Pressure.hPa(500), Pressure.hPa(1100), Pressure.Bar(1.0), Pressure.InHg(31), Pressure.PSI(14.7),
              Pressure.MmHg(760), 29.0):
        for h in (0, 0.5, 50, 100):
            a = Atmo(Distance.Meter(250), p, t, h)
            emit("atmo", t, p, h, a._t0, a._p0, a._a0, a._mach, a.density_ratio, a.density_metric,
                 a.density_imperial, a.get_density_factor_and_mach_for_altitude(3000.0))

PreferredUnits.set(distance=Unit.Meter, pressure=Unit.hPa, temperature=Unit.Celsius)
a = Atmo(500, 950, 10, 40)
emit("pref-metric", a._a0, a._p0, a._t0, a._mach, a.density_ratio, str(a),
     a.get_density_factor_and_mach_for_altitude(5000))
PreferredUnits.set(distance=Unit.Kilometer, pressure=Unit.Bar, temperature=Unit.Kelvin)
a = Atmo(0.5, 0.95, 283.15, 40)
emit("pref-kelvin", a._a0, a._p0, a._t0, a._mach, a.density_ratio, str(a),
     a.get_density_factor_and_mach_for_altitude(5000))
PreferredUnits.defaults()

v = Vacuum(Distance.Meter(300), Temperature.Kelvin(280))
emit("vacuum", v.density_ratio, v.pressure.raw_value, v._t0, v._a0, v._mach,
     v.get_density_factor_and_mach_for_altitude(0), v.get_density_factor_and_mach_for_altitude(20000))

for bad_h in (-0.001, 100.0001, 101, -5):
    try:
        Atmo(humidity=bad_h)
        emit("hum", bad_h, "accepted")
    except ValueError as e:
        emit("hum", bad_h, "ValueError", str(e))

text = "\n".join(out)
print(text)
import hashlib
print("lines", len(out), "sha256", hashlib.sha256(text.encode()).hexdigest())
