"""Equivalence digest for C08 refactoring 1 (altitude extrapolation path of Atmo).

Prints repr() of every number, every warning (category + text) and every exception
(type + text) obtained through the public API.  Must print the same text before and
after the patch.
"""
import math
import warnings

from py_ballisticcalc import (Atmo, Vacuum, Distance, Temperature, Pressure, Velocity,
                              Ammo, Weapon, Shot, Calculator, DragModel, TableG7, Angular)


def call(label, fn, *args):
    """Run fn(*args) recording result / warnings / exception deterministically."""
    with warnings.catch_warnings(record=True) as caught:
        warnings.simplefilter("always")
        try:
            out = repr(fn(*args))
        except Exception as exc:  # pylint: disable=broad-except
            out = f"EXC {type(exc).__name__}: {exc}"
    warns = [f"{w.category.__name__}: {w.message}" for w in caught]
    print(label, out, warns)


def stations():
    yield "std0", Atmo.icao()
    yield "std5000ft", Atmo.icao(Distance.Foot(5000))
    yield "std-1400ft", Atmo.icao(Distance.Foot(-1400))
    yield "std36000ft", Atmo.icao(Distance.Foot(36000))
    yield "std1000m", Atmo.standard(Distance.Meter(1000))
    yield "hotwet", Atmo(Distance.Foot(1234.5), Pressure.hPa(950), Temperature.Celsius(35), 80)
    yield "coldfrac", Atmo(Distance.Meter(300), Pressure.InHg(31), Temperature.Fahrenheit(-40), 0.5)
    yield "lowP", Atmo(altitude=Distance.Foot(12000), pressure=Pressure.hPa(500),
                       temperature=Temperature.Celsius(-60), humidity=100)
    yield "vac0", Vacuum()
    yield "vac3000", Vacuum(Distance.Foot(3000), Temperature.Celsius(5))


OFFSETS = [0, 1e-9, -1e-9, 10, -29.999999, 29.999999, 30, -30, 30.000001, -30.000001, 31, 100, -100,
           1000, -1400, 5000, 12345.678, 20000, 36000, 36089, 36089.0001, 40000, 60000, 100000,
           140000, 150000, 1e6, -1e5, -2e5, float("inf"), float("-inf"), float("nan")]

for name, atmo in stations():
    print("==", name, repr(atmo._a0), repr(atmo._t0), repr(atmo._p0), repr(atmo._mach),
          repr(atmo.density_ratio), repr(atmo.humidity), str(atmo))
    for off in OFFSETS:
        # absolute altitudes and altitudes relative to the station
        for alt in (off, atmo._a0 + off):
            call(f"  gdfm({alt!r})", atmo.get_density_factor_and_mach_for_altitude, alt)
            call(f"  t_at({alt!r})", atmo.temperature_at_altitude, alt)
            call(f"  p_at({alt!r})", atmo.pressure_at_altitude, alt)
    # integer altitude argument (as the unit test does)
    call("  gdfm(int 100000)", atmo.get_density_factor_and_mach_for_altitude, 100_000)
    call("  gdfm(int station)", atmo.get_density_factor_and_mach_for_altitude, 0)
    call("  gdfm(None)", atmo.get_density_factor_and_mach_for_altitude, None)
    call("  gdfm('x')", atmo.get_density_factor_and_mach_for_altitude, "x")

# warnings under the default/"once"/"error" filters: how many are shown, and error propagation
for action in ("default", "once", "error"):
    with warnings.catch_warnings(record=True) as caught:
        warnings.simplefilter(action)
        a = Atmo.icao()
        res = []
        for alt in (50000, 50000, 200000, 120000, 120000):
            try:
                res.append(repr(a.get_density_factor_and_mach_for_altitude(alt)))
            except Exception as exc:  # pylint: disable=broad-except
                res.append(f"EXC {type(exc).__name__}: {exc}")
        print("filter", action, res, [f"{w.category.__name__}: {w.message}" for w in caught])

# humidity change after construction is visible through the shortcut and the extrapolation
a = Atmo.icao(Distance.Foot(2000))
for h in (0, 0.3, 1, 1.0001, 55, 100):
    a.humidity = h
    print("hum", repr(h), repr(a.humidity), repr(a.density_ratio),
          repr(a.get_density_factor_and_mach_for_altitude(2010)),
          repr(a.get_density_factor_and_mach_for_altitude(7000)))

# the solver path: every integration step asks the atmosphere for the current altitude
ammo = Ammo(DragModel(0.22, TableG7), mv=Velocity.FPS(3000))
for label, atmo, look in (("flat", Atmo.icao(), 0), ("up", Atmo.icao(Distance.Foot(4000)), 20),
                          ("down", Atmo(Distance.Foot(9000), humidity=40), -15), ("vac", Vacuum(), 10)):
    with warnings.catch_warnings():
        warnings.simplefilter("ignore")
        calc = Calculator()
        shot = Shot(weapon=Weapon(), ammo=ammo, atmo=atmo, look_angle=Angular.Degree(look))
        calc.set_weapon_zero(shot, Distance.Yard(300))
        hit = calc.fire(shot, trajectory_range=Distance.Yard(1500), trajectory_step=Distance.Yard(250))
    for row in hit.trajectory:
        print("traj", label, repr(row.distance.raw_value), repr(row.height.raw_value),
              repr(row.velocity.raw_value), repr(row.mach), repr(row.time), repr(row.density_factor))
