"""Equivalence digest for C08 refactoring 2 (CIPM-2007 moist-air density helpers moved to module level).

Prints repr() of every number / exception obtained through the public API.
Must print the same text before and after the patch.
"""
import warnings

from py_ballisticcalc import (Atmo, Vacuum, Distance, Temperature, Pressure, Velocity,
                              Ammo, Weapon, Shot, Calculator, DragModel, TableG7, Angular)


def call(label, fn, *args, **kwargs):
    with warnings.catch_warnings(record=True) as caught:
        warnings.simplefilter("always")
        try:
            out = repr(fn(*args, **kwargs))
        except Exception as exc:  # pylint: disable=broad-except
            out = f"EXC {type(exc).__name__}: {exc}"
    print(label, out, [f"{w.category.__name__}: {w.message}" for w in caught])


INF, NAN = float("inf"), float("nan")

# 1. the static method itself on a grid (Celsius, hPa, humidity as passed by callers: fraction or anything else)
TEMPS = [-273.15, -273.14, -272.15, -274.15, -100, -60, -59.999, -40, -17.5, 0, -0.0, 15, 15.0, 20, 35.25, 60, 100,
         374.0, 1e3, 1e5, 1e154, 1e200, INF, -INF, NAN]
PRESS = [0, 0.0, -5.0, 1e-300, 1, 500, 775.3, 1013, 1013.25, 1100, 1e6, 1e300, INF, NAN]
HUMS = [0, 0.0, 0.01, 0.5, 1, 1.0, 50, 100, -3, 1e9, INF, NAN]
for t in TEMPS:
    for p in PRESS:
        for h in HUMS:
            call(f"cad({t!r},{p!r},{h!r})", Atmo.calculate_air_density, t, p, h)
call("cad(None,1013,0)", Atmo.calculate_air_density, None, 1013, 0)
call("cad(20,None,0)", Atmo.calculate_air_density, 20, None, 0)
call("cad(20,1013,None)", Atmo.calculate_air_density, 20, 1013, None)
call("cad('a',1013,0)", Atmo.calculate_air_density, "a", 1013, 0)
call("cad kw", Atmo.calculate_air_density, humidity=0.3, p=990.0, t=-5.5)
call("cad via instance", Atmo.icao().calculate_air_density, 20, 1013, 1)
call("cad via Vacuum", Vacuum.calculate_air_density, 20, 1013, 1)

# 2. density ratio of constructed stations: temperatures -60..60 C, pressures 500..1100 hPa, humidity 0..100 %
for tc in (-60, -30.5, 0, 15, 37.7, 60):
    for ph in (500, 850.5, 1013.25, 1100):
        for h in (0, 0.25, 1, 1.5, 33, 100):
            a = Atmo(Distance.Foot(1000), Pressure.hPa(ph), Temperature.Celsius(tc), h)
            print("atmo", tc, ph, h, repr(a.humidity), repr(a.density_ratio), repr(a.density_metric),
                  repr(a.density_imperial), repr(a.get_density_factor_and_mach_for_altitude(1000)),
                  repr(a.get_density_factor_and_mach_for_altitude(4321.0)))

# 3. standard atmosphere over the troposphere, and a humidity sweep by assignment (fraction and percent)
for ft in (-1400, -500, 0, 29, 30, 1000, 5000, 10000.5, 20000, 30000, 36000):
    a = Atmo.icao(Distance.Foot(ft))
    b = Atmo.icao(Distance.Foot(ft), humidity=75)
    print("icao", ft, repr(a.density_ratio), repr(b.density_ratio), repr(a.mach.raw_value),
          repr(a.pressure.raw_value), repr(a.temperature.raw_value))
a = Atmo(Distance.Meter(250), Pressure.hPa(990), Temperature.Celsius(28))
for h in (0, 0.1, 0.5, 0.99, 1, 1.0000001, 2, 10, 50, 99, 100):
    a.humidity = h
    print("sweep", repr(h), repr(a.humidity), repr(a.density_ratio))
for bad in (-0.0001, -1, 100.0001, 1e9, INF, -INF):
    call(f"bad humidity {bad!r}", Atmo, None, None, None, bad)
call("nan humidity", lambda: Atmo(humidity=NAN).density_ratio)

# 4. vacuum
for v in (Vacuum(), Vacuum(Distance.Foot(5000), Temperature.Celsius(-10))):
    v.humidity = 60
    print("vac", repr(v.density_ratio), repr(v.density_metric), repr(v.density_imperial), repr(v.humidity),
          repr(v.pressure.raw_value), repr(v.get_density_factor_and_mach_for_altitude(12345.0)))

# 5. a trajectory in humid air (density ratio feeds drag on every step)
ammo = Ammo(DragModel(0.22, TableG7), mv=Velocity.FPS(3000))
with warnings.catch_warnings():
    warnings.simplefilter("ignore")
    calc = Calculator()
    shot = Shot(weapon=Weapon(), ammo=ammo, look_angle=Angular.Degree(8),
                atmo=Atmo(Distance.Foot(2500), Pressure.hPa(915), Temperature.Celsius(31), 85))
    calc.set_weapon_zero(shot, Distance.Yard(200))
    hit = calc.fire(shot, trajectory_range=Distance.Yard(1200), trajectory_step=Distance.Yard(200))
for row in hit.trajectory:
    print("traj", repr(row.distance.raw_value), repr(row.height.raw_value), repr(row.velocity.raw_value),
          repr(row.mach), repr(row.time), repr(row.density_factor))
