"""Equivalence digest for the C20 look-up code (helpers.* and HitResult.index_at_distance/get_at_distance).

Prints one line per probe (repr of the result, or the exception type and text) and a final sha256.
The text must be identical on the clean worktree and with the patch applied.
"""
import hashlib
import itertools
import math
import random
import re
from types import SimpleNamespace

from py_ballisticcalc import (Ammo, Angular, Calculator, Distance, DragModel, Energy, HitResult, Shot, TableG1,
                              TableG7, TrajectoryData, Velocity, Weapon, Weight, Wind)
from py_ballisticcalc import helpers as H

LINES = []


def emit(label, fn, *args, **kwargs):
    try:
        out = repr(fn(*args, **kwargs))
    except Exception as exc:  # pylint: disable=broad-except
        out = re.sub(r" at 0x[0-9a-fA-F]+", " at 0x?", f"!{type(exc).__name__}: {exc}")  # no addresses
    LINES.append(f"{label} -> {out}")


def row(t, dist_m, height_m=0.0, drop_m=0.0, flag=0):
    return TrajectoryData(
        time=t, distance=Distance.Meter(dist_m), velocity=Velocity.MPS(800.0 - dist_m / 10.0), mach=2.0,
        height=Distance.Meter(height_m), target_drop=Distance.Meter(drop_m), drop_adj=Angular.Mil(0),
        windage=Distance.Meter(0), windage_adj=Angular.Mil(0), look_distance=Distance.Meter(dist_m),
        angle=Angular.Degree(0), density_factor=1.0, drag=0.3, energy=Energy.Joule(1000), ogw=Weight.Gram(10),
        flag=flag)


def hit(rows, extra=True):
    return HitResult(None, list(rows), extra)


SYNTHETIC = {
    "empty": [],
    "single": [(0.5, 50.0)],
    "plain": [(0.0, 0.0), (0.1, 80.0), (0.25, 190.0), (0.4, 290.0), (0.8, 500.0), (1.3, 700.0)],
    "repeats": [(0.0, 0.0), (0.0, 0.0), (0.2, 100.0), (0.2, 100.0), (0.2, 100.0), (0.5, 100.0), (0.5, 250.0),
                (0.9, 250.0), (0.9, 250.0)],
    "ties": [(0.0, 0.0), (1.0, 10.0), (1.0, 10.0), (3.0, 30.0), (3.0, 30.0), (5.0, 50.0)],
    "two": [(0.0, 0.0), (2.0, 1000.0)],
    # not ordered: the result is whatever the probing order yields - it has to stay the same
    "unordered": [(0.3, 120.0), (0.1, 400.0), (0.7, 50.0), (0.2, 600.0), (0.9, 10.0), (0.4, 300.0), (0.05, 900.0)],
    "nan_time": [(0.0, 0.0), (float("nan"), 100.0), (0.4, 200.0), (float("nan"), float("nan")), (0.9, 400.0)],
    "inf_tail": [(0.0, 0.0), (1.0, 100.0), (float("inf"), float("inf"))],
}

TIME_QUERIES = [0, 0.0, 1e-12, 0.05, 0.1, 0.2, 0.25, 0.3, 0.5, 0.65, 0.9, 1.0, 2.0, 3.0, 4.0, 1.3, 1.3000001, 50.0,
                float("inf"), float("nan"), -0.0, -1e-9, -1]
DEVIATIONS = [0, 0.05, 0.5, 1, 2.0, float("inf"), float("nan"), -0.1]
DIST_QUERIES_M = [-5.0, 0, 0.0, 1e-9, 50.0, 80.0, 99.99999, 100.0, 100.00001, 190.0, 250.0, 300.0, 499.0, 700.0,
                  700.0001, 1000.0, 5000.0, float("inf"), float("nan")]
DIST_UNITS = [Distance.Meter, Distance.Yard, Distance.Foot, Distance.Inch, Distance.Kilometer, Distance.Centimeter]


def probe_hit(name, shot):
    n = len(shot.trajectory)
    # --- helper look-ups by time
    for t in TIME_QUERIES:
        emit(f"{name}|time>={t!r}", H.find_index_for_time_point, shot, t)
        for dev in DEVIATIONS:
            emit(f"{name}|time~{t!r}|dev={dev!r}", H.find_index_for_time_point, shot, t, False, dev)
    emit(f"{name}|time kw", H.find_index_for_time_point, shot, time=0.2, strictly_bigger_or_equal=0,
         max_time_deviation_in_seconds=0.01)
    # --- helper look-ups by distance
    for q in DIST_QUERIES_M:
        emit(f"{name}|dist>={q!r}m", H.find_index_of_point_for_distance, shot, q)
        emit(f"{name}|t@dist {q!r}m", H.find_time_for_distance_in_shot, shot, q)
        for unit in DIST_UNITS:
            qu = Distance.Meter(q) >> unit
            emit(f"{name}|dist>={qu!r} {unit!r}", H.find_index_of_point_for_distance, shot, qu, unit)
            emit(f"{name}|t@dist {qu!r} {unit!r}", H.find_time_for_distance_in_shot, shot, qu, unit)
            d = unit(qu)
            emit(f"{name}|index_at {qu!r} {unit!r}", shot.index_at_distance, d)
            emit(f"{name}|get_at {qu!r} {unit!r}",
                 lambda dd=d: (lambda r: (shot.trajectory.index(r), r.time, r.distance.raw_value))(
                     shot.get_at_distance(dd)))
        emit(f"{name}|index_at raw-float {q!r}", shot.index_at_distance, q)
    emit(f"{name}|index_at str", shot.index_at_distance, "100")
    emit(f"{name}|get_at None", shot.get_at_distance, None)
    emit(f"{name}|dist wrong unit", H.find_index_of_point_for_distance, shot, 10.0, Velocity.MPS)
    # --- rows of the trajectory itself, on and just around
    for i in range(0, n, max(1, n // 12)):
        p = shot.trajectory[i]
        for dt in (-1e-9, 0.0, 1e-9):
            if p.time + dt >= 0:
                emit(f"{name}|row{i} t{dt:+}", H.find_index_for_time_point, shot, p.time + dt)
                emit(f"{name}|row{i} t~{dt:+}", H.find_index_for_time_point, shot, p.time + dt, False, 0.3)
        emit(f"{name}|row{i} d", H.find_index_of_point_for_distance, shot, p.distance >> Distance.Meter)
        emit(f"{name}|row{i} d yd", H.find_index_of_point_for_distance, shot, p.distance >> Distance.Yard,
             Distance.Yard)
        emit(f"{name}|row{i} index_at", shot.index_at_distance, p.distance)
        emit(f"{name}|row{i} index_at+", shot.index_at_distance, Distance.Inch(p.distance.raw_value + 1e-6))
    # --- apex and sequential helpers
    emit(f"{name}|apex", H.find_index_of_apex_point, shot)
    emit(f"{name}|apex points", H.find_index_of_apex_in_points, shot.trajectory)
    emit(f"{name}|touch", H.find_touch_point_index, shot)
    emit(f"{name}|mach", H.find_mach_point_index, shot)
    emit(f"{name}|v<", H.find_velocity_less_than_index, shot, 770.0)
    # --- generic search functions on the rows
    rows = shot.trajectory
    emit(f"{name}|first t>=0.2", H.find_first_index_satisfying_monotonic_condition, rows, lambda e: e.time >= 0.2)
    emit(f"{name}|first never", H.find_first_index_satisfying_monotonic_condition, rows, lambda e: False)
    emit(f"{name}|first always", H.find_first_index_satisfying_monotonic_condition, rows, lambda e: True)
    emit(f"{name}|first int pred", H.find_first_index_satisfying_monotonic_condition, rows,
         lambda e: int(e.time * 10) & 6)
    emit(f"{name}|first float pred", H.find_first_index_satisfying_monotonic_condition, rows,
         lambda e: e.time - 0.25)
    emit(f"{name}|first not monotone", H.find_first_index_satisfying_monotonic_condition, rows,
         lambda e: 0.15 < e.time < 0.45)
    for tv in (-1.0, 0.0, 0.2, 0.3, 0.45, 0.7, 100.0, float("nan"), float("inf")):
        emit(f"{name}|nearest t {tv!r}", H.find_nearest_index_satisfying_monotonic_condition, rows, tv,
             lambda e: e.time)
        emit(f"{name}|nearest d {tv!r}", H.find_nearest_index_satisfying_monotonic_condition, rows, tv * 500.0,
             lambda e: e.distance >> Distance.Meter)
    emit(f"{name}|nearest bad target", H.find_nearest_index_satisfying_monotonic_condition, rows, "x",
         lambda e: e.time)
    emit(f"{name}|nearest bad getter", H.find_nearest_index_satisfying_monotonic_condition, rows, 0.3,
         lambda e: e.nothing)
    # wrapper over another sequence than `arr`, shorter and longer bound
    wrapper = H.BisectWrapper(rows, lambda e: e.time >= 0.2)
    emit(f"{name}|bisect same", H.bisect_for_monotonic_condition, rows, wrapper)
    emit(f"{name}|bisect shorter", H.bisect_for_monotonic_condition, rows[:2], wrapper)
    emit(f"{name}|bisect longer", H.bisect_for_monotonic_condition, rows + rows, wrapper)
    emit(f"{name}|wrapper api", lambda: (len(wrapper), [wrapper[i] for i in range(n)],
                                         [wrapper.check_condition(i) for i in range(n)], wrapper.array is rows))


def probe_numbers():
    ident = lambda v: v
    rnd = random.Random(20)
    lists = [[], [1.0], [1.0, 1.0, 1.0], [0.0, 1.0, 2.0, 3.0], [0, 1, 1, 1, 2, 2, 5, 5, 5, 9],
             [1.0, 3.0, 3.0, 3.0, 5.0], [5.0, 1.0, 4.0, 2.0, 3.0, 0.0], [float("nan"), 1.0, float("nan"), 2.0],
             [-3.5, -3.5, -1.0, 0.0, 0.0, 2.5, 2.5, 7.0]]
    for _ in range(12):
        size = rnd.randrange(0, 12)
        lists.append(sorted(rnd.choice([0.0, 0.5, 1.0, 1.5, 2.0, 4.0, 4.0, 7.5]) for _ in range(size)))
    for _ in range(6):
        lists.append([rnd.randrange(0, 6) for _ in range(rnd.randrange(1, 10))])  # not ordered
    targets = [-10, -3.5, -1, 0, 0.25, 0.5, 0.75, 1, 1.25, 2, 2.0, 2.25, 3, 3.5, 4, 5, 5.75, 6, 7, 9, 10, 100,
               float("inf"), -float("inf"), float("nan")]
    for k, arr in enumerate(lists):
        for tv in targets:
            emit(f"num{k}|nearest {tv!r}", H.find_nearest_index_satisfying_monotonic_condition, arr, tv, ident)
            emit(f"num{k}|nearest neg {tv!r}", H.find_nearest_index_satisfying_monotonic_condition,
                 [SimpleNamespace(v=x) for x in arr], tv, lambda o: o.v)
            emit(f"num{k}|first>= {tv!r}", H.find_first_index_satisfying_monotonic_condition, arr,
                 lambda v, tv=tv: v >= tv)
            emit(f"num{k}|first diff {tv!r}", H.find_first_index_satisfying_monotonic_condition, arr,
                 lambda v, tv=tv: v - tv)
        heights = [SimpleNamespace(height=x) for x in arr]
        emit(f"num{k}|apex", H.find_index_of_apex_in_points, heights)
    emit("tuple arr|nearest", H.find_nearest_index_satisfying_monotonic_condition, (1, 2, 2, 4), 3, ident)
    emit("tuple arr|first", H.find_first_index_satisfying_monotonic_condition, (1, 2, 2, 4), lambda v: v >= 2)
    emit("str target|nearest", H.find_nearest_index_satisfying_monotonic_condition, [1, 2], "a", ident)
    emit("none arr|nearest", H.find_nearest_index_satisfying_monotonic_condition, None, 1, ident)
    # how often, on which elements and in which order the getter is consulted is part of the digest for `first`
    seen = []
    emit("first|probe order", H.find_first_index_satisfying_monotonic_condition, list(range(37)),
         lambda v: (seen.append(v), v >= 23)[1])
    LINES.append(f"first|probes {seen!r}")


def fired():
    dm = DragModel(0.223, TableG7, Weight.Grain(168), Distance.Inch(0.308), Distance.Inch(1.282))
    ammo = Ammo(dm, Velocity.FPS(2750))
    calc = Calculator()
    zero = Shot(weapon=Weapon(Distance.Inch(2), twist=Distance.Inch(11.24)), ammo=ammo)
    calc.set_weapon_zero(zero, Distance.Yard(100))
    flat = calc.fire(zero, Distance.Yard(1000), Distance.Yard(50), extra_data=True)
    plain = calc.fire(zero, Distance.Meter(600), Distance.Meter(25))
    lob = Shot(weapon=Weapon(), ammo=Ammo(DragModel(0.759, TableG1, Weight.Gram(108), Distance.Millimeter(23),
                                                    Distance.Millimeter(108.2)), Velocity.MPS(930)),
               relative_angle=Angular.Degree(3), winds=[Wind(Velocity.MPS(4), Angular.Degree(90))])
    high = calc.fire(lob, Distance.Meter(4000), Distance.Meter(100), extra_data=True)
    return {"flat": flat, "plain": plain, "high": high}


def main():
    for name, spec in SYNTHETIC.items():
        rows = [row(t, d, height_m=(d / 100.0) * (7.0 - d / 100.0), drop_m=-d / 400.0,
                    flag=(2 if i == 4 else 4 if i == 2 else 0)) for i, (t, d) in enumerate(spec)]
        probe_hit(name, hit(rows))
    for name, result in fired().items():
        probe_hit(name, result)
        emit(f"{name}|danger", lambda r=result: tuple(
            (x.time, x.distance.raw_value) for x in
            (lambda ds: (ds.at_range, ds.begin, ds.end))(r.danger_space(Distance.Meter(300), Distance.Meter(1.5)))))
        emit(f"{name}|danger far", result.danger_space, Distance.Meter(90000), Distance.Meter(1.5))
    probe_numbers()
    text = "\n".join(LINES)
    print(text)
    print(f"lines={len(LINES)} sha256={hashlib.sha256(text.encode()).hexdigest()}")


if __name__ == "__main__":
    main()
