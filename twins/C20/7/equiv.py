"""Digest of the apex look-up (helpers.find_index_of_apex_in_points / find_index_of_apex_point)."""
import hashlib
import warnings
warnings.simplefilter("ignore")
import random
from types import SimpleNamespace

from py_ballisticcalc import (Distance, DragModel, TableG1, TableG7, Weight, Weapon, Ammo, Shot, Velocity,
                              Angular, Calculator, HitResult, RangeError)
from py_ballisticcalc.helpers import (find_index_of_apex_in_points, find_index_of_apex_point,
                                      calculate_drag_free_range)

out = []


def emit(*a):
    out.append(" ".join(str(x) for x in a))


class Recording:
    """Sequence that logs which indices are read, so the probe order is part of the digest."""

    def __init__(self, heights):
        self.rows = [SimpleNamespace(height=h) for h in heights]
        self.log = []

    def __len__(self):
        self.log.append("len")
        return len(self.rows)

    def __getitem__(self, i):
        self.log.append(i)
        return self.rows[i]


def probe(name, heights):
    rec = Recording(heights)
    try:
        res = find_index_of_apex_in_points(rec)
    except Exception as exc:  # pragma: no cover - recorded, not expected
        res = f"{type(exc).__name__}: {exc}"
    plain = find_index_of_apex_in_points([SimpleNamespace(height=h) for h in heights])
    emit(name, "n=%d" % len(heights), "->", repr(res), repr(plain), "probes", rec.log)


# --- hand-made shapes: empty, single, pairs, plateaus, strictly monotone, multi-peak, NaN
nan = float("nan")
cases = {
    "empty": [],
    "one": [3.0],
    "two_up": [1, 2],
    "two_down": [2, 1],
    "two_eq": [2, 2],
    "three_peak": [1, 3, 2],
    "three_up": [1, 2, 3],
    "three_down": [3, 2, 1],
    "plateau_top": [0, 1, 2, 2, 2, 1, 0],
    "plateau_left": [1, 1, 1, 2, 3, 2],
    "plateau_right": [1, 2, 3, 3, 3, 3],
    "all_equal": [5] * 9,
    "rising": list(range(17)),
    "falling": list(range(17, 0, -1)),
    "two_peaks": [0, 5, 1, 2, 7, 3, 0, 9, 1],
    "zigzag": [0, 1, 0, 1, 0, 1, 0, 1, 0, 1],
    "nan_mid": [0, 1, nan, 3, 2, 1],
    "nan_all": [nan] * 5,
    "inf": [float("-inf"), 0.0, float("inf"), float("inf"), 1.0],
    "neg_zero": [-0.0, 0.0, -0.0],
}
for k, v in cases.items():
    probe(k, v)

# --- Distance-valued heights (comparison goes through AbstractDimension.__lt__)
probe("distance_units", [Distance.Foot(1), Distance.Meter(1), Distance.Yard(1.2), Distance.Inch(40), Distance.Centimeter(3)])

# --- every peak position for every length up to 40 (single-peaked), with the probe order
for n in range(1, 41):
    for peak in range(n):
        heights = [-(abs(i - peak)) for i in range(n)]
        rec = Recording(heights)
        res = find_index_of_apex_in_points(rec)
        assert res == peak, (n, peak, res)
        out.append(f"uni {n} {peak} {res} {rec.log}")

# --- random, not necessarily unimodal, lists
rnd = random.Random(20)
for t in range(400):
    n = rnd.randint(0, 70)
    heights = [rnd.choice([rnd.randint(-4, 4), rnd.random(), rnd.randint(-4, 4) + 0.5]) for _ in range(n)]
    rec = Recording(heights)
    res = find_index_of_apex_in_points(rec)
    out.append(f"rnd {t} {n} {res} {rec.log}")

# --- real trajectories through the public API
def fire(bc, table, mv, angle_deg, step_m=None):
    dm = DragModel(bc=bc, drag_table=table, weight=Weight.Gram(10), diameter=Distance.Millimeter(7.62),
                   length=Distance.Millimeter(30))
    shot = Shot(weapon=Weapon(), ammo=Ammo(dm, Velocity.MPS(mv)), relative_angle=Angular.Degree(angle_deg))
    rng = calculate_drag_free_range(mv, angle_deg)
    calc = Calculator()
    try:
        if step_m is None:
            return calc.fire(shot, Distance.Meter(rng), extra_data=True)
        return calc.fire(shot, Distance.Meter(min(rng, 3000.0)), Distance.Meter(step_m))
    except RangeError as err:  # the bullet came down early: keep what was computed
        return HitResult(shot, err.incomplete_trajectory, extra=step_m is None)


for args in [(0.759, TableG1, 930, 1, None), (0.25, TableG7, 800, 5, None), (0.3, TableG1, 300, 0.2, 25.0),
             (0.5, TableG7, 900, 2, 100.0), (0.2, TableG1, 250, 10, 50.0)]:
    hit = fire(*args)
    idx = find_index_of_apex_point(hit)
    row = hit.trajectory[idx]
    tallest = max(range(len(hit.trajectory)), key=lambda i: hit.trajectory[i].height.raw_value)
    emit("shot", args[0], args[2], args[3], args[4], "rows", len(hit.trajectory), "apex", idx, tallest,
         repr(row.time), repr(row.height.raw_value), repr(row.distance.raw_value))
    # prefixes / suffixes of a real trajectory (apex at the end / at the start)
    for cut in (1, 2, 3, idx, idx + 1, idx + 2, len(hit.trajectory)):
        emit("  prefix", cut, find_index_of_apex_in_points(hit.trajectory[:cut]),
             "suffix", find_index_of_apex_in_points(hit.trajectory[cut:]))
    emit("  empty shot", find_index_of_apex_point(HitResult(hit.shot, [], False)))

text = "\n".join(out)
for line in out:
    if not line.startswith(("uni ", "rnd ")):  # the bulk lines only go into the hash
        print(line)
print("lines", len(out))
print("sha256", hashlib.sha256(text.encode()).hexdigest())
