"""Digest of the trajectory look-up helpers (distance / time / flag / velocity) of py_ballisticcalc.helpers."""
import hashlib
import math
import random
import warnings

warnings.simplefilter("ignore")

from py_ballisticcalc import (Distance, DragModel, TableG1, TableG7, Weight, Weapon, Ammo, Shot, Velocity,
                              Angular, Energy, Calculator, HitResult, RangeError, TrajectoryData, TrajFlag)
from py_ballisticcalc.helpers import (find_index_of_point_for_distance, find_index_for_time_point,
                                      find_time_for_distance_in_shot, find_index_of_point_with_flag,
                                      find_mach_point_index, find_touch_point_index,
                                      find_velocity_less_than_index, calculate_drag_free_range,
                                      find_first_index_satisfying_monotonic_condition,
                                      find_nearest_index_satisfying_monotonic_condition)

out = []
bulk = []


def emit(*a):
    out.append(" ".join(str(x) for x in a))


def call(fn, *a, **kw):
    try:
        return repr(fn(*a, **kw))
    except Exception as exc:
        return f"{type(exc).__name__}({exc})"


def row(t, dist_ft, vel_fps=2000.0, flag=0, height_ft=0.0):
    return TrajectoryData(time=t, distance=Distance.Foot(dist_ft), velocity=Velocity.FPS(vel_fps), mach=vel_fps / 1116.0,
                          height=Distance.Foot(height_ft), target_drop=Distance.Foot(height_ft),
                          drop_adj=Angular.Radian(0), windage=Distance.Foot(0), windage_adj=Angular.Radian(0),
                          look_distance=Distance.Foot(dist_ft), angle=Angular.Radian(0), density_factor=0.0,
                          drag=0.0, energy=Energy.FootPound(0), ogw=Weight.Pound(0), flag=flag)


def synthetic(times, dists, vels=None, flags=None):
    n = len(times)
    vels = vels or [2000.0 - 10 * i for i in range(n)]
    flags = flags or [0] * n
    return HitResult(None, [row(times[i], dists[i], vels[i], flags[i]) for i in range(n)], True)


def scan_distance(hit, d, unit):
    for i, p in enumerate(hit.trajectory):
        if (p.distance >> unit) >= d:
            return i
    return -1


def scan_time(hit, t):
    for i, p in enumerate(hit.trajectory):
        if p.time - t >= 0:
            return i
    return -1


def queries(values):
    """below, on, between and beyond every recorded value"""
    qs = {0.0}
    vs = sorted(set(values))
    for a in vs:
        qs.update((a, math.nextafter(a, math.inf), math.nextafter(a, -math.inf)))
    for a, b in zip(vs, vs[1:]):
        qs.add((a + b) / 2)
    if vs:
        qs.update((vs[-1] + 0.25, vs[-1] + 1.0, vs[-1] + 1.0 - 2 ** -40, vs[-1] + 7.5, vs[0] - 0.5))
    qs.update((float("inf"), float("nan")))
    return sorted(qs, key=lambda x: (x != x, x))


UNITS = [Distance.Meter, Distance.Foot, Distance.Yard, Distance.Inch, Distance.Kilometer]


def sweep(name, hit, verbose):
    sink = out if verbose else bulk
    times = [p.time for p in hit.trajectory]
    for unit in UNITS:
        dq = queries([p.distance >> unit for p in hit.trajectory])
        for d in dq:
            i = call(find_index_of_point_for_distance, hit, d, unit)
            ref = scan_distance(hit, d, unit)
            t = call(find_time_for_distance_in_shot, hit, d, unit)
            if d == d:
                assert i == repr(ref), (name, unit, d, i, ref)
            sink.append(f"{name} dist {unit.name} {d!r} -> {i} {t}")
    # default unit argument (meters)
    for d in (0, 0.0, 1, 100, 1e9):
        sink.append(f"{name} dist default {d!r} -> {call(find_index_of_point_for_distance, hit, d)} "
                    f"{call(find_time_for_distance_in_shot, hit, d)}")
    for t in queries(times):
        a = call(find_index_for_time_point, hit, t)
        if t == t and t >= 0:
            assert a == repr(scan_time(hit, t)), (name, t, a)
        res = [a]
        for dev in (1, 0, 0.5, 1e-9, 3.0, float("inf")):
            res.append(call(find_index_for_time_point, hit, t, False, dev))
        res.append(call(find_index_for_time_point, hit, t, strictly_bigger_or_equal=False))
        res.append(call(find_index_for_time_point, hit, t, max_time_deviation_in_seconds=-0.1))
        sink.append(f"{name} time {t!r} -> {' '.join(res)}")
    for flag in (TrajFlag.ZERO_UP, TrajFlag.ZERO_DOWN, TrajFlag.ZERO, TrajFlag.MACH, TrajFlag.RANGE, TrajFlag.APEX,
                 TrajFlag.ALL, TrajFlag.NONE, 32):
        sink.append(f"{name} flag {flag} -> {call(find_index_of_point_with_flag, hit, flag)}")
    sink.append(f"{name} flag default/mach/touch -> {call(find_index_of_point_with_flag, hit)} "
                f"{call(find_mach_point_index, hit)} {call(find_touch_point_index, hit)}")
    for unit in (Velocity.MPS, Velocity.FPS, Velocity.KMH):
        for v in queries([p.velocity >> unit for p in hit.trajectory])[::3]:
            sink.append(f"{name} vel {unit.name} {v!r} -> {call(find_velocity_less_than_index, hit, v, unit)}")
    sink.append(f"{name} vel default 340 -> {call(find_velocity_less_than_index, hit, 340)}")


# ---- synthetic trajectories: empty, single row, repeated values, plateaus
sweep("empty", synthetic([], []), True)
sweep("single0", synthetic([0.0], [0.0]), True)
sweep("single", synthetic([0.5], [300.0], flags=[TrajFlag.RANGE | TrajFlag.MACH]), True)
sweep("pair_eq", synthetic([0.25, 0.25], [100.0, 100.0], flags=[0, TrajFlag.ZERO_DOWN]), True)
sweep("repeats", synthetic([0.0, 0.1, 0.1, 0.1, 0.2, 0.4, 0.4, 0.9], [0, 100, 100, 100, 200, 400, 400, 900],
                           vels=[3000, 2800, 2800, 2700, 1200, 1116, 1100, 900],
                           flags=[8 | 1, 8, 4, 16, 8, 8 | 2, 0, 8]), True)
sweep("late_start", synthetic([2.0, 2.5, 4.0, 4.0], [1000, 1000, 1500, 2500]), False)

rnd = random.Random(2020)
for k in range(25):
    n = rnd.randint(0, 30)
    t, d, ts, ds = 0.0, 0.0, [], []
    for _ in range(n):
        t += rnd.choice([0.0, 0.0, rnd.random(), 0.125, 1.0])
        d += rnd.choice([0.0, 0.0, 100 * rnd.random(), 50.0, 300.0])
        ts.append(t)
        ds.append(d)
    fl = [rnd.choice([0, 0, 1, 2, 4, 8, 16, 12, 3]) for _ in range(n)]
    sweep(f"rnd{k}", synthetic(ts, ds, flags=fl), False)

# ---- the two generic search functions, on plain lists of rows
rows = synthetic([0.0, 0.1, 0.1, 0.3, 0.3, 0.3, 1.0], [0, 1, 2, 3, 4, 5, 6]).trajectory
for q in (-1.0, 0.0, 0.05, 0.1, 0.2, 0.2000000001, 0.3, 0.65, 0.66, 1.0, 5.0):
    emit("generic", q,
         call(find_first_index_satisfying_monotonic_condition, rows, lambda p: p.time >= q),
         call(find_nearest_index_satisfying_monotonic_condition, rows, q, lambda p: p.time),
         call(find_nearest_index_satisfying_monotonic_condition, [], q, lambda p: p.time))


# ---- real trajectories
def fire(bc, table, mv, angle_deg, step_m=None):
    dm = DragModel(bc=bc, drag_table=table, weight=Weight.Gram(10), diameter=Distance.Millimeter(7.62),
                   length=Distance.Millimeter(30))
    shot = Shot(weapon=Weapon(), ammo=Ammo(dm, Velocity.MPS(mv)), relative_angle=Angular.Degree(angle_deg))
    rng = calculate_drag_free_range(mv, angle_deg)
    calc = Calculator()
    try:
        if step_m is None:
            return calc.fire(shot, Distance.Meter(rng), extra_data=True)
        return calc.fire(shot, Distance.Meter(min(rng, 3000.0)), Distance.Meter(step_m), extra_data=True)
    except RangeError as err:  # the bullet came down early: keep what was computed
        return HitResult(shot, err.incomplete_trajectory, extra=True)


for n, args in enumerate([(0.759, TableG1, 930, 1, None), (0.25, TableG7, 800, 5, None),
                          (0.3, TableG1, 300, 0.2, 25.0), (0.5, TableG7, 900, 2, 100.0)]):
    hit = fire(*args)
    emit("shot", n, "rows", len(hit.trajectory), "last", repr(hit[-1].time), repr(hit[-1].distance.raw_value))
    sweep(f"shot{n}", hit, n == 2)

# ---- argument validation
hit = synthetic([0.0, 1.0], [0, 100])
for a, kw in [((hit, -1), {}), ((hit, -0.0), {}), ((hit, 0, True, -1), {}), ((hit, -1, False, -1), {}),
              ((hit, float("nan")), {}), ((hit, 0.5), {"max_time_deviation_in_seconds": float("nan"),
                                                       "strictly_bigger_or_equal": False})]:
    emit("validate", a[1:], kw, call(find_index_for_time_point, *a, **kw))

for line in out:
    print(line)
text = "\n".join(out + bulk)
print("lines", len(out), len(bulk))
print("sha256", hashlib.sha256(text.encode()).hexdigest())
