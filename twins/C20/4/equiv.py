"""Equivalence digest for refactoring 1 (apex search written with bisect).

Prints the apex index for many synthetic height sequences (uni-modal and not), the order in which
rows are read, and the apex of real trajectories. Must print the same text before / after the patch.
"""
import hashlib
import random
from collections import namedtuple

from py_ballisticcalc import (Ammo, Angular, Calculator, Distance, DragModel, Shot, TableG1, TableG7,
                              Velocity, Weapon, Weight)
from py_ballisticcalc.helpers import find_index_of_apex_in_points, find_index_of_apex_point

P = namedtuple("P", "height")
lines = []


def out(*args):
    lines.append(" ".join(str(a) for a in args))


class Spy:
    """Row recording every read of .height (checks the probe sequence, not only the result)."""
    log = []

    def __init__(self, i, h):
        self.i, self.h = i, h

    @property
    def height(self):
        Spy.log.append(self.i)
        return self.h


def apex(heights):
    return find_index_of_apex_in_points([P(h) for h in heights])


# 1. lengths 0..9, every peak position, strict uni-modal
for n in range(0, 10):
    for peak in range(max(n, 1)):
        hs = [-(abs(i - peak)) * 1.5 for i in range(n)]
        out("unimodal", n, peak, apex(hs))

# 2. plateaus, all equal, monotone, repeated values
for hs in ([], [0.0], [1.0, 1.0], [1.0, 2.0], [2.0, 1.0], [0, 1, 1, 0], [0, 1, 1, 1, 0], [0, 0, 1, 0, 0],
           [5] * 7, list(range(8)), list(range(8, 0, -1)), [0, 0, 0, 1], [1, 0, 0, 0], [0, 1, 2, 2, 2, 2, 1],
           [float("nan")] * 4, [0.0, float("nan"), 1.0, 0.5], [0.0, 1.0, float("nan"), 0.5, 0.1],
           [float("-inf"), 0.0, float("inf"), 0.0], [-0.0, 0.0, -0.0]):
    out("special", repr(hs), apex(hs))

# 3. arbitrary (not uni-modal) sequences: result depends on the exact probe sequence
rnd = random.Random(20)
for k in range(400):
    n = rnd.randint(0, 40)
    hs = [rnd.choice([0, 1, 2, 3, 2.5, -1]) if k % 2 else rnd.uniform(-5, 5) for _ in range(n)]
    rows = [Spy(i, h) for i, h in enumerate(hs)]
    Spy.log = []
    res = find_index_of_apex_in_points(rows)
    out("random", k, n, res, Spy.log)

# 4. heights as Distance objects, tuple instead of list
hs = [Distance.Foot(x) for x in (0, 3, 7, 7.5, 7.4, 2, -10)]
out("distance", find_index_of_apex_in_points([P(h) for h in hs]), find_index_of_apex_in_points(tuple(P(h) for h in hs)))

# 5. error behaviour: rows without .height, uncomparable heights
for bad in ([object(), object()], [P(1), P("a"), P(2)], [P(None), P(None)], [object()]):
    try:
        out("bad", find_index_of_apex_in_points(bad))
    except Exception as e:  # pylint: disable=broad-except
        out("bad", type(e).__name__, e)

# 6. real trajectories
calc = Calculator()
for table, bc, mv, angle, rng, step in ((TableG1, 0.759, 930, 1, 600, 10), (TableG7, 0.223, 800, 10, 3000, 25),
                                        (TableG1, 0.3, 300, 35, 2000, 7), (TableG7, 0.223, 800, 0, 500, 100),
                                        (TableG7, 0.223, 800, -2, 300, 50)):
    dm = DragModel(bc, table, Weight.Gram(10), Distance.Millimeter(7.8), Distance.Millimeter(30))
    shot = Shot(weapon=Weapon(), ammo=Ammo(dm, Velocity.MPS(mv)), relative_angle=Angular.Degree(angle))
    for extra in (False, True):
        hit = calc.fire(shot, Distance.Meter(rng), Distance.Meter(step), extra_data=extra)
        i = find_index_of_apex_point(hit)
        out("shot", bc, mv, angle, extra, len(hit.trajectory), i, repr(hit[i].height.raw_value), repr(hit[i].time))

text = "\n".join(lines)
print(text[:1500])
print("...")
print("\n".join(lines[-16:]))
print("lines", len(lines))
print("sha256", hashlib.sha256(text.encode()).hexdigest())
