"""Equivalence digest for property C20 (trajectory look-ups).

Exercises HitResult.index_at_distance / get_at_distance / danger_space and all look-up helpers of
py_ballisticcalc.helpers on synthetic trajectories (length 0, 1, repeated values, boundary queries,
several units) and on a real computed trajectory.  Prints a deterministic text; it must be identical on
the clean worktree and with the patch applied.
"""
import math
import re

from py_ballisticcalc import (Ammo, Angular, Calculator, Distance, DragModel, Energy, HitResult, Shot, TableG1,
                              TableG7, TrajectoryData, Velocity, Weapon, Weight)
from py_ballisticcalc import helpers as H


def out(label, fn):
    """Print repr of the result, or the exception type and text."""
    try:
        res = fn()
        if isinstance(res, TrajectoryData):
            res = ('ROW', res.time, res.distance.raw_value, res.height.raw_value, res.flag)
        print(label, '->', repr(res))
    except Exception as exc:  # pylint: disable=broad-except
        # object addresses in messages are not deterministic
        print(label, '!!', type(exc).__name__, re.sub(r'0x[0-9a-fA-F]+', '0xADDR', str(exc)))


def row(t, d_m, h_m=0.0, flag=0, drop_m=0.0):
    return TrajectoryData(
        time=t, distance=Distance.Meter(d_m), velocity=Velocity.MPS(800.0 - d_m / 10.0), mach=2.0,
        height=Distance.Meter(h_m), target_drop=Distance.Meter(drop_m), drop_adj=Angular.Mil(0),
        windage=Distance.Meter(0), windage_adj=Angular.Mil(0), look_distance=Distance.Meter(d_m),
        angle=Angular.Degree(0), density_factor=0.0, drag=0.3, energy=Energy.Joule(1000),
        ogw=Weight.Gram(10), flag=flag)


def hit(rows, extra=True):
    return HitResult(None, rows, extra)


SYNTH = {
    'empty': [],
    'single': [row(0.5, 100.0, 1.0)],
    'single0': [row(0.0, 0.0, 0.0)],
    'plain': [row(0.0, 0.0, 0.0), row(0.1, 80.0, 0.5, drop_m=-0.1), row(0.2, 160.0, 0.8, drop_m=-0.4),
              row(0.3, 240.0, 0.9, drop_m=-0.9), row(0.45, 320.0, 0.7, drop_m=-1.6),
              row(0.6, 400.0, 0.2, drop_m=-2.5), row(0.8, 480.0, -0.6, drop_m=-3.6)],
    'repeats': [row(0.0, 0.0), row(0.1, 50.0, 0.2), row(0.1, 50.0, 0.2, flag=4), row(0.1, 50.0, 0.2, flag=1),
                row(0.2, 100.0, 0.3), row(0.2, 100.0, 0.3, flag=2), row(0.4, 100.0, 0.1), row(0.4, 150.0, -0.2)],
    'two': [row(0.0, 0.0, 0.0), row(1.0, 10.0, 1.0)],
    'ties': [row(0.0, 0.0), row(1.0, 100.0), row(2.0, 200.0), row(3.0, 300.0), row(5.0, 400.0)],
}

DIST_QUERIES_M = [-5.0, 0.0, 1e-9, 49.999999, 50.0, 50.000001, 80.0, 100.0, 100.5, 150.0, 239.99, 240.0, 400.0,
                  479.999, 480.0, 480.0001, 1000.0, math.inf]
TIME_QUERIES = [0.0, 1e-12, 0.05, 0.1, 0.15, 0.2, 0.25, 0.3, 0.4, 0.5, 0.7, 0.8, 0.80001, 1.5, 2.5, 4.0, 5.0, 7.0,
                100.0]


def real_shot():
    dm = DragModel(0.223, TableG7, Weight.Grain(168), Distance.Inch(0.308), Distance.Inch(1.282))
    ammo = Ammo(dm, Velocity.FPS(2750), 15)
    weapon = Weapon(Distance.Inch(2), Distance.Inch(12))
    calc = Calculator()
    shot = Shot(weapon=weapon, ammo=ammo)
    calc.set_weapon_zero(shot, Distance.Yard(100))
    return calc.fire(shot, trajectory_range=Distance.Yard(1000), trajectory_step=Distance.Yard(100),
                     extra_data=True)


def lobbed_shot(step=None):
    dm = DragModel(bc=0.759, drag_table=TableG1, weight=Weight.Gram(108), diameter=Distance.Millimeter(23),
                   length=Distance.Millimeter(108.2))
    ammo = Ammo(dm, Velocity.MPS(930))
    shot = Shot(weapon=Weapon(), ammo=ammo, relative_angle=Angular.Degree(1))
    rng = H.calculate_drag_free_range(930, 1)
    if step is None:
        return Calculator().fire(shot, Distance.Meter(rng), extra_data=True)
    return Calculator().fire(shot, Distance.Meter(rng), trajectory_step=Distance.Meter(step), extra_data=True)


def main():
    print('== HitResult.index_at_distance / get_at_distance (synthetic)')
    for name, rows in SYNTH.items():
        hr = hit(rows)
        for q in DIST_QUERIES_M:
            for mk in (Distance.Meter, Distance.Yard, Distance.Foot):
                d = mk(q)
                out(f'{name} idx {mk.__name__ if hasattr(mk, "__name__") else mk} {q!r}',
                    lambda: hr.index_at_distance(d))
                out(f'{name} get {q!r}', lambda: hr.get_at_distance(d))
        # raw numbers compare against the raw (inch) value of the row distance
        for raw in (-1.0, 0.0, 1968.5, 3937.0, 3937.007874015748, 1e9, float('nan')):
            out(f'{name} idx raw {raw!r}', lambda: hr.index_at_distance(raw))
            out(f'{name} get raw {raw!r}', lambda: hr.get_at_distance(raw))
        # sequences other than list behave the same
        out(f'{name} tuple idx', lambda: HitResult(None, tuple(rows), True).index_at_distance(Distance.Meter(100)))
        # wrong operand type
        out(f'{name} idx str', lambda: hr.index_at_distance('x'))

    print('== danger_space (synthetic)')
    for name in ('plain', 'repeats', 'single', 'empty'):
        for extra in (True, False):
            hr = hit(SYNTH[name], extra)
            for at in (0.0, 100.0, 240.0, 480.0, 500.0):
                def ds():
                    r = hr.danger_space(Distance.Meter(at), Distance.Meter(1.0), Angular.Degree(0))
                    return (r.at_range.time, r.begin.time, r.end.time, r.target_height.raw_value,
                            r.look_angle.raw_value)
                out(f'{name} extra={extra} danger {at!r}', ds)

    print('== helpers (synthetic)')
    for name, rows in SYNTH.items():
        hr = hit(rows)
        for q in DIST_QUERIES_M:
            out(f'{name} h.dist m {q!r}', lambda: H.find_index_of_point_for_distance(hr, q))
            out(f'{name} h.dist yd {q!r}', lambda: H.find_index_of_point_for_distance(hr, q, Distance.Yard))
            out(f'{name} h.time4dist {q!r}', lambda: H.find_time_for_distance_in_shot(hr, q))
            out(f'{name} h.time4dist ft {q!r}', lambda: H.find_time_for_distance_in_shot(hr, q, Distance.Foot))
        for t in TIME_QUERIES:
            out(f'{name} h.time>= {t!r}', lambda: H.find_index_for_time_point(hr, t))
            for dev in (0, 0.05, 0.5, 1, 10):
                out(f'{name} h.time~ {t!r} dev={dev!r}',
                    lambda: H.find_index_for_time_point(hr, t, False, dev))
        out(f'{name} h.time neg', lambda: H.find_index_for_time_point(hr, -0.5))
        out(f'{name} h.time negdev', lambda: H.find_index_for_time_point(hr, 1.0, True, -1))
        out(f'{name} h.time both bad', lambda: H.find_index_for_time_point(hr, -1.0, False, -1))
        out(f'{name} h.time nan', lambda: H.find_index_for_time_point(hr, float('nan')))
        out(f'{name} h.time nan~', lambda: H.find_index_for_time_point(hr, float('nan'), False))
        out(f'{name} h.time inf', lambda: H.find_index_for_time_point(hr, math.inf))
        out(f'{name} h.time inf~', lambda: H.find_index_for_time_point(hr, math.inf, False, math.inf))
        out(f'{name} h.apex', lambda: H.find_index_of_apex_point(hr))
        out(f'{name} h.flag', lambda: [H.find_index_of_point_with_flag(hr, f) for f in (1, 2, 4, 8)])
        out(f'{name} h.vel', lambda: H.find_velocity_less_than_index(hr, 790.0))

    print('== generic bisect helpers with probe traces')

    class P:
        def __init__(self, height):
            self.height = height

    for values in ([], [1], [1, 1], [0, 0, 1, 1, 1], [0, 0, 0], [1, 1, 1], [0, 1], list(range(37)),
                   [0] * 20 + [1] * 3, [0.5, 0.5, 1.5, 2.5, 2.5, 2.5, 9.0]):
        for threshold in (-1, 0, 0.5, 1, 2, 2.5, 5, 36, 40):
            trace = []

            def cond(v, _thr=threshold, _tr=trace):
                _tr.append(v)
                return v >= _thr
            out(f'mono {values!r} thr={threshold!r}',
                lambda: (H.find_first_index_satisfying_monotonic_condition(values, cond), tuple(trace)))
            trace2 = []

            def cond2(v, _thr=threshold, _tr=trace2):
                _tr.append(v)
                return v >= _thr
            wrapper = H.BisectWrapper(values, cond2)
            out(f'mono-w {values!r} thr={threshold!r}',
                lambda: (H.bisect_for_monotonic_condition(values, wrapper), tuple(trace2), len(wrapper)))
            trace3 = []

            def getter(v, _tr=trace3):
                _tr.append(v)
                return v
            out(f'near {values!r} tgt={threshold!r}',
                lambda: (H.find_nearest_index_satisfying_monotonic_condition(values, threshold, getter),
                         tuple(trace3)))
    # integer-valued (non-bool) conditions and a failing getter
    out('mono int-cond', lambda: H.find_first_index_satisfying_monotonic_condition([0, 0, 2, 3], lambda v: v))
    out('mono neg-cond', lambda: H.find_first_index_satisfying_monotonic_condition([-1, 0, 2, 3], lambda v: v))
    out('near none', lambda: H.find_nearest_index_satisfying_monotonic_condition([1, 2, 3], 2.0, lambda v: None))
    out('first-match', lambda: H.find_first_index_matching_condition(hit(SYNTH['plain']), lambda p: p.time > 0.25))

    print('== apex over mock points')
    for heights in ([], [10], [1, 3, 7, 10, 8, 4], [1, 2, 3, 4], [4, 3, 2, 1], [1, 5, 5, 1], [1, 5, 5, 7, 5],
                    [2, 2], [2, 2, 2, 2, 2], [1, 2], [2, 1], list(range(1, 100)) + list(range(99, 0, -1)),
                    [0.0, float('nan'), 1.0, 0.5], [1, 9, 1, 9, 1, 9, 1]):
        out(f'apex {heights[:8]!r}.. n={len(heights)}',
            lambda: H.find_index_of_apex_in_points([P(h) for h in heights]))
        out(f'apex-dist n={len(heights)}',
            lambda: H.find_index_of_apex_in_points([P(Distance.Meter(h)) for h in heights]))
    out('apex tuple', lambda: H.find_index_of_apex_in_points(tuple(P(h) for h in [1, 4, 2])))
    out('apex bad', lambda: H.find_index_of_apex_in_points([object(), object()]))

    print('== real trajectories')
    for label, hr in (('flat', real_shot()), ('lobbed', lobbed_shot()), ('dense', lobbed_shot(7.5))):
        n = len(hr.trajectory)
        print(label, 'rows', n)
        last_m = hr.trajectory[-1].distance >> Distance.Meter
        last_t = hr.trajectory[-1].time
        for frac in (-0.1, 0.0, 0.013, 0.1, 0.25, 0.5, 0.731, 0.999999, 1.0, 1.000001, 1.5):
            qm = last_m * frac
            qt = last_t * frac
            out(f'{label} idx {frac!r}', lambda: hr.index_at_distance(Distance.Meter(qm)))
            out(f'{label} get {frac!r}', lambda: hr.get_at_distance(Distance.Meter(qm)))
            out(f'{label} h.dist {frac!r}', lambda: H.find_index_of_point_for_distance(hr, qm))
            out(f'{label} h.dist ft {frac!r}',
                lambda: H.find_index_of_point_for_distance(hr, qm * 3.28084, Distance.Foot))
            out(f'{label} h.t4d {frac!r}', lambda: H.find_time_for_distance_in_shot(hr, qm))
            if qt >= 0:
                out(f'{label} h.time>= {frac!r}', lambda: H.find_index_for_time_point(hr, qt))
                out(f'{label} h.time~ {frac!r}', lambda: H.find_index_for_time_point(hr, qt, False, 0.01))
                out(f'{label} h.time~1 {frac!r}', lambda: H.find_index_for_time_point(hr, qt, False))
        # every recorded row is found at its own distance / time
        out(f'{label} self-dist', lambda: [hr.index_at_distance(r.distance) for r in hr.trajectory])
        out(f'{label} self-hdist',
            lambda: [H.find_index_of_point_for_distance(hr, r.distance >> Distance.Meter) for r in hr.trajectory])
        out(f'{label} self-time', lambda: [H.find_index_for_time_point(hr, r.time) for r in hr.trajectory])
        out(f'{label} self-time~',
            lambda: [H.find_index_for_time_point(hr, r.time, False, 0) for r in hr.trajectory])
        out(f'{label} apex', lambda: H.find_index_of_apex_point(hr))
        out(f'{label} mach', lambda: H.find_mach_point_index(hr))
        out(f'{label} touch', lambda: H.find_touch_point_index(hr))
        out(f'{label} danger', lambda: str(hr.danger_space(Distance.Meter(last_m * 0.5), Distance.Meter(1.5))))
        out(f'{label} danger beyond', lambda: hr.danger_space(Distance.Meter(last_m * 2), Distance.Meter(1.5)))


if __name__ == '__main__':
    main()
