"""Digest of HitResult.index_at_distance / get_at_distance / danger_space (row look-up by distance)."""
import hashlib
import math
import random
import re
import warnings
from types import SimpleNamespace

warnings.simplefilter("ignore")

from py_ballisticcalc import (Distance, DragModel, TableG1, TableG7, Weight, Weapon, Ammo, Shot, Velocity,
                              Angular, Energy, Calculator, HitResult, RangeError, TrajectoryData, TrajFlag)
from py_ballisticcalc.helpers import calculate_drag_free_range

out = []
bulk = []


def call(fn, *a, **kw):
    try:
        return fn(*a, **kw)
    except Exception as exc:
        # object.__repr__ in the "no extra data" message carries a memory address: scrub it
        return re.sub(r"0x[0-9a-fA-F]+", "0x?", f"{type(exc).__name__}({exc})")


def row_id(hit, r):
    """position of the returned row object in the trajectory (identity, not equality)"""
    if isinstance(r, str):
        return r
    return [i for i, p in enumerate(hit.trajectory) if p is r]


def row(t, dist_ft, drop_ft=0.0, flag=0):
    return TrajectoryData(time=t, distance=Distance.Foot(dist_ft), velocity=Velocity.FPS(2000.0), mach=1.8,
                          height=Distance.Foot(drop_ft), target_drop=Distance.Foot(drop_ft),
                          drop_adj=Angular.Radian(0), windage=Distance.Foot(0), windage_adj=Angular.Radian(0),
                          look_distance=Distance.Foot(dist_ft), angle=Angular.Radian(0), density_factor=0.0,
                          drag=0.0, energy=Energy.FootPound(0), ogw=Weight.Pound(0), flag=flag)


FAKE_SHOT = SimpleNamespace(look_angle=Angular.Degree(1.5))


def synthetic(dists, drops=None, extra=True):
    drops = drops or [0.0] * len(dists)
    return HitResult(FAKE_SHOT, [row(0.01 * i, dists[i], drops[i]) for i in range(len(dists))], extra)


def scan(hit, d):
    for i, p in enumerate(hit.trajectory):
        if p.distance >= d:
            return i
    return -1


def queries(values):
    qs = {0.0, -1.0}
    vs = sorted(set(values))
    for a in vs:
        qs.update((a, math.nextafter(a, math.inf), math.nextafter(a, -math.inf)))
    for a, b in zip(vs, vs[1:]):
        qs.add((a + b) / 2)
    if vs:
        qs.update((vs[-1] + 0.25, vs[-1] * 2 + 1.0, vs[0] - 0.5))
    qs.update((float("inf"), float("nan")))
    return sorted(qs, key=lambda x: (x != x, x))


UNITS = [Distance.Foot, Distance.Meter, Distance.Yard, Distance.Inch, Distance.Kilometer]


def sweep(name, hit, verbose, heights=(Distance.Inch(20), 0.5, Distance.Meter(3), Distance.Inch(0))):
    sink = out if verbose else bulk
    for unit in UNITS:
        for q in queries([p.distance >> unit for p in hit.trajectory]):
            d = unit(q)
            i = call(hit.index_at_distance, d)
            if q == q:
                assert i == scan(hit, d), (name, unit, q, i)
            r = call(hit.get_at_distance, d)
            sink.append(f"{name} {unit.name} {q!r} -> {i!r} {row_id(hit, r)}")
            if unit in (Distance.Foot, Distance.Meter):
                for h in heights:
                    for la in (None, Angular.Degree(3), 0.25):
                        ds = call(hit.danger_space, d, h, la)
                        if isinstance(ds, str):
                            sink.append(f"{name}   danger {h!r} {la!r} -> {ds}")
                        else:
                            sink.append(f"{name}   danger {h!r} {la!r} -> at {row_id(hit, ds.at_range)} "
                                        f"begin {row_id(hit, ds.begin)} end {row_id(hit, ds.end)} "
                                        f"{ds.target_height.raw_value!r} {ds.look_angle.raw_value!r}")
    # raw numbers instead of Distance objects (compared with the raw value, i.e. inches)
    for q in (0, 12.0, 1200, 1e12, -5):
        sink.append(f"{name} raw {q!r} -> {call(hit.index_at_distance, q)!r} {row_id(hit, call(hit.get_at_distance, q))}")
        sink.append(f"{name} raw danger {q!r} -> {str(call(hit.danger_space, q, 10))[:160]}")
    sink.append(f"{name} bad type -> {call(hit.index_at_distance, 'x')} | {call(hit.get_at_distance, None)}")


sweep("empty", synthetic([]), False)
sweep("single0", synthetic([0.0]), False)
sweep("single", synthetic([300.0], [1.0]), False)
sweep("pair_eq", synthetic([100.0, 100.0], [0.5, -0.5]), False)
sweep("repeats", synthetic([0, 100, 100, 100, 200, 400, 400, 900], [-0.2, 0.5, 0.5, 0.6, 1.5, 0.0, -0.1, -9.0]), True)
sweep("arc", synthetic([0, 100, 200, 300, 400, 500, 600, 700], [-0.2, 0.8, 1.4, 1.6, 1.3, 0.5, -0.9, -3.0]), False)
# distances that go back (the scan, unlike a bisection, must still return the first qualifying row)
sweep("non_monotone", synthetic([0, 300, 200, 500, 100, 500, 800, 50], [0, 1, 2, 1, 0, -1, -2, -3]), True)
sweep("no_extra", synthetic([0, 100, 200], [0, 1, 0], extra=False), True)

rnd = random.Random(320)
for k in range(25):
    n = rnd.randint(0, 30)
    d, ds, dr = 0.0, [], []
    for _ in range(n):
        d += rnd.choice([0.0, 0.0, 100 * rnd.random(), 50.0, 300.0, -20.0])
        ds.append(d)
        dr.append(rnd.choice([0.0, rnd.uniform(-3, 3), 0.8333333333333334, -0.8333333333333334]))
    sweep(f"rnd{k}", synthetic(ds, dr), False)


def fire(bc, table, mv, angle_deg, step_m=None):
    dm = DragModel(bc=bc, drag_table=table, weight=Weight.Gram(10), diameter=Distance.Millimeter(7.62),
                   length=Distance.Millimeter(30))
    shot = Shot(weapon=Weapon(), ammo=Ammo(dm, Velocity.MPS(mv)), relative_angle=Angular.Degree(angle_deg))
    rng = calculate_drag_free_range(mv, angle_deg)
    calc = Calculator()
    try:
        if step_m is None:
            return calc.fire(shot, Distance.Meter(rng), extra_data=True)
        return calc.fire(shot, Distance.Meter(min(rng, 3000.0)), Distance.Meter(step_m), extra_data=True)
    except RangeError as err:  # the bullet came down early: keep what was computed
        return HitResult(shot, err.incomplete_trajectory, extra=True)


for n, args in enumerate([(0.759, TableG1, 930, 1, None), (0.25, TableG7, 800, 5, None),
                          (0.3, TableG1, 300, 0.2, 25.0), (0.5, TableG7, 900, 2, 100.0)]):
    hit = fire(*args)
    out.append(f"shot {n} rows {len(hit.trajectory)} last {hit[-1].time!r} {hit[-1].distance.raw_value!r}")
    sweep(f"shot{n}", hit, False)
    ds = hit.danger_space(hit[len(hit.trajectory) // 2].distance, Distance.Meter(1.7))
    out.append(f"shot {n} danger str: {ds}")

# a zeroed rifle, the documented use of danger_space
dm = DragModel(0.223, TableG7, Weight.Grain(168), Distance.Inch(0.308), Distance.Inch(1.282))
zero_shot = Shot(weapon=Weapon(Distance.Inch(2), Distance.Inch(12)), ammo=Ammo(dm, Velocity.FPS(2750)))
calc = Calculator()
calc.set_weapon_zero(zero_shot, Distance.Yard(100))
hit = calc.fire(zero_shot, Distance.Yard(1000), Distance.Yard(100), extra_data=True)
out.append(f"zeroed rows {len(hit.trajectory)}")
for yd in (0, 100, 250, 500, 999.99, 1000, 1000.01):
    for h in (Distance.Inch(10), Distance.Meter(1.5)):
        ds = call(hit.danger_space, Distance.Yard(yd), h)
        out.append(f"zeroed {yd} {h!r}: {ds if isinstance(ds, str) else (row_id(hit, ds.at_range), row_id(hit, ds.begin), row_id(hit, ds.end), str(ds))}")
    out.append(f"zeroed get {yd}: {call(hit.index_at_distance, Distance.Yard(yd))} "
               f"{row_id(hit, call(hit.get_at_distance, Distance.Yard(yd)))}")
sweep("zeroed", hit, False)

for line in out:
    print(line)
text = "\n".join(out + bulk)
print("lines", len(out), len(bulk))
print("sha256", hashlib.sha256(text.encode()).hexdigest())
