"""Equivalence digest for refactoring 2 (nearest-index search restructured, helpers extracted).

Exercises find_nearest_index_satisfying_monotonic_condition directly (recording every call of the
value getter) and through find_index_for_time_point(..., strictly_bigger_or_equal=False) on synthetic
and real trajectories. Must print the same text before / after the patch.
"""
import hashlib
import random
from collections import namedtuple

from py_ballisticcalc import (Ammo, Angular, Calculator, Distance, DragModel, HitResult, Shot, TableG7,
                              Velocity, Weapon, Weight)
from py_ballisticcalc.helpers import (find_index_for_time_point,
                                      find_nearest_index_satisfying_monotonic_condition as nearest)

Row = namedtuple("Row", "time")
lines = []


def out(*args):
    lines.append(" ".join(str(a) for a in args))


def spy_nearest(values, target):
    log = []

    def getter(row):
        log.append(row.time)
        return row.time

    try:
        res = nearest([Row(v) for v in values], target, getter)
    except Exception as e:  # pylint: disable=broad-except
        res = f"{type(e).__name__}: {e}"
    return res, log


nan, inf = float("nan"), float("inf")
sequences = [
    [], [0.0], [1.0], [0.0, 1.0], [0.0, 0.0], [0.0, 0.0, 0.0, 1.0, 1.0, 2.0, 2.0, 2.0],
    [0.0, 0.5, 1.0, 1.5, 2.0], [0.0, 0.1, 0.1, 0.1, 0.4, 0.4, 0.9], [0.0, 1.0, 1.0, 3.0],
    [1.0, 1.0, 1.0], [0.0, 1e-300, 2e-300], [0.0, 1.0, inf], [0.0, nan, 2.0], [3.0, 2.0, 1.0, 0.0],
    [0, 1, 2, 3, 4, 5, 6, 7, 8, 9, 10],
]
targets = [-1.0, -0.0, 0.0, 0.05, 0.1, 0.25, 0.5, 0.75, 1.0, 1.0000000000000002, 1.25, 2.0, 2.5, 3.0, 9.5, 10, 11,
           1e-300, 1.5e-300, inf, -inf, nan]
for seq in sequences:
    for t in targets:
        out("direct", repr(seq), repr(t), *spy_nearest(seq, t))

rnd = random.Random(2020)
for k in range(300):
    n = rnd.randint(0, 25)
    if k % 3 == 0:      # sorted with many repeats
        seq = sorted(rnd.choice([0.0, 0.25, 0.5, 1.0, 1.5, 2.0]) for _ in range(n))
    elif k % 3 == 1:    # sorted, distinct-ish
        seq = sorted(rnd.uniform(0, 3) for _ in range(n))
    else:               # not sorted at all: result depends on the exact probe sequence
        seq = [rnd.choice([0.0, 0.5, 1.0, 2.0, 3.0]) for _ in range(n)]
    for t in (rnd.choice(seq) if seq else 0.0, rnd.uniform(-0.5, 3.5), (seq[0] + seq[-1]) / 2 if seq else 1.0):
        out("random", k, repr(t), *spy_nearest(seq, t))

# uncomparable / non-numeric values: same exception from the same place
for seq, t in (([None, None], 1.0), (["a", "b"], 1.0), ([0.0, 1.0], "x"), ([0.0, 1.0], None)):
    out("bad", repr(seq), repr(t), *spy_nearest(seq, t))

# through the public time look-up, synthetic rows (HitResult only stores the list)
for seq in sequences[:12]:
    hit = HitResult(None, [Row(v) for v in seq], False)
    for t in (0.0, 0.05, 0.1, 0.25, 0.5, 0.75, 1.0, 1.25, 2.0, 2.5, 3.0, 4.0, 1e9):
        for dev in (0, 0.25, 0.5, 1, inf):
            for strict in (False, True):
                out("time", repr(seq), t, dev, strict,
                    find_index_for_time_point(hit, t, strict, max_time_deviation_in_seconds=dev))
for args in ((-1, False, 1), (1, False, -1), (-0.5, True, 1)):
    try:
        out("err", find_index_for_time_point(HitResult(None, [Row(0.0)], False), *args))
    except ValueError as e:
        out("err", args, e)

# real trajectories
calc = Calculator()
dm = DragModel(0.223, TableG7, Weight.Grain(168), Distance.Inch(0.308), Distance.Inch(1.282))
for angle, rng, step in ((0.1, 1000, 100), (5, 2500, 40), (0, 50, 50)):
    shot = Shot(weapon=Weapon(), ammo=Ammo(dm, Velocity.FPS(2750)), relative_angle=Angular.Degree(angle))
    for extra in (False, True):
        hit = calc.fire(shot, Distance.Yard(rng), Distance.Yard(step), extra_data=extra)
        last = hit[-1].time
        for t in (0, 1e-9, 0.05, 0.3, 0.7, 1.0, last / 2, last, last + 0.4, last + 1, last + 1.0000001, 100):
            for dev in (0.01, 1):
                i = find_index_for_time_point(hit, t, False, dev)
                j = find_index_for_time_point(hit, t, True, dev)
                out("shot", angle, extra, repr(t), dev, i, j, repr(hit[i].time) if i >= 0 else None)
        for row in hit.trajectory[::7]:
            out("row", angle, extra, find_index_for_time_point(hit, row.time, False, 0),
                nearest(hit.trajectory, row.distance >> Distance.Meter, lambda r: r.distance >> Distance.Meter))

text = "\n".join(lines)
print(text[:1500])
print("...")
print("\n".join(lines[-12:]))
print("lines", len(lines))
print("sha256", hashlib.sha256(text.encode()).hexdigest())
