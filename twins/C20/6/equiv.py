"""Equivalence digest for refactoring 3 (named not-found sentinel, merged guards in
bisect_for_monotonic_condition, shared evaluator in BisectWrapper, hoisted row list and inverted guard in
HitResult.index_at_distance / get_at_distance).

Must print the same text before / after the patch.
"""
import hashlib
import random
from collections import namedtuple

from py_ballisticcalc import (Ammo, Angular, Calculator, Distance, DragModel, HitResult, Shot, TableG1, TableG7,
                              TrajFlag, Velocity, Weapon, Weight)
from py_ballisticcalc import helpers as H

Row = namedtuple("Row", "time distance")
lines = []


def out(*args):
    lines.append(" ".join(str(a) for a in args))


def attempt(fn, *args, **kwargs):
    try:
        return repr(fn(*args, **kwargs))
    except Exception as e:  # pylint: disable=broad-except
        return f"{type(e).__name__}: {e}"


def scan(rows, pred):
    for i, r in enumerate(rows):
        if pred(r):
            return i
    return -1


nan, inf = float("nan"), float("inf")

# 1. BisectWrapper and bisect_for_monotonic_condition used directly, call log of the condition included
for values in ([], [0], [1], [0, 0, 1, 1], [0, 0, 0], [1, 1, 1], [0, 1, 0, 1, 0, 1, 1], [1, 0, 0, 0], list(range(17))):
    for threshold in (-1, 0, 1, 5, 16, 17):
        log = []

        def cond(v, threshold=threshold, log=log):
            log.append(v)
            return v >= threshold

        w = H.BisectWrapper(values, cond)
        out("bisect", values, threshold, H.bisect_for_monotonic_condition(values, w),
            H.find_first_index_satisfying_monotonic_condition(values, cond), len(w), log)
        # arr and wrapper of different lengths (arr decides the searched span)
        out("bisect-short", attempt(H.bisect_for_monotonic_condition, values[:len(values) // 2], w),
            attempt(H.bisect_for_monotonic_condition, values + [0], w))
w = H.BisectWrapper([3, 4, 5], lambda v: v * 2)
out("wrapper", w[0], w[2], w[-1], w.check_condition(1), attempt(w.__getitem__, 3), attempt(w.check_condition, 7),
    w.array, len(w))
out("wrapper-raise", attempt(H.bisect_for_monotonic_condition, [1, 2], H.BisectWrapper([1, 2], lambda v: 1 / 0)))

# 2. synthetic trajectories: distance / time look-ups versus a sequential scan
seqs = [[], [0.0], [0.0, 0.0], [0.0, 10.0, 20.0, 30.0], [0.0, 10.0, 10.0, 10.0, 20.0], [5.0, 5.0, 5.0],
        [0.0, 1e-12, 2e-12, 100.0], [0.0, 50.0, inf], [0.0, nan, 50.0]]
queries = [-5.0, -0.0, 0.0, 1e-12, 5.0, 9.999999999999998, 10.0, 10.000000000000002, 15.0, 20.0, 30.0, 31.0, inf, nan]
for seq in seqs:
    rows = [Row(v / 100.0, Distance.Meter(v)) for v in seq]
    hit = HitResult(None, rows, False)
    for q in queries:
        for unit in (Distance.Meter, Distance.Foot, Distance.Yard):
            d = unit(q if unit is Distance.Meter else Distance.Meter(q) >> unit)
            i = hit.index_at_distance(d)
            out("hit", seq, repr(q), unit.__name__ if hasattr(unit, "__name__") else unit, i,
                scan(rows, lambda r, d=d: r.distance >= d),
                attempt(lambda: hit.get_at_distance(d).time),
                H.find_index_of_point_for_distance(hit, q), H.find_index_of_point_for_distance(hit, d >> unit, unit),
                repr(H.find_time_for_distance_in_shot(hit, q)),
                attempt(H.find_index_for_time_point, hit, abs(q) / 100.0 if q == q else 0.0))
    out("cond", seq, H.find_first_index_matching_condition(hit, lambda r: (r.distance >> Distance.Meter) > 9),
        H.find_first_index_matching_condition(hit, lambda r: False))

rnd = random.Random(3)
for k in range(200):
    n = rnd.randint(0, 30)
    ds = sorted(rnd.choice([0.0, 25.0, 50.0, 75.0, 100.0]) if k % 2 else rnd.uniform(0, 100) for _ in range(n))
    rows = [Row(v / 300.0, Distance.Yard(v)) for v in ds]
    hit = HitResult(None, rows, False)
    for q in (rnd.choice(ds) if ds else 0.0, rnd.uniform(-10, 110)):
        out("rand", k, repr(q), hit.index_at_distance(Distance.Yard(q)), scan(rows, lambda r, q=q: r.distance >= Distance.Yard(q)),
            H.find_index_of_point_for_distance(hit, q, Distance.Yard), attempt(lambda: hit.get_at_distance(Distance.Yard(q)).time),
            H.find_index_for_time_point(hit, max(q, 0.0) / 300.0), H.find_index_for_time_point(hit, max(q, 0.0) / 300.0, False, 0.05),
            repr(H.find_time_for_distance_in_shot(hit, q, Distance.Yard)))

# 3. real trajectories, with and without extra rows
calc = Calculator()
for table, bc, mv, angle, rng, step in ((TableG7, 0.223, 800, 0.1, 1000, 100), (TableG1, 0.4, 350, 8, 1500, 30),
                                        (TableG7, 0.31, 900, 0, 100, 100)):
    dm = DragModel(bc, table, Weight.Gram(10), Distance.Millimeter(7.8), Distance.Millimeter(30))
    shot = Shot(weapon=Weapon(sight_height=Distance.Centimeter(5)), ammo=Ammo(dm, Velocity.MPS(mv)),
                relative_angle=Angular.Degree(angle))
    for extra in (False, True):
        hit = calc.fire(shot, Distance.Meter(rng), Distance.Meter(step), extra_data=extra)
        n = len(hit.trajectory)
        last = hit[-1].distance >> Distance.Meter
        out("shot", bc, angle, extra, n, repr(last), H.find_index_of_apex_point(hit), H.find_mach_point_index(hit),
            H.find_touch_point_index(hit), H.find_index_of_point_with_flag(hit, TrajFlag.ZERO_UP),
            H.find_velocity_less_than_index(hit, mv * 0.8), H.find_velocity_less_than_index(hit, 1.0))
        for q in (-1, 0, 0.5, step / 2, step, step + 1e-9, rng / 2, last, last + 1e-6, rng + step, 1e9):
            d = Distance.Meter(q)
            i = hit.index_at_distance(d)
            out("shot-q", repr(q), i, scan(hit.trajectory, lambda r, d=d: r.distance >= d),
                attempt(lambda: repr(hit.get_at_distance(d).distance.raw_value)),
                H.find_index_of_point_for_distance(hit, q), H.find_index_of_point_for_distance(hit, q * 3.28084, Distance.Foot),
                repr(H.find_time_for_distance_in_shot(hit, q)),
                attempt(lambda: str(hit.danger_space(d, Distance.Meter(1.5)))) if extra else
                attempt(hit.danger_space, d, Distance.Meter(1.5)).split(":")[0])  # message holds an object address
        for row in hit.trajectory[::5]:
            out("shot-t", H.find_index_for_time_point(hit, row.time), H.find_index_for_time_point(hit, row.time + 1e-7),
                H.find_index_for_time_point(hit, row.time, False, 0), hit.index_at_distance(row.distance))

text = "\n".join(lines)
print(text[:1500])
print("...")
print("\n".join(lines[-12:]))
print("lines", len(lines))
print("sha256", hashlib.sha256(text.encode()).hexdigest())
