"""Deterministic digest of the trajectory look-up helpers and HitResult accessors."""
import hashlib
import math
import random
import re

from py_ballisticcalc import (Distance, DragModel, TableG1, Weight, Weapon, Ammo, Shot, Velocity,
                              Angular, Calculator, Energy, HitResult, TrajectoryData, TrajFlag)
from py_ballisticcalc import helpers as H

OUT = []


def emit(*parts):
    OUT.append(" ".join(repr(p) for p in parts))


def attempt(fn, *args, **kwargs):
    try:
        return ("ok", fn(*args, **kwargs))
    except Exception as exc:  # digest records type and message
        return ("exc", type(exc).__name__, re.sub(r"0x[0-9a-fA-F]+", "0x?", str(exc)))


def row(t, dist_m, height_m=0.0, flag=TrajFlag.RANGE, drop_m=0.0):
    return TrajectoryData(
        time=t, distance=Distance.Meter(dist_m), velocity=Velocity.MPS(800.0 - 10.0 * t), mach=2.0,
        height=Distance.Meter(height_m), target_drop=Distance.Meter(drop_m), drop_adj=Angular.Mil(0.0),
        windage=Distance.Meter(0.0), windage_adj=Angular.Mil(0.0), look_distance=Distance.Meter(dist_m),
        angle=Angular.Degree(0.0), density_factor=0.0, drag=0.3, energy=Energy.Joule(1000.0),
        ogw=Weight.Gram(100.0), flag=flag)


def make_shot():
    dm = DragModel(bc=0.759, drag_table=TableG1, weight=Weight.Gram(108),
                   diameter=Distance.Millimeter(23), length=Distance.Millimeter(108.2))
    return Shot(weapon=Weapon(), ammo=Ammo(dm, Velocity.MPS(930)), relative_angle=Angular.Degree(1))


SHOT = make_shot()


def hit(rows, extra=True):
    return HitResult(SHOT, list(rows), extra)


def synthetic_cases():
    cases = {}
    cases["empty"] = []
    cases["single"] = [row(0.0, 0.0, 1.0)]
    cases["single_late"] = [row(0.5, 40.0, 1.0)]
    cases["two_equal"] = [row(0.25, 10.0, 1.0), row(0.25, 10.0, 2.0)]
    cases["plain"] = [row(0.1 * i, 25.0 * i, 5.0 - (i - 4) ** 2 * 0.25, drop_m=-0.05 * i * i) for i in range(12)]
    cases["repeats"] = [row(t, d, h, drop_m=-d / 100.0) for t, d, h in
                        [(0.0, 0.0, 0.0), (0.1, 50.0, 1.0), (0.1, 50.0, 1.5), (0.1, 50.0, 1.5), (0.2, 100.0, 2.0),
                         (0.3, 100.0, 2.0), (0.3, 150.0, 1.0), (0.4, 150.0, 0.5), (0.4, 150.0, 0.0)]]
    rnd = random.Random(20)
    t = d = 0.0
    rows = []
    for i in range(57):
        rows.append(row(t, d, math.sin(i / 18.0) * 30.0, drop_m=-i * 0.01))
        if rnd.random() < 0.7:
            t += rnd.choice([0.001, 0.01, 0.125])
        if rnd.random() < 0.7:
            d += rnd.choice([0.5, 3.0, 17.25])
    cases["random57"] = rows
    # not monotone: result depends on the exact probing order
    rnd2 = random.Random(7)
    cases["shuffled"] = [row(rnd2.choice([0.0, 0.1, 0.2, 0.3, 0.4]), rnd2.choice([0.0, 10.0, 20.0, 30.0]),
                             rnd2.choice([0.0, 1.0, 2.0, 3.0])) for _ in range(23)]
    return cases


def queries_for(values):
    vals = sorted(set(values))
    qs = [0.0]
    if vals:
        lo, hi = vals[0], vals[-1]
        qs += [lo, hi, hi + 1e-9, hi + 0.5, hi + 5.0, math.nextafter(hi, math.inf), math.nextafter(lo, 0.0)]
        for a, b in zip(vals, vals[1:]):
            qs += [a, (a + b) / 2.0, math.nextafter(b, -math.inf), math.nextafter(a, math.inf)]
    qs += [1e9, float("inf"), float("nan")]
    out = []
    for q in qs:
        if q not in out and not (q != q and any(x != x for x in out)):
            out.append(q)
    return out


class Probe:
    """Condition / getter which records which rows it was shown (pins down the probing order)."""

    def __init__(self, fn):
        self.fn = fn
        self.seen = []

    def __call__(self, p):
        self.seen.append(round(p.time, 6) * 1000 + float(p.distance >> Distance.Meter))
        return self.fn(p)


def run_case(name, rows):
    h = hit(rows)
    emit("case", name, len(rows))
    times = [r.time for r in rows]
    dists = [r.distance >> Distance.Meter for r in rows]
    for q in queries_for(dists):
        for unit in (Distance.Meter, Distance.Yard, Distance.Foot):
            qq = Distance.Meter(q) >> unit if q == q and q not in (float("inf"),) else q
            emit("idx_dist", q, unit.name, attempt(H.find_index_of_point_for_distance, h, qq, unit),
                 attempt(H.find_time_for_distance_in_shot, h, qq, unit))
        emit("idx_dist_default", q, attempt(H.find_index_of_point_for_distance, h, q),
             attempt(H.find_time_for_distance_in_shot, h, q))
        d = Distance.Meter(q)
        emit("hr_dist", q, attempt(h.index_at_distance, d),
             attempt(lambda: h.get_at_distance(d).in_def_units()),
             attempt(h.index_at_distance, Distance.Yard(q)), attempt(h.index_at_distance, Distance.Inch(q * 39.0)))
        emit("danger", q, attempt(lambda: tuple(
            (x.in_def_units() if isinstance(x, TrajectoryData) else repr(x))
            for x in h.danger_space(d, Distance.Meter(0.5), Angular.Degree(0.0)))))
        emit("danger_str", q, attempt(lambda: str(h.danger_space(q, 1.5))))
    for q in queries_for(times):
        emit("idx_time_ge", q, attempt(H.find_index_for_time_point, h, q),
             attempt(H.find_index_for_time_point, h, q, True, 0.0))
        for dev in (1, 0.0, 0.05, 0.5, 1e-12, float("inf"), float("nan")):
            emit("idx_time_near", q, dev, attempt(H.find_index_for_time_point, h, q, False, dev))
        emit("idx_time_near_default", q, attempt(H.find_index_for_time_point, h, q, strictly_bigger_or_equal=False))
        probe = Probe(lambda e: e.time)
        emit("nearest_time", q, attempt(H.find_nearest_index_satisfying_monotonic_condition, rows, q, probe),
             probe.seen)
        probe = Probe(lambda e, q=q: e.time >= q)
        emit("first_mono", q, attempt(H.find_first_index_satisfying_monotonic_condition, rows, probe), probe.seen)
        probe = Probe(lambda e, q=q: e.time >= q)
        emit("bisect_mono", q, attempt(H.bisect_for_monotonic_condition, rows, H.BisectWrapper(rows, probe)),
             probe.seen)
        probe = Probe(lambda e, q=q: e.time >= q)
        emit("first_seq", q, attempt(H.find_first_index_matching_condition, h, probe), probe.seen)
    for q in queries_for(dists):
        probe = Probe(lambda e: e.distance >> Distance.Meter)
        emit("nearest_dist", q, attempt(H.find_nearest_index_satisfying_monotonic_condition, rows, q, probe),
             probe.seen)
    emit("errors", attempt(H.find_index_for_time_point, h, -1.0), attempt(H.find_index_for_time_point, h, -0.0),
         attempt(H.find_index_for_time_point, h, 0.0, True, -1.0), attempt(H.find_index_for_time_point, h, -1.0, False, -2.0),
         attempt(H.find_index_for_time_point, h, 0.1, False, -1e-300),
         attempt(H.find_index_for_time_point, h, None), attempt(H.find_index_for_time_point, h, "x"),
         attempt(H.find_index_of_point_for_distance, h, None), attempt(H.find_index_of_point_for_distance, h, "x"),
         attempt(h.index_at_distance, None), attempt(h.get_at_distance, "x"))
    emit("apex", attempt(H.find_index_of_apex_point, h), attempt(H.find_index_of_apex_in_points, rows),
         attempt(H.find_index_of_apex_in_points, tuple(rows)))
    emit("flags", attempt(H.find_touch_point_index, h), attempt(H.find_mach_point_index, h),
         attempt(H.find_velocity_less_than_index, h, 798.5), attempt(H.find_index_of_point_with_flag, h, TrajFlag.RANGE))
    # conditions which do not return bool
    emit("odd_conditions",
         attempt(H.find_first_index_satisfying_monotonic_condition, rows, lambda e: None),
         attempt(H.find_first_index_satisfying_monotonic_condition, rows, lambda e: 1 if e.time >= 0.2 else 0),
         attempt(H.find_first_index_satisfying_monotonic_condition, rows, lambda e: e.time),
         attempt(H.find_first_index_satisfying_monotonic_condition, rows, lambda e: 2),
         attempt(H.find_nearest_index_satisfying_monotonic_condition, rows, 0.2, lambda e: None),
         attempt(H.find_nearest_index_satisfying_monotonic_condition, rows, None, lambda e: e.time))
    no_extra = hit(rows, extra=False)
    emit("no_extra", attempt(no_extra.danger_space, 10.0, 1.0), attempt(no_extra.index_at_distance, Distance.Meter(10.0)),
         attempt(lambda: no_extra.get_at_distance(Distance.Meter(10.0)).in_def_units()))


class Pt:
    def __init__(self, height):
        self.height = height


def apex_cases():
    lists = [[], [10], [1, 2], [2, 1], [3, 3], [1, 3, 7, 10, 8, 4], [1, 2, 3, 4], [4, 3, 2, 1], [1, 5, 5, 1],
             [1, 5, 5, 7, 5], list(range(1, 100)) + list(range(99, 0, -1)), [5, 5, 5, 5, 5, 5, 5],
             [0.0, float("nan"), 2.0, 1.0], [float("nan")] * 4, [1, None, 3]]
    rnd = random.Random(99)
    for n in (3, 8, 21, 64):
        lists.append([rnd.randint(0, 9) for _ in range(n)])
    for hs in lists:
        emit("apex_pts", hs if len(hs) < 30 else len(hs), attempt(H.find_index_of_apex_in_points, [Pt(x) for x in hs]),
             attempt(H.find_index_of_apex_in_points, [Pt(Distance.Foot(x)) for x in hs if isinstance(x, (int, float))]))


def real_shot():
    calc = Calculator()
    rng = H.calculate_drag_free_range(930, 1)
    emit("drag_free", rng)
    res = calc.fire(SHOT, Distance.Meter(rng), extra_data=True)
    emit("real_len", len(res.trajectory))
    last = res[-1]
    for q in (0, 1, 499.99, 500, 1000, last.distance >> Distance.Meter, (last.distance >> Distance.Meter) + 1e-6, 1e7):
        emit("real_dist", q, H.find_index_of_point_for_distance(res, q), H.find_time_for_distance_in_shot(res, q),
             H.find_index_of_point_for_distance(res, q, Distance.Yard), res.index_at_distance(Distance.Meter(q)),
             attempt(lambda: res.get_at_distance(Distance.Meter(q)).in_def_units()))
    for q in (0, 0.001, 0.5, 1, 1.3333, last.time, last.time + (1 - 2.0 ** -52), last.time + 1, last.time + 1.0001, 99.0):
        emit("real_time", q, H.find_index_for_time_point(res, q), H.find_index_for_time_point(res, q, False),
             H.find_index_for_time_point(res, q, False, 0.0005), H.find_index_for_time_point(res, q, False, 0.5))
    rnd = random.Random(42)
    for i in rnd.sample(range(len(res.trajectory)), min(40, len(res.trajectory))):
        p = res.trajectory[i]
        emit("real_row", i, H.find_index_for_time_point(res, p.time), H.find_index_for_time_point(res, p.time, False, 0),
             H.find_index_of_point_for_distance(res, p.distance >> Distance.Meter),
             H.find_index_of_point_for_distance(res, p.distance >> Distance.Foot, Distance.Foot),
             res.index_at_distance(p.distance))
    emit("real_apex", H.find_index_of_apex_point(res), res[H.find_index_of_apex_point(res)].in_def_units())
    emit("real_flags", H.find_touch_point_index(res), H.find_mach_point_index(res),
         H.find_velocity_less_than_index(res, 600), H.find_velocity_less_than_index(res, 2000, Velocity.FPS))
    emit("real_danger", attempt(lambda: str(res.danger_space(Distance.Meter(500), Distance.Meter(1.5)))),
         attempt(lambda: str(res.danger_space(Distance.Meter(1e6), Distance.Meter(1.5)))))
    plain = calc.fire(SHOT, Distance.Meter(800), Distance.Meter(100))
    emit("plain_len", len(plain.trajectory))
    for q in (0, 50, 100, 100.0001, 799.9, 800, 800.5, 900, 5000):
        emit("plain", q, H.find_index_of_point_for_distance(plain, q), H.find_time_for_distance_in_shot(plain, q),
             plain.index_at_distance(Distance.Meter(q)), attempt(lambda: plain.get_at_distance(Distance.Meter(q)).time),
             attempt(plain.danger_space, q, 1.0)[:2])


def main():
    for name, rows in synthetic_cases().items():
        run_case(name, rows)
    apex_cases()
    real_shot()
    text = "\n".join(OUT)
    print(text)
    print("lines", len(OUT))
    print("sha256", hashlib.sha256(text.encode()).hexdigest())


main()
