"""Equivalence digest for refactoring 2 (HitResult.danger_space / get_at_distance / index_at_distance).

Prints a deterministic digest; must be identical on the clean tree and with the patch applied.
"""
import hashlib
import warnings

warnings.simplefilter("ignore")

from py_ballisticcalc import (Calculator, Shot, Weapon, Ammo, Atmo, Wind, DragModel, TableG7,
                              Unit, Distance, Angular, Velocity, Temperature, Pressure, Weight,
                              PreferredUnits, HitResult)
from py_ballisticcalc.unit import AbstractDimension


def val(x):
    if isinstance(x, AbstractDimension):
        return (type(x).__name__, repr(x.raw_value), int(x.units))
    return repr(x)


def row_id(hit, row):
    """position of the row object inside the trajectory (identity, not equality) + digest of its values"""
    idx = [i for i, r in enumerate(hit.trajectory) if r is row]
    text = repr([val(f) for f in row])
    return idx, hashlib.sha256(text.encode()).hexdigest()[:16]


PRESETS = {
    "default": {},
    "metric": dict(angular=Unit.Degree, distance=Unit.Meter, velocity=Unit.MPS, pressure=Unit.hPa,
                   temperature=Unit.Celsius, drop=Unit.Centimeter, target_height=Unit.Meter,
                   sight_height=Unit.Centimeter, twist=Unit.Centimeter),
    "odd": dict(angular=Unit.Mil, distance=Unit.Kilometer, velocity=Unit.KT, drop=Unit.Foot,
                target_height=Unit.Line, adjustment=Unit.MOA),
}


def make_shot(look_deg):
    dm = DragModel(0.223, TableG7, Weight.Grain(168), Distance.Inch(0.308), Distance.Inch(1.282))
    ammo = Ammo(dm, Velocity.FPS(2750), Temperature.Celsius(15))
    weapon = Weapon(Distance.Inch(2.0), Distance.Inch(11.24), Angular.Mil(0))
    atmo = Atmo(Distance.Foot(500), Pressure.InHg(29.5), Temperature.Fahrenheit(59), 40)
    return Shot(weapon=weapon, ammo=ammo, look_angle=Angular.Degree(look_deg), atmo=atmo,
                winds=[Wind(Velocity.MPH(5), Angular.OClock(3))])


def ds_line(tag, hit, *args, **kwargs):
    try:
        ds = hit.danger_space(*args, **kwargs)
    except Exception as exc:  # pylint: disable=broad-except
        print(tag, "EXC", type(exc).__name__, str(exc).replace(object.__repr__(hit), "<hit>"))
        return
    print(tag, "at", row_id(hit, ds.at_range), "begin", row_id(hit, ds.begin), "end", row_id(hit, ds.end),
          "h", val(ds.target_height), "look", val(ds.look_angle),
          "same-look-obj", ds.look_angle is hit.shot.look_angle)
    print(tag, "str", str(ds))


def run(name):
    PreferredUnits.defaults()
    PreferredUnits.set(**PRESETS[name])
    calc = Calculator()
    for look in (0.0, 5.0):
        shot = make_shot(look)
        calc.set_weapon_zero(shot, Distance.Yard(100))
        hit = calc.fire(shot, Distance.Yard(1000), Distance.Yard(5), extra_data=True)
        plain = calc.fire(shot, Distance.Yard(300), Distance.Yard(100))
        tag = f"{name} look={look}"
        print(tag, "rows", len(hit.trajectory), len(plain.trajectory))

        # explicit quantities vs the same quantities as bare numbers in the preferred units
        ds_line(tag + " explicit", hit, Distance.Yard(500), Distance.Meter(1.5), Angular.Degree(look))
        ds_line(tag + " bare", hit, Distance.Yard(500) >> PreferredUnits.distance,
                Distance.Meter(1.5) >> PreferredUnits.target_height,
                Angular.Degree(look) >> PreferredUnits.angular)
        ds_line(tag + " no-look", hit, Distance.Yard(500), Distance.Inch(10))
        ds_line(tag + " look=None", hit, Distance.Yard(500), Distance.Inch(10), None)
        ds_line(tag + " look=0", hit, Distance.Yard(500), Distance.Inch(10), 0)
        ds_line(tag + " look=kw", hit, at_range=Distance.Meter(700), target_height=Distance.Centimeter(50),
                look_angle=Angular.Mil(3))
        # edges: first row, exactly on a row, last row, beyond the last row
        ds_line(tag + " at=0", hit, 0, Distance.Inch(10))
        ds_line(tag + " at=neg", hit, Distance.Yard(-3), Distance.Inch(10))
        ds_line(tag + " at=tiny", hit, Distance.Inch(1), Distance.Inch(10))
        last = hit.trajectory[-1].distance
        ds_line(tag + " at=last", hit, Distance.Inch(last.raw_value), Distance.Inch(10))
        ds_line(tag + " at=near-last", hit, Distance.Yard(999), Distance.Yard(3))
        ds_line(tag + " at=beyond", hit, Distance.Yard(1200), Distance.Inch(10))
        ds_line(tag + " at=beyond-bare", hit, 1e9, 10)
        # heights: zero, negative, huge, nan
        ds_line(tag + " h=0", hit, Distance.Yard(400), 0)
        ds_line(tag + " h=0q", hit, Distance.Yard(400), Distance.Inch(0))
        ds_line(tag + " h=neg", hit, Distance.Yard(400), Distance.Inch(-4))
        ds_line(tag + " h=huge", hit, Distance.Yard(400), Distance.Mile(10))
        ds_line(tag + " h=nan", hit, Distance.Yard(400), Distance.Inch(float("nan")))
        ds_line(tag + " h=small", hit, Distance.Yard(150), Distance.Millimeter(1))
        # result without extra data refuses
        ds_line(tag + " plain", plain, Distance.Yard(100), Distance.Inch(10))

        # index_at_distance / get_at_distance (explicit quantities, bare floats compare with raw inches)
        for d in (Distance.Yard(0), Distance.Yard(100), Distance.Meter(100), Distance.Yard(1000),
                  Distance.Foot(3000.0001), Distance.Yard(1001), Distance.Yard(-1), 3600.0, 1e12):
            i = hit.index_at_distance(d)
            try:
                row = hit.get_at_distance(d)
                got = row_id(hit, row)
            except Exception as exc:  # pylint: disable=broad-except
                got = ("EXC", type(exc).__name__, str(exc))
            print(tag, "index", val(d), i, got)
        print(tag, "plain index", plain.index_at_distance(Distance.Yard(200)),
              row_id(plain, plain.get_at_distance(Distance.Yard(200))))

    # hand-made results: empty and single-row trajectories
    shot = make_shot(0.0)
    empty = HitResult(shot, [], True)
    print(name, "empty index", empty.index_at_distance(Distance.Yard(1)))
    ds_line(name + " empty", empty, Distance.Yard(1), Distance.Inch(1))
    try:
        empty.get_at_distance(Distance.Yard(1))
    except Exception as exc:  # pylint: disable=broad-except
        print(name, "empty get", type(exc).__name__, exc)
    one = HitResult(shot, calc.fire(shot, Distance.Yard(100), Distance.Yard(100)).trajectory[:1], True)
    ds_line(name + " one-row", one, Distance.Yard(0), Distance.Inch(1))
    ds_line(name + " one-row-beyond", one, Distance.Yard(1), Distance.Inch(1))
    two = HitResult(shot, tuple(calc.fire(shot, Distance.Yard(100), Distance.Yard(100)).trajectory), True)
    ds_line(name + " tuple-rows", two, Distance.Yard(50), Distance.Inch(1))


for preset in PRESETS:
    run(preset)
PreferredUnits.defaults()
