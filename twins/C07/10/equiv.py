"""Digest for refactoring 1: Ammo.calc_powder_sens / get_velocity_for_temp and Sight SFP steps / get_adjustment."""
import warnings
warnings.simplefilter("ignore")

from py_ballisticcalc import (Ammo, Atmo, Calculator, DragModel, PreferredUnits, Shot, Sight, TableG7, Unit,
                              Weapon, Wind, loadImperialUnits, loadMetricUnits, loadMixedUnits)

out = []


def emit(*parts):
    out.append(" | ".join(str(p) for p in parts))


def q(x):
    """raw value + defined unit of a quantity"""
    return f"{x.raw_value!r}@{x.units!r}"


def attempt(label, fn):
    try:
        emit(label, fn())
    except Exception as exc:  # pylint: disable=broad-except
        emit(label, "EXC", type(exc).__name__, exc)


def dm():
    return DragModel(0.223, TableG7, Unit.Grain(168), Unit.Inch(0.308), Unit.Inch(1.282))


CONFIGS = {
    "defaults": {},
    "metric-ish": dict(temperature=Unit.Celsius, velocity=Unit.MPS, distance=Unit.Meter, adjustment=Unit.MOA),
    "kelvin-kmh-km": dict(temperature=Unit.Kelvin, velocity=Unit.KMH, distance=Unit.Kilometer,
                          adjustment=Unit.CmPer100m),
    "rankin-kt-foot": dict(temperature=Unit.Rankin, velocity=Unit.KT, distance=Unit.Foot,
                           adjustment=Unit.InchesPer100Yd),
}

for name, cfg in CONFIGS.items():
    PreferredUnits.defaults()
    PreferredUnits.set(**cfg)
    emit("=== config", name)

    # ---- Ammo.get_velocity_for_temp: bare numbers (incl. 0 and negatives) and explicit quantities
    for sens in (False, True):
        ammo = Ammo(dm(), Unit.MPS(800), Unit.Celsius(15), 0.0123, sens)
        for t in (0, 0.0, -0.0, 15, -40, 273.15, 59.0, 1e6, float("inf"), float("nan")):
            attempt(f"gvt sens={sens} bare {t!r}", lambda t=t, ammo=ammo: q(ammo.get_velocity_for_temp(t)))
        for tq in (Unit.Celsius(0), Unit.Fahrenheit(0), Unit.Kelvin(0), Unit.Rankin(500), Unit.Celsius(-12.5)):
            before = tq.units
            attempt(f"gvt sens={sens} explicit {q(tq)}", lambda tq=tq, ammo=ammo: q(ammo.get_velocity_for_temp(tq)))
            emit("   argument unit before/after", repr(before), repr(tq.units))
        same = ammo.get_velocity_for_temp(5)
        emit("   returns mv itself", same is ammo.mv, q(ammo.mv), q(ammo.powder_temp))

    # zero / odd baselines -> ZeroDivisionError branch and friends
    for mv in (0, 0.0, Unit.MPS(0), float("inf"), -100):
        ammo = Ammo(dm(), mv, None, 0.5, True)
        attempt(f"gvt mv={mv!r} bare 0", lambda ammo=ammo: q(ammo.get_velocity_for_temp(0)))
        attempt(f"gvt mv={mv!r} 30C", lambda ammo=ammo: q(ammo.get_velocity_for_temp(Unit.Celsius(30))))
    ammo = Ammo(dm(), Unit.FPS(2600), 0, 0, True)  # bare 0 powder temperature, zero modifier
    emit("bare-0 powder_temp", q(ammo.powder_temp))
    attempt("gvt zero modifier", lambda: q(ammo.get_velocity_for_temp(0)))
    attempt("gvt bad type", lambda: q(ammo.get_velocity_for_temp("hot")))
    attempt("gvt None", lambda: q(ammo.get_velocity_for_temp(None)))

    # ---- Ammo.calc_powder_sens
    for ov, ot in ((830, 0), (Unit.MPS(830), Unit.Celsius(0)), (0, 0), (-5, -5), (2700, 100.5),
                   (Unit.FPS(2700), Unit.Fahrenheit(0)), (Unit.MPS(800), 40), (790, Unit.Celsius(15)),
                   (float("nan"), 3), ("x", 3), (3, None)):
        ammo = Ammo(dm(), Unit.MPS(800), Unit.Celsius(15))
        attempt(f"cps {ov!r} {ot!r}", lambda ov=ov, ot=ot, ammo=ammo: repr(ammo.calc_powder_sens(ov, ot)))
        emit("   stored modifier", repr(ammo.temp_modifier))
    ammo = Ammo(dm(), 0, 0)
    attempt("cps zero baseline", lambda: repr(ammo.calc_powder_sens(10, 10)))
    ammo = Ammo(dm(), Unit.MPS(800), Unit.Celsius(15), use_powder_sensitivity=True)
    ammo.calc_powder_sens(Unit.MPS(780), Unit.Celsius(-10))
    attempt("cps then gvt", lambda: q(ammo.get_velocity_for_temp(Unit.Celsius(-25))))

    # ---- Sight: SFP reticle steps and get_adjustment
    for fp in ("SFP", "FFP", "LWIR"):
        sight = Sight(fp, Unit.Meter(100), Unit.Mil(0.2), Unit.MOA(0.25))
        for td in (0, 100, 333.3, -50, Unit.Meter(100), Unit.Yard(437), Unit.Inch(0)):
            for mag in (1, 7.5, 0):
                if fp == "SFP":
                    attempt(f"steps {td!r} x{mag}",
                            lambda: [q(s) for s in sight._adjust_sfp_reticle_steps(td, mag)])
                attempt(f"adj {fp} {td!r} x{mag}",
                        lambda: [repr(c) for c in sight.get_adjustment(td, Unit.Mil(1.7), Unit.MOA(-0.8), mag)])
        attempt(f"adj {fp} bad drop", lambda: sight.get_adjustment(Unit.Meter(100), None, Unit.MOA(1), 0))
    sight = Sight("FFP", 2, 0.1, 0.1)  # bare click sizes in PreferredUnits.adjustment
    emit("bare sight", q(sight.scale_factor), q(sight.h_click_size), q(sight.v_click_size))
    sight.focal_plane = "XYZ"
    attempt("adj wrong plane", lambda: sight.get_adjustment(Unit.Meter(100), Unit.Mil(1), Unit.Mil(1), 1))
    attempt("steps wrong plane", lambda: sight._adjust_sfp_reticle_steps(Unit.Meter(100), 1))

# ---- whole shots under the three shipped presets and one custom assignment
for loader in (loadImperialUnits, loadMetricUnits, loadMixedUnits, None):
    PreferredUnits.defaults()
    if loader is None:
        PreferredUnits.set(temperature=Unit.Kelvin, velocity=Unit.KT, distance=Unit.Foot, adjustment=Unit.Thousandth)
        emit("=== shot custom")
    else:
        loader()
        emit("=== shot", loader.__name__)
    weapon = Weapon(Unit.Centimeter(9), Unit.Inch(12), sight=Sight("SFP", Unit.Meter(100), Unit.Mil(0.1), Unit.Mil(0.1)))
    ammo = Ammo(dm(), Unit.MPS(790), Unit.Celsius(15), 0.0, True)
    ammo.calc_powder_sens(Unit.MPS(770), Unit.Celsius(-5))
    atmo = Atmo(Unit.Meter(350), Unit.hPa(990), Unit.Celsius(3), 60, Unit.Celsius(-8))
    shot = Shot(weapon, ammo, Unit.Degree(2), atmo=atmo, winds=[Wind(Unit.MPS(4), Unit.Degree(70))])
    calc = Calculator()
    emit("zero", q(calc.set_weapon_zero(shot, Unit.Meter(100))))
    emit("powder_temp unit after zeroing", repr(atmo.powder_temp.units))
    hit = calc.fire(shot, Unit.Meter(600), Unit.Meter(150))
    for row in hit:
        emit(repr(row.time), *[q(v) if hasattr(v, "raw_value") else repr(v) for v in row[1:]])
        emit("   clicks", *[repr(c) for c in weapon.sight.get_trajectory_adjustment(row, 10)]
             if row.distance.raw_value else ["(muzzle)"])

PreferredUnits.defaults()
print("\n".join(out))
