"""Equivalence digest for C07 / round 3 / refactoring 2
(solver side: TrajectoryCalc._init_trajectory, calc_stability_coefficient, _WindSock, row constructors,
 Wind.vector, Shot.winds / barrel_elevation / barrel_azimuth)."""
import hashlib
import warnings

warnings.simplefilter("ignore")

import py_ballisticcalc as pbc
from py_ballisticcalc import (PreferredUnits, Unit, Distance, Velocity, Angular, Temperature, Pressure, Weight,
                              DragModel, DragModelMultiBC, BCPoint, TableG7, TableG1, Ammo, Weapon, Shot, Atmo, Vacuum,
                              Wind, Calculator, RangeError, Vector, TrajFlag)
from py_ballisticcalc.trajectory_calc import _WindSock, create_trajectory_row

SLOTS = ('angular', 'distance', 'velocity', 'pressure', 'temperature', 'diameter', 'length', 'weight',
         'adjustment', 'drop', 'energy', 'ogw', 'sight_height', 'target_height', 'twist')
CONFIGS = {
    'default': {},
    'metric': dict(angular=Unit.Degree, distance=Unit.Meter, velocity=Unit.MPS, pressure=Unit.hPa,
                   temperature=Unit.Celsius, diameter=Unit.Centimeter, length=Unit.Centimeter, weight=Unit.Gram,
                   adjustment=Unit.CmPer100m, drop=Unit.Centimeter, energy=Unit.Joule, ogw=Unit.Kilogram,
                   sight_height=Unit.Centimeter, target_height=Unit.Meter, twist=Unit.Centimeter),
    'odd': dict(angular=Unit.OClock, distance=Unit.NauticalMile, velocity=Unit.KT, pressure=Unit.PSI,
                temperature=Unit.Rankin, diameter=Unit.Line, length=Unit.Millimeter, weight=Unit.Newton,
                adjustment=Unit.InchesPer100Yd, drop=Unit.Kilometer, energy=Unit.Joule, ogw=Unit.Ounce,
                sight_height=Unit.Yard, target_height=Unit.Mile, twist=Unit.Foot),
}


def raw(x):
    """numbers are kept as numbers: printed with repr() (so int 0 and float 0.0 show), compared with =="""
    if isinstance(x, pbc.AbstractDimension):
        return (type(x).__name__, x.raw_value)
    return x


def rows_digest(rows):
    flat = [tuple(raw(v) for v in row) for row in rows]
    return len(flat), hashlib.sha256(repr(flat).encode()).hexdigest()


def attempt(fn, *a, **kw):
    try:
        return ('ok', fn(*a, **kw))
    except RangeError as e:
        return ('RangeError', e.reason, rows_digest(e.incomplete_trajectory),
                [raw(v) for v in e.incomplete_trajectory[-1]])
    except Exception as e:  # noqa
        return ('err', type(e).__name__, str(e))


def dm_full():
    return DragModel(0.223, TableG7, Weight.Grain(168), Distance.Inch(0.308), Distance.Inch(1.282))


def dm_bare_bc():
    return DragModel(0.47, TableG1)          # no weight / diameter / length -> no spin drift


def dm_multi():
    return DragModelMultiBC([BCPoint(0.275, V=Velocity.MPS(800)), BCPoint(0.255, V=Velocity.MPS(500)),
                             BCPoint(0.26, Mach=2.0)], TableG7, Weight.Grain(178), Distance.Inch(0.308),
                            Distance.Inch(1.3))


def shots():
    std_atmo = lambda: Atmo(Distance.Meter(150), Pressure.hPa(990), Temperature.Celsius(23), 40, Temperature.Celsius(5))
    yield 'plain', Shot(Weapon(Distance.Inch(2), Distance.Inch(12)), Ammo(dm_full(), Velocity.FPS(2750)))
    yield 'cant+look+rel+winds', Shot(
        Weapon(Distance.Centimeter(9), Distance.Inch(-11), Angular.Mil(1.2)),
        Ammo(dm_full(), Velocity.MPS(800), Temperature.Celsius(15), 0.8, True),
        Angular.Degree(4), Angular.MOA(2.5), Angular.Degree(12), std_atmo(),
        # deliberately unsorted; the last stretch ends before the end of the trajectory
        [Wind(Velocity.KMH(10), Angular.OClock(9), Distance.Meter(450)),
         Wind(Velocity.MPS(4), Angular.Degree(70), Distance.Meter(120)),
         Wind(Velocity.MPH(7), Angular.Degree(200), Distance.Meter(300))])
    yield 'one endless wind', Shot(Weapon(Distance.Inch(1.5), Distance.Inch(8)), Ammo(dm_multi(), Velocity.MPS(780)),
                                   winds=[Wind(Velocity.MPS(6), Angular.Degree(-90))])
    yield 'equal until', Shot(Weapon(Distance.Inch(1.5), Distance.Inch(8)), Ammo(dm_full(), Velocity.MPS(780)),
                              winds=[Wind(Velocity.MPS(6), Angular.Degree(90), Distance.Meter(200)),
                                     Wind(Velocity.MPS(2), Angular.Degree(270), Distance.Meter(200)),
                                     Wind(Velocity.MPS(0), Angular.Degree(0), Distance.Meter(0))])
    yield 'no twist', Shot(Weapon(Distance.Inch(2), Distance.Inch(0)), Ammo(dm_full(), Velocity.FPS(2600)),
                           Angular.Degree(-3), atmo=std_atmo())
    yield 'no dims', Shot(Weapon(Distance.Inch(2), Distance.Inch(9)), Ammo(dm_bare_bc(), Velocity.FPS(2600)),
                          cant_angle=Angular.Degree(-90))
    yield 'vacuum', Shot(Weapon(Distance.Inch(2), Distance.Inch(9)), Ammo(dm_full(), Velocity.FPS(2600)),
                         atmo=Vacuum(Distance.Foot(1000), Temperature.Celsius(10)))
    yield 'cold powder, zero sight height', Shot(
        Weapon(Distance.Inch(0), Distance.Inch(10), Angular.Degree(0.1)),
        Ammo(dm_full(), Velocity.MPS(820), Temperature.Celsius(15), 1.5, True),
        atmo=Atmo(Distance.Foot(-300), Pressure.InHg(30.5), Temperature.Fahrenheit(0), 90, Temperature.Fahrenheit(-40)))
    yield 'high angle', Shot(Weapon(Distance.Inch(2), Distance.Inch(12)), Ammo(dm_full(), Velocity.FPS(2750)),
                             relative_angle=Angular.Degree(35), cant_angle=Angular.Degree(180))


def shot_summary(shot):
    return ('elev', shot.barrel_elevation.raw_value, int(shot.barrel_elevation.units),
            'azim', shot.barrel_azimuth.raw_value, int(shot.barrel_azimuth.units),
            'winds', [(w.until_distance.raw_value, w.velocity.raw_value, tuple(w.vector),
                       type(w.vector).__name__) for w in shot.winds],
            type(shot.winds).__name__)


def run_config(cfg_name, cfg):
    PreferredUnits.defaults()
    for k, v in cfg.items():
        setattr(PreferredUnits, k, v)
    out = []
    for name, shot in shots():
        calc = Calculator()
        out.append((name, 'summary', shot_summary(shot)))
        z = attempt(calc.set_weapon_zero, shot, Distance.Meter(100))
        out.append((name, 'zero', raw(z[1]) if z[0] == 'ok' else z))
        out.append((name, 'summary after zero', shot_summary(shot)))
        for extra in (False, True):
            r = attempt(calc.fire, shot, Distance.Meter(800), Distance.Meter(50), extra, 0.0 if not extra else 0.2)
            if r[0] == 'ok':
                res = r[1]
                out.append((name, 'fire', extra, rows_digest(res.trajectory), [raw(v) for v in res.trajectory[-1]],
                            [int(v.units) for v in res.trajectory[-1] if isinstance(v, pbc.AbstractDimension)]))
                if extra:
                    ds = attempt(res.danger_space, Distance.Meter(400), Distance.Meter(1.7))
                    out.append((name, 'danger', (raw(ds[1].begin.distance), raw(ds[1].end.distance))
                                if ds[0] == 'ok' else ds))
            else:
                out.append((name, 'fire', extra, r))
        # internal floats the integrator was initialised with
        c = calc._calc
        out.append((name, 'init', [getattr(c, a, '<unset>') for a in (
            'look_angle', 'twist', 'length', 'diameter', 'weight', 'barrel_elevation', 'barrel_azimuth', 'sight_height',
            'cant_cosine', 'cant_sine', 'alt0', 'calc_step', 'muzzle_velocity', 'stability_coefficient')],
            getattr(c, '_bc', '<unset>'), attempt(lambda: (len(c.table_data), c.table_data is shot.ammo.dm.drag_table, len(calc.cdm)))))
        # long shot that ends with a RangeError
        r = attempt(calc.fire, shot, Distance.Meter(6000), Distance.Meter(500))
        out.append((name, 'long', r if r[0] != 'ok' else (rows_digest(r[1].trajectory),)))
    return out


results = {}
for cfg_name, cfg in CONFIGS.items():
    results[cfg_name] = run_config(cfg_name, cfg)
    print('CONFIG', cfg_name, hashlib.sha256(repr(results[cfg_name]).encode()).hexdigest())
for item in results['default']:
    print('R', item)
# physical results are the same numbers under every configuration (a defaulted bare 0 may be int 0 or float 0.0)
print('SAME NUMBERS UNDER ALL CONFIGS', all(results[k] == results['default'] for k in results))
PreferredUnits.defaults()

# ---------------------------------------------------------------- broken shots: which error, and what was already read
class Probe:
    def __init__(self):
        self.calc = Calculator()

    def run(self, shot):
        r = attempt(self.calc.fire, shot, Distance.Meter(100), Distance.Meter(50))
        c = self.calc._calc
        seen = [a for a in ('_bc', '_table_data', '_curve', 'look_angle', 'twist', 'length', 'diameter', 'weight',
                            'barrel_elevation', 'barrel_azimuth', 'sight_height', 'cant_cosine', 'cant_sine', 'alt0',
                            'calc_step', 'muzzle_velocity', 'stability_coefficient') if hasattr(c, a)]
        return (r if r[0] != 'ok' else rows_digest(r[1].trajectory)), seen


def broken(mutate):
    shot = Shot(Weapon(Distance.Inch(2), Distance.Inch(12)), Ammo(dm_full(), Velocity.FPS(2750)))
    mutate(shot)
    return shot


def set_attr(path, value):
    def m(shot):
        obj = shot
        *head, last = path.split('.')
        for h in head:
            obj = getattr(obj, h)
        setattr(obj, last, value)
    return m


for path in ('weapon.twist', 'ammo.dm.length', 'ammo.dm.diameter', 'ammo.dm.weight', 'weapon.sight_height',
             'cant_angle', 'look_angle', 'relative_angle', 'weapon.zero_elevation', 'atmo', 'weapon', 'ammo',
             'ammo.dm', 'ammo.dm.drag_table', 'ammo.dm.BC', 'ammo.mv', 'atmo._altitude', 'atmo._powder_temp',
             'atmo._pressure', 'atmo._temperature'):
    for bad in (None, 2.0, Temperature.Celsius(3)):
        print('BROKEN', path, repr(bad)[:30], Probe().run(broken(set_attr(path, bad))))

# ---------------------------------------------------------------- _WindSock on its own
def sock_trace(winds, ranges):
    sock = _WindSock(winds)
    trace = [('init', sock.current, repr(sock.next_range), tuple(map(repr, sock.current_vector())))]
    for r in ranges:
        v = sock.vector_for_range(r)
        trace.append((repr(r), sock.current, repr(sock.next_range), tuple(map(repr, v)), type(v).__name__))
    return trace


w3 = (Wind(Velocity.FPS(10), Angular.Degree(90), Distance.Foot(100)),
      Wind(Velocity.FPS(20), Angular.Degree(45), Distance.Foot(100)),
      Wind(Velocity.FPS(30), Angular.Degree(180), Distance.Foot(300)))
for label, winds in (('none', None), ('empty', ()), ('three', w3), ('list', list(w3[:1])),
                     ('custom max', (Wind(Velocity.FPS(5), Angular.Degree(10), max_distance_feet=500),))):
    print('SOCK', label, sock_trace(winds, (0, 50, 99.999, 100, 100, 100, 250, 300, 1e8, 1e8, 1e9, 5, float('inf'),
                                            float('nan'))))

# ---------------------------------------------------------------- rows
for args in ((1.5, Vector(300.0, -2.5, 0.4), Vector(2000.0, -30.0, 1.0), 2000.25, 1116.0, 0.01, 0.05, 0.98, 0.3, 168.0,
              TrajFlag.RANGE),
             (0.0, Vector(0.0, -0.2, 0.0), Vector(2700.0, 5.0, 0.0), 2700.0, 1100.0, 0, 0.1, 1.0, 0.0, 168, 0),
             (2.0, Vector(-5.0, 0.0, -1.0), Vector(-1.0, -2.0, -3.0), 3.7, 1000.0, -0.5, -0.2, 0.0, 1e-9, 0.0, 31),
             (float('inf'), Vector(1e300, 1e300, -1e300), Vector(0.0, 0.0, 0.0), 0.0, 1.0, 0.0, 0.0, 1.0, 0.0, 1e200,
              TrajFlag.ZERO),
             (float('inf'), Vector(1e300, 1e300, -1e300), Vector(0.0, 0.0, 0.0), 1e90, 1.0, 0.0, 1.5707963267948966, 1.0,
              0.0, 1e100, TrajFlag.ZERO)):
    r = attempt(create_trajectory_row, *args)
    if r[0] != 'ok':
        print('ROW', r)
        continue
    row = r[1]
    print('ROW', [raw(v) for v in row], [(type(v).__name__, int(v.units), type(v.raw_value).__name__)
                                         for v in row if isinstance(v, pbc.AbstractDimension)],
          [str(v) for v in row[:3]])
print('ROW err', attempt(create_trajectory_row, 1.0, Vector(1.0, 2.0, 3.0), Vector(1.0, 2.0, 3.0), None, 1.0, 0.0, 0.0,
                         1.0, 0.0, 1.0, 0))
print('ROW err', attempt(create_trajectory_row, 1.0, Vector(1.0, 2.0, 3.0), Vector(1.0, 2.0, 3.0), 5.0, 0.0, 0.0, 0.0,
                         1.0, 0.0, 1.0, 0))
