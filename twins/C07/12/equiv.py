"""Digest for refactoring 3: DragModel.__init__, make_data_points, linear_interpolation (and their users)."""
import hashlib
import random
import warnings

warnings.simplefilter("ignore")

from py_ballisticcalc import (Ammo, Atmo, BCPoint, Calculator, DragDataPoint, DragModel, DragModelMultiBC,
                              PreferredUnits, Shot, TableG1, TableG7, Unit, Weapon, Wind, loadImperialUnits,
                              loadMetricUnits, loadMixedUnits)
from py_ballisticcalc.drag_model import linear_interpolation, make_data_points

out = []


def emit(*parts):
    out.append(" | ".join(str(p) for p in parts))


def q(x):
    return f"{x.raw_value!r}@{x.units!r}"


def attempt(label, fn):
    try:
        emit(label, fn())
    except Exception as exc:  # pylint: disable=broad-except
        emit(label, "EXC", type(exc).__name__, exc, "cause:", type(exc.__cause__).__name__, exc.__cause__)


def table_digest(points):
    text = repr([(p.Mach, p.CD) for p in points])
    return f"{len(points)} pts {hashlib.sha256(text.encode()).hexdigest()[:16]} first={points[0]!r} last={points[-1]!r}"


def model_digest(m):
    return (repr(m.BC), q(m.weight), q(m.diameter), q(m.length),
            repr(getattr(m, "sectional_density", "<unset>")), repr(getattr(m, "form_factor", "<unset>")),
            repr(m), table_digest(m.drag_table))


NAN = float("nan")
INF = float("inf")

# ---- linear_interpolation (independent of the preferred units)
XP = [0.5, 1.0, 1.5, 2.0, 3.0]
YP = [10.0, 20.0, 15.0, 40.0, -5.0]
XS = [-INF, -1, 0, 0.5, 0.50001, 0.75, 1.0, 1.25, 1.4999999, 1.5, 1.9, 2.0, 2.5, 2.9999, 3.0, 3.1, 1e300, INF, NAN]
attempt("li basic", lambda: [repr(v) for v in linear_interpolation(XS, XP, YP)])
attempt("li tuples", lambda: [repr(v) for v in linear_interpolation(tuple(XS), tuple(XP), tuple(YP))])
attempt("li result type", lambda: type(linear_interpolation((1.2,), tuple(XP), tuple(YP))).__name__)
attempt("li generator x", lambda: [repr(v) for v in linear_interpolation((v for v in XS), XP, YP)])
attempt("li empty x", lambda: linear_interpolation([], XP, YP))
attempt("li empty xp", lambda: linear_interpolation([1.0], [], []))
attempt("li empty both", lambda: linear_interpolation([], [], []))
attempt("li mismatch", lambda: linear_interpolation([1.0], [1, 2], [1]))
attempt("li one point", lambda: [repr(v) for v in linear_interpolation([0, 1, 2, NAN], [1], [7])])
attempt("li two points", lambda: [repr(v) for v in linear_interpolation([0, 1, 1.5, 2, 3, NAN], [1, 2], [7, 9])])
attempt("li duplicates", lambda: [repr(v) for v in linear_interpolation(
    [0.9, 1, 1.5, 2, 2.0001, 2.5, 3, 3.5, 4], [1, 2, 2, 2, 3, 3, 4], [1, 2, 3, 4, 5, 6, 7])])
attempt("li unsorted xp", lambda: [repr(v) for v in linear_interpolation(
    [0.1 * i for i in range(0, 60)], [1, 4, 2, 5, 3, 0.5, 5.5], [1, 2, 3, 4, 5, 6, 7])])
attempt("li descending xp", lambda: [repr(v) for v in linear_interpolation(
    [0.1 * i for i in range(0, 60)], [5, 4, 3, 2, 1], [1, 2, 3, 4, 5])])
attempt("li nan in xp", lambda: [repr(v) for v in linear_interpolation(
    [0.1 * i for i in range(0, 60)], [1, 2, NAN, 4, 5], [1, 2, 3, 4, 5])])
attempt("li nan ends", lambda: [repr(v) for v in linear_interpolation(
    [0, 1.5, 2.5, 9], [NAN, 2, 3, NAN], [1, 2, 3, 4])])
attempt("li ints", lambda: [repr(v) for v in linear_interpolation([0, 1, 2, 3, 4, 5, 6], [1, 3, 5], [10, 20, 40])])
attempt("li bad item", lambda: linear_interpolation([1.2, "a"], XP, YP))
attempt("li None x", lambda: linear_interpolation(None, XP, YP))
rnd = random.Random(12345)
for n in (2, 3, 4, 5, 8, 16, 17, 79):
    xp = sorted(rnd.uniform(0, 5) for _ in range(n))
    yp = [rnd.uniform(-1, 1) for _ in range(n)]
    xs = [rnd.uniform(-0.5, 5.5) for _ in range(400)] + xp
    res = linear_interpolation(xs, xp, yp)
    emit("li random", n, len(res), hashlib.sha256(repr(res).encode()).hexdigest()[:24])
    xq = [round(v, 1) for v in xp]  # many ties
    res = linear_interpolation([round(v, 1) for v in xs], xq, yp)
    emit("li random ties", n, len(res), hashlib.sha256(repr(res).encode()).hexdigest()[:24])

# ---- make_data_points
attempt("mdp dicts", lambda: table_digest(make_data_points(TableG7)))
attempt("mdp points", lambda: table_digest(make_data_points([DragDataPoint(1, 0.2), DragDataPoint(2, 0.3)])))
src = [DragDataPoint(1, 0.2), {"Mach": 2, "CD": 0.3, "extra": 1}]
attempt("mdp mixed", lambda: (table_digest(make_data_points(src)), make_data_points(src)[0] is src[0]))
attempt("mdp generator", lambda: table_digest(make_data_points(p for p in TableG1)))
attempt("mdp tuple", lambda: table_digest(make_data_points(tuple(TableG1))))
attempt("mdp empty", lambda: make_data_points([]))
attempt("mdp None", lambda: make_data_points(None))
attempt("mdp int", lambda: make_data_points(5))
attempt("mdp missing key", lambda: make_data_points([{"Mach": 1, "CD": 2}, {"Mach": 1}]))
attempt("mdp wrong item", lambda: make_data_points([{"Mach": 1, "CD": 2}, 3.0]))
attempt("mdp pair item", lambda: make_data_points([(1, 2)]))
attempt("mdp str", lambda: make_data_points("ab"))
attempt("mdp object item", lambda: make_data_points([object()]))


def failing():
    yield {"Mach": 1, "CD": 2}
    raise KeyError("from generator")


def failing2():
    yield {"Mach": 1, "CD": 2}
    raise RuntimeError("from generator")


attempt("mdp generator KeyError", lambda: make_data_points(failing()))
attempt("mdp generator RuntimeError", lambda: make_data_points(failing2()))

CONFIGS = {
    "defaults": {},
    "gram-mm-cm": dict(weight=Unit.Gram, diameter=Unit.Millimeter, length=Unit.Centimeter, velocity=Unit.MPS),
    "pound-line-foot": dict(weight=Unit.Pound, diameter=Unit.Line, length=Unit.Foot, velocity=Unit.KMH),
    "newton-yard-km": dict(weight=Unit.Newton, diameter=Unit.Yard, length=Unit.Kilometer, velocity=Unit.KT),
    "ounce-cm-mm": dict(weight=Unit.Ounce, diameter=Unit.Centimeter, length=Unit.Millimeter, velocity=Unit.MPH),
}

for name, cfg in CONFIGS.items():
    PreferredUnits.defaults()
    PreferredUnits.set(**cfg)
    emit("=== config", name)

    # ---- DragModel: bare numbers (0, negatives, tiny, nan) vs explicit quantities
    for w, d, ln in ((0, 0, 0), (0.0, -0.0, 0), (168, 0.308, 1.282), (168, 0, 1.2), (0, 0.308, 1.2), (-1, 0.3, 1),
                     (1, -0.3, 1), (5e-324, 5e-324, 5e-324), (NAN, 1, 1), (1, NAN, 1), (INF, 1, -1), (1e308, 1e308, 1e308),
                     (Unit.Grain(168), Unit.Inch(0.308), Unit.Inch(1.282)),
                     (Unit.Gram(10.9), Unit.Millimeter(7.82), Unit.Centimeter(3.2)),
                     (Unit.Grain(0), Unit.Inch(0), Unit.Inch(0)), (Unit.Grain(168), 0.308, Unit.Millimeter(30)),
                     (Unit.Grain(-5), Unit.Inch(0.3), Unit.Inch(1)), (Unit.Pound(0.024), Unit.Line(3.08), 0)):
        attempt(f"dm {w!r} {d!r} {ln!r}", lambda: model_digest(DragModel(0.223, TableG7, w, d, ln)))
    attempt("dm defaults", lambda: model_digest(DragModel(0.5, TableG1)))
    attempt("dm keyword", lambda: model_digest(DragModel(bc=1, drag_table=TableG1, length=2, diameter=1, weight=3)))
    own = [DragDataPoint(0.5, 0.2), DragDataPoint(1.5, 0.4)]
    attempt("dm copies table", lambda: (lambda m: (m.drag_table is own, m.drag_table[0] is own[0], m.drag_table == own))(
        DragModel(0.3, own, 1, 1, 1)))
    # argument checks: which error wins
    attempt("dm empty table", lambda: DragModel(0.3, []))
    attempt("dm empty table, bad bc", lambda: DragModel(0, []))
    attempt("dm bad bc", lambda: DragModel(0, TableG7))
    attempt("dm negative bc", lambda: DragModel(-0.1, TableG7, 1, 1, 1))
    attempt("dm nan bc", lambda: model_digest(DragModel(NAN, TableG7, 1, 1, 1)))
    attempt("dm None bc", lambda: DragModel(None, TableG7))
    attempt("dm str bc, empty", lambda: DragModel("x", ()))
    attempt("dm None table", lambda: DragModel(0.3, None))
    attempt("dm generator table", lambda: DragModel(0.3, (p for p in TableG7)))
    attempt("dm bad table items", lambda: DragModel(0.3, [1, 2, 3]))
    attempt("dm bad table items, bad bc", lambda: DragModel(-3, [1, 2, 3]))
    attempt("dm str weight", lambda: DragModel(0.3, TableG7, "1", 1, 1))
    attempt("dm str length", lambda: DragModel(0.3, TableG7, 1, 1, "1"))
    attempt("dm str length and None diameter", lambda: DragModel(0.3, TableG7, 1, None, "1"))
    attempt("dm None weight", lambda: DragModel(0.3, TableG7, None, 1, 1))
    attempt("dm None diameter", lambda: DragModel(0.3, TableG7, 0, None, 1))
    attempt("dm None diameter w>0", lambda: DragModel(0.3, TableG7, 1, None, 1))
    attempt("dm wrong dimension", lambda: model_digest(DragModel(0.3, TableG7, Unit.Inch(5), Unit.Grain(2), Unit.MPS(3))))

    # ---- DragModelMultiBC
    for w, d, ln in ((0, 0, 0), (168, 0.308, 1.282), (Unit.Grain(168), Unit.Inch(0.308), Unit.Inch(1.282)), (168, 0, 0)):
        for pts in ([BCPoint(0.275, V=800), BCPoint(0.255, V=500), BCPoint(0.26, V=700)],
                    [BCPoint(0.275, V=Unit.MPS(800)), BCPoint(0.255, Mach=1.2), BCPoint(0.26, V=Unit.FPS(2300))],
                    [BCPoint(0.3, Mach=2.0)],
                    [BCPoint(0.3, Mach=2.0), BCPoint(0.31, Mach=2.0), BCPoint(0.25, Mach=0.9)]):
            attempt(f"multibc {w!r} {d!r} {ln!r} {[(p.BC, repr(p.Mach)) for p in pts]}",
                    lambda: model_digest(DragModelMultiBC(pts, TableG7, w, d, ln)))
    attempt("multibc no points", lambda: DragModelMultiBC([], TableG7))
    attempt("multibc empty table", lambda: DragModelMultiBC([BCPoint(0.3, Mach=2.0)], []))
    attempt("multibc None table", lambda: DragModelMultiBC([BCPoint(0.3, Mach=2.0)], None))


def fire_digest(title):
    weapon = Weapon(Unit.Centimeter(9), Unit.Inch(11), Unit.Mil(0))
    dm = DragModelMultiBC([BCPoint(0.275, V=Unit.MPS(800)), BCPoint(0.255, V=Unit.MPS(500)), BCPoint(0.26, V=Unit.MPS(700))],
                          TableG7, Unit.Gram(11.5), Unit.Millimeter(7.82), Unit.Millimeter(33))
    dm2 = DragModel(0.47, [DragDataPoint(p["Mach"], p["CD"]) for p in TableG1], Unit.Grain(180), Unit.Inch(0.308),
                    Unit.Inch(1.3))
    for tag, model in (("multi", dm), ("single", dm2)):
        shot = Shot(weapon, Ammo(model, Unit.MPS(800)), Unit.Degree(1), atmo=Atmo.icao(Unit.Meter(200)),
                    winds=[Wind(Unit.MPS(3), Unit.Degree(90))])
        calc = Calculator()
        emit(title, tag, "zero", q(calc.set_weapon_zero(shot, Unit.Meter(100))))
        for row in calc.fire(shot, Unit.Meter(900), Unit.Meter(300)):
            emit(repr(row.time), *[q(v) if hasattr(v, "raw_value") else repr(v) for v in row[1:]])
        emit(title, tag, "cdm", table_digest(calc.cdm))


for loader in (loadImperialUnits, loadMetricUnits, loadMixedUnits, None):
    PreferredUnits.defaults()
    if loader is None:
        PreferredUnits.set(weight=Unit.Kilogram, diameter=Unit.Line, length=Unit.Yard, velocity=Unit.KT, distance=Unit.Foot)
        title = "custom"
    else:
        loader()
        title = loader.__name__
    emit("=== shots", title)
    fire_digest(title)

PreferredUnits.defaults()
print("\n".join(out))
