"""Digest for refactoring 2: Shot.barrel_elevation/barrel_azimuth/winds, Wind.vector,
Atmo.get_density_factor_and_mach_for_altitude."""
import warnings

from py_ballisticcalc import (Ammo, Atmo, Calculator, DragModel, PreferredUnits, Shot, TableG1, TableG7, Unit,
                              Vacuum, Weapon, Wind, loadImperialUnits, loadMetricUnits, loadMixedUnits)
from py_ballisticcalc.exceptions import RangeError

warnings.simplefilter("ignore")
out = []


def emit(*parts):
    out.append(" | ".join(str(p) for p in parts))


def q(x):
    return f"{x.raw_value!r}@{x.units!r}"


def attempt(label, fn):
    with warnings.catch_warnings(record=True) as caught:
        warnings.simplefilter("always")
        try:
            emit(label, fn())
        except Exception as exc:  # pylint: disable=broad-except
            emit(label, "EXC", type(exc).__name__, exc)
        for w in caught:
            emit("   warning", w.category.__name__, w.message)


def dm():
    return DragModel(0.223, TableG7, Unit.Grain(168), Unit.Inch(0.308), Unit.Inch(1.282))


CONFIGS = {
    "defaults": {},
    "mil-mps-meter": dict(angular=Unit.Mil, velocity=Unit.MPS, distance=Unit.Meter, temperature=Unit.Celsius,
                          pressure=Unit.hPa),
    "moa-kmh-km": dict(angular=Unit.MOA, velocity=Unit.KMH, distance=Unit.Kilometer, temperature=Unit.Kelvin,
                       pressure=Unit.MmHg),
    "oclock-kt-foot": dict(angular=Unit.OClock, velocity=Unit.KT, distance=Unit.Foot, temperature=Unit.Rankin,
                           pressure=Unit.PSI),
    "cm100-mph-mile": dict(angular=Unit.CmPer100m, velocity=Unit.MPH, distance=Unit.Mile, pressure=Unit.Bar),
}

for name, cfg in CONFIGS.items():
    PreferredUnits.defaults()
    PreferredUnits.set(**cfg)
    emit("=== config", name)

    # ---- Shot.barrel_elevation / barrel_azimuth : bare numbers (0, negatives) vs explicit quantities
    for look, rel, cant, zero in (
            (None, None, None, None), (0, 0, 0, 0), (0.0, -0.0, 0, 0), (5, 1.5, 30, 0.25), (-5, -1.5, -30, -0.25),
            (Unit.Degree(5), Unit.MOA(12), Unit.Degree(90), Unit.Mil(1.1)),
            (Unit.Radian(0.1), Unit.Radian(0), Unit.OClock(3), Unit.Radian(-0.002)),
            (89.9, 0, 180, 1e-9), (float("nan"), 1, 2, 3), (1, 2, float("inf"), 3), (700, 2, 3, 4),
    ):
        weapon = Weapon(Unit.Inch(2), Unit.Inch(10), zero)
        attempt(f"shot {look!r} {rel!r} {cant!r} {zero!r}",
                lambda: (lambda s: (q(s.look_angle), q(s.relative_angle), q(s.cant_angle), q(s.weapon.zero_elevation),
                                    q(s.barrel_elevation), q(s.barrel_azimuth)))(
                    Shot(weapon, Ammo(dm(), Unit.MPS(800)), look, rel, cant)))
    shot = Shot(Weapon(), Ammo(dm(), 2600))
    shot.relative_angle = None
    attempt("shot broken relative_angle elevation", lambda: q(shot.barrel_elevation))
    attempt("shot broken relative_angle azimuth", lambda: q(shot.barrel_azimuth))
    shot.weapon = None
    attempt("shot broken weapon elevation", lambda: q(shot.barrel_elevation))
    shot.cant_angle = "x"
    attempt("shot broken cant azimuth", lambda: q(shot.barrel_azimuth))

    # ---- Wind.vector and Shot.winds ordering
    for v, d, u in ((None, None, None), (0, 0, 0), (10, 90, 100), (-3, -45, 50), (Unit.MPS(5), Unit.Degree(135), Unit.Meter(300)),
                    (Unit.KMH(20), Unit.OClock(9), Unit.Yard(0)), (7, 370, 1e9), (float("inf"), 1, 2)):
        attempt(f"wind {v!r} {d!r} {u!r}",
                lambda: (lambda w: (q(w.velocity), q(w.direction_from), q(w.until_distance),
                                    tuple(repr(c) for c in w.vector)))(Wind(v, d, u)))
    winds = [Wind(1, 10, 300), Wind(2, 20, Unit.Meter(100)), Wind(3, 30), Wind(4, 40, 300), Wind(5, 50, 0),
             Wind(6, 60, Unit.Meter(100)), Wind(7, 70, -5)]
    shot = Shot(Weapon(), Ammo(dm(), 2600), winds=winds)
    emit("winds sorted", [winds.index(w) for w in shot.winds], [q(w.until_distance) for w in shot.winds])
    shot.winds = None
    emit("winds reset", [(q(w.velocity), q(w.until_distance)) for w in shot.winds])
    shot.winds = [Wind(1, 2, 3), object()]
    attempt("winds bad member", lambda: shot.winds)

    # ---- Atmo.get_density_factor_and_mach_for_altitude
    makers = {
        "icao": Atmo.icao,
        "bare": lambda: Atmo(0.3, None, 1, 50),
        "bare0": lambda: Atmo(0, None, 0, 0),
        "bare-warm": lambda: Atmo(0.1, None, 300, 10),
        "explicit": lambda: Atmo(Unit.Meter(1500), Unit.hPa(850), Unit.Celsius(-5), 80, Unit.Celsius(10)),
        "hot": lambda: Atmo(Unit.Foot(-200), Unit.InHg(30.5), Unit.Fahrenheit(110), 100),
        "vacuum": lambda: Vacuum(Unit.Foot(500), Unit.Celsius(20)),
    }
    atmos = {}
    for aname, maker in makers.items():
        try:
            with warnings.catch_warnings():
                warnings.simplefilter("ignore")
                atmo = atmos[aname] = maker()
        except Exception as exc:  # pylint: disable=broad-except
            emit("atmo", aname, "EXC", type(exc).__name__, exc)
            continue
        emit("atmo", aname, q(atmo.altitude), q(atmo.pressure), q(atmo.temperature), q(atmo.powder_temp),
             repr(atmo.humidity), repr(atmo.density_ratio), q(atmo.mach))
        a0 = atmo.altitude >> Unit.Foot
        for alt in (a0, a0 + 29.999999, a0 + 30, a0 - 30, a0 - 29.999999, a0 + 30.000001, 0, -1000, 5000.5, 36089,
                    36089.000001, 60000, 250000, -1e5, float("inf"), float("-inf"), float("nan")):
            attempt(f"   dfm {aname} {alt!r}",
                    lambda: tuple(repr(v) for v in atmo.get_density_factor_and_mach_for_altitude(alt)))
    attempt("   dfm bad type", lambda: atmos["icao"].get_density_factor_and_mach_for_altitude("high"))
    attempt("   dfm None", lambda: atmos["icao"].get_density_factor_and_mach_for_altitude(None))


def fire_digest(title, look, cant, rng, step):
    weapon = Weapon(Unit.Centimeter(9), Unit.Inch(-11), Unit.Mil(0.4))
    ammo = Ammo(DragModel(0.47, TableG1, Unit.Grain(180), Unit.Inch(0.308), Unit.Inch(1.3)), Unit.MPS(780))
    atmo = Atmo(Unit.Meter(350), Unit.hPa(990), Unit.Celsius(3), 60)
    winds = [Wind(Unit.MPS(6), Unit.Degree(250), Unit.Meter(900)), Wind(Unit.MPS(4), Unit.Degree(70), Unit.Meter(300)),
             Wind(Unit.MPS(2), Unit.OClock(5), Unit.Meter(600))]
    shot = Shot(weapon, ammo, look, Unit.MOA(3), cant, atmo, winds)
    calc = Calculator()
    emit(title, "elevation/azimuth", q(shot.barrel_elevation), q(shot.barrel_azimuth))
    with warnings.catch_warnings(record=True) as caught:
        warnings.simplefilter("always")
        try:
            emit(title, "zero", q(calc.set_weapon_zero(shot, Unit.Meter(200))))
            rows = list(calc.fire(shot, rng, step, extra_data=True))
        except RangeError as exc:
            emit(title, "RangeError", exc.reason)
            rows = exc.incomplete_trajectory
        emit(title, "warnings", sorted({f"{w.category.__name__}: {w.message}" for w in caught}))
    for row in rows:
        emit(repr(row.time), *[q(v) if hasattr(v, "raw_value") else repr(v) for v in row[1:]])


for loader in (loadImperialUnits, loadMetricUnits, loadMixedUnits, None):
    PreferredUnits.defaults()
    if loader is None:
        PreferredUnits.set(angular=Unit.Thousandth, velocity=Unit.KT, distance=Unit.Foot, temperature=Unit.Kelvin)
        title = "custom"
    else:
        loader()
        title = loader.__name__
    emit("=== shots", title)
    fire_digest(title + " flat", Unit.Degree(0), Unit.Degree(0), Unit.Meter(1000), Unit.Meter(250))
    fire_digest(title + " uphill canted", Unit.Degree(12), Unit.Degree(15), Unit.Meter(1200), Unit.Meter(300))
    fire_digest(title + " downhill", Unit.Degree(-20), Unit.Degree(-5), Unit.Meter(800), Unit.Meter(400))

PreferredUnits.defaults()
print("\n".join(out))
