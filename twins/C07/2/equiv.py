"""Equivalence probe for refactoring 2 (munition.py: Sight / Weapon / Ammo; drag_model.py: BCPoint, DragModelMultiBC).

Prints a deterministic digest; must be byte-identical on the clean and the patched worktree.
"""
import hashlib
import itertools
import sys
import warnings

from py_ballisticcalc import (Atmo, Wind, Shot, Weapon, Ammo, Sight, DragModel, DragModelMultiBC, BCPoint,
                              TableG7, TableG1, Calculator, PreferredUnits, Unit, Distance, Temperature,
                              Velocity, Angular, Weight)

warnings.simplefilter("ignore")
LINES = []


def out(*parts):
    LINES.append(" ".join(str(p) for p in parts))


def q(x):
    """exact description of a quantity: class, defined unit, raw value with its python type"""
    return f"{type(x).__name__}[{x.units!r}]{type(x.raw_value).__name__}:{x.raw_value!r}"


def attempt(label, fn):
    try:
        out(label, "->", fn())
    except Exception as e:  # pylint: disable=broad-except
        out(label, "!!", type(e).__name__, str(e)[:90])


PRESETS = {
    "default": {},
    "metric": dict(distance=Unit.Meter, pressure=Unit.hPa, temperature=Unit.Celsius, velocity=Unit.MPS,
                   angular=Unit.Mil, sight_height=Unit.Centimeter, drop=Unit.Centimeter, adjustment=Unit.MOA,
                   twist=Unit.Centimeter, weight=Unit.Gram, diameter=Unit.Millimeter, length=Unit.Millimeter),
    "odd": dict(distance=Unit.Kilometer, pressure=Unit.PSI, temperature=Unit.Kelvin, velocity=Unit.KT,
                angular=Unit.Radian, sight_height=Unit.Line, twist=Unit.Millimeter, weight=Unit.Ounce,
                diameter=Unit.Line, length=Unit.Centimeter, target_height=Unit.Foot, adjustment=Unit.CmPer100m),
    "rankin": dict(distance=Unit.Foot, pressure=Unit.MmHg, temperature=Unit.Rankin, velocity=Unit.KMH,
                   angular=Unit.OClock, adjustment=Unit.InchesPer100Yd, weight=Unit.Pound),
}


def probe_weapon():
    heights = [None, 0, 0.0, -0.0, 2, -1.5, Distance.Centimeter(0), Distance.Centimeter(9), "x"]
    twists = [None, 0, 0.0, 12, -9.5, Distance.Inch(0), Distance.Millimeter(-240)]
    elevs = [None, 0, 0.0, 0.3, -0.1, Angular.Mil(0), Angular.MOA(7), [1]]
    for h, t, e in itertools.product(heights, twists, elevs):
        def build(h=h, t=t, e=e):
            w = Weapon(h, t, e)
            return " ".join((q(w.sight_height), q(w.twist), q(w.zero_elevation), repr(w.sight)))
        attempt(f"Weapon {h!r} {t!r} {e!r}", build)
    d = Distance.Centimeter(9)
    w = Weapon(d, 12, Angular.MOA(7), Sight('FFP', None, 0.1, 0.1))
    out("Weapon aliasing", w.sight_height is d, q(d), repr(w), w == Weapon(Distance.Centimeter(9), 12, Angular.MOA(7),
                                                                               Sight('FFP', None, 0.1, 0.1)))


def probe_sight():
    planes = ['FFP', 'SFP', 'LWIR', 'XXX']
    scales = [None, 0, 0.0, 100, Distance.Meter(100), Distance.Meter(0)]
    clicks = [None, 0, 0.0, 0.25, -0.1, 1, Angular.Mil(0.1), Angular.MOA(0.25), Angular.Mil(0), "0.1"]
    for fp, sf, hc, vc in itertools.product(planes, scales, clicks, clicks):
        def build(fp=fp, sf=sf, hc=hc, vc=vc):
            s = Sight(fp, sf, hc, vc)
            res = [s.focal_plane, q(s.scale_factor), q(s.h_click_size), q(s.v_click_size)]
            for td, mag in ((100, 1), (Distance.Meter(250), 10), (0, 4), (333.3, 0.5)):
                try:
                    if fp == 'SFP':
                        st = s._adjust_sfp_reticle_steps(td, mag)
                        res += [q(st.vertical), q(st.horizontal)]
                    adj = s.get_adjustment(PreferredUnits.distance(td), Angular.Mil(1.7), Angular.MOA(-0.6), mag)
                    res += [repr(adj.vertical), repr(adj.horizontal)]
                except Exception as e:  # pylint: disable=broad-except
                    res += [type(e).__name__, str(e)]
            return " ".join(res)
        attempt(f"Sight {fp} {sf!r} {hc!r} {vc!r}", build)


def probe_ammo():
    dm = DragModel(0.31, TableG7)
    mvs = [0, 0.0, None, 800, 2750.5, -5, Velocity.MPS(0), Velocity.MPS(815), Velocity.KMH(2900), "v"]
    pts = [None, 0, 0.0, -0.0, 15, -20, 59, Temperature.Celsius(0), Temperature.Celsius(15), Temperature.Kelvin(0)]
    mods = [0, None, 0.0, 0.0123, -0.5, 1.5]
    currents = [0, 0.0, -30, 40, Temperature.Celsius(0), Temperature.Celsius(35), Temperature.Fahrenheit(0)]
    for mv, pt, mod, ups in itertools.product(mvs, pts, mods, (False, True)):
        def build(mv=mv, pt=pt, mod=mod, ups=ups):
            a = Ammo(dm, mv, pt, mod, ups)
            res = [q(a.mv), q(a.powder_temp), type(a.temp_modifier).__name__, repr(a.temp_modifier),
                   repr(a.use_powder_sensitivity)]
            for cur in currents:
                v = a.get_velocity_for_temp(cur)
                res += [q(v), repr(v is a.mv)]
            return " ".join(res)
        attempt(f"Ammo {mv!r} {pt!r} {mod!r} {ups}", build)
    others_v = [0, 800, 2800, Velocity.MPS(830), Velocity.MPS(815)]
    others_t = [0, 0.0, 15, 59, -10, Temperature.Celsius(0), Temperature.Celsius(15), Temperature.Celsius(-5)]
    for mv, pt in itertools.product(mvs[3:9], pts):
        for ov, ot in itertools.product(others_v, others_t):
            def sens(mv=mv, pt=pt, ov=ov, ot=ot):
                a = Ammo(dm, mv, pt, use_powder_sensitivity=True)
                r = a.calc_powder_sens(ov, ot)
                return " ".join((repr(r), repr(a.temp_modifier), q(a.get_velocity_for_temp(ot)),
                                 q(a.get_velocity_for_temp(Temperature.Celsius(-15)))))
            attempt(f"sens {mv!r} {pt!r} {ov!r} {ot!r}", sens)


def probe_drag_model():
    bcs = [0.2, 1, 0, -0.1]
    machs = [None, 0, 0.0, 0.8, 2.5]
    vs = [None, 0, 0.0, 600, 2700.0, -100, Velocity.MPS(0), Velocity.MPS(800), Velocity.FPS(1500)]
    for bc, m, v in itertools.product(bcs, machs, vs):
        def build(bc=bc, m=m, v=v):
            p = BCPoint(bc, m, v)
            return " ".join((repr(p.BC), repr(p.Mach), q(p.V), repr(p)))
        attempt(f"BCPoint {bc!r} {m!r} {v!r}", build)
    out("BCPoint order", sorted([BCPoint(0.3, 2.0), BCPoint(0.2, V=Velocity.MPS(300)), BCPoint(0.25, 1.0)]))

    weights = [0, 0.0, 168, -1, Weight.Gram(0), Weight.Gram(11), Weight.Grain(175)]
    diams = [0, 0.308, -0.3, Distance.Millimeter(0), Distance.Millimeter(7.82)]
    lengths = [0, 1.2, Distance.Millimeter(31)]
    for w, d, ln in itertools.product(weights, diams, lengths):
        def build_dm(w=w, d=d, ln=ln):
            dm = DragModel(0.223, TableG7, w, d, ln)
            return " ".join((repr(dm), q(dm.weight), q(dm.diameter), q(dm.length),
                             repr(getattr(dm, 'sectional_density', None)), repr(getattr(dm, 'form_factor', None))))
        attempt(f"DragModel {w!r} {d!r} {ln!r}", build_dm)

        def build_multi(w=w, d=d, ln=ln):
            pts = [BCPoint(0.275, V=Velocity.MPS(800)), BCPoint(0.255, Mach=1.2), BCPoint(0.26, V=Velocity.MPS(700)),
                   BCPoint(0.23, Mach=0.7)]
            before = [repr(p) for p in pts]
            table = [dict(row) for row in TableG7]
            dm = DragModelMultiBC(pts, table, w, d, ln)
            dig = hashlib.sha256(repr([(p.Mach, p.CD) for p in dm.drag_table]).encode()).hexdigest()[:16]
            return " ".join((repr(dm), repr(dm.BC), q(dm.weight), q(dm.diameter), q(dm.length), dig,
                             repr(getattr(dm, 'sectional_density', None)), repr(getattr(dm, 'form_factor', None)),
                             repr(before == [repr(p) for p in pts]), repr(table == [dict(r) for r in TableG7])))
        attempt(f"MultiBC {w!r} {d!r} {ln!r}", build_multi)
    attempt("MultiBC bare V points", lambda: repr(
        [(p.Mach, p.CD) for p in DragModelMultiBC([BCPoint(0.4, V=2600), BCPoint(0.38, V=1800), BCPoint(0.35, Mach=0.9)],
                                                  TableG1, 150, 0.308).drag_table][::9]))
    attempt("MultiBC bad points", lambda: DragModelMultiBC([object()], TableG1))
    attempt("MultiBC empty", lambda: DragModelMultiBC([BCPoint(0.3, 1.0)], []))


def clicks(sight, row):
    try:
        return repr(sight.get_trajectory_adjustment(row, 12))
    except Exception as e:  # pylint: disable=broad-except
        return f"{type(e).__name__}: {e}"


def row_digest(row):
    return " ".join(repr(float(v)) if not isinstance(v, (int, float)) else repr(v) for v in row)


def probe_fire(label):
    """the same physical shot, once with explicit quantities and once with bare numbers in preferred units"""
    calc = Calculator()
    pu = PreferredUnits
    for temp_c in (0.0, 25.0):
        dm_x = DragModelMultiBC([BCPoint(0.275, V=Unit.MPS(800)), BCPoint(0.255, V=Unit.MPS(500)), BCPoint(0.26, Mach=2.1)],
                                TableG7, Unit.Grain(168), Unit.Inch(0.308), Unit.Inch(1.282))
        ammo_x = Ammo(dm_x, Unit.FPS(2750), Unit.Celsius(15), 0.012, True)
        weapon_x = Weapon(Unit.Centimeter(9), Unit.Inch(-11.24), Unit.Mil(0), Sight('SFP', Unit.Meter(100), Unit.Mil(0.1), Unit.Mil(0.1)))
        atmo = Atmo(Unit.Meter(300), Unit.hPa(980), Unit.Celsius(temp_c), 40)
        shot_x = Shot(weapon_x, ammo_x, Unit.Degree(1), atmo=atmo, winds=[Wind(Unit.MPS(4), Unit.Degree(90))])
        calc.set_weapon_zero(shot_x, Unit.Meter(100))
        out(label, "explicit", temp_c, q(weapon_x.zero_elevation), q(ammo_x.get_velocity_for_temp(atmo.powder_temp)))
        hit = calc.fire(shot_x, Unit.Meter(700), Unit.Meter(100))
        for row in hit:
            out(label, "  x", row_digest(row), clicks(weapon_x.sight, row))

        dm_b = DragModelMultiBC([BCPoint(0.275, V=Unit.MPS(800) >> pu.velocity), BCPoint(0.255, V=Unit.MPS(500) >> pu.velocity),
                                 BCPoint(0.26, Mach=2.1)],
                                TableG7, Unit.Grain(168) >> pu.weight, Unit.Inch(0.308) >> pu.diameter,
                                Unit.Inch(1.282) >> pu.length)
        ammo_b = Ammo(dm_b, Unit.FPS(2750) >> pu.velocity, Unit.Celsius(15) >> pu.temperature, 0.012, True)
        weapon_b = Weapon(Unit.Centimeter(9) >> pu.sight_height, Unit.Inch(-11.24) >> pu.twist, 0,
                          Sight('SFP', Unit.Meter(100) >> pu.distance, Unit.Mil(0.1) >> pu.adjustment,
                                Unit.Mil(0.1) >> pu.adjustment))
        shot_b = Shot(weapon_b, ammo_b, Unit.Degree(1), atmo=atmo, winds=[Wind(Unit.MPS(4), Unit.Degree(90))])
        calc.set_weapon_zero(shot_b, Unit.Meter(100) >> pu.distance)
        out(label, "bare", temp_c, q(weapon_b.zero_elevation), q(ammo_b.get_velocity_for_temp(atmo.powder_temp)),
            q(weapon_b.sight_height), q(weapon_b.twist), q(ammo_b.mv), q(ammo_b.powder_temp), q(dm_b.weight),
            q(dm_b.diameter), q(dm_b.length), repr(dm_b.BC))
        hit = calc.fire(shot_b, Unit.Meter(700) >> pu.distance, Unit.Meter(100) >> pu.distance)
        for row in hit:
            out(label, "  b", row_digest(row), clicks(weapon_b.sight, row))


for name, preset in PRESETS.items():
    PreferredUnits.defaults()
    PreferredUnits.set(**preset)
    out("=== preset", name)
    probe_weapon()
    probe_sight()
    probe_ammo()
    probe_drag_model()
    probe_fire(name)
PreferredUnits.defaults()

text = "\n".join(LINES)
if len(sys.argv) > 1:  # optional: dump the full text for diffing
    with open(sys.argv[1], "w", encoding="utf-8") as fp:
        fp.write(text + "\n")
for i in range(0, len(LINES), max(1, len(LINES) // 60)):  # a deterministic sample of the lines
    print(LINES[i][:400])
print("lines:", len(LINES), "raised:", sum(1 for ln in LINES if " !! " in ln))
print("sha256:", hashlib.sha256(text.encode()).hexdigest())
