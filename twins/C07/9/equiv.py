"""Equivalence digest for C07 / round 3 / refactoring 3
(table-driven TrajectoryData.formatted / in_def_units, DangerSpace.__str__)."""
import hashlib
import itertools
import warnings

warnings.simplefilter("ignore")

import py_ballisticcalc as pbc
from py_ballisticcalc import (PreferredUnits, Unit, Distance, Velocity, Angular, Temperature, Pressure, Weight, Energy,
                              DragModel, TableG7, Ammo, Weapon, Shot, Atmo, Wind, Calculator, Vector, TrajFlag,
                              TrajectoryData, DangerSpace, HitResult, loadMetricUnits, loadImperialUnits,
                              loadMixedUnits)
from py_ballisticcalc.trajectory_calc import create_trajectory_row

SLOTS = ('angular', 'distance', 'velocity', 'pressure', 'temperature', 'diameter', 'length', 'weight',
         'adjustment', 'drop', 'energy', 'ogw', 'sight_height', 'target_height', 'twist')
ANGULAR = [u for u in Unit if 0 <= u < 10]
DISTANCE = [u for u in Unit if 10 <= u < 20]
ENERGY = [u for u in Unit if 30 <= u < 40]
VELOCITY = [u for u in Unit if 60 <= u < 70]
WEIGHT = [u for u in Unit if 70 <= u < 80]


def raws(row):
    return [(type(v).__name__, repr(v.raw_value), int(v.units)) if isinstance(v, pbc.AbstractDimension) else repr(v)
            for v in row]


def attempt(fn, *a, **kw):
    try:
        return ('ok', fn(*a, **kw))
    except Exception as e:  # noqa
        return ('err', type(e).__name__, str(e))


def show(tag, row):
    f = attempt(row.formatted)
    n = attempt(row.in_def_units)
    print(tag, 'fmt', f if f[0] != 'ok' else (type(f[1]).__name__, len(f[1]), f[1]))
    print(tag, 'num', n if n[0] != 'ok' else (type(n[1]).__name__, len(n[1]), [repr(x) for x in n[1]],
                                              [type(x).__name__ for x in n[1]]))


def build():
    dm = DragModel(0.223, TableG7, Weight.Grain(168), Distance.Inch(0.308), Distance.Inch(1.282))
    ammo = Ammo(dm, Velocity.MPS(800), Temperature.Celsius(15), 0.02, True)
    weapon = Weapon(Distance.Centimeter(9), Distance.Inch(12), Angular.Mil(0))
    atmo = Atmo(Distance.Meter(150), Pressure.hPa(990), Temperature.Celsius(23), 40, Temperature.Celsius(5))
    winds = [Wind(Velocity.MPS(4), Angular.Degree(70), Distance.Meter(300)),
             Wind(Velocity.KMH(10), Angular.OClock(9), Distance.Meter(900))]
    return Shot(weapon, ammo, Angular.Degree(2), Angular.MOA(1.5), Angular.Degree(3), atmo, winds)


PreferredUnits.defaults()
shot = build()
calc = Calculator()
calc.set_weapon_zero(shot, Distance.Meter(100))
result = calc.fire(shot, Distance.Meter(1000), Distance.Meter(100), extra_data=True)
rows = result.trajectory
before = [raws(r) for r in rows]
print('ROWS', len(rows), hashlib.sha256(repr(before).encode()).hexdigest())

# hand-made rows with awkward contents
special = {
    'muzzle': create_trajectory_row(0.0, Vector(0.0, -0.2, 0.0), Vector(2700.0, 5.0, 0.0), 2700.0, 1100.0, 0, 0.1, 1.0,
                                    0.0, 168, 0),
    'ints': create_trajectory_row(2, Vector(300, -2, 1), Vector(2000, -30, 1), 2000, 1116, 0, 0, 1, 0, 168,
                                  TrajFlag.ZERO_UP | TrajFlag.RANGE),
    'huge': create_trajectory_row(float('inf'), Vector(1e300, 1e300, -1e300), Vector(0.0, 0.0, 0.0), 1e90, 1.0, 0.0,
                                  1.5707963267948966, 1.0, 0.0, 1e100, TrajFlag.ALL),
    'nan': create_trajectory_row(float('nan'), Vector(float('nan'), 1.0, 2.0), Vector(1.0, float('nan'), 0.0),
                                 float('nan'), 1000.0, float('nan'), 0.0, float('nan'), float('nan'), 150.0, 64),
    'negative': create_trajectory_row(-1.25, Vector(-5.0, -0.0, -1.0), Vector(-1.0, -2.0, -3.0), 3.7, 1000.0, -0.5,
                                      -0.2, 0.0, -1e-9, 0.5, 5),
    'explicit units': TrajectoryData(1.0005, Distance.Meter(100), Velocity.KMH(2000), 1.995, Distance.Line(7),
                                     Distance.Millimeter(-3), Angular.MOA(1), Distance.Mile(0.001), Angular.OClock(3),
                                     Distance.Kilometer(0.1), Angular.Thousandth(5), -0.0004995, 0.0005,
                                     Energy.Joule(3000), Weight.Kilogram(80), TrajFlag.MACH | TrajFlag.APEX),
}
broken = {
    'time None': rows[3]._replace(time=None),
    'time str': rows[3]._replace(time='1.0'),
    'distance float': rows[3]._replace(distance=100.0),
    'velocity is Distance': rows[3]._replace(velocity=Distance.Meter(3)),
    'ogw None': rows[3]._replace(ogw=None),
    'flag None': rows[3]._replace(flag=None),
    'flag float': rows[3]._replace(flag=8.0),
    'flag big': rows[3]._replace(flag=1 << 40),
    'drag Distance': rows[3]._replace(drag=Distance.Foot(1)),
    'mach bool': rows[3]._replace(mach=True, density_factor=False),
}

# ---------------------------------------------------------------- presets and the default
for name, loader in (('default', PreferredUnits.defaults), ('imperial', loadImperialUnits), ('metric', loadMetricUnits),
                     ('mixed', loadMixedUnits)):
    loader()
    print('PRESET', name, [(s, int(getattr(PreferredUnits, s))) for s in SLOTS])
    for i, row in enumerate(rows):
        show(f'{name} row{i}', row)
    for k, row in special.items():
        show(f'{name} {k}', row)
    for k, row in broken.items():
        show(f'{name} BROKEN {k}', row)

# ---------------------------------------------------------------- every unit in every output slot
PreferredUnits.defaults()
sample = [rows[0], rows[4], rows[-1], special['ints'], special['explicit units']]
for slot, units in (('distance', DISTANCE), ('drop', DISTANCE), ('velocity', VELOCITY), ('adjustment', ANGULAR),
                    ('angular', ANGULAR), ('energy', ENERGY), ('ogw', WEIGHT)):
    for u in units:
        PreferredUnits.defaults()
        setattr(PreferredUnits, slot, u)
        for i, row in enumerate(sample):
            show(f'SLOT {slot}={u!r} s{i}', row)
# slots that must not matter for the output
PreferredUnits.defaults()
base = [(r.formatted(), r.in_def_units()) for r in sample]
for slot, u in (('pressure', Unit.PSI), ('temperature', Unit.Kelvin), ('diameter', Unit.Line), ('length', Unit.Mile),
                ('weight', Unit.Newton), ('sight_height', Unit.Yard), ('target_height', Unit.Kilometer),
                ('twist', Unit.Foot)):
    PreferredUnits.defaults()
    setattr(PreferredUnits, slot, u)
    print('IRRELEVANT', slot, [(r.formatted(), r.in_def_units()) for r in sample] == base)
# a slot holding something that is not a unit of the right dimension
for slot, u in (('distance', Unit.Kelvin), ('drop', Unit.MOA), ('velocity', Unit.Meter), ('adjustment', Unit.Inch),
                ('angular', Unit.Grain), ('energy', Unit.Pound), ('ogw', Unit.Joule), ('distance', True),
                ('ogw', None), ('energy', 'joule'), ('velocity', 62), ('drop', 10.0)):
    PreferredUnits.defaults()
    setattr(PreferredUnits, slot, u)
    show(f'WRONG {slot}={u!r}', rows[4])
# units change in the middle: each call reads the slots afresh
PreferredUnits.defaults()
a = rows[5].formatted(), rows[5].in_def_units()
PreferredUnits.distance = Unit.Meter
PreferredUnits.drop = Unit.Centimeter
b = rows[5].formatted(), rows[5].in_def_units()
PreferredUnits.defaults()
c = rows[5].formatted(), rows[5].in_def_units()
print('AFRESH', a == c, a != b, b)

# presenting must not touch the quantities
print('UNTOUCHED', [raws(r) for r in rows] == before)

# ---------------------------------------------------------------- DangerSpace.__str__ (re-labels the quantities it prints)
def units_of(ds):
    return [int(ds.at_range.distance.units), int(ds.target_height.units), int(ds.look_angle.units),
            int(ds.begin.distance.units), int(ds.end.distance.units)]


for name, cfg in (('default', {}), ('metric', dict(distance=Unit.Meter, drop=Unit.Centimeter, target_height=Unit.Meter)),
                  ('odd', dict(distance=Unit.NauticalMile, drop=Unit.Line, angular=Unit.Mil))):
    PreferredUnits.defaults()
    for k, v in cfg.items():
        setattr(PreferredUnits, k, v)
    res = calc.fire(shot, Distance.Meter(1000), Distance.Meter(100), extra_data=True)
    for look in (None, Angular.Degree(0), Angular.Mil(17.5), 0, 0.0, -2):
        for at, height in ((Distance.Meter(500), Distance.Meter(1.7)), (Distance.Meter(0), Distance.Inch(0)),
                           (Distance.Meter(990), Distance.Yard(30))):
            ds = res.danger_space(at, height, look)
            u0 = units_of(ds)
            text = str(ds)
            print('DS', name, repr(look), raws([at, height]), u0, units_of(ds), repr(text), str(ds) == text,
                  repr(ds.begin.distance.raw_value), repr(ds.end.distance.raw_value))
PreferredUnits.defaults()
row = rows[5]
for label, ds in (('same row thrice', DangerSpace(row, Distance.Meter(1), row, row, Angular.Radian(0))),
                  ('nan angle', DangerSpace(rows[2], Distance.Meter(1), rows[1], rows[3], Angular.Radian(float('nan')))),
                  ('float angle', DangerSpace(rows[2], Distance.Meter(1), rows[1], rows[3], 0.5)),
                  ('zero int angle', DangerSpace(rows[2], Distance.Meter(1), rows[1], rows[3], 0)),
                  ('none angle', DangerSpace(rows[2], Distance.Meter(1), rows[1], rows[3], None)),
                  ('height float', DangerSpace(rows[2], 1.0, rows[1], rows[3], Angular.Radian(0))),
                  ('end None', DangerSpace(rows[2], Distance.Meter(1), rows[1], None, Angular.Degree(1)))):
    PreferredUnits.distance = Unit.Meter
    r = attempt(str, ds)
    print('DS2', label, r, [int(x.distance.units) for x in (rows[1], rows[2], rows[3], rows[5])],
          attempt(lambda: int(ds.look_angle.units)), attempt(lambda: int(ds.target_height.units)))
    PreferredUnits.defaults()
    for x in rows:
        x.distance << Unit.Foot

# ---------------------------------------------------------------- DataFrame view goes through the same two methods
try:
    import pandas  # noqa
    PreferredUnits.defaults()
    PreferredUnits.distance = Unit.Meter
    df = result.dataframe()
    dff = result.dataframe(True)
    print('DF', list(df.columns), hashlib.sha256(df.to_csv().encode()).hexdigest(),
          hashlib.sha256(dff.to_csv().encode()).hexdigest())
    print(dff.iloc[[0, 5, -1]].to_csv())
except ImportError:
    print('DF pandas not installed')
PreferredUnits.defaults()
