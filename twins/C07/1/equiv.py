"""Equivalence probe for refactoring 1 (conditions.py: Atmo / Vacuum / Wind / Shot constructors).

Prints a deterministic digest; must be byte-identical on the clean and the patched worktree.
"""
import hashlib
import itertools
import sys
import warnings

from py_ballisticcalc import (Atmo, Vacuum, Wind, Shot, Weapon, Ammo, DragModel, TableG7, Calculator,
                              PreferredUnits, Unit, Distance, Temperature, Pressure, Velocity, Angular)

warnings.simplefilter("ignore")
LINES = []


def out(*parts):
    LINES.append(" ".join(str(p) for p in parts))


def q(x):
    """exact description of a quantity: class, defined unit, raw value with its python type"""
    return f"{type(x).__name__}[{x.units!r}]{type(x.raw_value).__name__}:{x.raw_value!r}"


def atmo_digest(a):
    return " ".join([
        q(a.altitude), q(a.pressure), q(a.temperature), q(a.powder_temp),
        repr(a.humidity), repr(a._t0), repr(a._p0), repr(a._a0), repr(a._mach),
        repr(a.density_ratio), repr(a.powder_temp is a.temperature),
    ])


PRESETS = {
    "default": {},
    "metric": dict(distance=Unit.Meter, pressure=Unit.hPa, temperature=Unit.Celsius, velocity=Unit.MPS,
                   angular=Unit.Mil, sight_height=Unit.Centimeter, drop=Unit.Centimeter, adjustment=Unit.MOA),
    "odd": dict(distance=Unit.Kilometer, pressure=Unit.PSI, temperature=Unit.Kelvin, velocity=Unit.KT,
                angular=Unit.Radian, sight_height=Unit.Line, twist=Unit.Millimeter, weight=Unit.Gram,
                diameter=Unit.Millimeter, length=Unit.Centimeter, target_height=Unit.Foot),
    "rankin": dict(distance=Unit.Foot, pressure=Unit.MmHg, temperature=Unit.Rankin, velocity=Unit.KMH,
                   angular=Unit.OClock),
}

ALTS = [None, 0, 0.0, -0.0, 1500, -120.5, Distance.Meter(0), Distance.Meter(850), Distance.Foot(-300)]
PRESS = [None, 0, 29.5, 1013.25, Pressure.hPa(990), Pressure.InHg(0)]
TEMPS = [None, 0, 0.0, -0.0, 15, -40, 300, Temperature.Celsius(0), Temperature.Fahrenheit(0),
         Temperature.Kelvin(250)]
POWDER = [None, 0, -5.5, Temperature.Celsius(21)]


def probe_atmo():
    for alt, pr, te, po in itertools.product(ALTS, PRESS, TEMPS, POWDER):
        for hum in (0, 0.5, 55, 100):
            try:
                a = Atmo(alt, pr, te, hum, po)
                out("Atmo", repr(alt), repr(pr), repr(te), repr(po), hum, "->", atmo_digest(a))
            except Exception as e:  # pylint: disable=broad-except
                out("Atmo", repr(alt), repr(pr), repr(te), repr(po), hum, "!!", type(e).__name__, e)
    for bad_h in (-1, 100.5):
        try:
            Atmo(humidity=bad_h)
        except Exception as e:  # pylint: disable=broad-except
            out("Atmo bad humidity", bad_h, type(e).__name__, e)
    for bad in ("abc", [1], object):
        for kw in ("altitude", "pressure", "temperature", "powder_t"):
            try:
                a = Atmo(**{kw: bad})
                out("Atmo bad", kw, "ok?", type(a).__name__)
            except Exception as e:  # pylint: disable=broad-except
                out("Atmo bad", kw, type(e).__name__, str(e)[:80])
    for alt in ALTS[1:]:
        for te in (None, Temperature.Celsius(0), Temperature.Fahrenheit(100)):
            for hum in (0.0, 78):
                try:
                    out("icao", repr(alt), repr(te), hum, "->", atmo_digest(Atmo.icao(alt, te, hum)))
                    out("standard", repr(alt), repr(te), hum, "->", atmo_digest(Atmo.standard(alt, te, hum)))
                except Exception as e:  # pylint: disable=broad-except
                    out("icao", repr(alt), repr(te), hum, "!!", type(e).__name__, e)
    out("icao()", atmo_digest(Atmo.icao()))
    for alt in ALTS:
        for te in (None, 0, 10, Temperature.Celsius(-10)):
            try:
                v = Vacuum(alt, te)
                out("Vacuum", repr(alt), repr(te), "->", atmo_digest(v), repr(v.cLowestTempC))
            except Exception as e:  # pylint: disable=broad-except
                out("Vacuum", repr(alt), repr(te), "!!", type(e).__name__, e)
    # the caller's quantity object is re-labelled in place, exactly as before
    d = Distance.Meter(100)
    t = Temperature.Celsius(10)
    p = Pressure.hPa(1000)
    a = Atmo(d, p, t)
    out("aliasing", a.altitude is d, a.pressure is p, a.temperature is t, a.powder_temp is t, q(d), q(p), q(t))
    out("altitude queries", [repr(a.get_density_factor_and_mach_for_altitude(h)) for h in (0, 300, 1000, 5000)])


def probe_wind():
    vels = [None, 0, 0.0, 5, -3.5, Velocity.MPS(0), Velocity.MPS(4), Velocity.KMH(12)]
    dirs = [None, 0, 0.0, 90, -45, 400, Angular.Degree(0), Angular.OClock(3), Angular.Mil(1600)]
    untils = [None, 0, 0.0, 200, Distance.Meter(0), Distance.Meter(500)]
    maxes = [None, 0, 0.0, 1e8, 5000, 12345.5]
    for v, d, u in itertools.product(vels, dirs, untils):
        w = Wind(v, d, u)
        out("Wind", repr(v), repr(d), repr(u), "->", q(w.velocity), q(w.direction_from), q(w.until_distance),
            repr(w.MAX_DISTANCE_FEET), repr(w.vector))
    for m in maxes:
        for u in (None, 0, 100):
            w = Wind(3, 90, u, max_distance_feet=m)
            out("Wind max", repr(m), repr(u), "->", q(w.until_distance), type(w.MAX_DISTANCE_FEET).__name__,
                repr(w.MAX_DISTANCE_FEET))
    out("Wind()", repr(Wind()), Wind() == Wind(0, 0))
    for bad in ("x", [2]):
        for kw in ("velocity", "direction_from", "until_distance"):
            try:
                w = Wind(**{kw: bad})
                out("Wind bad", kw, "ok?", q(getattr(w, kw)))
            except Exception as e:  # pylint: disable=broad-except
                out("Wind bad", kw, type(e).__name__, str(e)[:80])


def make_ammo():
    dm = DragModel(0.223, TableG7, Unit.Grain(168), Unit.Inch(0.308), Unit.Inch(1.282))
    return Ammo(dm, Unit.FPS(2750), Unit.Celsius(15))


def probe_shot():
    weapon = Weapon(Unit.Inch(2), Unit.Inch(11.24))
    ammo = make_ammo()
    angles = [None, 0, 0.0, -0.0, 5, -2.5, Angular.Degree(0), Angular.Mil(10), Angular.Radian(-0.01)]
    for la, ra, ca in itertools.product(angles, angles[:6], angles[::2]):
        s = Shot(weapon, ammo, la, ra, ca)
        out("Shot", repr(la), repr(ra), repr(ca), "->", q(s.look_angle), q(s.relative_angle), q(s.cant_angle),
            q(s.barrel_elevation), q(s.barrel_azimuth))
    s = Shot(weapon, ammo)
    out("Shot defaults", atmo_digest(s.atmo), len(s.winds), repr(s.winds[0]))
    for winds in (None, [], [Wind(5, 90, 300), Wind(2, 45, 100), Wind(1, 10)]):
        for atmo in (None, Atmo.icao(Distance.Meter(500)), Vacuum()):
            s = Shot(weapon, ammo, atmo=atmo, winds=winds)
            out("Shot winds", repr(winds), type(s.atmo).__name__, s.atmo is atmo,
                [repr(w) for w in s.winds], s._winds is winds)
            s.winds = None
            out("Shot winds reset", [repr(w) for w in s.winds])


def row_digest(row):
    return " ".join(repr(float(v)) if not isinstance(v, (int, float)) else repr(v) for v in row)


def probe_fire(label):
    """the same physical shot, once with explicit quantities and once with bare numbers in preferred units"""
    calc = Calculator()
    dm = DragModel(0.223, TableG7, Unit.Grain(168), Unit.Inch(0.308), Unit.Inch(1.282))
    ammo = Ammo(dm, Unit.FPS(2750), Unit.Celsius(15), 0.012, True)
    weapon = Weapon(Unit.Inch(2), Unit.Inch(11.24))
    for temp_c in (0.0, 15.0, -10.0):
        atmo_x = Atmo(Unit.Meter(300), Unit.hPa(980), Unit.Celsius(temp_c), 40, Unit.Celsius(temp_c))
        winds_x = [Wind(Unit.MPS(4), Unit.Degree(90), Unit.Meter(400)), Wind(Unit.MPS(2), Unit.Degree(0))]
        shot_x = Shot(weapon, ammo, Unit.Degree(2), Unit.Degree(0), Unit.Degree(3), atmo_x, winds_x)
        calc.set_weapon_zero(shot_x, Unit.Meter(100))
        hit_x = calc.fire(shot_x, Unit.Meter(800), Unit.Meter(100))
        out(label, "explicit", temp_c, q(weapon.zero_elevation))
        for row in hit_x:
            out(label, "  x", row_digest(row))
        # bare numbers: express every input in the unit that is currently preferred
        atmo_b = Atmo(Unit.Meter(300) >> PreferredUnits.distance, Unit.hPa(980) >> PreferredUnits.pressure,
                      Unit.Celsius(temp_c) >> PreferredUnits.temperature, 40,
                      Unit.Celsius(temp_c) >> PreferredUnits.temperature)
        winds_b = [Wind(Unit.MPS(4) >> PreferredUnits.velocity, Unit.Degree(90) >> PreferredUnits.angular,
                        Unit.Meter(400) >> PreferredUnits.distance),
                   Wind(Unit.MPS(2) >> PreferredUnits.velocity, 0)]
        shot_b = Shot(weapon, ammo, Unit.Degree(2) >> PreferredUnits.angular, 0,
                      Unit.Degree(3) >> PreferredUnits.angular, atmo_b, winds_b)
        hit_b = calc.fire(shot_b, Unit.Meter(800), Unit.Meter(100))
        out(label, "bare", temp_c, atmo_digest(atmo_b))
        for row in hit_b:
            out(label, "  b", row_digest(row))


for name, preset in PRESETS.items():
    PreferredUnits.defaults()
    PreferredUnits.set(**preset)
    out("=== preset", name)
    probe_atmo()
    probe_wind()
    probe_shot()
    probe_fire(name)
PreferredUnits.defaults()

text = "\n".join(LINES)
if len(sys.argv) > 1:  # optional: dump the full text for diffing
    with open(sys.argv[1], "w", encoding="utf-8") as fp:
        fp.write(text + "\n")
for i in range(0, len(LINES), max(1, len(LINES) // 60)):  # a deterministic sample of the lines
    print(LINES[i][:400])
print("lines:", len(LINES), "raised:", sum(1 for ln in LINES if " !! " in ln or " bad " in ln))
print("sha256:", hashlib.sha256(text.encode()).hexdigest())
