"""Equivalence digest for refactoring 1 (Calculator.fire / barrel_elevation_for_target / TrajectoryCalc.trajectory).

Prints a deterministic digest; must be identical on the clean tree and with the patch applied.
"""
import hashlib
import warnings

warnings.simplefilter("ignore")

from py_ballisticcalc import (Calculator, Shot, Weapon, Ammo, Atmo, Wind, DragModel, TableG7, TableG1,
                              Unit, Distance, Angular, Velocity, Temperature, Pressure, Weight,
                              PreferredUnits, RangeError)
from py_ballisticcalc.unit import AbstractDimension


def val(x):
    if isinstance(x, AbstractDimension):
        return (type(x).__name__, repr(x.raw_value), int(x.units))
    return repr(x)


def rows_digest(rows):
    text = repr([[val(f) for f in row] for row in rows])
    return len(rows), hashlib.sha256(text.encode()).hexdigest()[:20]


def show(tag, rows):
    n, h = rows_digest(rows)
    last = rows[-1]
    print(tag, n, h, repr(last.distance.raw_value), repr(last.height.raw_value),
          repr(last.velocity.raw_value), int(last.distance.units), last.flag)


PRESETS = {
    "default": {},
    "metric": dict(angular=Unit.Degree, distance=Unit.Meter, velocity=Unit.MPS, pressure=Unit.hPa,
                   temperature=Unit.Celsius, diameter=Unit.Centimeter, length=Unit.Centimeter,
                   weight=Unit.Gram, adjustment=Unit.Mil, drop=Unit.Centimeter, energy=Unit.Joule,
                   ogw=Unit.Kilogram, sight_height=Unit.Centimeter, target_height=Unit.Meter,
                   twist=Unit.Centimeter),
    "odd": dict(angular=Unit.Mil, distance=Unit.Kilometer, velocity=Unit.KT, pressure=Unit.PSI,
                temperature=Unit.Kelvin, diameter=Unit.Line, length=Unit.Millimeter,
                weight=Unit.Ounce, adjustment=Unit.MOA, drop=Unit.Foot, energy=Unit.FootPound,
                ogw=Unit.Newton, sight_height=Unit.Millimeter, target_height=Unit.Yard,
                twist=Unit.Foot),
}


def make_shot(look_deg=0.0, cant_deg=0.0):
    dm = DragModel(0.223, TableG7, Weight.Grain(168), Distance.Inch(0.308), Distance.Inch(1.282))
    ammo = Ammo(dm, Velocity.FPS(2750), Temperature.Celsius(15))
    weapon = Weapon(Distance.Inch(2.5), Distance.Inch(11.24), Angular.Mil(0))
    atmo = Atmo(Distance.Foot(1500), Pressure.InHg(28.1), Temperature.Fahrenheit(41), 35)
    return Shot(weapon=weapon, ammo=ammo, look_angle=Angular.Degree(look_deg),
                cant_angle=Angular.Degree(cant_deg), atmo=atmo,
                winds=[Wind(Velocity.MPH(6), Angular.OClock(9), Distance.Yard(300)),
                       Wind(Velocity.MPH(3), Angular.Degree(45))])


def run(name):
    PreferredUnits.defaults()
    PreferredUnits.set(**PRESETS[name])
    calc = Calculator()
    small = Calculator(_config={"max_calc_step_size_feet": 2.0})

    # zeroing: explicit and bare distances (bare = number in the preferred distance unit)
    for look in (0.0, 4.0):
        shot = make_shot(look)
        d_explicit = Distance.Meter(100)
        e1 = calc.barrel_elevation_for_target(shot, d_explicit)
        bare = Distance.Meter(100) >> PreferredUnits.distance
        e2 = calc.barrel_elevation_for_target(shot, bare)
        print(name, "elev", look, val(e1), val(e2), int(d_explicit.units))
        z = calc.set_weapon_zero(shot, Distance.Yard(200))
        print(name, "zero", look, val(z), z is shot.weapon.zero_elevation, val(shot.weapon.zero_elevation))

        rng = Distance.Yard(600)
        stp = Distance.Yard(50)
        show(f"{name} fire explicit {look}", calc.fire(shot, rng, stp).trajectory)
        print(name, "units-after", int(rng.units), int(stp.units))
        show(f"{name} fire bare {look}", calc.fire(shot, Distance.Yard(600) >> PreferredUnits.distance,
                                                   Distance.Yard(50) >> PreferredUnits.distance).trajectory)
        # default step: omitted, 0, 0.0, None, False all mean "range / 10"
        show(f"{name} fire nostep {look}", calc.fire(shot, Distance.Meter(500)).trajectory)
        for falsy in (0, 0.0, None, False):
            show(f"{name} fire step={falsy!r} {look}",
                 calc.fire(shot, Distance.Meter(500), falsy).trajectory)
        show(f"{name} fire bare-range nostep {look}", calc.fire(shot, 1).trajectory
             if name == "odd" else calc.fire(shot, 400).trajectory)
        # a Distance of zero is an explicit (truthy) step: no range records at all
        show(f"{name} fire step=Distance0 {look}", calc.fire(shot, Distance.Yard(100), Distance.Inch(0)).trajectory)
        # extra data and time step
        hr = calc.fire(shot, Distance.Yard(400), Distance.Yard(100), extra_data=True)
        show(f"{name} fire extra {look}", hr.trajectory)
        print(name, "extra-flag", hr.extra, hr.shot is shot)
        show(f"{name} fire timestep {look}",
             small.fire(shot, Distance.Yard(300), Distance.Yard(150), False, 0.05).trajectory)
        show(f"{name} fire kw {look}", small.fire(shot=shot, trajectory_range=Distance.Foot(900),
                                                  trajectory_step=Distance.Foot(100), time_step=0.0,
                                                  extra_data=False).trajectory)
        # negative bare step: truthy, goes through the preferred unit
        try:
            show(f"{name} fire negstep {look}", calc.fire(shot, Distance.Yard(100), -1).trajectory)
        except Exception as exc:  # pylint: disable=broad-except
            print(name, "fire negstep", look, type(exc).__name__, exc)

    # incomplete shot: the trajectory is cut by the minimum velocity / drop limits
    shot = make_shot(0.0)
    try:
        calc.fire(shot, Distance.Mile(4), Distance.Yard(500))
        print(name, "range-error none")
    except RangeError as err:
        n, h = rows_digest(err.incomplete_trajectory)
        print(name, "range-error", err.reason, n, h)
    # steep shot with cant
    shot = make_shot(30.0, 10.0)
    calc.set_weapon_zero(shot, Distance.Meter(300))
    show(f"{name} steep", calc.fire(shot, Distance.Meter(800), Distance.Meter(80), True).trajectory)


for preset in PRESETS:
    run(preset)
PreferredUnits.defaults()
