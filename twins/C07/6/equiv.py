"""Equivalence digest for refactoring 3 (table-driven to_raw / from_raw of all dimensions in unit.py).

Prints a deterministic digest; must be identical on the clean tree and with the patch applied.
"""
import hashlib
import math
import warnings
from fractions import Fraction

warnings.simplefilter("ignore")

from py_ballisticcalc import (Calculator, Shot, Weapon, Ammo, Atmo, Wind, DragModel, TableG7, TableG1,
                              Unit, Distance, Angular, Velocity, Temperature, Pressure, Weight, Energy,
                              PreferredUnits)
from py_ballisticcalc.unit import AbstractDimension

DIMENSIONS = (Angular, Distance, Energy, Pressure, Temperature, Velocity, Weight)
VALUES = (0, 0.0, -0.0, 1, -1, 7, 0.1, -273.15, 459.67, 32, 15, 59.0, 1e-300, 1e300, 12345.678901234567,
          6.283185307179586, 6.283185307179587, 6.5, 361, 720.5, 21600.000001, 6400, 6000.0, 12, 13.5, -725.0,
          3600, 1e5, float("inf"), float("-inf"), float("nan"), True, Fraction(1, 3), 10 ** 30)


def r(x):
    """exact, type-revealing text of a value"""
    if isinstance(x, float):
        return "f:" + (x.hex() if math.isfinite(x) else repr(x))
    return type(x).__name__ + ":" + repr(x)


def attempt(fn):
    try:
        return r(fn())
    except Exception as exc:  # pylint: disable=broad-except
        return "EXC " + type(exc).__name__ + ": " + str(exc)


h_all = hashlib.sha256()
count = 0


def emit(line, echo=False):
    global count
    h_all.update((line + "\n").encode())
    count += 1
    if echo:
        print(line)


# 1. every unit x every value: construction through the public Unit(...) call, reading in every unit
for u in Unit:
    for v in VALUES:
        try:
            q = u(v)
        except Exception as exc:  # pylint: disable=broad-except
            emit(f"new {u!r} {r(v)} EXC {type(exc).__name__}: {exc}")
            continue
        emit(f"new {u!r} {r(v)} {type(q).__name__} raw={r(q.raw_value)} units={int(q.units)} unit_value={attempt(lambda: q.unit_value)}")
        for target in Unit:  # includes the units of the wrong dimensions -> UnitConversionError
            emit(f"  >> {target!r} {attempt(lambda: q >> target)} get_in {attempt(lambda: q.get_in(target))}")
        emit(f"  str {attempt(lambda: str(q))} repr {attempt(lambda: repr(q))}")

# 2. direct class construction, including wrong and non-Unit unit arguments
for cls in DIMENSIONS:
    for bad in (Unit.Inch, Unit.Radian, Unit.FPS, Unit.Grain, 11, 11.0, 62, "inch", None, (1, 2), [1], 99):
        emit(f"ctor {cls.__name__} {bad!r} {attempt(lambda: cls(2.5, bad).raw_value)}")
        emit(f"to_raw {cls.__name__} {bad!r} {attempt(lambda: cls.to_raw(object.__new__(cls), 2.5, bad))}")
        emit(f"from_raw {cls.__name__} {bad!r} {attempt(lambda: cls.from_raw(object.__new__(cls), 2.5, bad))}")
    emit(f"ctor {cls.__name__} str-value {attempt(lambda: [cls('ab', u).raw_value for u in Unit if 0 == 1 or attempt(lambda: cls(1, u)).startswith('EXC') is False][:2])}")
emit(f"abstract {attempt(lambda: AbstractDimension(1, Unit.Inch))}")
odd = Distance.Inch(3)
odd.note = Unit.FPS  # instances of the dimensions have a __dict__; the fallback validation looks into it
emit(f"instance-dict {attempt(lambda: odd >> Unit.FPS)} {attempt(lambda: odd >> Unit.KT)} {attempt(lambda: odd.to_raw(5, Unit.FPS))}")

# 3. angular wrap-around happens for every unit but Radian
for u, v in ((Unit.Radian, 7.0), (Unit.Degree, 361.0), (Unit.Degree, 360.0), (Unit.MOA, 21601.0), (Unit.Mil, 6401),
             (Unit.MRad, 6284.0), (Unit.Thousandth, 6001), (Unit.OClock, 12.5), (Unit.OClock, 12), (Unit.Degree, -361.0),
             (Unit.InchesPer100Yd, 1e30), (Unit.CmPer100m, -1e30)):
    emit(f"wrap {u!r} {r(v)} {r(u(v).raw_value)}")

# 4. bare numbers through every preferred-unit slot under several settings
SLOTS = ("angular", "distance", "velocity", "pressure", "temperature", "diameter", "length", "weight",
         "adjustment", "drop", "energy", "ogw", "sight_height", "target_height", "twist")
PRESETS = {
    "default": {},
    "metric": dict(angular=Unit.Degree, distance=Unit.Meter, velocity=Unit.MPS, pressure=Unit.hPa,
                   temperature=Unit.Celsius, diameter=Unit.Centimeter, length=Unit.Centimeter,
                   weight=Unit.Gram, adjustment=Unit.Mil, drop=Unit.Centimeter, energy=Unit.Joule,
                   ogw=Unit.Kilogram, sight_height=Unit.Centimeter, target_height=Unit.Meter,
                   twist=Unit.Centimeter),
    "odd": dict(angular=Unit.Thousandth, distance=Unit.NauticalMile, velocity=Unit.KMH, pressure=Unit.Bar,
                temperature=Unit.Rankin, diameter=Unit.Line, length=Unit.Millimeter,
                weight=Unit.Newton, adjustment=Unit.CmPer100m, drop=Unit.Mile, energy=Unit.FootPound,
                ogw=Unit.Ounce, sight_height=Unit.Kilometer, target_height=Unit.Yard,
                twist=Unit.Foot),
    "strings": dict(angular="moa", distance="km", velocity="kt", pressure="psi", temperature="K",
                    weight="lb", adjustment="in/100yd", drop="ft", energy="J", ogw="kg"),
}


def shot_digest(tag):
    dm = DragModel(0.223, TableG7, Weight.Grain(168), Distance.Inch(0.308), Distance.Inch(1.282))
    ammo = Ammo(dm, Velocity.MPS(838.2), Temperature.Celsius(15), 0.01, True)
    weapon = Weapon(Distance.Centimeter(6.35), Distance.Inch(11.24), Angular.Mil(0))
    atmo = Atmo(Distance.Meter(457.2), Pressure.hPa(951.6), Temperature.Celsius(5), 35, Temperature.Fahrenheit(20))
    shot = Shot(weapon=weapon, ammo=ammo, look_angle=Angular.MOA(120), cant_angle=Angular.Thousandth(50),
                atmo=atmo, winds=[Wind(Velocity.KMH(9.6), Angular.OClock(9), Distance.Meter(275)),
                                  Wind(Velocity.KT(2.6), Angular.CmPer100m(100))])
    calc = Calculator()
    zero = calc.set_weapon_zero(shot, Distance.Meter(100))
    hit = calc.fire(shot, Distance.Kilometer(0.7), Distance.Meter(70), extra_data=True)
    text = repr([[r(f.raw_value) if isinstance(f, AbstractDimension) else r(f) for f in row] for row in hit])
    emit(f"{tag} shot zero={r(zero.raw_value)} rows={len(hit.trajectory)} "
         f"sha={hashlib.sha256(text.encode()).hexdigest()[:24]}", echo=True)
    emit(f"{tag} last-in-def-units {[r(x) for x in hit[-1].in_def_units()]}")
    emit(f"{tag} last-formatted {hit[-1].formatted()}")
    # the same shot from bare numbers in the preferred units
    P = PreferredUnits
    dm2 = DragModel(0.223, TableG7, Weight.Grain(168) >> P.weight, Distance.Inch(0.308) >> P.diameter,
                    Distance.Inch(1.282) >> P.length)
    ammo2 = Ammo(dm2, Velocity.MPS(838.2) >> P.velocity, Temperature.Celsius(15) >> P.temperature, 0.01, True)
    weapon2 = Weapon(Distance.Centimeter(6.35) >> P.sight_height, Distance.Inch(11.24) >> P.twist, 0)
    atmo2 = Atmo(Distance.Meter(457.2) >> P.distance, Pressure.hPa(951.6) >> P.pressure,
                 Temperature.Celsius(5) >> P.temperature, 35, Temperature.Fahrenheit(20) >> P.temperature)
    shot2 = Shot(weapon=weapon2, ammo=ammo2, look_angle=Angular.MOA(120) >> P.angular,
                 cant_angle=Angular.Thousandth(50) >> P.angular, atmo=atmo2,
                 winds=[Wind(Velocity.KMH(9.6) >> P.velocity, Angular.OClock(9) >> P.angular,
                             Distance.Meter(275) >> P.distance),
                        Wind(Velocity.KT(2.6) >> P.velocity, Angular.CmPer100m(100) >> P.angular)])
    zero2 = calc.set_weapon_zero(shot2, Distance.Meter(100) >> P.distance)
    hit2 = calc.fire(shot2, Distance.Kilometer(0.7) >> P.distance, Distance.Meter(70) >> P.distance)
    text2 = repr([[r(f.raw_value) if isinstance(f, AbstractDimension) else r(f) for f in row] for row in hit2])
    emit(f"{tag} bare-shot zero={r(zero2.raw_value)} rows={len(hit2.trajectory)} "
         f"sha={hashlib.sha256(text2.encode()).hexdigest()[:24]}", echo=True)


for name, preset in PRESETS.items():
    PreferredUnits.defaults()
    PreferredUnits.set(**preset)
    for slot in SLOTS:
        unit = getattr(PreferredUnits, slot)
        for v in (0, 0.0, 1, -2.5, 100, 15, 1e-9):
            q = unit(v)
            emit(f"{name} {slot} {unit!r} {r(v)} {type(q).__name__} raw={r(q.raw_value)} back={r(q >> unit)} str={q}")
    shot_digest(name)
PreferredUnits.defaults()

print("lines", count)
print("digest", h_all.hexdigest())
