"""Equivalence probe for refactoring 3 (unit.py: Unit.__call__ dispatch, PreferredUnits.set; interface.py:
Calculator.fire / barrel_elevation_for_target; HitResult.danger_space; TrajectoryCalc._init_trajectory).

Prints a deterministic digest; must be byte-identical on the clean and the patched worktree.
"""
import hashlib
import itertools
import logging
import re
import sys
import warnings

from py_ballisticcalc import (Atmo, Wind, Shot, Weapon, Ammo, DragModel, TableG7, TableG1, Calculator,
                              PreferredUnits, Unit, Distance, Angular, AbstractDimension)
from py_ballisticcalc.logger import logger

warnings.simplefilter("ignore")
LINES = []


def out(*parts):
    LINES.append(" ".join(str(p) for p in parts))


class _Capture(logging.Handler):
    def emit(self, record):
        out("LOG", record.levelname, record.getMessage())


logger.addHandler(_Capture())
logger.propagate = False
for h in list(logger.handlers):
    if isinstance(h, logging.StreamHandler) and not isinstance(h, _Capture):
        logger.removeHandler(h)  # keep stderr quiet; messages are captured into the digest instead


def q(x):
    """exact description of a quantity: class, defined unit, raw value with its python type"""
    return f"{type(x).__name__}[{x.units!r}]{type(x.raw_value).__name__}:{x.raw_value!r}"


def attempt(label, fn):
    try:
        out(label, "->", fn())
    except Exception as e:  # pylint: disable=broad-except
        out(label, "!!", type(e).__name__, re.sub(r"0x[0-9a-fA-F]+", "0x?", str(e))[:120])  # hide object addresses


def units_state():
    return repr(PreferredUnits).replace("\n", "; ")


def probe_unit_call():
    values = [0, 0.0, -0.0, 1, -1, 2.5, -273.15, 1e-320, 1e308, 7200, float("inf"), True, "3", None]
    for u in Unit:
        for v in values:
            def build(u=u, v=v):
                x = u(v)
                return " ".join([q(x), str(x), repr(x.unit_value)]
                                + [repr(x >> other) for other in Unit if type(other(1)) is type(x)])
            attempt(f"Unit {u!r}({v!r})", build)
    # quantity passed to a unit: same object, re-labelled (also across dimensions, which is not validated)
    for u, w in itertools.product(Unit, Unit):
        def relabel(u=u, w=w):
            x = u(1.25)
            y = w(x)
            try:
                shown = str(y)
            except Exception as e:  # pylint: disable=broad-except
                shown = f"{type(e).__name__}: {e}"
            return f"{y is x} {q(y)} {shown}"
        attempt(f"Unit {w!r}({u!r}(1.25))", relabel)
    out("types", sorted({(u.name, type(u(1)).__name__) for u in Unit}))


def probe_set():
    cases = [
        dict(distance=Unit.Meter), dict(distance='m'), dict(distance='meter', velocity='mps', temperature='°C'),
        dict(distance='parsec'), dict(distanse=Unit.Meter), dict(distance=17), dict(distance=17.0),
        dict(distance=None), dict(drop=True), dict(drop=False), dict(sight_height='cm', twist=' IN ', ogw='kg'),
        dict(angular='moa', adjustment='cm/100m', pressure='hPa', energy='J', weight='gr'),
        dict(velocity='distance'), dict(length=b'mm'), dict(target_height=Unit.Celsius),
        dict(diameter='', nothing='m', length='Millimeter', weight=[Unit.Gram]),
        dict(distance=Unit.Yard, unknown_slot=1, velocity='knot', temperature='K', pressure=Unit.PSI),
    ]
    for kw in cases:
        PreferredUnits.defaults()
        out("set", repr(kw))
        try:
            PreferredUnits.set(**kw)
        except Exception as e:  # pylint: disable=broad-except
            out("set !!", type(e).__name__, e)
        out("  state", units_state())
    # cumulative (no reset in between)
    PreferredUnits.defaults()
    for kw in cases:
        try:
            PreferredUnits.set(**kw)
        except Exception as e:  # pylint: disable=broad-except
            out("set !!", type(e).__name__, e)
    out("cumulative state", units_state())
    PreferredUnits.drop = Unit.Inch
    PreferredUnits.defaults()
    out("after defaults", units_state())


PRESETS = {
    "default": {},
    "metric": dict(distance=Unit.Meter, pressure=Unit.hPa, temperature=Unit.Celsius, velocity=Unit.MPS,
                   angular=Unit.Mil, sight_height=Unit.Centimeter, drop=Unit.Centimeter, adjustment=Unit.MOA,
                   twist=Unit.Centimeter, weight=Unit.Gram, diameter=Unit.Millimeter, length=Unit.Millimeter,
                   target_height=Unit.Centimeter, energy=Unit.Joule, ogw=Unit.Kilogram),
    "odd": dict(distance=Unit.Foot, pressure=Unit.PSI, temperature=Unit.Kelvin, velocity=Unit.KT,
                angular=Unit.Radian, sight_height=Unit.Line, twist=Unit.Millimeter, weight=Unit.Ounce,
                diameter=Unit.Line, length=Unit.Centimeter, target_height=Unit.Foot, adjustment=Unit.CmPer100m,
                drop=Unit.Yard),
    "strings": dict(distance='km', velocity='km/h', temperature='rankin', angular='oclock', drop='mm',
                    target_height='m', sight_height='mm'),
}


def row_digest(row):
    return " ".join(repr(float(v)) if not isinstance(v, (int, float)) else repr(v) for v in row)


def rows_digest(hit):
    return hashlib.sha256("\n".join(row_digest(r) for r in hit).encode()).hexdigest()[:20]


def make_shot(look=Unit.Degree(0), cant=Unit.Degree(0), temp_c=15.0, twist=Unit.Inch(11.24)):
    dm = DragModel(0.223, TableG7, Unit.Grain(168), Unit.Inch(0.308), Unit.Inch(1.282))
    ammo = Ammo(dm, Unit.FPS(2750), Unit.Celsius(15), 0.012, True)
    weapon = Weapon(Unit.Inch(2), twist)
    atmo = Atmo(Unit.Meter(300), Unit.hPa(980), Unit.Celsius(temp_c), 40)
    return Shot(weapon, ammo, look, Unit.Degree(0), cant, atmo,
                [Wind(Unit.MPS(4), Unit.Degree(90), Unit.Meter(400)), Wind(Unit.MPS(2), Unit.Degree(180))])


def probe_fire(label):
    calc = Calculator()
    pu = PreferredUnits
    for look, cant, temp_c, twist in ((Unit.Degree(0), Unit.Degree(0), 15.0, Unit.Inch(11.24)),
                                      (Unit.Degree(4), Unit.Degree(10), 0.0, Unit.Inch(-9)),
                                      (Unit.Degree(-3), Unit.Degree(-5), -20.0, Unit.Inch(0))):
        shot = make_shot(look, cant, temp_c, twist)
        zero_q = calc.set_weapon_zero(shot, Unit.Meter(100))
        out(label, "zero(quantity)", q(zero_q), zero_q is shot.weapon.zero_elevation)
        shot_b = make_shot(look, cant, temp_c, twist)
        zero_b = calc.barrel_elevation_for_target(shot_b, Unit.Meter(100) >> pu.distance)
        out(label, "zero(bare)", q(zero_b), q(shot_b.weapon.zero_elevation))
        d = Unit.Meter(100)
        calc.barrel_elevation_for_target(shot_b, d)
        out(label, "zero arg relabelled", q(d))

        rng_q = Unit.Meter(600)
        rng_b = rng_q >> pu.distance
        for rng, step in itertools.product((rng_q, rng_b),
                                           (None, 0, 0.0, False, Unit.Meter(0), Unit.Meter(50),
                                            Unit.Meter(50) >> pu.distance, Unit.Yard(0.5), -1)):
            for extra, ts in ((False, 0.0), (True, 0.0), (False, 0.05)):
                def run(rng=rng, step=step, extra=extra, ts=ts):
                    if step is None:
                        hit = calc.fire(shot, rng, extra_data=extra, time_step=ts)
                    else:
                        hit = calc.fire(shot, rng, step, extra, ts)
                    return f"{len(hit.trajectory)} {rows_digest(hit)} {row_digest(hit[-1])} {hit.extra} {hit.shot is shot}"
                attempt(f"{label} fire {rng!r} {step!r} {extra} {ts}", run)
        attempt(f"{label} fire bad range", lambda: calc.fire(shot, "far"))
        attempt(f"{label} fire bad step", lambda: calc.fire(shot, rng_q, "x"))
        out(label, "cdm", len(calc.cdm), repr(calc.cdm[3]))

        # danger space
        hit = calc.fire(shot, Unit.Meter(1000), Unit.Meter(25), extra_data=True)
        plain = calc.fire(shot, Unit.Meter(1000), Unit.Meter(25))
        attempt(f"{label} danger no extra", lambda: plain.danger_space(Unit.Meter(300), Unit.Meter(1)))
        ranges = [0, 0.0, Unit.Meter(0), Unit.Meter(10), Unit.Meter(300), Unit.Meter(300) >> pu.distance,
                  Unit.Meter(612.3), Unit.Meter(1000), Unit.Meter(999.99), Unit.Meter(1000.5), Unit.Meter(5000), -5, "r"]
        heights = [0, 0.0, Unit.Meter(0), Unit.Meter(0.5), Unit.Meter(0.5) >> pu.target_height, Unit.Meter(1.8),
                   Unit.Meter(500), -1, Unit.Inch(-10), float("nan"), "h"]
        looks = [None, 0, 0.0, 2, Unit.Degree(0), Unit.Degree(4), Unit.Mil(-10)]
        for r, h, la in itertools.product(ranges, heights, looks):
            def ds(r=r, h=h, la=la):
                d = hit.danger_space(r, h, la)
                return " ".join((row_digest(d.at_range), q(d.target_height), row_digest(d.begin)[:60], row_digest(d.end)[:60],
                                 repr(hit.trajectory.index(d.begin)), repr(hit.trajectory.index(d.end)),
                                 q(d.look_angle), repr(d.look_angle is shot.look_angle), str(d)))
            attempt(f"{label} danger {r!r} {h!r} {la!r}", ds)
        for dist in (Unit.Meter(0), Unit.Meter(333), Unit.Meter(1000), Unit.Meter(1001)):
            attempt(f"{label} at_distance {dist!r}", lambda dist=dist: row_digest(hit.get_at_distance(dist)))
        attempt(f"{label} zeros", lambda: [row_digest(z)[:80] for z in hit.zeros()])
        out(label, "formatted", hit[7].formatted())
        out(label, "in_def_units", hit[7].in_def_units())


probe_unit_call()
probe_set()
for name, preset in PRESETS.items():
    PreferredUnits.defaults()
    PreferredUnits.set(**preset)
    out("=== preset", name, units_state())
    probe_fire(name)
PreferredUnits.defaults()

text = "\n".join(LINES)
if len(sys.argv) > 1:  # optional: dump the full text for diffing
    with open(sys.argv[1], "w", encoding="utf-8") as fp:
        fp.write(text + "\n")
for i in range(0, len(LINES), max(1, len(LINES) // 60)):  # a deterministic sample of the lines
    print(LINES[i][:400])
print("lines:", len(LINES), "raised:", sum(1 for ln in LINES if " !! " in ln), "log:", sum(1 for ln in LINES if ln.startswith("LOG")))
print("sha256:", hashlib.sha256(text.encode()).hexdigest())
