"""Equivalence digest for C07 / round 3 / refactoring 1 (PreferredUnits.defaults / .set, unit parsing helpers)."""
import logging
import warnings

warnings.simplefilter("ignore")

import py_ballisticcalc as pbc
from py_ballisticcalc import (PreferredUnits, Unit, Distance, Velocity, Angular, Temperature, Pressure, Weight,
                              DragModel, TableG7, TableG1, Ammo, Weapon, Shot, Atmo, Wind, Calculator,
                              loadMetricUnits, loadImperialUnits, loadMixedUnits)
from py_ballisticcalc.unit import _parse_unit, _parse_value, _find_unit_by_alias, UnitAliases
from py_ballisticcalc.logger import logger

SLOTS = ('angular', 'distance', 'velocity', 'pressure', 'temperature', 'diameter', 'length', 'weight',
         'adjustment', 'drop', 'energy', 'ogw', 'sight_height', 'target_height', 'twist')


class Capture(logging.Handler):
    def __init__(self):
        super().__init__(level=logging.DEBUG)
        self.records = []

    def emit(self, record):
        self.records.append(f"{record.levelname}:{record.getMessage()}")


cap = Capture()
for _h in list(logger.handlers):   # keep stderr quiet: the warnings are captured and printed below
    logger.removeHandler(_h)
logger.addHandler(cap)
logger.setLevel(logging.WARNING)


def state(cls=PreferredUnits):
    return [(s, int(getattr(cls, s)), repr(getattr(cls, s))) for s in SLOTS]


def flush(tag):
    print(tag, 'LOG', cap.records)
    cap.records.clear()


def q(x):
    """repr of a quantity: class, defined unit, exact raw value"""
    if isinstance(x, pbc.AbstractDimension):
        return (type(x).__name__, int(x.units), repr(x.raw_value))
    return repr(x)


def attempt(fn, *a, **kw):
    try:
        return ('ok', q(fn(*a, **kw)))
    except Exception as e:  # noqa
        return ('err', type(e).__name__, str(e))


# ---------------------------------------------------------------- defaults()
PreferredUnits.defaults()
print('D0', state())
for s in SLOTS:  # scramble every slot, then reset
    setattr(PreferredUnits, s, Unit.Newton)
PreferredUnits.defaults()
print('D1', state())
print('D1 repr', repr(PreferredUnits))


class MyUnits(PreferredUnits):
    distance = Unit.Kilometer


MyUnits.temperature = Unit.Kelvin
PreferredUnits.distance = Unit.Meter
MyUnits.defaults()               # resets on the subclass only
print('D2 sub', state(MyUnits))
print('D2 base', state())
print('D2 own', sorted(k for k in vars(MyUnits) if k in SLOTS))
PreferredUnits.defaults()
print('D3', PreferredUnits.defaults() is None, state())

# ---------------------------------------------------------------- set()
PreferredUnits.set(distance=Unit.Meter, velocity='mps', temperature='  Celsius ', pressure='hPa',
                   weight='gram', adjustment='cm/100m', drop='cm', energy='J', ogw='kg',
                   sight_height=Unit.Millimeter, target_height='m', twist='inch', diameter='Line', length='ln')
print('S1', state())
flush('S1')
# slot names as values: read at the moment of the assignment, sequentially
PreferredUnits.set(drop='distance', distance='twist', twist='drop')
print('S2', state())
flush('S2')
# rejected values / unknown attributes, mixed with accepted ones (order matters)
PreferredUnits.set(distance='parsec', nonsense=Unit.Meter, velocity=12, angular=None, weight=2.5,
                   pressure=('mmHg',), temperature='K', length=True, diameter=False, energy='', ogw=' ')
print('S3', state(), PreferredUnits.length, PreferredUnits.diameter)
flush('S3')
print('S4', PreferredUnits.set() is None, state())
# a wrong dimension is accepted by set() exactly as before
PreferredUnits.set(distance=Unit.Kelvin)
print('S5', state()[1], attempt(PreferredUnits.distance, 5))
flush('S5')
# any existing class attribute passes the hasattr() test - even the two class functions (long-standing quirk)
saved = {k: PreferredUnits.__dict__[k] for k in ('defaults', 'set')}
PreferredUnits.set(defaults='meter', set=Unit.Foot, twist='ft')
print('S6', type(PreferredUnits.__dict__['defaults']).__name__, repr(PreferredUnits.__dict__['defaults']),
      type(PreferredUnits.__dict__['set']).__name__, repr(PreferredUnits.__dict__['set']), state()[-1])
print('S6 call', attempt(PreferredUnits.defaults), attempt(PreferredUnits.set, 3))
for k, v in saved.items():
    setattr(PreferredUnits, k, v)
flush('S6')
PreferredUnits.defaults()
print('S7', state())

# ---------------------------------------------------------------- parsing helpers
# (put the plain default units back by hand, independent of defaults())
for s, u in zip(SLOTS, (Unit.Degree, Unit.Yard, Unit.FPS, Unit.InHg, Unit.Fahrenheit, Unit.Inch, Unit.Inch,
                        Unit.Grain, Unit.Mil, Unit.Inch, Unit.FootPound, Unit.Pound, Unit.Inch, Unit.Inch,
                        Unit.Inch)):
    setattr(PreferredUnits, s, u)
print('P0', state())

for text in ('ft*lb', 'newton', 'Degree', ' hPa ', 'hpa', 'HPA', 'MOA', 'moa', 'mil', 'Mil', 'in/100yd', 'inchesper100yd',
             'distance', 'Distance', 'twist', 'liniа', 'ft⋅lbf', '°F', '°f', 'k', 'K', 'r', 'c', 'degc', 'n', 'nm', 'mi.',
             'feet/second', 'kn', '', ' ', 'foo', 'set', 'defaults', 'radian', 'Radian', 'mmhg', '″hg', 'lbf/in2'):
    r = attempt(_parse_unit, text)
    print('PU', repr(text), r)
for bad in (None, 5, b'm', Unit.Meter):
    print('PU bad', repr(bad), attempt(_parse_unit, bad))

print('FA', _find_unit_by_alias('m', UnitAliases), _find_unit_by_alias('M', UnitAliases),
      _find_unit_by_alias('', UnitAliases), _find_unit_by_alias('inch/100yd', UnitAliases))
print('FA custom', _find_unit_by_alias('x', {('A', 'X'): Unit.Meter, ('x',): Unit.Foot, (): Unit.Inch}),
      _find_unit_by_alias('y', {}), _find_unit_by_alias('y', {(): Unit.Inch}),
      _find_unit_by_alias('none', {('None',): None, ('none',): Unit.Foot}))
print('FA bad', attempt(_find_unit_by_alias, 'x', {('a', 1): Unit.Meter}),
      attempt(_find_unit_by_alias, 'x', {None: Unit.Meter}),
      attempt(_find_unit_by_alias, 1, {('a',): Unit.Meter}))

PreferredUnits.energy = Unit.Joule
values = (10, 10.5, -3, 0, 0.0, True, '10', '10.', '.5', '-.5', '-10.25', '1 0', ' 7 ', '10ft*lb', '10 ft * lb', '10J',
          '10 joule', '10energy', '10 distance', '-2.5mil', '1e3', '1e3m', '--1', '', ' ', 'm', '10 parsec', '10.5.5',
          '5 °C', '5degc', '3′', '12 in/100yd', '0K', '-0', '-0.0 m', '1_0', '１２', '٣', '1\n', '1\nm', None, b'10',
          [1], 10 ** 400, float('inf'), float('nan'), 'nan', 'inf m')
prefs = (Unit.FootPound, 'footpound', 'ft*lb', 'energy', 'Energy', ' energy ', 'distance', 'K', 'bogus', '', None, 5,
         Unit.Celsius)
for pref in prefs:
    for v in values:
        print('PV', repr(pref), repr(v)[:40], attempt(_parse_value, v, pref))
PreferredUnits.energy = Unit.FootPound

# ---------------------------------------------------------------- presets + physics under presets
def build():
    dm = DragModel(0.223, TableG7, Weight.Grain(168), Distance.Inch(0.308), Distance.Inch(1.282))
    ammo = Ammo(dm, Velocity.MPS(800), Temperature.Celsius(15), 0.8, True)
    weapon = Weapon(Distance.Centimeter(9), Distance.Inch(12), Angular.Mil(0))
    atmo = Atmo(Distance.Meter(150), Pressure.hPa(990), Temperature.Celsius(23), 40, Temperature.Celsius(5))
    winds = [Wind(Velocity.MPS(4), Angular.Degree(70), Distance.Meter(300)),
             Wind(Velocity.KMH(10), Angular.OClock(9), Distance.Meter(900))]
    return Shot(weapon, ammo, Angular.Degree(2), Angular.MOA(1.5), Angular.Degree(3), atmo, winds)


def physics(tag):
    shot = build()
    calc = Calculator()
    zero = calc.set_weapon_zero(shot, Distance.Meter(100))
    res = calc.fire(shot, Distance.Meter(700), Distance.Meter(100), extra_data=True)
    rows = [tuple(repr(x.raw_value) if isinstance(x, pbc.AbstractDimension) else repr(x) for x in row)
            for row in res.trajectory]
    import hashlib
    print(tag, 'zero', repr(zero.raw_value), 'rows', len(rows), hashlib.sha256(repr(rows).encode()).hexdigest())
    print(tag, 'last', rows[-1])
    print(tag, 'fmt', res.trajectory[3].formatted())
    print(tag, 'def', res.trajectory[3].in_def_units())
    ds = res.danger_space(Distance.Meter(400), Distance.Meter(1.5))
    print(tag, 'ds', repr(ds.begin.distance.raw_value), repr(ds.end.distance.raw_value), str(ds))


print('CLS', callable(PreferredUnits.defaults), callable(PreferredUnits.set))
for name, loader in (('imperial', loadImperialUnits), ('metric', loadMetricUnits), ('mixed', loadMixedUnits)):
    loader()
    print('PRESET', name, state())
    flush('PRESET ' + name)
    physics('PHYS ' + name)
    # bare numbers == explicit quantities in the units in force
    w_bare, w_expl = Weapon(4, 11, 0.5), Weapon(PreferredUnits.sight_height(4), PreferredUnits.twist(11),
                                                PreferredUnits.angular(0.5))
    print('BARE', name, q(w_bare.sight_height), q(w_expl.sight_height), q(w_bare.twist), q(w_expl.twist),
          q(w_bare.zero_elevation), q(w_expl.zero_elevation))
    a_bare = Atmo(0, None, 0, 0, 0)
    print('BARE00', name, attempt(Atmo, 0, 0, 0, 0, 0))
    print('BARE0', name, q(a_bare.altitude), q(a_bare.pressure), q(a_bare.temperature), q(a_bare.powder_temp))
    print('PVAL', name, attempt(_parse_value, '12.5', 'distance'), attempt(_parse_value, 0, 'temperature'),
          attempt(_parse_value, '-3', 'adjustment'))
PreferredUnits.defaults()
print('END', state())
flush('END')
