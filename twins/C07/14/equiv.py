"""Equivalence digest for property C07 (preferred units only choose how bare numbers and output are read).

Run:  cd /tmp/wt/t5_C07 && PYTHONPATH=/tmp/wt/t5_C07 /venv/bin/python <this file>
Prints a deterministic text; it has to be byte-identical on the clean worktree and with the patch applied.
"""
import logging
import re
import warnings

warnings.simplefilter("ignore")

import py_ballisticcalc as pbc  # noqa: E402
from py_ballisticcalc import (  # noqa: E402
    Unit, PreferredUnits, Distance, Angular, Velocity, Temperature, Pressure, Weight, Energy,
    DragModel, DragModelMultiBC, BCPoint, TableG7, TableG1, Ammo, Weapon, Sight, Atmo, Vacuum, Wind, Shot,
    Calculator, loadMetricUnits, loadImperialUnits, loadMixedUnits,
)
from py_ballisticcalc.unit import _parse_unit, _parse_value  # noqa: E402
from py_ballisticcalc.logger import logger  # noqa: E402


class _ListHandler(logging.Handler):
    def __init__(self):
        super().__init__(level=logging.DEBUG)
        self.records = []

    def emit(self, record):
        self.records.append(f"{record.levelname}:{record.getMessage()}")


LOG = _ListHandler()
logger.addHandler(LOG)
for _h in list(logger.handlers):
    if _h is not LOG:
        logger.removeHandler(_h)

SLOTS = ('angular', 'distance', 'velocity', 'pressure', 'temperature', 'diameter', 'length', 'weight',
         'adjustment', 'drop', 'energy', 'ogw', 'sight_height', 'target_height', 'twist')


def slots():
    return tuple((s, int(getattr(PreferredUnits, s)), repr(getattr(PreferredUnits, s))) for s in SLOTS)


def q(x):
    """Deterministic description of a quantity (or anything else)."""
    if isinstance(x, pbc.AbstractDimension):
        return (type(x).__name__, repr(x.raw_value), int(x.units), repr(x.unit_value), str(x))
    return repr(x)


def attempt(label, fn):
    try:
        out = fn()
    except BaseException as exc:  # pylint: disable=broad-except
        out = ('EXC', type(exc).__name__, re.sub(r'0x[0-9a-fA-F]+', '0x', str(exc)))
    print(label, '->', out)
    return out


# ----------------------------------------------------------------------------------------------------------------
# configurations
def cfg_defaults():
    PreferredUnits.defaults()


def cfg_metric():
    PreferredUnits.defaults()
    loadMetricUnits()


def cfg_imperial():
    PreferredUnits.defaults()
    loadImperialUnits()


def cfg_mixed():
    PreferredUnits.defaults()
    loadMixedUnits()


def cfg_exotic():
    PreferredUnits.defaults()
    PreferredUnits.set(angular=Unit.Thousandth, distance=Unit.Kilometer, velocity=Unit.KT, pressure=Unit.PSI,
                       temperature=Unit.Kelvin, diameter=Unit.Millimeter, length=Unit.Line, weight=Unit.Ounce,
                       adjustment=Unit.CmPer100m, drop=Unit.Foot, energy=Unit.Joule, ogw=Unit.Newton,
                       sight_height=Unit.Centimeter, target_height=Unit.Yard, twist=Unit.Centimeter)


def cfg_strings():
    PreferredUnits.defaults()
    PreferredUnits.set(angular='mrad', distance='ft', velocity='km/h', pressure='bar', temperature='degR',
                       diameter='cm', length='mm', weight='g', adjustment='in/100yd', drop='line',
                       energy='J', ogw='kg', sight_height='mm', target_height='cm', twist='mm')


CONFIGS = (('defaults', cfg_defaults), ('metric', cfg_metric), ('imperial', cfg_imperial),
           ('mixed', cfg_mixed), ('exotic', cfg_exotic), ('strings', cfg_strings))


# ----------------------------------------------------------------------------------------------------------------
# section 1: the unit machinery itself
def section_units():
    print('== units ==')
    PreferredUnits.defaults()
    for u in Unit:
        row = [u.name, int(u)]
        for v in (0, 0.0, -0.0, 1, 1.5, -2.25, 1e6, 7000):
            inst = u(v)
            row.append(q(inst))
        print(row)
    # a quantity handed to a unit is re-labelled in place and returned as the same object
    samples = (Unit.Yard(100), Unit.Celsius(0), Unit.hPa(1000), Unit.MPS(800), Unit.Gram(10), Unit.MOA(3),
               Unit.Joule(2000))
    targets = (Unit.Meter, Unit.Kelvin, Unit.PSI, Unit.KT, Unit.Ounce, Unit.Thousandth, Unit.FootPound)
    for s, t in zip(samples, targets):
        before = q(s)
        r = t(s)
        print('relabel', before, '->', q(r), r is s, q(s))
    # wrong dimension: conversion is lazy, so the failure shows only when the value is read
    d = Unit.Yard(3)
    attempt('cross-dimension relabel', lambda: q(Unit.Celsius(d)))
    attempt('unsupported unit number 25', lambda: Unit.__call__(25, 1.0))
    attempt('unsupported unit number -3', lambda: Unit.__call__(-3, 1.0))
    attempt('unsupported unit number 80', lambda: Unit.__call__(80, 1.0))
    attempt('Distance with Celsius', lambda: Distance(1, Unit.Celsius))
    attempt('Distance with int unit', lambda: Distance(1, 12))
    attempt('string value', lambda: Unit.Degree('x'))
    attempt('None value', lambda: q(Unit.Inch(None)))
    attempt('nan', lambda: q(Unit.Meter(float('nan'))))
    attempt('inf', lambda: q(Unit.Degree(float('inf'))))
    attempt('bool', lambda: q(Unit.Grain(True)))

    print('== PreferredUnits.set / defaults ==')
    del LOG.records[:]
    PreferredUnits.defaults()
    print(slots())
    print(repr(PreferredUnits))
    PreferredUnits.set(distance=Unit.Meter)
    PreferredUnits.set(velocity='mps', temperature=' Celsius ', weight='GRAM', drop='cm', energy='energy',
                       pressure='distance')
    print(slots())
    PreferredUnits.set(distance='furlong', nosuch=Unit.Meter, angular=3, twist=2.5, ogw=None, length=True,
                       diameter=b'mm', adjustment=Unit.MOA)
    print(slots(), repr(PreferredUnits.length))
    PreferredUnits.set()
    attempt('set positional', lambda: PreferredUnits.set({'distance': Unit.Meter}))
    print(LOG.records)
    PreferredUnits.defaults()
    print(slots(), repr(PreferredUnits.length))

    class Sub(PreferredUnits):
        pass

    Sub.set(distance=Unit.Mile)
    print('sub set', int(Sub.distance), int(PreferredUnits.distance))
    PreferredUnits.set(distance=Unit.Foot)
    Sub.defaults()
    print('sub defaults', int(Sub.distance), int(PreferredUnits.distance), 'distance' in vars(Sub))
    PreferredUnits.defaults()
    print('parse', [repr(_parse_unit(s)) for s in ('m', 'Meter', 'distance', 'ft*lb', 'zzz', ' K ', 'degC')])
    for val, pref in ((5, Unit.Meter), ('5', 'distance'), ('-3.5 mil', None), ('12in', Unit.Meter), (0, 'temperature'),
                      ('7', 'nosuch'), ('abc', Unit.Meter), (2.5, None)):
        attempt(f'parse_value {val!r} {pref!r}', lambda val=val, pref=pref: q(_parse_value(val, pref)))
    print(LOG.records)
    del LOG.records[:]


# ----------------------------------------------------------------------------------------------------------------
# section 2: constructors, bare numbers against explicit quantities
def describe_atmo(a):
    return (q(a.altitude), q(a.pressure), q(a.temperature), q(a.powder_temp), repr(a.humidity),
            repr(a.density_ratio), q(a.mach), repr(a._t0), repr(a._p0), repr(a._a0),
            a.powder_temp is a.temperature)


def describe_wind(w):
    return (q(w.velocity), q(w.direction_from), q(w.until_distance), repr(w.MAX_DISTANCE_FEET), repr(w.vector))


def describe_weapon(w):
    return (q(w.sight_height), q(w.twist), q(w.zero_elevation), repr(w.sight))


def describe_ammo(a):
    return (q(a.mv), q(a.powder_temp), repr(a.temp_modifier), repr(a.use_powder_sensitivity),
            repr(a.dm), repr(getattr(a.dm, 'sectional_density', None)), repr(getattr(a.dm, 'form_factor', None)))


def describe_shot(s):
    return (q(s.look_angle), q(s.relative_angle), q(s.cant_angle), describe_weapon(s.weapon),
            describe_atmo(s.atmo), tuple(describe_wind(w) for w in s.winds),
            q(s.barrel_elevation), q(s.barrel_azimuth))


BARE_VALUES = (None, 0, 0.0, -0.0, 1, 2.5, -3.75, 15, 1000.0)


def section_constructors(name):
    print(f'== constructors [{name}] ==')
    P = PreferredUnits
    for v in BARE_VALUES:
        attempt(f'Atmo(alt={v!r})', lambda v=v: describe_atmo(Atmo(altitude=v)))
        attempt(f'Atmo(press={v!r})', lambda v=v: describe_atmo(Atmo(pressure=v)))
        attempt(f'Atmo(temp={v!r})', lambda v=v: describe_atmo(Atmo(temperature=v)))
        attempt(f'Atmo(powder={v!r})', lambda v=v: describe_atmo(Atmo(powder_t=v)))
        attempt(f'Atmo(all={v!r})', lambda v=v: describe_atmo(Atmo(v, v, v, 50, v)))
        attempt(f'Atmo.icao({v!r})', lambda v=v: describe_atmo(Atmo.icao(0 if v is None else v)))
        attempt(f'Vacuum({v!r})', lambda v=v: describe_atmo(Vacuum(v, v)))
        attempt(f'Wind({v!r})', lambda v=v: describe_wind(Wind(v, v, v)))
        attempt(f'Wind(max={v!r})', lambda v=v: describe_wind(Wind(3, 90, max_distance_feet=v)))
        attempt(f'Weapon({v!r})', lambda v=v: describe_weapon(Weapon(v, v, v)))
        if v is not None:
            # the explicit quantity in the preferred unit must be interchangeable with the bare number
            attempt(f'Atmo(explicit {v!r})', lambda v=v: describe_atmo(
                Atmo(P.distance(v), P.pressure(v), P.temperature(v), 50, P.temperature(v))))
            attempt(f'Wind(explicit {v!r})', lambda v=v: describe_wind(
                Wind(P.velocity(v), P.angular(v), P.distance(v))))
            attempt(f'Weapon(explicit {v!r})', lambda v=v: describe_weapon(
                Weapon(P.sight_height(v), P.twist(v), P.angular(v))))
        attempt(f'Ammo(mv={v!r})', lambda v=v: describe_ammo(
            Ammo(DragModel(0.3, TableG7), v, v, v, True)))
        attempt(f'DragModel({v!r})', lambda v=v: describe_ammo(
            Ammo(DragModel(0.3, TableG7, v, v, v), 800)))
        attempt(f'DragModelMultiBC({v!r})', lambda v=v: describe_ammo(
            Ammo(DragModelMultiBC([BCPoint(0.275, V=800), BCPoint(0.26, Mach=1.5), BCPoint(0.25, V=400)],
                                  TableG7, v, v, v), 800)))
        attempt(f'BCPoint(V={v!r})', lambda v=v: (lambda p: (repr(p.BC), repr(p.Mach), q(p.V)))(BCPoint(0.3, V=v)))
        attempt(f'Sight({v!r})', lambda v=v: (lambda s: (s.focal_plane, q(s.scale_factor), q(s.h_click_size),
                                                       q(s.v_click_size)))(Sight('SFP', v, v, v)))
        attempt(f'Shot({v!r})', lambda v=v: describe_shot(
            Shot(Weapon(), Ammo(DragModel(0.3, TableG7), 800), v, v, v)))
    # quantities passed in are re-labelled in place (same object) - part of the observable behaviour
    alt, pres, temp = Unit.Meter(250), Unit.hPa(990), Unit.Celsius(3)
    a = Atmo(alt, pres, temp)
    print('aliasing', a.altitude is alt, a.pressure is pres, a.temperature is temp, a.powder_temp is temp,
          q(alt), q(pres), q(temp))
    vel, ang, dist = Unit.MPH(7), Unit.OClock(3), Unit.Meter(150)
    w = Wind(vel, ang, dist)
    print('aliasing', w.velocity is vel, w.direction_from is ang, w.until_distance is dist, q(vel), q(ang), q(dist))
    la, ra, ca = Unit.Degree(2), Unit.MOA(4), Unit.Degree(8)
    s = Shot(Weapon(Unit.Centimeter(9), Unit.Centimeter(-25), Unit.MRad(1.5)),
             Ammo(DragModel(0.3, TableG7), Unit.MPS(800)), la, ra, ca)
    print('aliasing', s.look_angle is la, s.relative_angle is ra, s.cant_angle is ca, describe_shot(s))
    am = Ammo(DragModel(0.3, TableG7), Unit.MPS(800), Unit.Celsius(15), 1.2, True)
    for t in (0, 0.0, 15, -40, Unit.Celsius(0), Unit.Fahrenheit(0), Unit.Kelvin(0)):
        attempt(f'velocity_for_temp({t!r})', lambda t=t: q(am.get_velocity_for_temp(t)))
    for vv, tt in ((820, 30), (0, 0), (Unit.MPS(820), Unit.Celsius(30)), (Unit.MPS(800), Unit.Celsius(30)),
                   (P.velocity(820), P.temperature(30))):
        am2 = Ammo(DragModel(0.3, TableG7), Unit.MPS(800), Unit.Celsius(15))
        attempt(f'calc_powder_sens({vv!r},{tt!r})', lambda vv=vv, tt=tt, am2=am2: repr(am2.calc_powder_sens(vv, tt)))


# ----------------------------------------------------------------------------------------------------------------
# section 3: whole computations
def row_raw(r):
    return tuple(repr(x.raw_value) if isinstance(x, pbc.AbstractDimension) else repr(x) for x in r)


def explicit_shot():
    dm = DragModel(0.223, TableG7, Unit.Grain(168), Unit.Inch(0.308), Unit.Inch(1.282))
    ammo = Ammo(dm, Unit.FPS(2750), Unit.Celsius(15), 0.8, True)
    weapon = Weapon(Unit.Inch(2), Unit.Inch(11.24), Unit.Mil(0),
                    Sight('SFP', Unit.Meter(100), Unit.Mil(0.1), Unit.Mil(0.1)))
    atmo = Atmo(Unit.Foot(1500), Unit.InHg(29.0), Unit.Fahrenheit(50), 40, Unit.Fahrenheit(70))
    winds = [Wind(Unit.MPH(4), Unit.OClock(9), Unit.Yard(1000)), Wind(Unit.MPH(8), Unit.Degree(90), Unit.Yard(300))]
    return Shot(weapon, ammo, Unit.Degree(3), Unit.MOA(1), Unit.Degree(5), atmo, winds)


def nice(quantity, unit, digits=3):
    """A round bare number that stands for about that quantity in the given (preferred) unit."""
    return round(quantity >> unit, digits)


def bare_numbers():
    """Bare numbers that make physical sense under the configuration in force (zeros included)."""
    P = PreferredUnits
    cold = 0 if P.temperature in (Unit.Fahrenheit, Unit.Celsius) else nice(Unit.Celsius(0), P.temperature, 1)
    return {
        'weight': nice(Unit.Grain(168), P.weight), 'diameter': nice(Unit.Inch(0.308), P.diameter),
        'length': nice(Unit.Inch(1.282), P.length), 'mv': nice(Unit.MPS(850), P.velocity, 1), 'cold': cold,
        'sight_height': nice(Unit.Inch(2), P.sight_height), 'twist': nice(Unit.Inch(11.24), P.twist),
        'pressure': nice(Unit.InHg(29), P.pressure), 'w1': nice(Unit.MPS(2), P.velocity, 1),
        'w2': nice(Unit.MPS(4), P.velocity, 1), 'd1000': nice(Unit.Meter(1000), P.distance),
        'd300': nice(Unit.Meter(300), P.distance), 'd100': nice(Unit.Meter(100), P.distance),
        'd50': nice(Unit.Meter(50), P.distance), 'd120': nice(Unit.Meter(120), P.distance),
        'd200': nice(Unit.Meter(200), P.distance), 'd250': nice(Unit.Meter(250), P.distance),
        'right': nice(Unit.Degree(90), P.angular), 'up2': nice(Unit.Degree(2), P.angular),
        'h05': nice(Unit.Meter(0.5), P.target_height), 'h15': nice(Unit.Meter(1.5), P.target_height),
    }


def bare_shot(explicit, b):
    """The same construction from bare numbers, or from the explicit quantities in the preferred units."""
    P = PreferredUnits

    def n(slot, v):
        return getattr(P, slot)(v) if explicit else v

    dm = DragModel(0.223, TableG7, n('weight', b['weight']), n('diameter', b['diameter']), n('length', b['length']))
    ammo = Ammo(dm, n('velocity', b['mv']), n('temperature', b['cold']), 0.8, True)
    weapon = Weapon(n('sight_height', b['sight_height']), n('twist', b['twist']), n('angular', 0))
    atmo = Atmo(n('distance', 0), n('pressure', b['pressure']), n('temperature', b['cold']), 40,
                n('temperature', b['cold']))
    winds = [Wind(n('velocity', b['w1']), n('angular', 0), n('distance', b['d1000'])),
             Wind(n('velocity', b['w2']), n('angular', b['right']), n('distance', b['d300']))]
    return Shot(weapon, ammo, n('angular', 0), n('angular', 0), n('angular', 0), atmo, winds)


def run_explicit():
    shot = explicit_shot()
    calc = Calculator()
    zero = calc.set_weapon_zero(shot, Unit.Yard(100))
    elev = calc.barrel_elevation_for_target(shot, Unit.Meter(300))
    res = calc.fire(shot, Unit.Yard(600), Unit.Yard(100), extra_data=True)
    rows = tuple(row_raw(r) for r in res)
    ds = res.danger_space(Unit.Yard(400), Unit.Inch(20), Unit.Degree(3))
    ds2 = res.danger_space(Unit.Yard(550), Unit.Centimeter(1))
    ds3 = res.danger_space(Unit.Yard(0), Unit.Meter(1000), Unit.Degree(0))
    res_default_step = calc.fire(shot, Unit.Meter(450))
    res_ts = calc.fire(shot, Unit.Meter(200), Unit.Meter(0), False, 0.05)
    clicks = shot.weapon.sight.get_trajectory_adjustment(res.get_at_distance(Unit.Yard(500)), 12)
    phys = (repr(zero.raw_value), repr(elev.raw_value), rows,
            tuple((row_raw(d.at_range), repr(d.target_height.raw_value), row_raw(d.begin), row_raw(d.end),
                   repr(d.look_angle.raw_value)) for d in (ds, ds2, ds3)),
            tuple(row_raw(r) for r in res_default_step), tuple(row_raw(r) for r in res_ts),
            repr(tuple(clicks)))
    shown = (str(ds), str(ds2), res[-1].formatted(), repr(res[-1].in_def_units()), repr(res[3]),
             q(zero), q(elev), [q(r.distance) for r in res_default_step])
    return phys, shown


def run_bare(explicit):
    b = bare_numbers()
    shot = bare_shot(explicit, b)
    P = PreferredUnits

    def n(slot, v):
        return getattr(P, slot)(v) if explicit else v

    calc = Calculator()
    out = [sorted(b.items())]
    out.append(describe_shot(shot))
    out.append(attempt('  zero', lambda: q(calc.set_weapon_zero(shot, n('distance', b['d100'])))))
    res = calc.fire(shot, n('distance', b['d300']), n('distance', b['d50']), extra_data=True)
    out.append(tuple(row_raw(r) for r in res))
    for rng, hgt, la in ((b['d200'], b['h05'], None), (b['d200'], b['h05'], 0), (0, 0, 0),
                         (b['d250'], b['h15'], b['up2'])):
        def f(rng=rng, hgt=hgt, la=la):
            d = res.danger_space(n('distance', rng), n('target_height', hgt), None if la is None else n('angular', la))
            return (row_raw(d.at_range), q(d.target_height), row_raw(d.begin), row_raw(d.end), q(d.look_angle),
                    str(d))
        out.append(attempt(f'  danger {rng} {hgt} {la}', f))
    attempt('  danger too far', lambda: res.danger_space(n('distance', b['d1000']), n('target_height', 1)))
    attempt('  danger no extra', lambda: calc.fire(shot, n('distance', b['d100'])).danger_space(n('distance', 0), 1))
    res2 = calc.fire(shot, n('distance', b['d120']))
    out.append(tuple(row_raw(r) for r in res2))
    out.append([q(r.distance) for r in res2])
    res3 = calc.fire(shot, n('distance', b['d120']), 0.0)
    out.append(tuple(row_raw(r) for r in res3))
    attempt('  fire range 0', lambda: tuple(row_raw(r) for r in calc.fire(shot, n('distance', 0))))
    attempt('  fire range 0 step 0', lambda: tuple(row_raw(r) for r in calc.fire(shot, 0, 0)))
    attempt('  fire bad range', lambda: calc.fire(shot, 'far', 'near'))
    attempt('  fire bad step', lambda: calc.fire(shot, n('distance', b['d100']), 'near'))
    return out


def main():
    section_units()
    phys_all = []
    for name, setter in CONFIGS:
        setter()
        print(f'#### configuration {name}:', slots())
        section_constructors(name)
        setter()
        phys, shown = run_explicit()
        phys_all.append(phys)
        print('explicit physical:', phys)
        print('explicit shown:', shown)
        setter()
        bare = attempt('bare:', lambda: run_bare(False))
        setter()
        expl = attempt('bare as explicit:', lambda: run_bare(True))
        print('bare == explicit-in-preferred-unit:', bare == expl)
    print('explicit result independent of configuration:',
          [[a == b for a, b in zip(p, phys_all[0])] for p in phys_all])
    print(LOG.records)
    PreferredUnits.defaults()


if __name__ == '__main__':
    main()
