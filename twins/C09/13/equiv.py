"""Equivalence digest for property C09 (drag lookup faithful to the drag table and BC definition).

Run:  cd /tmp/wt/t5_C09 && PYTHONPATH=/tmp/wt/t5_C09 /venv/bin/python <this file>
Prints the same text on the clean worktree and with the patch applied.
"""
import copy
import hashlib
import math
import warnings

warnings.simplefilter("ignore")

import py_ballisticcalc as pb  # noqa: E402
from py_ballisticcalc import (  # noqa: E402
    Ammo, Atmo, Calculator, Distance, DragDataPoint, DragModel, DragModelMultiBC, BCPoint,
    Shot, Velocity, Weapon, Wind, RangeError,
)
from py_ballisticcalc import drag_tables, drag_model  # noqa: E402
from py_ballisticcalc.trajectory_calc import _trajectory_calc as tc  # noqa: E402

SHIPPED = ['TableG1', 'TableG7', 'TableG2', 'TableG5', 'TableG6', 'TableG8', 'TableGI', 'TableGS', 'TableRA4']


def digest(items):
    h = hashlib.sha256()
    for it in items:
        h.update(repr(it).encode())
        h.update(b"\n")
    return h.hexdigest()


def tables_fingerprint():
    return digest((name, getattr(drag_tables, name)) for name in SHIPPED)


def queries(machs):
    """Both sides of every node and of every midpoint, plus out-of-table and special values."""
    qs = [-1.0, -0.0, 0.0, 1e-300, 5e-324]
    for m in machs:
        qs += [math.nextafter(m, -math.inf), m, math.nextafter(m, math.inf), m - 1e-9, m + 1e-9]
    for lo, hi in zip(machs, machs[1:]):
        mid = (lo + hi) / 2
        qs += [math.nextafter(mid, -math.inf), mid, math.nextafter(mid, math.inf),
               lo + (hi - lo) * 0.25, lo + (hi - lo) * 0.75, lo + (hi - lo) * 0.499999, lo + (hi - lo) * 0.500001]
    top = max(machs)
    qs += [top + 0.01, top + 1.0, top * 3 + 7, 1e6, 1e308, math.inf, -math.inf, math.nan]
    return qs


def make_shot(dm, mv=2750.0, **kw):
    return Shot(weapon=Weapon(sight_height=Distance.Inch(2), twist=Distance.Inch(12)),
                ammo=Ammo(dm, Velocity.FPS(mv)), atmo=Atmo.icao(), **kw)


def rows_repr(hit):
    return [(r.time, r.distance.raw_value, r.velocity.raw_value, r.mach, r.height.raw_value,
             r.windage.raw_value, r.drag, r.energy.raw_value, int(r.flag)) for r in hit.trajectory]


def exercise(label, bc, table, mv=2750.0, rng=600.0, step=100.0, fire=True, **dmkw):
    """Build the model through the public API, fire, then probe drag_by_mach of the primed solver."""
    try:
        dm = table if isinstance(table, DragModel) else DragModel(bc, table, **dmkw)
    except Exception as exc:  # pylint: disable=broad-except
        print(label, 'DragModel raised', type(exc).__name__, exc)
        return
    machs = [p.Mach for p in dm.drag_table]
    cds = [p.CD for p in dm.drag_table]
    calc = Calculator()
    shot = make_shot(dm, mv)
    try:
        if fire:
            hit = calc.fire(shot, Distance.Foot(rng), Distance.Foot(step))
            print(label, 'fire', len(hit.trajectory), digest(rows_repr(hit)))
        else:
            calc._calc._init_trajectory(shot)
    except RangeError as exc:
        print(label, 'fire RangeError', exc.reason, len(exc.incomplete_trajectory),
              digest(rows_repr(type('H', (), {'trajectory': exc.incomplete_trajectory}))))
    except Exception as exc:  # pylint: disable=broad-except
        print(label, 'fire raised', type(exc).__name__, exc)
        return
    eng = calc._calc
    out = []
    for q in queries(machs):
        try:
            out.append((q, eng.drag_by_mach(q)))
        except Exception as exc:  # pylint: disable=broad-except
            out.append((q, type(exc).__name__, str(exc)))
    print(label, 'n=%d' % len(machs), 'drag', digest(out))
    # show a few values in clear
    shown = [out[i] for i in (0, 2, 5, 6, 7, len(out) // 2, len(out) - 8, len(out) - 4, len(out) - 3, len(out) - 1)
             if i < len(out)]
    print(label, 'sample', shown)
    # internal state of the primed solver
    print(label, 'curve', digest(tuple(c) for c in eng._curve), type(eng._curve).__name__,
          sorted({type(c).__name__ for c in eng._curve}), len(eng._curve))
    print(label, 'table_data is dm.drag_table:', eng.table_data is dm.drag_table,
          'cdm', digest((p.Mach, p.CD) for p in calc.cdm))
    # the model's table is left as it was
    print(label, 'dm table unchanged:', machs == [p.Mach for p in dm.drag_table] and cds == [p.CD for p in dm.drag_table])


def main():
    before = tables_fingerprint()
    print('tables before', before)

    for i, name in enumerate(SHIPPED):
        table = getattr(drag_tables, name)
        exercise(name, 0.2 + 0.037 * i, table, mv=2400.0 + 150 * i, weight=168, diameter=0.308, length=1.2)
        # fresh DragDataPoint objects, not aliases of the dict table
        dm = DragModel(0.3, table)
        print(name, 'fresh points', all(isinstance(p, DragDataPoint) for p in dm.drag_table),
              len(dm.drag_table) == len(table), dm.drag_table is not table,
              [(p.Mach, p.CD) for p in dm.drag_table] == [(d['Mach'], d['CD']) for d in table])
        dm2 = DragModel(0.3, dm.drag_table)
        print(name, 'copied points', dm2.drag_table is not dm.drag_table,
              all(a is not b for a, b in zip(dm.drag_table, dm2.drag_table)), dm2.drag_table == dm.drag_table)

    custom3 = [{'Mach': 0.0, 'CD': 0.30}, {'Mach': 1.0, 'CD': 0.45}, {'Mach': 2.5, 'CD': 0.33}]
    custom4 = [{'Mach': 0.2, 'CD': 0.21}, {'Mach': 0.9, 'CD': 0.25}, {'Mach': 1.1, 'CD': 0.52}, {'Mach': 3.0, 'CD': 0.30}]
    custom5 = [DragDataPoint(0.1 * k * k + 0.05, 0.2 + 0.03 * math.sin(k)) for k in range(5)]
    custom_many = [{'Mach': 0.07 * k + 0.001 * k * k, 'CD': 0.25 + 0.1 * math.cos(k / 3.0)} for k in range(40)]
    custom_int = [{'Mach': 0, 'CD': 1}, {'Mach': 1, 'CD': 2}, {'Mach': 3, 'CD': 1}, {'Mach': 4, 'CD': 1}]
    exercise('custom3', 0.31, custom3)
    exercise('custom4', 0.05, custom4, rng=3000.0, step=250.0)
    exercise('custom5', 1.7, custom5)
    exercise('custom_many', 0.45, custom_many)
    exercise('custom_int', 0.6, custom_int)
    exercise('mixed', 0.4, [custom3[0], DragDataPoint(0.8, 0.4), custom3[2], DragDataPoint(4.0, 0.2)])
    # inputs outside the property's premise: behaviour (including the failure) must stay the same
    exercise('two_points', 0.3, custom3[:2])
    exercise('one_point', 0.3, custom3[:1])
    exercise('empty', 0.3, [])
    exercise('dup_first', 0.3, [custom3[0], custom3[0], custom3[2]])
    exercise('dup_last', 0.3, [custom3[0], custom3[2], custom3[2]])
    exercise('dup_mid', 0.3, [custom4[0], custom4[1], custom4[1], custom4[3]])
    exercise('collinear', 0.3, [{'Mach': float(k), 'CD': 0.1 * k + 0.2} for k in range(5)])
    exercise('unsorted', 0.3, [custom_many[i] for i in (3, 17, 2, 30, 9, 11, 25, 0, 39, 5, 21, 8, 14)], fire=False)
    exercise('descending', 0.3, list(reversed(drag_tables.TableG7)), fire=False)
    exercise('bad_key', 0.3, [{'Mach': 0.0, 'Cd': 0.3}, custom3[1], custom3[2]])
    exercise('bad_item', 0.3, [custom3[0], 5, custom3[2]])
    exercise('bad_item2', 0.3, [custom3[0], None])
    exercise('tuple_items', 0.3, [(0.0, 0.3), (1.0, 0.4), (2.0, 0.3)])
    exercise('tuple_table', 0.3, tuple(custom4))
    exercise('str_values', 0.3, [{'Mach': '0', 'CD': '0.3'}, {'Mach': '1', 'CD': '0.3'}, {'Mach': '2', 'CD': '0.3'}])

    # multi-BC model (make_data_points + per-point scaling)
    mbc = DragModelMultiBC([BCPoint(0.275, V=Velocity.MPS(800)), BCPoint(0.255, V=Velocity.MPS(500)),
                            BCPoint(0.26, V=Velocity.MPS(700))], drag_tables.TableG7, weight=178, diameter=.308, length=1.3)
    exercise('multibc', None, mbc)
    mbc1 = DragModelMultiBC([BCPoint(0.5, Mach=1.0), BCPoint(0.4, Mach=2.0)], drag_tables.TableG1)
    exercise('multibc_nomass', None, mbc1)

    # BC scaling: drag * BC is the BC-free quantity; compare across BC values
    for bc in (0.05, 0.223, 1.0, 7.5):
        c = Calculator()
        c.fire(make_shot(DragModel(bc, drag_tables.TableG7)), Distance.Foot(100), Distance.Foot(50))
        print('bc', bc, [repr(c._calc.drag_by_mach(m)) for m in (0.0, 0.5, 0.975, 1.0, 1.23, 4.9, 5.0, 7.0)])

    # one solver reused for several shots: state is rebuilt per shot
    c = Calculator()
    seq = []
    for name, bc in (('TableG1', 0.4), ('TableG7', 0.2), ('TableRA4', 0.1), ('TableG1', 0.4)):
        shot = make_shot(DragModel(bc, getattr(drag_tables, name)), winds=[Wind(Velocity.FPS(10), pb.Angular.Degree(90))])
        c.set_weapon_zero(shot, Distance.Yard(100))
        seq.append((name, shot.weapon.zero_elevation.raw_value, [c._calc.drag_by_mach(m) for m in (0.3, 0.99, 1.01, 2.7, 9.0)]))
        hit = c.fire(shot, Distance.Yard(500), Distance.Yard(100), extra_data=True)
        seq.append(digest(rows_repr(hit)))
    print('reuse', digest(seq), seq[0])

    # module-level helpers called directly
    pts = drag_model.make_data_points(drag_tables.TableG8)
    curve = tc.calculate_curve(pts)
    ml = tc._get_only_mach_data(pts)
    print('helpers', type(curve).__name__, type(ml).__name__, digest(tuple(x) for x in curve), digest(ml),
          digest(tc._calculate_by_curve_and_mach_list(ml, curve, q) for q in queries(ml)))
    print('helpers tuple', digest(tuple(x) for x in tc.calculate_curve(tuple(pts))),
          digest(tc._get_only_mach_data(tuple(pts))))
    for bad in ([], pts[:1], [pts[0], pts[0]], [pts[0], pts[1], pts[1]], [1, 2, 3], None):
        try:
            print('curve bad', [tuple(x) for x in tc.calculate_curve(bad)])
        except Exception as exc:  # pylint: disable=broad-except
            print('curve bad', type(exc).__name__, exc)
    # lookup with short / inconsistent arguments
    for ml_, cv_ in ((ml[:2], curve[:2]), (ml[:3], curve[:3]), (ml[:4], curve[:4]), (ml, curve[:7]), (ml[:5], curve),
                     (ml[:1], curve[:1]), ([], []), (list(reversed(ml)), curve),
                     ([ml[i] for i in (3, 1, 7, 0, 9, 2, 8)], curve[:7])):
        res = []
        for q in (-1.0, 0.0, 0.3, 0.31, 0.7, 1.0, 2.2, 9.0, math.nan):
            try:
                res.append(tc._calculate_by_curve_and_mach_list(ml_, cv_, q))
            except Exception as exc:  # pylint: disable=broad-except
                res.append((type(exc).__name__, str(exc)))
        print('lookup', len(ml_), len(cv_), digest(res), res[:3])
    for bad in ([{'Mach': 1}], [{'CD': 1}], 5, None, [[1, 2]], 'ab', [DragDataPoint(1, 2), {'Mach': 2, 'CD': 3}], iter(custom3), ()):
        try:
            print('mdp', drag_model.make_data_points(bad))
        except Exception as exc:  # pylint: disable=broad-except
            print('mdp', type(exc).__name__, exc, '| cause', type(exc.__cause__).__name__, exc.__cause__)

    after = tables_fingerprint()
    print('tables after ', after, before == after)
    print('shipped ascending from 0:', all(
        getattr(drag_tables, n)[0]['Mach'] == 0 and
        all(a['Mach'] < b['Mach'] for a, b in zip(getattr(drag_tables, n), getattr(drag_tables, n)[1:])) for n in SHIPPED))


if __name__ == '__main__':
    main()
