"""Equivalence digest for property C09 (drag lookup faithful to drag table / BC definition).

Run:  cd /tmp/wt/T09 && PYTHONPATH=/tmp/wt/T09 /venv/bin/python <this file>
Prints a deterministic text; must be identical on the clean worktree and with the patch applied.
"""
import copy
import hashlib
import math
import struct

import py_ballisticcalc
from py_ballisticcalc import (
    DragModel, DragModelMultiBC, BCPoint, DragDataPoint, Ammo, Weapon, Calculator, Shot, Atmo,
    TableG1, TableG7, TableG2, TableG5, TableG6, TableG8, TableGI, TableGS, TableRA4,
)
from py_ballisticcalc import drag_tables
from py_ballisticcalc.drag_model import make_data_points
from py_ballisticcalc.trajectory_calc import _trajectory_calc as tc
from py_ballisticcalc.unit import Velocity, Distance, Angular

assert py_ballisticcalc.trajectory_calc.TrajectoryCalc is tc.TrajectoryCalc, "pure-python backend expected"

SHIPPED = dict(G1=TableG1, G7=TableG7, G2=TableG2, G5=TableG5, G6=TableG6,
               G8=TableG8, GI=TableGI, GS=TableGS, RA4=TableRA4)


def h(x: float) -> str:
    """exact text for one number (bit pattern for floats)"""
    if isinstance(x, float):
        return struct.pack('>d', x).hex()
    return repr(x)


def digest(values) -> str:
    m = hashlib.sha256()
    for v in values:
        m.update(h(v).encode())
        m.update(b';')
    return m.hexdigest()


def tables_fingerprint() -> str:
    m = hashlib.sha256()
    for name in sorted(SHIPPED):
        t = getattr(drag_tables, name if name.startswith('Table') else 'Table' + name)
        assert t is SHIPPED[name]
        m.update(repr([(type(p).__name__, list(p.items())) for p in t]).encode())
    return m.hexdigest()


def probes(machs):
    """both sides of every node, every midpoint (and both sides of it), outside the table, specials"""
    out = []
    for m in machs:
        out += [math.nextafter(m, -math.inf), m, math.nextafter(m, math.inf)]
    for lo, hi in zip(machs, machs[1:]):
        mid = (lo + hi) / 2
        mid2 = lo + (hi - lo) / 2
        out += [math.nextafter(mid, -math.inf), mid, math.nextafter(mid, math.inf), mid2,
                lo + (hi - lo) * 0.25, lo + (hi - lo) * 0.75, lo + (hi - lo) * 0.4999999, lo + (hi - lo) * 0.5000001]
    top = machs[-1]
    out += [top + 0.01, top + 1.0, top * 3 + 7, 1e9, -0.0, -0.3, -5.0, 1e-300, math.inf, -math.inf, math.nan]
    return out


def make_calc(dm):
    shot = Shot(weapon=Weapon(2, 12), ammo=Ammo(dm, Velocity.FPS(2700)), atmo=Atmo.icao())
    calc = Calculator()
    calc._calc._init_trajectory(shot)
    return calc, shot


def show_lookup(label, dm, verbose=False):
    calc, _ = make_calc(dm)
    machs = [p.Mach for p in dm.drag_table]
    ps = probes([float(m) for m in machs])
    vals = [calc._calc.drag_by_mach(m) for m in ps]
    print(f"{label}: n={len(machs)} bc={dm.BC!r} probes={len(ps)} drag_digest={digest(vals)}")
    curve = tc.calculate_curve(dm.drag_table)
    flat = [x for cp in curve for x in cp]
    print(f"{label}: curve_len={len(curve)} types={sorted({type(cp).__name__ for cp in curve})} "
          f"curve_digest={digest(flat)} internal_curve_same={list(calc._calc._curve) == list(curve)}")
    if verbose:
        for m, v in zip(ps, vals):
            print(f"   {label} mach={m!r} drag={v!r}")
        for cp in curve:
            print(f"   {label} curve {tuple(cp)!r}")


def attempt(label, fn):
    try:
        r = fn()
        print(f"{label}: OK {r!r}")
    except BaseException as e:  # noqa
        cause = e.__cause__
        print(f"{label}: {type(e).__name__}({e}) cause={type(cause).__name__ if cause else None}"
              f"({cause if cause else ''})")


def main():
    fp_before = tables_fingerprint()
    print("tables before:", fp_before)

    # --- shipped tables, several BCs ------------------------------------------------------
    for name, table in SHIPPED.items():
        for bc in (0.223, 1.0, 0.05):
            show_lookup(f"{name}/bc={bc}", DragModel(bc, table, 168, 0.308, 1.22))

    # tabulated value at every node of every shipped table: cd*k/bc printed exactly for G7
    calc, _ = make_calc(DragModel(0.31, TableG7))
    for p in TableG7:
        print("G7 node", repr(p['Mach']), repr(p['CD']), repr(calc._calc.drag_by_mach(p['Mach'])))

    # --- custom tables ---------------------------------------------------------------------
    customs = {
        'three': [{'Mach': 0.0, 'CD': 0.3}, {'Mach': 1.0, 'CD': 0.5}, {'Mach': 2.5, 'CD': 0.35}],
        'four': [{'Mach': 0.2, 'CD': 0.21}, {'Mach': 0.9, 'CD': 0.33}, {'Mach': 1.1, 'CD': 0.61}, {'Mach': 4.0, 'CD': 0.2}],
        'five_uneven': [DragDataPoint(0.0, 0.25), DragDataPoint(0.1, 0.24), DragDataPoint(0.95, 0.4),
                        DragDataPoint(1.0, 0.48), DragDataPoint(3.0, 0.3)],
        'six_ints': [{'Mach': 0, 'CD': 1}, {'Mach': 1, 'CD': 2}, {'Mach': 2, 'CD': 2}, {'Mach': 3, 'CD': 1},
                     {'Mach': 5, 'CD': 1}, {'Mach': 8, 'CD': 0.5}],
        'two': [{'Mach': 0.5, 'CD': 0.2}, {'Mach': 2.0, 'CD': 0.4}],
        'mixed': [DragDataPoint(0.0, 0.3), {'Mach': 0.7, 'CD': 0.31}, DragDataPoint(1.2, 0.6), {'Mach': 2.2, 'CD': 0.4}],
        'unsorted': [{'Mach': 0.0, 'CD': 0.3}, {'Mach': 2.0, 'CD': 0.5}, {'Mach': 1.0, 'CD': 0.35},
                     {'Mach': 3.0, 'CD': 0.25}, {'Mach': 0.5, 'CD': 0.45}, {'Mach': 4.0, 'CD': 0.2},
                     {'Mach': 3.5, 'CD': 0.22}, {'Mach': 6.0, 'CD': 0.1}],
        'tuple_input': tuple({'Mach': 0.5 * i, 'CD': 0.2 + 0.01 * i * i} for i in range(7)),
    }
    for name, table in customs.items():
        show_lookup(f"custom/{name}", DragModel(0.4, table), verbose=True)

    # multi-BC model (CD rescaled per point)
    dm_multi = DragModelMultiBC([BCPoint(0.275, V=Velocity.MPS(800)), BCPoint(0.255, V=Velocity.MPS(500)),
                                 BCPoint(0.26, V=Velocity.MPS(700))], TableG7, 178, 0.308, 1.3)
    show_lookup("multibc/G7", dm_multi)
    dm_multi2 = DragModelMultiBC([BCPoint(0.5, Mach=2.0), BCPoint(0.45, Mach=1.0)], TableG1)
    show_lookup("multibc/G1-nosd", dm_multi2)

    # --- make_data_points: fresh copies, types, failure modes ----------------------------------------
    src = [DragDataPoint(0.0, 0.3), {'Mach': 1.0, 'CD': 0.5}, DragDataPoint(2.0, 0.4)]
    out = make_data_points(src)
    print("mdp:", type(out).__name__, [(type(p).__name__, p.Mach, p.CD) for p in out],
          "fresh:", [a is not b for a, b in zip(src, out)])
    out[0].CD = 99.0
    print("mdp source untouched:", src[0].CD, src[1])
    print("mdp empty:", make_data_points([]), make_data_points(()))
    print("mdp generator:", make_data_points(p for p in src))
    dm_g1 = DragModel(0.3, TableG1)
    dm_g1.drag_table[3].CD = -1.0
    print("G1 entry after mutation of model copy:", TableG1[3], DragModel(0.3, TableG1).drag_table[3])
    attempt("mdp missing CD", lambda: make_data_points([{'Mach': 1.0}]))
    attempt("mdp missing Mach", lambda: make_data_points([{'CD': 1.0}]))
    attempt("mdp tuple item", lambda: make_data_points([(1.0, 0.3)]))
    attempt("mdp str item", lambda: make_data_points(['ab']))
    attempt("mdp None item", lambda: make_data_points([None]))
    attempt("mdp None table", lambda: make_data_points(None))
    attempt("mdp int table", lambda: make_data_points(5))
    attempt("mdp second bad", lambda: make_data_points([{'Mach': 1.0, 'CD': 0.1}, 3.5]))
    attempt("mdp lower-case keys", lambda: make_data_points([{'mach': 1.0, 'cd': 0.1}]))
    attempt("DragModel empty", lambda: DragModel(0.3, []))
    attempt("DragModel bad bc", lambda: DragModel(0.0, TableG1))
    attempt("DragModel bad items", lambda: DragModel(0.3, [1, 2, 3]))

    # --- calculate_curve / lookup failure modes ----------------------------------------------------
    attempt("curve n=0", lambda: tc.calculate_curve([]))
    attempt("curve n=1", lambda: tc.calculate_curve([DragDataPoint(1.0, 0.3)]))
    attempt("curve dup first", lambda: tc.calculate_curve([DragDataPoint(1.0, 0.3), DragDataPoint(1.0, 0.4), DragDataPoint(2.0, 0.4)]))
    attempt("curve dup middle", lambda: tc.calculate_curve([DragDataPoint(0.0, 0.3), DragDataPoint(1.0, 0.4), DragDataPoint(1.0, 0.4), DragDataPoint(2.0, 0.4)]))
    attempt("curve dup last", lambda: tc.calculate_curve([DragDataPoint(0.0, 0.3), DragDataPoint(1.0, 0.4), DragDataPoint(2.0, 0.4), DragDataPoint(2.0, 0.5)]))
    attempt("curve dict items", lambda: tc.calculate_curve([{'Mach': 0.0, 'CD': 0.3}, {'Mach': 1.0, 'CD': 0.3}]))
    attempt("curve second dict", lambda: tc.calculate_curve([DragDataPoint(0.0, 0.3), {'Mach': 1.0, 'CD': 0.3}]))
    attempt("curve n=2", lambda: [tuple(c) for c in tc.calculate_curve([DragDataPoint(0.5, 0.3), DragDataPoint(1.5, 0.4)])])
    attempt("curve tuple n=3", lambda: [tuple(c) for c in tc.calculate_curve(
        (DragDataPoint(0.5, 0.3), DragDataPoint(1.5, 0.4), DragDataPoint(2.5, 0.2)))])
    attempt("curve nan", lambda: [tuple(c) for c in tc.calculate_curve(
        [DragDataPoint(0.5, 0.3), DragDataPoint(math.nan, 0.4), DragDataPoint(2.5, 0.2), DragDataPoint(3.5, 0.2)])])
    attempt("curve inf", lambda: [tuple(c) for c in tc.calculate_curve(
        [DragDataPoint(0.5, 0.3), DragDataPoint(1.0, 0.4), DragDataPoint(math.inf, 0.2)])])
    attempt("one-point table init", lambda: make_calc(DragModel(0.3, [{'Mach': 1.0, 'CD': 0.3}])))

    def history():
        """failed _init_trajectory after a good one: what does drag_by_mach see afterwards?"""
        calc, shot = make_calc(DragModel(0.3, TableG7))
        before = calc._calc.drag_by_mach(1.3)
        bad = copy.copy(shot)
        bad.ammo = Ammo(DragModel(0.6, [{'Mach': 1.0, 'CD': 0.3}]), Velocity.FPS(2700))
        try:
            calc._calc._init_trajectory(bad)
        except IndexError as e:
            err = repr(e)
        after = calc._calc.drag_by_mach(1.3)
        dup = copy.copy(shot)
        dup.ammo = Ammo(DragModel(0.9, [{'Mach': 0.0, 'CD': 0.3}, {'Mach': 1.0, 'CD': 0.3}, {'Mach': 1.0, 'CD': 0.3},
                                        {'Mach': 2.0, 'CD': 0.3}]), Velocity.FPS(2700))
        try:
            calc._calc._init_trajectory(dup)
        except ZeroDivisionError as e:
            err += repr(e)
        after2 = calc._calc.drag_by_mach(1.3)
        return before, err, after, after2, len(calc._calc.table_data), len(calc.cdm)
    attempt("history", history)

    def rebuilt_per_shot():
        calc, shot = make_calc(DragModel(0.3, TableG7))
        a = calc._calc.drag_by_mach(0.87)
        shot.ammo.dm.drag_table[20].CD *= 2      # mutate the model's own copy, not the shipped table
        b = calc._calc.drag_by_mach(0.87)        # not yet rebuilt
        calc._calc._init_trajectory(shot)
        c = calc._calc.drag_by_mach(0.87)
        shot.ammo.dm.BC = 0.6
        d = calc._calc.drag_by_mach(0.87)
        calc._calc._init_trajectory(shot)
        e = calc._calc.drag_by_mach(0.87)
        return a, b, c, d, e
    attempt("rebuilt per shot", rebuilt_per_shot)

    def two_calcs():
        c1, _ = make_calc(DragModel(0.3, TableG1))
        c2, _ = make_calc(DragModel(0.3, TableG7))
        return c1._calc.drag_by_mach(1.7), c2._calc.drag_by_mach(1.7), c1._calc.drag_by_mach(1.7)
    attempt("two calculators", two_calcs)

    # --- end to end ----------------------------------------------------------------------------
    for name, table, bc in (("G7", TableG7, 0.223), ("G1", TableG1, 0.47), ("RA4", TableRA4, 0.13),
                            ("custom4", customs['four'], 0.3)):
        dm = DragModel(bc, table, 168, 0.308, 1.22)
        shot = Shot(weapon=Weapon(2, 12), ammo=Ammo(dm, Velocity.FPS(2750)), atmo=Atmo.icao())
        calc = Calculator()
        zero = calc.set_weapon_zero(shot, Distance.Yard(100))
        res = calc.fire(shot, Distance.Yard(1000), Distance.Yard(100))
        rows = []
        for r in res:
            rows += [r.time, r.distance.raw_value, r.velocity.raw_value, r.mach, r.height.raw_value,
                     r.windage.raw_value, r.drag, r.energy.raw_value]
        print(f"e2e {name}: zero={zero.raw_value!r} rows={len(res.trajectory)} digest={digest(rows)} "
              f"last_drag={res[-1].drag!r} last_v={res[-1].velocity.raw_value!r} cdm_len={len(calc.cdm)}")

    fp_after = tables_fingerprint()
    print("tables after: ", fp_after, "unchanged:", fp_before == fp_after)
    print("G1[0], G7[0], G1[-1], RA4[-1]:", TableG1[0], TableG7[0], TableG1[-1], TableRA4[-1])


def _reference_make_data_points(drag_table):
    """verbatim copy of make_data_points as it is on the clean worktree"""
    try:
        return [
            DragDataPoint(point.Mach, point.CD) if isinstance(point, DragDataPoint)
            else DragDataPoint(point['Mach'], point['CD'])
            for point in drag_table
        ]
    except (KeyError, TypeError) as exc:
        raise TypeError(
            "All items in drag_table must be of type DragDataPoint or dict with 'Mach' and 'CD' keys"
        ) from exc


def _mdp_outcome(fn, arg):
    try:
        r = fn(arg)
        return ('ok', type(r).__name__, [(type(p).__name__, h(p.Mach), h(p.CD)) for p in r])
    except Exception as e:  # noqa
        c = e.__cause__
        return ('err', type(e).__name__, str(e), type(c).__name__ if c is not None else None, str(c) if c is not None else None,
                e.__suppress_context__)


LOG = []


class LoggingDict(dict):
    def __getitem__(self, key):
        LOG.append(key)
        return dict.__getitem__(self, key)


class SubPoint(DragDataPoint):
    """subclass: the copy must be a plain DragDataPoint"""
    extra = 1


class NoCD:
    Mach = 1.0


def special():
    import random
    rnd = random.Random(777)
    cases = []
    for k in range(300):
        n = rnd.randrange(0, 8)
        items = []
        for _ in range(n):
            r = rnd.random()
            m, c = rnd.uniform(0, 5), rnd.uniform(0.05, 1)
            if r < 0.35:
                items.append({'Mach': m, 'CD': c})
            elif r < 0.7:
                items.append(DragDataPoint(m, c))
            elif r < 0.75:
                items.append(SubPoint(m, c))
            elif r < 0.8:
                items.append({'Mach': m})
            elif r < 0.84:
                items.append({'CD': c, 'Mach': int(m), 'other': 1})
            elif r < 0.88:
                items.append((m, c))
            elif r < 0.92:
                items.append(None)
            elif r < 0.96:
                items.append(LoggingDict(Mach=m, CD=c))
            else:
                items.append(NoCD())
        cases.append(items if k % 3 else tuple(items))
    mism = 0
    acc = []
    for items in cases:
        LOG.clear()
        got = _mdp_outcome(make_data_points, items)
        log_got = list(LOG)
        LOG.clear()
        ref = _mdp_outcome(_reference_make_data_points, items)
        log_ref = list(LOG)
        if got != ref or log_got != log_ref:
            mism += 1
        acc.append(repr((got, log_got)))
    print(f"differential make_data_points: cases={len(cases)} mismatches={mism} "
          f"digest={hashlib.sha256(chr(10).join(acc).encode()).hexdigest()}")

    def raising_gen(exc):
        yield {'Mach': 0.0, 'CD': 0.1}
        raise exc
    for exc in (KeyError('boom'), TypeError('boom'), ValueError('boom'), IndexError('boom')):
        print("iterable raising", type(exc).__name__, _mdp_outcome(make_data_points, raising_gen(exc)),
              _mdp_outcome(make_data_points, raising_gen(exc)) == _mdp_outcome(_reference_make_data_points, raising_gen(exc)))
    print("object without item access:", _mdp_outcome(make_data_points, [NoCD()]))
    LOG.clear()
    make_data_points([LoggingDict(Mach=1.0, CD=0.2), LoggingDict(Mach=2.0, CD=0.3)])
    print("key access order:", LOG)
    sp = make_data_points([SubPoint(1.0, 0.2)])
    print("subclass copied as:", type(sp[0]).__name__)

    # constant / BC definition: drag_by_mach == lookup * 2.08551e-04 / BC, bit for bit, for all BC values tried
    bad = total = 0
    for name, table in SHIPPED.items():
        for bc in (0.05, 0.223, 0.5, 1.0, 1.7, 12.0, 1e-9, 1e9):
            dm = DragModel(bc, table)
            calc, _ = make_calc(dm)
            machs = [p.Mach for p in dm.drag_table]
            curve = tc.calculate_curve(dm.drag_table)
            for m in probes(machs)[::7]:
                cd = tc._calculate_by_curve_and_mach_list(machs, curve, m)
                want = cd * 2.08551e-04 / bc
                total += 1
                if h(want) != h(calc._calc.drag_by_mach(m)):
                    bad += 1
    print(f"constant check: total={total} differing={bad}")
    print("mach data:", tc._get_only_mach_data(make_data_points(TableG7))[:5], tc._get_only_mach_data([]),
          tc._get_only_mach_data(tuple(make_data_points(TableG1)))[-3:], type(tc._get_only_mach_data(())).__name__)
    attempt("mach data of dicts", lambda: tc._get_only_mach_data(TableG1))
    attempt("mach data of None", lambda: tc._get_only_mach_data(None))
    calc, shot = make_calc(DragModel(0.3, TableG7, 168, 0.308, 1.22))
    t = calc._calc
    print("init fields:", t._bc, len(t._table_data), t._table_data is shot.ammo.dm.drag_table, len(t._curve),
          t.length, t.diameter, t.weight, t.twist, t.stability_coefficient)

    def broken_ammo():
        c, sh = make_calc(DragModel(0.3, TableG7))
        sh2 = copy.copy(sh)
        sh2.ammo = None
        try:
            c._calc._init_trajectory(sh2)
        except AttributeError as e:
            return repr(e), c._calc._bc, c._calc.drag_by_mach(2.0)
    attempt("ammo None", broken_ammo)


if __name__ == '__main__':
    main()
    special()
