"""Equivalence digest for the C09 refactorings (drag lookup / drag curve / drag state).

Prints a deterministic text; it must be byte-identical on the clean worktree and with the patch applied.
Run:  cd /tmp/wt/C09 && PYTHONPATH=/tmp/wt/C09 /venv/bin/python <this file>
"""
import copy
import hashlib
import math
import warnings

warnings.simplefilter("ignore")

from py_ballisticcalc import (Calculator, DragModel, DragDataPoint, DragModelMultiBC, BCPoint,  # noqa: E402
                              Ammo, Weapon, Shot, Atmo, Wind, Velocity, Distance, Angular, Unit,
                              Temperature, Pressure, RangeError)
from py_ballisticcalc import drag_tables  # noqa: E402
from py_ballisticcalc.trajectory_calc import _trajectory_calc as tc  # noqa: E402

NAMES = ['TableG1', 'TableG7', 'TableG2', 'TableG5', 'TableG6', 'TableG8', 'TableGI', 'TableGS', 'TableRA4']


def digest(lines):
    return hashlib.sha256("\n".join(lines).encode()).hexdigest()


def outcome(fn, *args):
    """repr of the result, or the exception type and message"""
    try:
        return repr(fn(*args))
    except Exception as exc:  # pylint: disable=broad-except
        return f"{type(exc).__name__}: {exc}"


def queries(machs):
    """Both sides of every node, every midpoint and its neighbours, far outside, specials"""
    finite = [m for m in machs if isinstance(m, float) and math.isfinite(m)]
    qs = []
    for m in finite:
        qs += [math.nextafter(m, -math.inf), m, math.nextafter(m, math.inf)]
    for lo, hi in zip(finite, finite[1:]):
        mid = (lo + hi) / 2
        qs += [math.nextafter(mid, -math.inf), mid, math.nextafter(mid, math.inf),
               lo + (hi - lo) * 0.25, lo + (hi - lo) * 0.75]
    if finite:
        top = max(finite)
        qs += [top + 0.01, top + 1.0, top * 3 + 7.5, 1e9]
    qs += [0.0, -0.0, -0.3, 5e-324, 1e-9, 0.5, 1.0, 2.5, 1e308, math.inf, -math.inf, math.nan, 3, True]
    return qs


def new_calc():
    return Calculator()._calc  # the solver object behind the public Calculator


def shot_for(dm, mv=2750.0):
    return Shot(weapon=Weapon(Distance.Inch(2), Distance.Inch(11)), ammo=Ammo(dm, Velocity.FPS(mv)))


def drag_report(label, table, bc):
    """curve, node list and drag_by_mach on a dense query set, as one digest + a few spot values"""
    lines = []
    dm = outcome(DragModel, bc, table)
    if not dm.startswith("DragModel("):
        return [f"{label}: DragModel -> {dm}"]
    dm = DragModel(bc, table)
    calc = new_calc()
    res = outcome(calc._init_trajectory, shot_for(dm))
    if res != "None":
        return [f"{label}: _init_trajectory -> {res}"]
    machs = [p.Mach for p in dm.drag_table]
    lines.append("curve " + repr([tuple(c) for c in calc._curve]))
    lines.append("curve types " + repr(sorted({type(c).__name__ for c in calc._curve})))
    lines.append("nodes " + repr(list(calc._TrajectoryCalc__mach_list)) if hasattr(calc, '_TrajectoryCalc__mach_list')
                 else "nodes n/a")
    lines.append("table_data is dm.drag_table " + repr(calc.table_data is dm.drag_table))
    spot = []
    for q in queries(machs):
        r = outcome(calc.drag_by_mach, q)
        lines.append(f"{q!r} -> {r}")
        if len(spot) < 6:
            spot.append(f"{q!r}->{r}")
    # module-level functions the solver is built from
    lines.append("calculate_curve " + outcome(tc.calculate_curve, dm.drag_table))
    lines.append("calculate_curve(tuple) " + outcome(tc.calculate_curve, tuple(dm.drag_table)))
    return [f"{label}: bc={bc!r} n={len(machs)} sha={digest(lines)} spot={spot}"]


def custom_tables():
    def pts(pairs):
        return [{'Mach': m, 'CD': c} for m, c in pairs]
    yield "three", pts([(0.0, 0.30), (1.0, 0.45), (2.0, 0.25)])
    yield "four-ddp", [DragDataPoint(0.0, 0.2), DragDataPoint(0.9, 0.21), DragDataPoint(1.1, 0.4),
                       DragDataPoint(3.0, 0.3)]
    yield "five-uneven", pts([(0.0, 0.1), (0.001, 0.1000001), (0.8, 0.15), (0.80001, 0.5), (5.0, 0.2)])
    yield "not-from-zero", pts([(0.5, 0.3), (0.7, 0.31), (1.3, 0.5), (1.31, 0.49), (4.0, 0.2), (4.5, 0.21)])
    yield "two-points", pts([(0.0, 0.3), (2.0, 0.2)])
    yield "one-point", pts([(0.0, 0.3)])
    yield "empty", []
    yield "duplicate-first", pts([(0.0, 0.3), (0.0, 0.31), (1.0, 0.4), (2.0, 0.3)])
    yield "duplicate-middle", pts([(0.0, 0.3), (1.0, 0.31), (1.0, 0.4), (2.0, 0.3), (3.0, 0.2)])
    yield "duplicate-last", pts([(0.0, 0.3), (1.0, 0.31), (2.0, 0.3), (2.0, 0.2)])
    yield "collinear", pts([(0.0, 0.1), (1.0, 0.2), (2.0, 0.3), (3.0, 0.4)])
    yield "descending", pts([(3.0, 0.2), (2.0, 0.3), (1.0, 0.45), (0.5, 0.3), (0.0, 0.25)])
    yield "unsorted", pts([(0.0, 0.2), (1.5, 0.3), (0.7, 0.45), (2.2, 0.3), (1.1, 0.25), (3.0, 0.2), (2.6, 0.21),
                           (0.3, 0.2), (4.0, 0.18)])
    yield "nan-node", pts([(0.0, 0.2), (0.5, 0.3), (math.nan, 0.45), (2.2, 0.3), (3.0, 0.2), (4.0, 0.2)])
    yield "inf-node", pts([(0.0, 0.2), (0.5, 0.3), (1.0, 0.45), (2.2, 0.3), (math.inf, 0.2)])
    yield "int-values", pts([(0, 1), (1, 2), (2, 1), (4, 3), (5, 1)])
    yield "mixed-items", [{'Mach': 0.0, 'CD': 0.3}, DragDataPoint(1.0, 0.4), {'Mach': 2.0, 'CD': 0.2, 'x': 1}]
    yield "bad-item-key", [{'Mach': 0.0, 'CD': 0.3}, {'mach': 1.0, 'CD': 0.4}]
    yield "bad-item-type", [{'Mach': 0.0, 'CD': 0.3}, (1.0, 0.4)]
    yield "string-values", pts([(0.0, 0.3), (1.0, 'x'), (2.0, 0.2)])


def table_fingerprint():
    return digest([name + repr(getattr(drag_tables, name)) for name in NAMES])


def trajectory_digest(label, dm, mv, rng, step, **shot_kw):
    calc = Calculator()
    shot = Shot(weapon=Weapon(Distance.Inch(2), Distance.Inch(11)), ammo=Ammo(dm, Velocity.FPS(mv)), **shot_kw)
    try:
        calc.set_weapon_zero(shot, Distance.Yard(100))
        hit = calc.fire(shot, Distance.Yard(rng), Distance.Yard(step), extra_data=shot_kw.get('look_angle') is None)
        rows = hit.trajectory
        tail = ""
    except RangeError as exc:
        rows = exc.incomplete_trajectory
        tail = f" RangeError({exc.reason})"
    except Exception as exc:  # pylint: disable=broad-except
        return f"{label}: {type(exc).__name__}: {exc}"
    lines = [repr((r.time, r.distance.raw_value, r.velocity.raw_value, r.mach, r.height.raw_value,
                   r.windage.raw_value, r.drag, r.energy.raw_value, r.flag)) for r in rows]
    last = rows[-1]
    return (f"{label}: rows={len(rows)} sha={digest(lines)} last=({last.time!r}, {last.velocity.raw_value!r}, "
            f"{last.height.raw_value!r}, {last.drag!r}){tail} cdm_is_table={calc.cdm is dm.drag_table}")


def main():
    before = table_fingerprint()
    print("tables before", before)

    print("== shipped tables")
    for name in NAMES:
        table = getattr(drag_tables, name)
        for bc in (0.223, 1.0, 1e-3):
            print(drag_report(name, table, bc)[0])

    print("== custom tables")
    for label, table in custom_tables():
        snapshot = copy.deepcopy(table)
        for line in drag_report(label, table, 0.31):
            print(line)
        print(f"   input unchanged: {repr(snapshot) == repr(table)}")

    print("== lookup state follows the latest shot; uninitialised use")
    calc = new_calc()
    print("uninitialised:", outcome(calc.drag_by_mach, 1.0))
    print("uninitialised table_data:", outcome(lambda: calc.table_data))
    dm1, dm7 = DragModel(0.3, drag_tables.TableG1), DragModel(0.25, drag_tables.TableG7)
    calc._init_trajectory(shot_for(dm1))
    a = [calc.drag_by_mach(m) for m in (0.3, 0.95, 1.0, 2.2, 6.0)]
    calc._init_trajectory(shot_for(dm7))
    b = [calc.drag_by_mach(m) for m in (0.3, 0.95, 1.0, 2.2, 6.0)]
    print(outcome(calc._init_trajectory, shot_for(DragModel(0.3, [{'Mach': 1.0, 'CD': 0.3}]))))
    c = [calc.drag_by_mach(m) for m in (0.3, 0.95, 1.0, 2.2, 6.0)]  # failed set-up: what is left behind
    dm7.drag_table[5].Mach = 99.0  # the table object is shared, the per-shot state is a snapshot
    dm7.drag_table.append(DragDataPoint(9.0, 0.1))
    d = [calc.drag_by_mach(m) for m in (0.3, 0.95, 1.0, 2.2, 6.0)]
    print(repr(a)); print(repr(b)); print(repr(c)); print(repr(d))
    print("bc / table after failed set-up:", repr(calc._bc), len(calc.table_data))

    print("== calculate_curve called directly (semi-public module function)")
    P = DragDataPoint
    direct = {
        "n0": [], "n0-tuple": (), "n1": [P(0.0, 0.3)], "n1-tuple": (P(0.0, 0.3),),
        "n2": [P(0.0, 0.3), P(2.0, 0.2)],
        "n3": [P(0.0, 0.30), P(1.0, 0.45), P(2.0, 0.25)],
        "n4": [P(0.0, 0.2), P(0.9, 0.21), P(1.1, 0.4), P(3.0, 0.3)],
        "n5-unsorted": [P(0.0, 0.2), P(1.5, 0.3), P(0.7, 0.45), P(2.2, 0.3), P(1.1, 0.25)],
        "n4-dup-last": [P(0.0, 0.3), P(1.0, 0.31), P(2.0, 0.3), P(2.0, 0.2)],
        "n4-dup-mid": [P(0.0, 0.3), P(1.0, 0.31), P(1.0, 0.3), P(2.0, 0.2)],
        "n3-nan": [P(0.0, 0.3), P(math.nan, 0.31), P(2.0, 0.2)],
        "n3-dicts": [{'Mach': 0.0, 'CD': 0.3}, {'Mach': 1.0, 'CD': 0.3}, {'Mach': 2.0, 'CD': 0.3}],
        "n3-last-bad": [P(0.0, 0.3), P(1.0, 0.31), None],
        "g7-head": [P(d['Mach'], d['CD']) for d in drag_tables.TableG7[:6]],
    }
    for label, pts_ in direct.items():
        print(f"{label}: {outcome(tc.calculate_curve, pts_)}")
    full = tc.calculate_curve([P(d['Mach'], d['CD']) for d in drag_tables.TableG1])
    print("g1 full:", len(full), digest([repr(tuple(c)) for c in full]), repr(full[0]), repr(full[-1]),
          repr(full[0]._asdict()))

    print("== trajectories")
    print(trajectory_digest("g1", DragModel(0.223, drag_tables.TableG1, 168, 0.308, 1.2), 2750, 1000, 100))
    print(trajectory_digest("g7", DragModel(0.25, drag_tables.TableG7, 175, 0.308, 1.24), 2600, 1200, 50))
    print(trajectory_digest("ra4-slow", DragModel(0.12, drag_tables.TableRA4), 1050, 300, 25))
    print(trajectory_digest("gs-fast", DragModel(0.05, drag_tables.TableGS), 4200, 600, 100))
    print(trajectory_digest("g7-wind-angle", DragModel(0.31, drag_tables.TableG7, 140, 0.264, 1.3), 2800, 900, 100,
                            look_angle=Angular.Degree(7), winds=[Wind(Velocity.MPH(10), Angular.OClock(3),
                                                                      until_distance=Distance.Yard(400))],
                            atmo=Atmo(altitude=Distance.Foot(5000), temperature=Temperature.Fahrenheit(20),
                                      pressure=Pressure.InHg(24.5), humidity=0.3)))
    print(trajectory_digest("custom3", DragModel(0.4, [{'Mach': 0.0, 'CD': 0.30}, {'Mach': 1.0, 'CD': 0.45},
                                                       {'Mach': 2.0, 'CD': 0.25}]), 2400, 500, 50))
    print(trajectory_digest("custom2", DragModel(0.4, [{'Mach': 0.0, 'CD': 0.30}, {'Mach': 2.0, 'CD': 0.25}]),
                            2400, 500, 50))
    mbc = DragModelMultiBC([BCPoint(0.275, V=Velocity.MPS(800)), BCPoint(0.255, V=Velocity.MPS(500)),
                            BCPoint(0.26, V=Velocity.MPS(700))], drag_tables.TableG7, weight=178, diameter=.308)
    print(trajectory_digest("multi-bc", mbc, 2700, 1000, 100))
    print("multi-bc table", digest([repr((p.Mach, p.CD)) for p in mbc.drag_table]), repr(mbc.BC))

    after = table_fingerprint()
    print("tables after ", after, "unchanged:", before == after)


if __name__ == '__main__':
    main()
