"""Equivalence digest for property C09 (drag used by the solver is faithful to the drag table).

Prints a deterministic text; the text must be identical on the clean worktree and with the patch applied.
Run:  cd <checkout> && PYTHONPATH=<checkout> /venv/bin/python equiv.py
"""
import hashlib
import math
import warnings

warnings.simplefilter("ignore")

# pylint: disable=wrong-import-position
import py_ballisticcalc as pbc
from py_ballisticcalc import (Calculator, DragModel, DragModelMultiBC, BCPoint, DragDataPoint,
                              Ammo, Weapon, Shot, Atmo, Wind, Velocity, Distance, Angular, Unit)
from py_ballisticcalc import drag_tables

TABLE_NAMES = ['TableG1', 'TableG7', 'TableG2', 'TableG5', 'TableG6', 'TableG8', 'TableGI', 'TableGS', 'TableRA4']


def digest(items):
    h = hashlib.sha256()
    for it in items:
        h.update(repr(it).encode())
        h.update(b'\n')
    return h.hexdigest()


def tables_fingerprint():
    """repr of every shipped table: values, key order, container / element types, object identity pattern"""
    out = []
    for name in TABLE_NAMES:
        t = getattr(drag_tables, name)
        out.append((name, type(t).__name__, len(t), repr(t)))
        out.append([(type(p).__name__, list(p.keys()), type(p['Mach']).__name__, type(p['CD']).__name__) for p in t])
        out.append(len({id(p) for p in t}) == len(t))  # every row its own dict
        out.append(getattr(pbc, name) is t)  # package re-exports the same list
    out.append(sorted(drag_tables.__all__))
    out.append(drag_tables.get_drag_tables_names())
    out.append(sorted(drag_tables.__annotations__.keys()))
    return out


def queries_for(machs):
    qs = [-1.0, -0.0, 0.0, 1e-12, float('inf'), float('-inf'), float('nan')]
    for i, m in enumerate(machs):
        qs += [m, math.nextafter(m, -math.inf), math.nextafter(m, math.inf), m - 1e-9, m + 1e-9]
        if i + 1 < len(machs):
            mid = (m + machs[i + 1]) / 2
            qs += [mid, math.nextafter(mid, -math.inf), math.nextafter(mid, math.inf),
                   m + (machs[i + 1] - m) * 0.25, m + (machs[i + 1] - m) * 0.75]
    last = machs[-1]
    qs += [last + 0.01, last + 0.5, last * 2 + 1, last + 10.0, 1e6]
    return qs


def init_calc(dm, mv=800.0):
    calc = Calculator()
    shot = Shot(weapon=Weapon(Distance.Inch(2), Distance.Inch(10)), ammo=Ammo(dm, Velocity.MPS(mv)))
    calc._calc._init_trajectory(shot)  # observation point named by the property
    return calc, shot


def drag_values(dm):
    calc, _ = init_calc(dm)
    machs = [p.Mach for p in dm.drag_table]
    vals = []
    for q in queries_for(machs):
        try:
            vals.append((q, calc._calc.drag_by_mach(q)))
        except Exception as exc:  # pylint: disable=broad-except
            vals.append((q, type(exc).__name__))
    same_table = calc.cdm is dm.drag_table
    return vals, same_table


def attempt(label, fn):
    try:
        return label, 'ok', fn()
    except Exception as exc:  # pylint: disable=broad-except
        return label, type(exc).__name__, type(exc.__cause__).__name__


def row(t):
    return (t.time, t.distance.raw_value, t.velocity.raw_value, t.mach, t.height.raw_value,
            t.target_drop.raw_value, t.drop_adj.raw_value, t.windage.raw_value, t.windage_adj.raw_value,
            t.look_distance.raw_value, t.angle.raw_value, t.density_factor, t.drag, t.energy.raw_value,
            t.ogw.raw_value, int(t.flag))


def main():
    before = tables_fingerprint()
    print('tables before', digest(before))
    for name in TABLE_NAMES:
        t = getattr(drag_tables, name)
        print(name, len(t), repr(t[0]), repr(t[1]), repr(t[len(t) // 2]), repr(t[-1]), digest([repr(t)]))

    # --- drag_by_mach on all shipped tables, several BC --------------------------------------------
    for name in TABLE_NAMES:
        for bc in (0.223, 1.0, 0.05, 7):
            dm = DragModel(bc, getattr(drag_tables, name))
            vals, same = drag_values(dm)
            print('drag', name, bc, len(vals), same, digest(vals), repr(vals[7][1]), repr(vals[-3][1]))

    # --- custom tables ----------------------------------------------------------------------------
    customs = {
        'three': [{'Mach': 0.0, 'CD': 0.3}, {'Mach': 1.0, 'CD': 0.5}, {'Mach': 2.5, 'CD': 0.35}],
        'four_uneven': [{'Mach': 0.1, 'CD': 0.21}, {'Mach': 0.7, 'CD': 0.19}, {'Mach': 0.95, 'CD': 0.41},
                        {'Mach': 3.3, 'CD': 0.27}],
        'five_dp': [DragDataPoint(0.0, 0.25), DragDataPoint(0.5, 0.24), DragDataPoint(0.9, 0.3),
                    DragDataPoint(1.2, 0.45), DragDataPoint(4.0, 0.2)],
        'ints': [{'Mach': 0, 'CD': 1}, {'Mach': 1, 'CD': 2}, {'Mach': 3, 'CD': 1}, {'Mach': 4, 'CD': 3},
                 {'Mach': 6, 'CD': 2}, {'Mach': 7, 'CD': 2}],
        'two': [{'Mach': 0.0, 'CD': 0.3}, {'Mach': 2.0, 'CD': 0.5}],
        'mixed': [DragDataPoint(0.0, 0.25), {'Mach': 0.6, 'CD': 0.24}, DragDataPoint(1.1, 0.4),
                  {'Mach': 2, 'CD': 0.3}],
        'unsorted': [{'Mach': 0.0, 'CD': 0.3}, {'Mach': 2.0, 'CD': 0.5}, {'Mach': 1.0, 'CD': 0.4},
                     {'Mach': 3.0, 'CD': 0.2}, {'Mach': 2.5, 'CD': 0.25}, {'Mach': 4.0, 'CD': 0.22},
                     {'Mach': 3.5, 'CD': 0.21}],
        'tuple_of_dicts': ({'Mach': 0.0, 'CD': 0.3}, {'Mach': 1.0, 'CD': 0.5}, {'Mach': 2.5, 'CD': 0.35}),
    }
    for label, table in customs.items():
        snapshot = repr(table)
        dm = DragModel(0.31, table)
        vals, same = drag_values(dm)
        print('custom', label, len(vals), same, repr(table) == snapshot,
              all(p is not q for p in dm.drag_table for q in table), digest(vals))
        print('   ', [repr(v[1]) for v in vals[7:17]])

    # --- failures: which exception, and what state the calculator is left in ------------------------
    print(attempt('empty', lambda: DragModel(0.3, [])))
    print(attempt('bc0', lambda: DragModel(0.0, drag_tables.TableG1)))
    print(attempt('bad key', lambda: DragModel(0.3, [{'Mach': 0.0, 'CD': 0.3}, {'M': 1.0, 'CD': 0.5}])))
    print(attempt('bad item', lambda: DragModel(0.3, [{'Mach': 0.0, 'CD': 0.3}, 5])))
    print(attempt('one point', lambda: init_calc(DragModel(0.3, [{'Mach': 0.0, 'CD': 0.3}]))))
    print(attempt('dup first', lambda: init_calc(DragModel(0.3, [{'Mach': 1.0, 'CD': 0.3}, {'Mach': 1.0, 'CD': 0.3},
                                                                {'Mach': 2.0, 'CD': 0.3}]))))
    print(attempt('dup last', lambda: init_calc(DragModel(0.3, [{'Mach': 0.0, 'CD': 0.3}, {'Mach': 1.0, 'CD': 0.3},
                                                               {'Mach': 2.0, 'CD': 0.3}, {'Mach': 2.0, 'CD': 0.4}]))))
    print(attempt('dup mid', lambda: init_calc(DragModel(0.3, [{'Mach': 0.0, 'CD': 0.3}, {'Mach': 1.0, 'CD': 0.3},
                                                              {'Mach': 1.0, 'CD': 0.35}, {'Mach': 2.0, 'CD': 0.4},
                                                              {'Mach': 3.0, 'CD': 0.4}]))))
    print(attempt('none cd', lambda: init_calc(DragModel(0.3, [{'Mach': 0.0, 'CD': 0.3}, {'Mach': 1.0, 'CD': 0.3},
                                                              {'Mach': 2.0, 'CD': None}, {'Mach': 3.0, 'CD': 0.4}]))))
    print(attempt('before init', lambda: Calculator()._calc.drag_by_mach(1.0)))
    print(attempt('cdm before init', lambda: Calculator().cdm))

    # call history: good shot, then a shot whose table cannot be fitted, then query again
    calc, shot = init_calc(DragModel(0.25, drag_tables.TableG7))
    good = [calc._calc.drag_by_mach(m) for m in (0.3, 0.97, 1.0, 2.2, 6.0)]
    bad_dm = DragModel(0.5, [{'Mach': 0.0, 'CD': 0.3}, {'Mach': 1.0, 'CD': 0.3}, {'Mach': 1.0, 'CD': 0.4},
                             {'Mach': 1.0, 'CD': 0.5}])
    bad_shot = Shot(weapon=Weapon(2, 10), ammo=Ammo(bad_dm, Velocity.MPS(800)))
    print(attempt('bad after good', lambda: calc._calc._init_trajectory(bad_shot)))
    after = [calc._calc.drag_by_mach(m) for m in (0.3, 0.97, 1.0, 2.2, 6.0)]
    print('history', good, after, calc.cdm is bad_dm.drag_table)

    # per-shot rebuild and snapshot semantics
    dm_a = DragModel(0.3, customs['three'])
    calc, shot = init_calc(dm_a)
    v0 = calc._calc.drag_by_mach(1.7)
    dm_a.drag_table[1].CD = 0.9
    dm_a.drag_table.append(DragDataPoint(5.0, 0.1))
    v1 = calc._calc.drag_by_mach(1.7)  # still the snapshot taken at _init_trajectory
    calc._calc._init_trajectory(shot)
    v2 = calc._calc.drag_by_mach(1.7)  # rebuilt
    dm_a.BC = 0.6
    v3 = calc._calc.drag_by_mach(1.7)  # bc also captured per shot
    calc._calc._init_trajectory(shot)
    v4 = calc._calc.drag_by_mach(1.7)
    print('snapshot', repr(v0), repr(v1), repr(v2), repr(v3), repr(v4), customs['three'])
    # two calculators do not share anything
    c1, _ = init_calc(DragModel(0.3, drag_tables.TableG1))
    c2, _ = init_calc(DragModel(0.3, drag_tables.TableG7))
    print('independent', repr(c1._calc.drag_by_mach(1.05)), repr(c2._calc.drag_by_mach(1.05)),
          repr(c1._calc.drag_by_mach(1.05)))

    # --- multi-BC -----------------------------------------------------------------------------------
    bcs = [BCPoint(0.275, V=Velocity.MPS(800)), BCPoint(0.255, V=Velocity.MPS(500)), BCPoint(0.26, V=Velocity.MPS(700))]
    dmm = DragModelMultiBC(bcs, drag_tables.TableG7, weight=178, diameter=.308)
    vals, same = drag_values(dmm)
    print('mbc', repr(dmm.BC), digest([(p.Mach, p.CD) for p in dmm.drag_table]), digest(vals), same,
          [repr(b.BC) for b in bcs])
    dmm2 = DragModelMultiBC([BCPoint(0.4, Mach=1.5), BCPoint(0.35, Mach=0.8)], drag_tables.TableG1)
    vals, same = drag_values(dmm2)
    print('mbc2', repr(dmm2.BC), digest([(p.Mach, p.CD) for p in dmm2.drag_table]), digest(vals), same)

    # --- end-to-end trajectories ----------------------------------------------------------------------
    calc = Calculator()
    for name, bc, mv in (('TableG7', 0.223, 2750.0), ('TableG1', 0.45, 2600.0), ('TableRA4', 0.12, 1080.0),
                         ('TableGS', 0.1, 1500.0), ('TableGI', 0.3, 3900.0)):
        dm = DragModel(bc, getattr(drag_tables, name), 168, 0.308, 1.2)
        shot = Shot(weapon=Weapon(Distance.Inch(2), Distance.Inch(11.24)), ammo=Ammo(dm, Velocity.FPS(mv)),
                    atmo=Atmo.icao(Distance.Foot(1500)), winds=[Wind(Velocity.MPH(7), Angular.OClock(9))])
        zero = calc.set_weapon_zero(shot, Distance.Yard(100))
        try:
            outcome = 'complete'
            trajectory = calc.fire(shot, Distance.Yard(1000), Distance.Yard(100),
                                   extra_data=(name == 'TableG1')).trajectory
        except pbc.RangeError as exc:  # the slow ones fall below the minimum altitude: still deterministic
            outcome = exc.reason
            trajectory = exc.incomplete_trajectory
        rows = [row(t) for t in trajectory]
        print('traj', name, repr(zero.raw_value), outcome, len(rows), digest(rows), rows[-1][:5])
    dm = DragModel(0.31, customs['four_uneven'])
    shot = Shot(weapon=Weapon(2, 10), ammo=Ammo(dm, Velocity.MPS(900)), look_angle=Angular.Degree(5))
    calc.set_weapon_zero(shot, Distance.Meter(200))
    res = calc.fire(shot, Distance.Meter(800), Distance.Meter(50))
    rows = [row(t) for t in res.trajectory]
    print('traj custom', len(rows), digest(rows), rows[-1][:5])

    after = tables_fingerprint()
    print('tables after', digest(after), before == after)


if __name__ == '__main__':
    main()
