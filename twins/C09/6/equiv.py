"""Digest of the drag path (curve construction, lookup, scaling, table copying).

Run:  cd /tmp/wt/C09 && PYTHONPATH=/tmp/wt/C09 /venv/bin/python /tmp/twins2/C09/<k>/equiv.py
Prints a deterministic text; it must be identical with and without the patch.
"""
import copy
import hashlib
import math
import warnings

warnings.simplefilter("ignore")

from py_ballisticcalc import (Calculator, DragModel, DragModelMultiBC, BCPoint, DragDataPoint,
                              Ammo, Weapon, Shot, Atmo, Wind, Distance, Velocity, Angular,
                              Weight, Unit)
from py_ballisticcalc import drag_tables
from py_ballisticcalc.drag_model import make_data_points
from py_ballisticcalc.trajectory_calc._trajectory_calc import calculate_curve

NAMES = ['TableG1', 'TableG7', 'TableG2', 'TableG5', 'TableG6', 'TableG8', 'TableGI', 'TableGS', 'TableRA4']
SNAPSHOT = {n: copy.deepcopy(getattr(drag_tables, n)) for n in NAMES}
IDS = {n: [id(p) for p in getattr(drag_tables, n)] for n in NAMES}

lines = []


def out(*parts):
    lines.append(" ".join(str(p) for p in parts))


def attempt(label, fn):
    """Record either repr(result) or the exception chain (type + message)."""
    try:
        out(label, "->", repr(fn()))
    except Exception as exc:  # pylint: disable=broad-except
        chain = []
        while exc is not None:
            chain.append(f"{type(exc).__name__}:{exc}")
            exc = exc.__cause__
        out(label, "raised", " <- ".join(chain))


def shot_for(dm, mv=2750.0):
    return Shot(weapon=Weapon(sight_height=Distance.Inch(2), twist=Distance.Inch(12)),
                ammo=Ammo(dm, Velocity.FPS(mv)), atmo=Atmo.icao())


def queries(machs):
    """Nodes, both sides of every node, midpoints (where the selected entry changes),
    both sides of every midpoint, below the first node and beyond the last one."""
    qs = [-0.5, -1e-9, 0.0, 1e-12]
    for i, m in enumerate(machs):
        qs += [m, math.nextafter(m, -math.inf), math.nextafter(m, math.inf), m - 1e-7, m + 1e-7]
        if i + 1 < len(machs):
            mid = (m + machs[i + 1]) / 2
            qs += [mid, math.nextafter(mid, -math.inf), math.nextafter(mid, math.inf),
                   m + (machs[i + 1] - m) * 0.25, m + (machs[i + 1] - m) * 0.75]
    last = machs[-1]
    qs += [last + 0.01, last * 1.5 + 1, last + 100.0, 1e6, math.inf, -math.inf, math.nan]
    return qs


def drag_digest(label, dm, show=False):
    calc = Calculator()
    shot = shot_for(dm)
    calc._calc._init_trajectory(shot)  # observe point named by the property
    tc = calc._calc
    machs = [p.Mach for p in dm.drag_table]
    h = hashlib.sha256()
    vals = []
    for q in queries(machs):
        try:
            r = repr(tc.drag_by_mach(q))
        except Exception as exc:  # pylint: disable=broad-except
            r = f"{type(exc).__name__}:{exc}"
        vals.append(f"{q!r}:{r}")
        h.update(vals[-1].encode())
    out(label, "n=", len(machs), "queries=", len(vals), "sha=", h.hexdigest())
    if show:
        for v in vals:
            out("   ", v)
    out(label, "curve=", hashlib.sha256(repr([tuple(c) for c in tc._curve]).encode()).hexdigest(),
        "len=", len(tc._curve), "first=", tuple(tc._curve[0]), "last=", tuple(tc._curve[-1]))
    out(label, "table_data is dm.drag_table:", tc.table_data is dm.drag_table,
        "cdm:", hashlib.sha256(repr(calc.cdm).encode()).hexdigest())


out('names', drag_tables.get_drag_tables_names())

# 1. every shipped table, several BCs -------------------------------------------------------
for name in NAMES:
    for bc in (0.223, 1.0, 0.05):
        drag_digest(f"{name}/bc={bc}", DragModel(bc, getattr(drag_tables, name)))

# 2. custom tables: 2, 3, 4, 5 points, DragDataPoint input, mixed input, ints, irregular spacing ----
custom = {
    "two": [{'Mach': 0.0, 'CD': 0.3}, {'Mach': 2.0, 'CD': 0.5}],
    "three": [{'Mach': 0.0, 'CD': 0.3}, {'Mach': 1.0, 'CD': 0.6}, {'Mach': 2.0, 'CD': 0.4}],
    "four": [{'Mach': 0.1, 'CD': 0.25}, {'Mach': 0.9, 'CD': 0.31}, {'Mach': 1.1, 'CD': 0.62},
             {'Mach': 3.0, 'CD': 0.33}],
    "five_ddp": [DragDataPoint(0.0, 0.2), DragDataPoint(0.5, 0.21), DragDataPoint(1.0, 0.45),
                 DragDataPoint(1.5, 0.41), DragDataPoint(4.0, 0.22)],
    "mixed": [DragDataPoint(0.0, 0.2), {'Mach': 0.7, 'CD': 0.22}, DragDataPoint(1.2, 0.5),
              {'Mach': 2.5, 'CD': 0.3}],
    "ints": [{'Mach': 0, 'CD': 1}, {'Mach': 1, 'CD': 2}, {'Mach': 3, 'CD': 1}, {'Mach': 7, 'CD': 1}],
    "irregular": [{'Mach': 0.0, 'CD': 0.1}, {'Mach': 1e-3, 'CD': 0.1000001}, {'Mach': 0.999, 'CD': 0.3},
                  {'Mach': 1.0, 'CD': 0.9}, {'Mach': 1.0000001, 'CD': 0.2}, {'Mach': 50.0, 'CD': 0.01}],
    # outside the documented contract (not ascending) - behaviour must still be the same
    "unsorted": [{'Mach': 0.0, 'CD': 0.3}, {'Mach': 2.0, 'CD': 0.5}, {'Mach': 1.0, 'CD': 0.6},
                 {'Mach': 0.5, 'CD': 0.2}, {'Mach': 3.0, 'CD': 0.25}, {'Mach': 2.5, 'CD': 0.4},
                 {'Mach': 4.0, 'CD': 0.1}],
    "collinear": [{'Mach': 0.0, 'CD': 0.1}, {'Mach': 1.0, 'CD': 0.2}, {'Mach': 2.0, 'CD': 0.3},
                  {'Mach': 3.0, 'CD': 0.4}],
}
for key, table in custom.items():
    before = copy.deepcopy(table)
    drag_digest(f"custom:{key}", DragModel(0.31, table), show=(key in ("two", "three", "four", "unsorted")))
    out(f"custom:{key}", "input unchanged:", table == before)

# 2b. lookup in detail: seeded random tables of every size 2..40, sorted and shuffled ---------
import random

rng = random.Random(20260926)
for size in list(range(2, 41)) + [64, 65, 127, 128, 129, 257]:
    for flavour in ("sorted", "shuffled"):
        machs = sorted(rng.uniform(0.0, 5.0) for _ in range(size))
        if len(set(machs)) != size:
            continue
        if flavour == "shuffled":
            rng.shuffle(machs)
        table = [{'Mach': m, 'CD': rng.uniform(0.05, 0.9)} for m in machs]
        calc = Calculator()
        dm = DragModel(rng.uniform(0.1, 1.2), table)
        calc._calc._init_trajectory(shot_for(dm))
        h = hashlib.sha256()
        qs = queries(machs) + [rng.uniform(-1.0, 7.0) for _ in range(200)] + [0, 1, 2, 3, 5, True]
        for q in qs:
            h.update(f"{q!r}:{calc._calc.drag_by_mach(q)!r};".encode())
        out("random", size, flavour, len(qs), h.hexdigest())

# 2c. call history and bad arguments ---------------------------------------------------------
fresh = Calculator()
attempt("before any shot", lambda: fresh._calc.drag_by_mach(1.0))
attempt("cdm before any shot", lambda: fresh.cdm)
fresh._calc._init_trajectory(shot_for(DragModel(0.4, drag_tables.TableG7)))
out("after G7 shot", repr(fresh._calc.drag_by_mach(0.8)), repr(fresh._calc.drag_by_mach(2.2)))
attempt("failing init (one point)", lambda: fresh._calc._init_trajectory(
    shot_for(DragModel(0.9, [{'Mach': 1.0, 'CD': 0.3}]))))
out("after failed init", repr(fresh._calc.drag_by_mach(0.8)), repr(fresh._calc.drag_by_mach(2.2)),
    repr(fresh.cdm))
attempt("failing init (duplicate)", lambda: fresh._calc._init_trajectory(
    shot_for(DragModel(0.7, [{'Mach': 1.0, 'CD': 0.3}, {'Mach': 2.0, 'CD': 0.3}, {'Mach': 2.0, 'CD': 0.4}]))))
out("after failed init 2", repr(fresh._calc.drag_by_mach(0.8)), repr(fresh._calc.drag_by_mach(2.2)),
    repr(fresh.cdm))
fresh._calc._init_trajectory(shot_for(DragModel(0.4, custom["three"])))
attempt("mach None", lambda: fresh._calc.drag_by_mach(None))
attempt("mach str", lambda: fresh._calc.drag_by_mach("1.0"))
attempt("mach complex", lambda: fresh._calc.drag_by_mach(1 + 0j))
fresh._calc._init_trajectory(shot_for(DragModel(0.4, drag_tables.TableG1)))
attempt("mach None (G1)", lambda: fresh._calc.drag_by_mach(None))
attempt("mach str (G1)", lambda: fresh._calc.drag_by_mach("1.0"))
import fractions
attempt("mach Fraction (G1)", lambda: fresh._calc.drag_by_mach(fractions.Fraction(3, 2)))
out("private helpers:", sorted(n for n in dir(type(fresh._calc)) if n in (
    "drag_by_mach", "_init_trajectory", "table_data", "trajectory", "zero_angle")))
# the drag model of the shot is replaced / mutated between shots: rebuilt per shot
dm_mut = DragModel(0.4, custom["four"])
shot_mut = shot_for(dm_mut)
fresh._calc._init_trajectory(shot_mut)
first = repr(fresh._calc.drag_by_mach(1.0))
dm_mut.drag_table[1].CD = 0.5
dm_mut.BC = 0.2
second = repr(fresh._calc.drag_by_mach(1.0))
fresh._calc._init_trajectory(shot_mut)
third = repr(fresh._calc.drag_by_mach(1.0))
out("mutated dm between shots:", first, second, third)


# 3. degenerate tables: the exceptions and the moment they are raised ------------------------
attempt("empty table", lambda: DragModel(0.3, []))
attempt("bc zero", lambda: DragModel(0.0, drag_tables.TableG1))
attempt("one point curve", lambda: calculate_curve(make_data_points([{'Mach': 1.0, 'CD': 0.3}])))
attempt("one point shot", lambda: Calculator()._calc._init_trajectory(
    shot_for(DragModel(0.3, [{'Mach': 1.0, 'CD': 0.3}]))))
attempt("empty curve", lambda: calculate_curve([]))
attempt("duplicate first", lambda: calculate_curve(make_data_points(
    [{'Mach': 1.0, 'CD': 0.3}, {'Mach': 1.0, 'CD': 0.4}, {'Mach': 2.0, 'CD': 0.4}])))
attempt("duplicate middle", lambda: calculate_curve(make_data_points(
    [{'Mach': 0.0, 'CD': 0.3}, {'Mach': 1.0, 'CD': 0.4}, {'Mach': 1.0, 'CD': 0.5}, {'Mach': 2.0, 'CD': 0.4}])))
attempt("duplicate last", lambda: calculate_curve(make_data_points(
    [{'Mach': 0.0, 'CD': 0.3}, {'Mach': 1.0, 'CD': 0.4}, {'Mach': 2.0, 'CD': 0.5}, {'Mach': 2.0, 'CD': 0.4}])))
attempt("nan node", lambda: [tuple(c) for c in calculate_curve(make_data_points(
    [{'Mach': 0.0, 'CD': 0.3}, {'Mach': math.nan, 'CD': 0.4}, {'Mach': 2.0, 'CD': 0.5}]))])
attempt("tuple of points", lambda: [tuple(c) for c in calculate_curve(tuple(make_data_points(custom["four"])))])
attempt("missing key", lambda: make_data_points([{'Mach': 1.0, 'CD': 0.3}, {'Mach': 2.0}]))
attempt("missing key 2", lambda: make_data_points([{'CD': 0.3}]))
attempt("tuple item", lambda: make_data_points([(1.0, 0.3)]))
attempt("str item", lambda: make_data_points(["abc"]))
attempt("int item", lambda: make_data_points([1, 2]))
attempt("none item", lambda: make_data_points([None]))
attempt("not iterable", lambda: make_data_points(5))
attempt("none table", lambda: make_data_points(None))
attempt("generator table", lambda: make_data_points(p for p in custom["three"]))
attempt("dict table", lambda: make_data_points({'Mach': 1.0, 'CD': 0.3}))
attempt("string values", lambda: make_data_points([{'Mach': "1.0", 'CD': "0.3"}]))
attempt("extra keys", lambda: make_data_points([{'Mach': 1.0, 'CD': 0.3, 'x': 1}]))


class SubPoint(DragDataPoint):
    pass


attempt("subclass item", lambda: [type(p).__name__ for p in make_data_points([SubPoint(1.0, 0.3)])])

# copies are fresh objects
src = [DragDataPoint(0.0, 0.2), DragDataPoint(1.0, 0.3), DragDataPoint(2.0, 0.25)]
cp = make_data_points(src)
out("fresh objects:", all(a is not b for a, b in zip(src, cp)), cp == src, type(cp).__name__)
dm_src = DragModel(0.3, src)
out("DragModel copies:", all(a is not b for a, b in zip(src, dm_src.drag_table)), dm_src.drag_table == src)

# 4. multi-BC models (copy, then scale CD) --------------------------------------------------
multi_cases = {
    "g7_weight": lambda: DragModelMultiBC(
        [BCPoint(0.275, V=Velocity.MPS(800)), BCPoint(0.255, V=Velocity.MPS(500)),
         BCPoint(0.26, V=Velocity.MPS(700))],
        drag_tables.TableG7, weight=Weight.Grain(178), diameter=Distance.Inch(0.308), length=Distance.Inch(1.3)),
    "g1_nobody": lambda: DragModelMultiBC(
        [BCPoint(0.5, Mach=2.5), BCPoint(0.45, Mach=1.2), BCPoint(0.4, Mach=0.8)], drag_tables.TableG1),
    "single": lambda: DragModelMultiBC([BCPoint(0.3, Mach=1.0)], drag_tables.TableGS),
    "ddp_input": lambda: DragModelMultiBC(
        [BCPoint(0.2, Mach=0.5), BCPoint(0.3, Mach=1.5)], custom["five_ddp"], weight=100, diameter=0.3),
    "ties": lambda: DragModelMultiBC(
        [BCPoint(0.2, Mach=1.0), BCPoint(0.3, Mach=1.0), BCPoint(0.25, Mach=2.0)], custom["four"]),
}
for key, make in multi_cases.items():
    dm = make()
    out("multi", key, "bc=", repr(dm.BC), "table=", hashlib.sha256(repr(dm.drag_table).encode()).hexdigest(),
        repr(dm.drag_table[0]), repr(dm.drag_table[-1]))
    drag_digest(f"multi:{key}", dm)
out("five_ddp untouched by MultiBC:", repr(custom["five_ddp"]))
attempt("multi empty bc", lambda: DragModelMultiBC([], drag_tables.TableG7))
attempt("multi bad table", lambda: DragModelMultiBC([BCPoint(0.3, Mach=1.0)], [1, 2, 3]))
attempt("multi empty table", lambda: DragModelMultiBC([BCPoint(0.3, Mach=1.0)], []))
attempt("multi tiny bc", lambda: DragModelMultiBC([BCPoint(5e-324, Mach=1.0)], custom["three"],
                                                   weight=7000 * 1e6, diameter=0.001))

# 5. end-to-end trajectories and zeroing through the public API ----------------------------
for name, bc, mv in (("TableG7", 0.223, 2750.0), ("TableG1", 0.45, 3100.0), ("TableRA4", 0.12, 1050.0)):
    dm = DragModel(bc, getattr(drag_tables, name), Weight.Grain(168), Distance.Inch(0.308), Distance.Inch(1.282))
    shot = Shot(weapon=Weapon(sight_height=Distance.Inch(2), twist=Distance.Inch(12)),
                ammo=Ammo(dm, Velocity.FPS(mv)), atmo=Atmo.icao(),
                winds=[Wind(Velocity.MPH(5), Angular.OClock(3))])
    calc = Calculator()
    zero = calc.set_weapon_zero(shot, Distance.Yard(100))
    res = calc.fire(shot, Distance.Yard(1000), Distance.Yard(100), extra_data=True)
    h = hashlib.sha256()
    for row in res.trajectory:
        h.update(repr((row.time, row.distance.raw_value, row.velocity.raw_value, row.mach,
                       row.height.raw_value, row.windage.raw_value, row.drag, row.flag)).encode())
    last = res.trajectory[-1]
    out("traj", name, "zero=", repr(zero.raw_value), "rows=", len(res.trajectory), "sha=", h.hexdigest(),
        "last=", repr((last.time, last.height.raw_value, last.velocity.raw_value, last.drag)))

# the same calculator re-used for shots with different tables (per-shot rebuild, call history)
calc = Calculator()
for key in ("TableG1", "TableG7", "TableG1"):
    shot = shot_for(DragModel(0.3, getattr(drag_tables, key)))
    res = calc.fire(shot, Distance.Yard(300), Distance.Yard(100))
    out("reuse", key, repr([(r.height.raw_value, r.velocity.raw_value) for r in res.trajectory]),
        repr(calc._calc.drag_by_mach(1.0123)))

# 6. shipped tables unchanged by everything above -------------------------------------------
for n in NAMES:
    table = getattr(drag_tables, n)
    out("shipped", n, "len=", len(table), "equal=", table == SNAPSHOT[n],
        "same objects=", [id(p) for p in table] == IDS[n],
        "types=", sorted({type(p).__name__ for p in table}),
        "sha=", hashlib.sha256(repr(table).encode()).hexdigest())

text = "\n".join(lines)
print(text)
print("TOTAL", hashlib.sha256(text.encode()).hexdigest())
