"""Deterministic digest of wind-related behaviour through the public API.

Prints exactly the same text on the clean worktree and with the refactoring applied.
"""
import hashlib
import warnings

warnings.simplefilter("ignore")

from py_ballisticcalc import (Calculator, Shot, Weapon, Ammo, Atmo, Wind, DragModel, TableG7, TableG1,
                              Unit, Distance, Velocity, Angular, RangeError)
from py_ballisticcalc.trajectory_calc import _WindSock

OUT = []


def emit(*parts):
    OUT.append(" ".join(str(p) for p in parts))


def row_digest(row):
    return (repr(row.time), repr(row.distance.raw_value), repr(row.velocity.raw_value), repr(row.mach),
            repr(row.height.raw_value), repr(row.target_drop.raw_value), repr(row.drop_adj.raw_value),
            repr(row.windage.raw_value), repr(row.windage_adj.raw_value), repr(row.look_distance.raw_value),
            repr(row.angle.raw_value), repr(row.density_factor), repr(row.drag), repr(row.energy.raw_value),
            repr(row.ogw.raw_value), int(row.flag))


def make_shot(winds, twist=12.0, look=0.0, cant=0.0, table=TableG7, bc=0.223, mv=2750.0):
    dm = DragModel(bc, table, Unit.Grain(168), Unit.Inch(0.308), Unit.Inch(1.282))
    weapon = Weapon(Unit.Inch(2), Unit.Inch(twist))
    ammo = Ammo(dm, Unit.FPS(mv))
    return Shot(weapon=weapon, ammo=ammo, look_angle=Unit.Degree(look), cant_angle=Unit.Degree(cant),
                atmo=Atmo.icao(), winds=winds)


def W(speed_mph, deg, until_yd=None):
    if until_yd is None:
        return Wind(Unit.MPH(speed_mph), Unit.Degree(deg))
    return Wind(Unit.MPH(speed_mph), Unit.Degree(deg), Unit.Yard(until_yd))


def fire(label, shot, rng_yd=1000, step_yd=100, zero_yd=100, extra=False, time_step=0.0):
    calc = Calculator()
    try:
        if zero_yd:
            ze = calc.set_weapon_zero(shot, Unit.Yard(zero_yd))
            emit(label, "zero", repr(ze.raw_value))
        res = calc.fire(shot, Unit.Yard(rng_yd), Unit.Yard(step_yd), extra_data=extra, time_step=time_step)
        rows = list(res.trajectory)
        emit(label, "rows", len(rows))
        h = hashlib.sha256()
        for r in rows:
            h.update(repr(row_digest(r)).encode())
        emit(label, "sha", h.hexdigest())
        for r in rows[:3] + rows[-3:]:
            emit(label, row_digest(r))
    except RangeError as e:
        emit(label, "RangeError", e.reason, len(e.incomplete_trajectory),
             repr(e.last_distance.raw_value) if e.last_distance is not None else None)
        for r in e.incomplete_trajectory[-2:]:
            emit(label, row_digest(r))
    except Exception as e:  # pylint: disable=broad-except
        emit(label, "EXC", type(e).__name__, e)


# ---------------------------------------------------------------- Wind.vector
for spd, deg in [(0, 0), (10, 0), (10, 90), (10, 180), (10, 270), (10, 360), (7.5, 33.3), (12, -45), (3, 725),
                 (-5, 90), (1e-9, 123.456)]:
    w = W(spd, deg)
    v = w.vector
    emit("vector", spd, deg, type(v).__name__, repr(tuple(v)), type(v.y).__name__)
emit("vector-default", repr(tuple(Wind().vector)), repr(Wind().until_distance.raw_value),
     repr(Wind().MAX_DISTANCE_FEET))
emit("vector-maxdist", repr(Wind(max_distance_feet=500).until_distance.raw_value))

# ---------------------------------------------------------------- Shot.winds ordering (stability, ties, types)
base = [W(5, 90, 300), W(6, 45, 100), W(7, 10, 300), W(8, 270, 100), W(9, 0, 200), W(1, 2), W(2, 3, 0)]
shot = make_shot(base)
ordered = shot.winds
emit("winds-type", type(ordered).__name__, len(ordered))
emit("winds-order", [base.index(w) for w in ordered], [any(w is b for b in base) for w in ordered])
emit("winds-twice-distinct", shot.winds is not shot.winds, shot.winds == shot.winds)
emit("winds-src-untouched", [w.velocity.raw_value for w in shot._winds] == [w.velocity.raw_value for w in base])
shot.winds = None
emit("winds-none", len(shot.winds), repr(tuple(shot.winds[0].vector)))
shot.winds = []
emit("winds-empty", len(shot.winds), repr(tuple(shot.winds[0].vector)))
shot.winds = (W(3, 90, 50), W(4, 90, 20))
emit("winds-tuple-src", type(shot.winds).__name__, [repr(w.until_distance.raw_value) for w in shot.winds])
shot.winds = iter([W(3, 90, 50), W(4, 90, 20)])
emit("winds-iter-src", [repr(w.until_distance.raw_value) for w in shot.winds], len(shot.winds))
shot.winds = [W(3, 90, 50), object()]
try:
    emit("winds-bad", shot.winds)
except Exception as e:  # pylint: disable=broad-except
    emit("winds-bad", type(e).__name__, e)
shot.winds = 5
try:
    emit("winds-int", shot.winds)
except Exception as e:  # pylint: disable=broad-except
    emit("winds-int", type(e).__name__, e)
# mixed units in until_distance are ordered by raw value
shot.winds = [Wind(Unit.MPH(1), Unit.Degree(90), Unit.Meter(100)), Wind(Unit.MPH(2), Unit.Degree(90), Unit.Yard(105)),
              Wind(Unit.MPH(3), Unit.Degree(90), Unit.Foot(310))]
emit("winds-mixed", [repr(w.velocity.raw_value) for w in shot.winds])

# ---------------------------------------------------------------- _WindSock driven directly
def sock_state(ws):
    return (ws.current, repr(ws.next_range), repr(tuple(ws.current_vector())))


for label, winds in [
    ("sock-none", None),
    ("sock-empty", tuple()),
    ("sock-one", (W(10, 90),)),
    ("sock-three", (W(10, 90, 100), W(5, 270, 200), W(3, 0, 300))),
    ("sock-dups", (W(10, 90, 100), W(5, 270, 100), W(3, 0, 100), W(4, 45, 250))),
    ("sock-zero-until", (W(10, 90, 0), W(5, 270, 50))),
    ("sock-unsorted", (W(10, 90, 300), W(5, 270, 100))),
    ("sock-list", [W(10, 90, 100), W(5, 270, 200)]),
]:
    ws = _WindSock(winds)
    emit(label, "init", sock_state(ws), type(ws.winds).__name__, len(ws.winds))
    for x in [0.0, 10.0, 299.9, 300.0, 300.0, 300.0, 450.0, 100.0, 600.0, 750.0, 899.99, 900.0, 1e9, 1e9, 2e9, -1.0,
              float('nan'), 100000000, float('inf'), 10 ** 30]:
        v = ws.vector_for_range(x)
        emit(label, repr(x), repr(tuple(v)), v is ws.current_vector(), sock_state(ws))
    ws.update_cache()
    emit(label, "after-update", sock_state(ws))
    ws.current = 0
    ws.update_cache()
    emit(label, "rewound", sock_state(ws))
ws = _WindSock((W(1, 90, 10),))
ws._last_vector_cache = None
try:
    ws.current_vector()
    emit("sock-nocache", "no error")
except RuntimeError as e:
    emit("sock-nocache", type(e).__name__, e)
try:
    ws.vector_for_range(0.0)
    emit("sock-nocache2", "no error")
except RuntimeError as e:
    emit("sock-nocache2", type(e).__name__, e)
emit("sock-nocache3", repr(tuple(ws.vector_for_range(1e12))), sock_state(ws))

# ---------------------------------------------------------------- trajectories
CASES = {
    "nowind-default": None,
    "nowind-empty": [],
    "zero-speed": [W(0, 90)],
    "zero-speed-seg": [W(0, 90, 400), W(0, 10, 700)],
    "left": [W(10, 90)],
    "right": [W(10, 270)],
    "head": [W(10, 180)],
    "tail": [W(10, 0)],
    "oblique": [W(13, 37)],
    "oblique-mirror": [W(13, -37)],
    "seg3": [W(10, 90, 300), W(6, 200, 600), W(14, 300, 900)],
    "seg3-shuffled": [W(14, 300, 900), W(10, 90, 300), W(6, 200, 600)],
    "seg3-mirror": [W(10, -90, 300), W(6, -200, 600), W(14, -300, 900)],
    "seg3-changed-tail": [W(10, 90, 300), W(6, 200, 600), W(25, 45, 900), W(9, 9, 950)],
    "seg-short": [W(10, 90, 250)],
    "seg-beyond": [W(10, 90, 5000)],
    "dups": [W(10, 90, 300), W(20, 270, 300), W(5, 90, 300), W(8, 45, 700)],
    "dups-reversed": [W(8, 45, 700), W(5, 90, 300), W(20, 270, 300), W(10, 90, 300)],
    "until-zero": [W(30, 90, 0), W(10, 270, 500)],
    "until-tiny": [W(30, 90, 0.05), W(30, 270, 0.1), W(10, 270, 500)],
    "many": [W(1 + (i * 7) % 11, (i * 53) % 360, 20 + i * 35) for i in range(30)],
    "many-reversed": [W(1 + (i * 7) % 11, (i * 53) % 360, 20 + i * 35) for i in reversed(range(30))],
}
for name, winds in CASES.items():
    fire("T:" + name, make_shot(winds))

fire("T:seg3-extra", make_shot(CASES["seg3"]), rng_yd=700, step_yd=50, extra=True)
fire("T:seg3-timestep", make_shot(CASES["seg3"]), rng_yd=700, step_yd=350, time_step=0.05)
fire("T:seg3-look", make_shot(CASES["seg3"], look=5.0, cant=7.0, twist=-9.0), rng_yd=800, step_yd=80, zero_yd=200)
fire("T:seg3-notwist", make_shot(CASES["seg3"], twist=0.0), rng_yd=800, step_yd=80)
fire("T:seg3-g1", make_shot(CASES["seg3-shuffled"], table=TableG1, bc=0.45, mv=2600.0), rng_yd=900, step_yd=33)
fire("T:tinystep", make_shot(CASES["dups"]), rng_yd=400, step_yd=0.1, zero_yd=0)
fire("T:step-default", make_shot(CASES["seg3"]), rng_yd=600, step_yd=0)
fire("T:short", make_shot(CASES["until-zero"]), rng_yd=0.1, step_yd=1, zero_yd=0)
fire("T:zero-range", make_shot(CASES["left"]), rng_yd=0, step_yd=1, zero_yd=0)
# RangeError paths: minimum velocity, maximum drop, minimum altitude
fire("T:minalt1", make_shot(CASES["seg3"], mv=900.0, bc=0.05), rng_yd=3000, step_yd=100, zero_yd=0)
fire("T:minvel", make_shot(CASES["seg3"], look=88.0, mv=1200.0), rng_yd=3000, step_yd=100, zero_yd=0)
fire("T:minvel-head", make_shot([W(60, 180, 20), W(40, 90, 60)], look=89.0, mv=900.0, bc=0.1), rng_yd=3000,
     step_yd=10, zero_yd=0, time_step=0.5)
shot_high = make_shot(CASES["seg3"], look=-60.0, bc=0.9)
shot_high.atmo = Atmo(altitude=Unit.Foot(20000))
fire("T:maxdrop", shot_high, rng_yd=20000, step_yd=1000, zero_yd=0)
shot_alt = make_shot(CASES["seg3"], look=-30.0, bc=0.9)
shot_alt.atmo = Atmo(altitude=Unit.Foot(-1000))
fire("T:minalt2", shot_alt, rng_yd=20000, step_yd=500, zero_yd=0)
# zeroing in a strong segmented wind and far away
fire("T:zero-far", make_shot(CASES["many"]), rng_yd=1200, step_yd=100, zero_yd=800)
# the same calculator reused for shots with different winds (no state carried over)
calc = Calculator()
s1, s2 = make_shot(CASES["seg3"]), make_shot(None)
for tag, s in [("a", s1), ("b", s2), ("c", s1), ("d", s2)]:
    rows = calc.fire(s, Unit.Yard(700), Unit.Yard(70)).trajectory
    emit("reuse", tag, hashlib.sha256(repr([row_digest(r) for r in rows]).encode()).hexdigest())

text = "\n".join(OUT)
print(text)
print("DIGEST", hashlib.sha256(text.encode()).hexdigest())
