"""Equivalence digest for C12 refactorings: wind handling seen through the public API.

Prints one line per scenario (sha256 of the exact hex representation of every column of every
row) plus a few rows in clear.  The text must be identical on the clean worktree and with the
patch applied.
"""
import hashlib
import warnings

from py_ballisticcalc import (DragModel, Ammo, Weapon, Calculator, Shot, Wind, Atmo, TableG7, TableG1,
                              RangeError)
from py_ballisticcalc.unit import Velocity, Angular, Distance, Unit, Temperature, Pressure
from py_ballisticcalc.trajectory_calc import _WindSock

warnings.simplefilter("ignore")


def fx(v):
    return float(v).hex()


def row_repr(r):
    return "|".join((
        fx(r.time), fx(r.distance.raw_value), fx(r.velocity.raw_value), fx(r.mach),
        fx(r.height.raw_value), fx(r.target_drop.raw_value), fx(r.drop_adj.raw_value),
        fx(r.windage.raw_value), fx(r.windage_adj.raw_value), fx(r.look_distance.raw_value),
        fx(r.angle.raw_value), fx(r.density_factor), fx(r.drag), fx(r.energy.raw_value),
        fx(r.ogw.raw_value), str(int(r.flag)),
    ))


def digest(rows):
    h = hashlib.sha256()
    for r in rows:
        h.update(row_repr(r).encode())
        h.update(b"\n")
    return h.hexdigest()


def show(name, rows, extra=""):
    last = rows[-1]
    mid = rows[len(rows) // 2]
    print(f"{name}: n={len(rows)} sha={digest(rows)} "
          f"mid.windage={fx(mid.windage.raw_value)} last.windage={fx(last.windage.raw_value)} "
          f"last.height={fx(last.height.raw_value)} last.time={fx(last.time)} {extra}")


def mk_shot(winds, **kw):
    dm = DragModel(0.22, TableG7, 168, 0.308, 1.22)
    ammo = Ammo(dm, Velocity.FPS(2600))
    weapon = Weapon(Distance.Inch(4), Distance.Inch(12))
    return Shot(weapon=weapon, ammo=ammo, atmo=Atmo.icao(), winds=winds, **kw)


def W(mph, deg, until_ft=None, **kw):
    if until_ft is None:
        return Wind(Velocity.MPH(mph), Angular.Degree(deg), **kw)
    return Wind(Velocity.MPH(mph), Angular.Degree(deg), Distance.Foot(until_ft), **kw)


calc = Calculator()

WIND_LISTS = {
    "empty": [],
    "none": None,
    "default_wind": [Wind()],
    "zero_speed": [W(0, 90)],
    "zero_speed_segment": [W(0, 90, 900), W(0, 270, 2000)],
    "left": [W(10, 90)],
    "right": [W(10, 270)],
    "tail": [W(10, 0)],
    "head": [W(10, 180)],
    "oblique": [W(7.5, 37)],
    "two_sorted": [W(8, 270, 1500), W(8, 90, 2400)],
    "two_unsorted": [W(8, 90, 2400), W(8, 270, 1500)],
    "four_unsorted": [W(0, 90, 328), W(2.2, 60, 984), W(4.5, 30, 656), W(4.5, 30, 164)],
    "ends_before_target": [W(12, 90, 600), W(6, 200, 1200)],
    "begins_beyond_target": [W(12, 90, 1000), W(30, 270, 5000), W(30, 10, 9000)],
    "duplicate_until": [W(5, 90, 900), W(9, 270, 900), W(3, 45, 900), W(11, 135, 2100)],
    "duplicate_until_reordered": [W(3, 45, 900), W(11, 135, 2100), W(9, 270, 900), W(5, 90, 900)],
    "adjacent_thresholds": [W(5, 90, 300.0), W(20, 270, 300.05), W(20, 180, 300.1), W(4, 90, 1800)],
    "until_zero": [W(15, 90, 0), W(6, 270, 1200)],
    "until_negative": [W(15, 90, -50), W(25, 180, -10), W(6, 270, 1200)],
    "all_until_nonpositive": [W(15, 90, -50), W(25, 180, 0)],
    "tiny_until": [W(15, 90, 0.1), W(6, 270, 0.2), W(3, 90, 3000)],
    "custom_max_distance": [W(9, 90, max_distance_feet=1500), W(4, 270, 2000, max_distance_feet=10)],
    "many": [W(1 + (i * 7) % 5, (i * 53) % 360, 150 * ((i * 5) % 17 + 1)) for i in range(17)],
    "strong": [W(60, 90, 1000), W(60, 270, 2000), W(80, 180, 3000)],
}

print("== plain fire, 1000 yd, step 100 yd")
for name, winds in WIND_LISTS.items():
    shot = mk_shot(winds)
    res = calc.fire(shot, Distance.Yard(1000), Distance.Yard(100))
    show(name, res.trajectory)

print("== zeroed at 100 yd with look angle, cant and relative angle; extra data; time step")
for name in ("empty", "left", "two_unsorted", "duplicate_until", "adjacent_thresholds", "until_negative",
             "ends_before_target", "many"):
    shot = mk_shot(WIND_LISTS[name], look_angle=Angular.Degree(4), cant_angle=Angular.Degree(7),
                   relative_angle=Angular.MOA(3))
    zero = calc.set_weapon_zero(shot, Distance.Yard(100))
    res = calc.fire(shot, Distance.Yard(800), Distance.Yard(25), extra_data=True, time_step=0.05)
    show(name, res.trajectory, extra=f"zero={fx(zero.raw_value)}")

print("== fine steps around the segment boundaries")
for name in ("two_unsorted", "duplicate_until", "adjacent_thresholds", "tiny_until", "until_zero"):
    shot = mk_shot(WIND_LISTS[name])
    res = calc.fire(shot, Distance.Foot(1000), Distance.Foot(0.1))
    show(name, res.trajectory)

print("== short shots")
for name in ("empty", "left", "until_zero", "tiny_until"):
    shot = mk_shot(WIND_LISTS[name])
    res = calc.fire(shot, Distance.Centimeter(5))
    show(name, res.trajectory)
    res = calc.fire(shot, Distance.Foot(1), Distance.Foot(1))
    show(name + "/1ft", res.trajectory)

print("== winds replaced and mutated after construction")
shot = mk_shot([W(10, 90)])
wl = [W(8, 90, 2400), W(8, 270, 1500)]
shot.winds = wl
show("setter", calc.fire(shot, Distance.Yard(1000), Distance.Yard(100)).trajectory)
wl.append(W(20, 100, 700))
wl[0].velocity = Velocity.MPH(1)
show("mutated", calc.fire(shot, Distance.Yard(1000), Distance.Yard(100)).trajectory)
shot.winds = []
show("setter_empty", calc.fire(shot, Distance.Yard(1000), Distance.Yard(100)).trajectory)
shot.winds = None
show("setter_none", calc.fire(shot, Distance.Yard(1000), Distance.Yard(100)).trajectory)
print("sorted ids:", [wl.index(w) for w in mk_shot(wl).winds])

print("== trajectories that end in RangeError")
for name in ("empty", "head", "strong", "duplicate_until", "many"):
    dm = DragModel(0.12, TableG1, 40, 0.224, 0.6)
    shot = Shot(weapon=Weapon(Distance.Inch(2), Distance.Inch(9)), ammo=Ammo(dm, Velocity.FPS(1100)),
                atmo=Atmo(Distance.Foot(4500), Pressure.InHg(25.8), Temperature.Fahrenheit(95), 0.3),
                winds=WIND_LISTS[name], relative_angle=Angular.Degree(2))
    try:
        res = calc.fire(shot, Distance.Yard(3000), Distance.Yard(100))
        show(name, res.trajectory, extra="no error")
    except RangeError as e:
        show(name, e.incomplete_trajectory, extra=f"reason={e.reason!r} last={fx(e.last_distance.raw_value)}")

print("== steep shot (small down-range progress per step), left-hand twist")
for name in ("left", "adjacent_thresholds", "tiny_until", "duplicate_until"):
    dm = DragModel(0.22, TableG7, 168, 0.308, 1.22)
    shot = Shot(weapon=Weapon(Distance.Inch(4), Distance.Inch(-10)), ammo=Ammo(dm, Velocity.FPS(2600)),
                atmo=Atmo.icao(), winds=WIND_LISTS[name], relative_angle=Angular.Degree(80))
    try:
        res = calc.fire(shot, Distance.Foot(1500), Distance.Foot(150), time_step=0.5)
        show(name, res.trajectory)
    except RangeError as e:
        show(name, e.incomplete_trajectory, extra=f"reason={e.reason!r}")

print("== _WindSock driven directly")


def sock_trace(winds, xs):
    sock = _WindSock(winds)
    out = [(sock.current, fx(sock.next_range), tuple(fx(c) for c in sock.current_vector()))]
    for x in xs:
        v = sock.vector_for_range(x)
        out.append((x, sock.current, fx(sock.next_range), tuple(fx(c) for c in v),
                    v is sock.current_vector() or v == sock.current_vector()))
    return hashlib.sha256(repr(out).encode()).hexdigest(), out[-1]


XS = [0.0, 0.0, 10.0, 299.9, 300.0, 300.0, 300.2, 300.2, 900.0, 900.0, 900.0, 899.0, 1500.0, 2100.0, 2400.0,
      5000.0, 1e8, 1e8, 2e8, 5.0]
for name, winds in WIND_LISTS.items():
    for label, arg in (("sorted", mk_shot(winds).winds), ("as_given", tuple(winds) if winds else winds)):
        print(name, label, *sock_trace(arg, XS))
sock = _WindSock(mk_shot(WIND_LISTS["duplicate_until"]).winds)
sock.current = 3
sock.update_cache()
print("forced", sock.current, fx(sock.next_range), sock.current_vector())
sock.current = 7
sock.update_cache()
print("forced", sock.current, fx(sock.next_range), sock.current_vector())
print("attrs", sorted(k for k in vars(_WindSock(None)) if not k.startswith("_")))
