"""Equivalence digest for property C12 (wind by segment, in order, symmetric, causal).

Prints repr() of every number in every trajectory row for a set of related wind lists,
plus the order returned by Shot.winds, Wind.vector components and a direct walk of _WindSock
through its public members.  Must print the same text before and after the refactoring.
"""
import hashlib
import math
import warnings

warnings.simplefilter("ignore")

from py_ballisticcalc import (DragModel, Ammo, Weapon, Calculator, Shot, Wind, Atmo, TableG7, TableG1,
                              RangeError)
from py_ballisticcalc.unit import Distance, Velocity, Angular, Unit
from py_ballisticcalc.trajectory_calc import _WindSock

OUT = []


def emit(*parts):
    line = " ".join(str(p) for p in parts)
    OUT.append(line)
    print(line)


def row_repr(r):
    return "(" + ", ".join([
        repr(r.time), repr(r.distance.raw_value), repr(r.velocity.raw_value), repr(r.mach),
        repr(r.height.raw_value), repr(r.target_drop.raw_value), repr(r.drop_adj.raw_value),
        repr(r.windage.raw_value), repr(r.windage_adj.raw_value), repr(r.look_distance.raw_value),
        repr(r.angle.raw_value), repr(r.density_factor), repr(r.drag), repr(r.energy.raw_value),
        repr(r.ogw.raw_value), repr(int(r.flag))]) + ")"


def W(mps, deg, until_m=None):
    if until_m is None:
        return Wind(Velocity.MPS(mps), Angular.Degree(deg))
    return Wind(Velocity.MPS(mps), Angular.Degree(deg), Distance.Meter(until_m))


def wind_lists():
    yield "none", None
    yield "empty", []
    yield "default", [Wind()]
    yield "zero_speed", [W(0, 90)]
    yield "zero_speed_seg", [W(0, 90, 300), W(0, 270, 600)]
    yield "left", [W(5, 90)]
    yield "right", [W(5, 270)]
    yield "head", [W(5, 180)]
    yield "tail", [W(5, 0)]
    yield "oblique", [W(7.5, 37)]
    yield "oblique_mirror", [W(7.5, 360 - 37)]
    yield "one_seg_short", [W(6, 90, 250)]
    yield "two_seg", [W(4, 270, 500), W(4, 90, 800)]
    yield "two_seg_reversed_order", [W(4, 90, 800), W(4, 270, 500)]
    yield "two_seg_far_changed", [W(4, 270, 500), W(9, 45, 800)]
    yield "two_seg_plus_far", [W(4, 270, 500), W(4, 90, 800), W(12, 135, 950)]
    yield "four_unsorted", [W(0, 90, 100), W(1, 60, 300), W(2, 30, 200), W(2, 30, 50)]
    yield "four_unsorted_mirror", [W(0, 270, 100), W(1, 300, 300), W(2, 330, 200), W(2, 330, 50)]
    yield "dup_until", [W(3, 90, 400), W(8, 270, 400), W(2, 45, 700)]
    yield "dup_until_swapped", [W(8, 270, 400), W(3, 90, 400), W(2, 45, 700)]
    yield "triple_dup", [W(3, 90, 400), W(8, 270, 400), W(5, 10, 400)]
    yield "zero_until", [W(9, 90, 0), W(3, 270, 600)]
    yield "negative_until", [W(9, 90, -10), W(3, 270, 600)]
    yield "close_segments", [W(5, 90, 100.0), W(6, 270, 100.01), W(7, 80, 100.02), W(2, 200, 100.5)]
    yield "beyond_range", [W(5, 90, 5000), W(50, 270, 9000)]
    yield "last_open_ended", [W(5, 90, 300), W(6, 200)]
    yield "open_ended_first_given", [W(6, 200), W(5, 90, 300)]
    yield "custom_max", [Wind(Velocity.MPS(5), Angular.Degree(90), max_distance_feet=1500.0),
                         Wind(Velocity.MPS(3), Angular.Degree(180), Distance.Meter(200))]
    yield "strong", [W(40, 100, 350), W(40, 260, 700)]
    yield "nan_until", [W(5, 90, float("nan")), W(6, 270, 300)]
    yield "inf_until", [W(6, 270, 300), W(5, 90, float("inf"))]


def main():
    calc = Calculator()
    dm7 = DragModel(0.22, TableG7, 168, 0.308, 1.22)
    dm1 = DragModel(0.45, TableG1, 150, 0.308, 1.1)
    setups = [
        ("g7_flat", Weapon(4, 12), Ammo(dm7, Velocity.FPS(2600)), {}, 1000, 100, False),
        ("g7_zeroed_look", Weapon(Distance.Inch(2), Distance.Inch(-9), Angular.Mil(3)), Ammo(dm7, Velocity.MPS(800)),
         {"look_angle": Angular.Degree(4), "cant_angle": Angular.Degree(7)}, Distance.Meter(900),
         Distance.Meter(75), False),
        ("g1_notwist_extra", Weapon(3, 0), Ammo(dm1, Velocity.FPS(2900)),
         {"relative_angle": Angular.Mil(2)}, Distance.Meter(420), Distance.Meter(140), True),
    ]
    for sname, weapon, ammo, kw, rng, step, extra in setups:
        for wname, winds in wind_lists():
            if extra and wname not in ("none", "two_seg", "dup_until", "close_segments", "zero_until",
                                       "last_open_ended", "four_unsorted"):
                continue
            shot = Shot(weapon=weapon, ammo=ammo, atmo=Atmo.icao(), winds=winds, **kw)
            try:
                rows = calc.fire(shot, trajectory_range=rng, trajectory_step=step, extra_data=extra).trajectory
                tag = "ok"
            except RangeError as e:
                rows = e.incomplete_trajectory
                tag = "RangeError:" + str(e.reason)
            if extra:
                h = hashlib.sha256("\n".join(row_repr(r) for r in rows).encode()).hexdigest()
                emit(sname, wname, tag, len(rows), "rows sha256", h)
                emit("   last", row_repr(rows[-1]))
            else:
                emit(sname, wname, tag, len(rows))
                for r in rows:
                    emit("   ", row_repr(r))

    # time_step recording with winds and a steep shot that ends in a RangeError
    shot = Shot(weapon=Weapon(2, 10), ammo=Ammo(dm7, Velocity.FPS(1500)), relative_angle=Angular.Degree(60),
                winds=[W(10, 90, 150), W(10, 270, 150), W(4, 0, 400)])
    try:
        rows = calc.fire(shot, trajectory_range=Distance.Meter(20000), trajectory_step=Distance.Meter(500),
                         time_step=0.5).trajectory
        tag = "ok"
    except RangeError as e:
        rows, tag = e.incomplete_trajectory, "RangeError:" + str(e.reason)
    emit("steep", tag, len(rows))
    for r in rows[:6] + rows[-3:]:
        emit("   ", row_repr(r))

    # zeroing under wind (zero_angle integrates with the same wind handling), then a shot with that zero
    for wname, winds in (("two_seg", [W(4, 270, 50), W(9, 180, 80)]), ("dups", [W(20, 0, 30), W(20, 180, 30), W(5, 90, 60)])):
        weapon = Weapon(Distance.Inch(2), Distance.Inch(10))
        shot = Shot(weapon=weapon, ammo=Ammo(dm7, Velocity.MPS(790)), look_angle=Angular.Degree(2), winds=winds)
        zero = calc.set_weapon_zero(shot, Distance.Meter(100))
        emit("zero", wname, repr(zero.raw_value), repr(shot.barrel_elevation.raw_value))
        for r in calc.fire(shot, Distance.Meter(200), Distance.Meter(50)).trajectory:
            emit("   ", row_repr(r))

    # number of integration steps, taken from the library's own debug log
    import logging
    from py_ballisticcalc.logger import logger, set_debug

    class Grab(logging.Handler):
        def __init__(self):
            super().__init__(logging.DEBUG)
            self.seen = []

        def emit(self, record):
            msg = record.getMessage()
            if msg.startswith("euler py it"):
                self.seen.append(msg)

    grab = Grab()
    logger.addHandler(grab)
    set_debug(True)
    try:
        for wname, winds in wind_lists():
            shot = Shot(weapon=Weapon(4, 12), ammo=Ammo(dm7, Velocity.FPS(2600)), winds=winds)
            del grab.seen[:]
            rows = calc.fire(shot, trajectory_range=Distance.Meter(333), trajectory_step=Distance.Meter(111)).trajectory
            emit("steps", wname, grab.seen, row_repr(rows[-1]))
        for rng in (0, -5, 0.001):
            del grab.seen[:]
            shot = Shot(weapon=Weapon(4, 12), ammo=Ammo(dm7, Velocity.FPS(2600)), winds=[W(5, 90, 0), W(5, 270, 0)])
            try:  # a negative range never enters the integration loop at all
                rows = calc.fire(shot, trajectory_range=Distance.Foot(rng), trajectory_step=Distance.Foot(1)).trajectory
                emit("steps_short", rng, grab.seen, len(rows), row_repr(rows[-1]))
            except ZeroDivisionError as e:
                emit("steps_short", rng, grab.seen, type(e).__name__, e)
    finally:
        set_debug(False)
        logger.removeHandler(grab)

    # setter, repeated reads, ordering and identity of Shot.winds
    winds = [W(0, 90, 100), W(1, 60, 300), W(2, 30, 200), W(2, 30, 50), W(3, 10, 200), W(4, 20)]
    shot = Shot(None, None, 0, 0, 0, None, winds)
    for _ in range(2):
        got = shot.winds
        emit("order", type(got).__name__, [winds.index(w) for w in got], winds == shot._winds, shot._winds is winds)
    shot.winds = tuple(reversed(winds))
    emit("order_rev_tuple", type(shot.winds).__name__, [winds.index(w) for w in shot.winds])
    shot.winds = None
    emit("order_none", len(shot.winds), repr(shot.winds[0].velocity.raw_value),
         repr(shot.winds[0].until_distance.raw_value), repr(shot.winds[0].MAX_DISTANCE_FEET))
    shot.winds = []
    emit("order_empty", len(shot.winds), shot.winds[0] is shot.winds[0], shot._winds[0] is shot.winds[0])
    try:
        shot._winds = 5
        shot.winds
    except Exception as e:  # pylint: disable=broad-except
        emit("order_bad", type(e).__name__, e)
    try:
        shot._winds = [W(1, 2, 3), object()]
        shot.winds
    except Exception as e:  # pylint: disable=broad-except
        emit("order_bad_item", type(e).__name__, e)

    # Wind.vector
    for mps in (0, 1, 3.3, 17.25):
        for deg in (0, 1e-9, 30, 45, 89.999, 90, 135, 180, 225, 270, 359, 360, -90, 450, 720.5):
            v = W(mps, deg).vector
            emit("vector", mps, deg, type(v).__name__, repr(v.x), repr(v.y), type(v.y).__name__, repr(v.z))
    v = Wind().vector
    emit("vector_default", repr(tuple(v)))
    v = Wind(Unit.KMH(20), Unit.OClock(2), Unit.Yard(50)).vector
    emit("vector_units", repr(tuple(v)))

    # direct walk of _WindSock through its public members
    def walk(name, winds, xs):
        ws = _WindSock(winds)
        emit("sock", name, "init", ws.current, repr(ws.next_range), repr(tuple(ws.current_vector())),
             len(ws.winds), type(ws.winds).__name__)
        for x in xs:
            v = ws.vector_for_range(x)
            emit("sock", name, repr(x), ws.current, repr(ws.next_range), repr(tuple(v)),
                 v is ws.current_vector())
        ws.update_cache()
        ws.update_cache()
        emit("sock", name, "recache", ws.current, repr(ws.next_range), repr(tuple(ws.current_vector())))

    xs = [0.0, 10.0, 163.0, 164.1, 164.2, 400.0, 700.0, 656.0, 657.0, 984.3, 1e7, 1e8, 1e9, float("nan"),
          float("inf"), 0.0]
    walk("none", None, xs)
    walk("empty", (), xs)
    walk("sorted3", Shot(None, None, winds=[W(1, 60, 300), W(2, 30, 200), W(2, 100, 50)]).winds, xs)
    walk("dups", Shot(None, None, winds=[W(1, 60, 50), W(2, 30, 50), W(3, 100, 50), W(4, 5, 50.5)]).winds, xs)
    walk("unsorted_direct", (W(1, 60, 300), W(2, 30, 50), W(3, 10, 200)), xs)
    walk("open", Shot(None, None, winds=[W(1, 60)]).winds, xs)
    walk("neg", (W(1, 60, -5), W(2, 61, 0), W(3, 62, 1)), [-10.0, -5.0, -1.0, 0.0, 0.0, 0.5, 1.0, 2.0])
    walk("custom_max", (Wind(Velocity.MPS(5), Angular.Degree(90), max_distance_feet=1500.0),), [1499.0, 1500.0, 1501.0, 1e8])
    walk("list_arg", [W(1, 60, 100), W(2, 30, 200)], [0.0, 400.0, 400.0, 800.0, 800.0])
    ws = _WindSock((W(1, 60, 100), W(2, 30, 200)))
    ws.current = 1
    ws.update_cache()
    emit("sock set_current", ws.current, repr(ws.next_range), repr(tuple(ws.current_vector())))
    ws.current = 7
    ws.update_cache()
    emit("sock set_current", ws.current, repr(ws.next_range), repr(tuple(ws.current_vector())))
    ws.current = 0
    emit("sock stale", ws.current, repr(ws.next_range), repr(tuple(ws.vector_for_range(5.0))))
    emit("sock stale", ws.current, repr(ws.next_range), repr(tuple(ws.vector_for_range(2e8))))
    emit("sock stale", ws.current, repr(ws.next_range), repr(tuple(ws.vector_for_range(2e8))))
    emit("sock stale", ws.current, repr(ws.next_range), repr(tuple(ws.vector_for_range(2e8))))

    emit("TOTAL sha256", hashlib.sha256("\n".join(OUT).encode()).hexdigest())


if __name__ == "__main__":
    main()
