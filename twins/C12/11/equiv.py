"""Digest of trajectories for related wind lists (C12) - must print the same text before/after the patch.

Run:  cd /tmp/wt/C12 && PYTHONPATH=/tmp/wt/C12 /venv/bin/python /tmp/twins4/C12/2/equiv.py
"""
import hashlib
import logging
import warnings

from py_ballisticcalc import (Calculator, DragModel, Ammo, Weapon, Shot, Wind, Atmo, TableG7, TableG1,
                              RangeError, InterfaceConfigDict)
from py_ballisticcalc.unit import Velocity, Angular, Distance, Temperature, Pressure
from py_ballisticcalc.trajectory_calc import _WindSock, _TrajectoryDataFilter
from py_ballisticcalc.trajectory_data import TrajFlag
from py_ballisticcalc.vector import Vector
from py_ballisticcalc.trajectory_calc._trajectory_calc import TrajectoryCalc as PyTrajectoryCalc
from py_ballisticcalc import trajectory_calc as tc_pkg

assert tc_pkg.TrajectoryCalc is PyTrajectoryCalc, "pure-python backend expected"

warnings.simplefilter("ignore")
logging.disable(logging.CRITICAL)

FIELDS = ('distance', 'velocity', 'height', 'target_drop', 'drop_adj', 'windage', 'windage_adj',
          'look_distance', 'angle', 'energy', 'ogw')


def row_repr(r):
    parts = [repr(r.time), repr(r.mach), repr(r.density_factor), repr(r.drag), repr(int(r.flag))]
    for f in FIELDS:
        parts.append(repr(getattr(r, f).raw_value))
    return '|'.join(parts)


def digest(rows):
    text = '\n'.join(row_repr(r) for r in rows)
    return hashlib.sha256(text.encode()).hexdigest()[:20], len(rows)


def W(mph, deg, until_yd=None):
    if until_yd is None:
        return Wind(Velocity.MPH(mph), Angular.Degree(deg))
    return Wind(Velocity.MPH(mph), Angular.Degree(deg), Distance.Yard(until_yd))


def make_shot(winds, look=0.0, cant=0.0, rel=0.0, atmo=None, twist=12, table=TableG7, bc=0.22, mv=2600):
    dm = DragModel(bc, table, 168, 0.308, 1.22)
    ammo = Ammo(dm, Velocity.FPS(mv))
    weapon = Weapon(Distance.Inch(2), twist)
    return Shot(weapon=weapon, ammo=ammo, look_angle=Angular.Degree(look), relative_angle=Angular.Mil(rel),
                cant_angle=Angular.Degree(cant), atmo=atmo if atmo is not None else Atmo.icao(), winds=winds)


def fire(label, shot, rng=1000, step=100, calc=None, **kw):
    calc = calc or Calculator()
    try:
        hit = calc.fire(shot, Distance.Yard(rng), Distance.Yard(step) if step else 0, **kw)
        rows = hit.trajectory
        tag = 'ok'
    except RangeError as e:
        rows = e.incomplete_trajectory
        tag = 'RangeError:' + str(e.reason)
    except Exception as e:  # pylint: disable=broad-except
        print(f"{label:34s} raised {type(e).__name__}: {e}")
        return
    d, n = digest(rows)
    last = rows[-1]
    print(f"{label:34s} {tag:28s} n={n:4d} {d} last: x={last.distance.raw_value!r} "
          f"h={last.height.raw_value!r} w={last.windage.raw_value!r} t={last.time!r}")


WIND_LISTS = {
    'none': None,
    'empty': [],
    'zero_speed': [W(0, 90)],
    'zero_speed_dir200': [W(0, 200, 300)],
    'left': [W(10, 90)],
    'right': [W(10, 270)],
    'tail': [W(10, 0)],
    'head': [W(10, 180)],
    'oblique': [W(7.5, 37)],
    'two_seg': [W(10, 90, 300), W(5, 270, 700)],
    'two_seg_reversed': [W(5, 270, 700), W(10, 90, 300)],
    'three_unordered': [W(4, 200, 900), W(10, 90, 250), W(6, 300, 600)],
    'dup_until': [W(10, 90, 400), W(20, 270, 400), W(3, 45, 800)],
    'dup_until_swapped': [W(20, 270, 400), W(10, 90, 400), W(3, 45, 800)],
    'close_boundaries': [W(10, 90, 200), W(30, 270, 200.05), W(8, 120, 200.1), W(2, 10, 650)],
    'negative_until': [W(50, 90, -5), W(5, 270, 500)],
    'zero_until': [W(50, 90, 0), W(5, 270, 500)],
    'ends_before_range': [W(12, 90, 150)],
    'beyond_range': [W(10, 90, 500), W(40, 270, 5000)],
    'only_beyond_differs_a': [W(10, 90, 500), W(40, 270, 800)],
    'only_beyond_differs_b': [W(10, 90, 500), W(1, 10, 650), W(3, 100, 800)],
    'default_then_seg': [W(10, 90), W(5, 270, 300)],
    'many': [W(1 + i, (37 * i) % 360, 60 * (i + 1)) for i in range(15)],
}


def main():
    print("== plain shots, every wind list")
    for name, winds in WIND_LISTS.items():
        fire(name, make_shot(winds))

    print("== extra_data / time_step / small steps")
    for name in ('none', 'two_seg', 'dup_until', 'close_boundaries', 'negative_until', 'many'):
        fire(name + '/extra', make_shot(WIND_LISTS[name]), rng=600, step=50, extra_data=True)
        fire(name + '/tstep', make_shot(WIND_LISTS[name]), rng=600, step=200, time_step=0.05)
        fire(name + '/fine', make_shot(WIND_LISTS[name]), rng=300, step=0.1)
        fire(name + '/defstep', make_shot(WIND_LISTS[name]), rng=450, step=0)

    print("== look angle, cant, twist, other table")
    for name in ('left', 'head', 'three_unordered', 'dup_until_swapped'):
        fire(name + '/look12', make_shot(WIND_LISTS[name], look=12.0, rel=3.0))
        fire(name + '/look-8cant20', make_shot(WIND_LISTS[name], look=-8.0, cant=20.0, rel=1.0))
        fire(name + '/twist-9G1', make_shot(WIND_LISTS[name], twist=-9, table=TableG1, bc=0.45, mv=2900))
        fire(name + '/twist0', make_shot(WIND_LISTS[name], twist=0))

    print("== atmosphere away from the cached altitude band, steep shot")
    atmo = Atmo(altitude=Distance.Foot(5000), pressure=Pressure.InHg(24.9), temperature=Temperature.Fahrenheit(41),
                humidity=0.3)
    for name in ('none', 'two_seg', 'many'):
        fire(name + '/steep', make_shot(WIND_LISTS[name], look=35.0, rel=10.0, atmo=atmo), rng=1500, step=150)
        fire(name + '/down', make_shot(WIND_LISTS[name], look=-30.0, atmo=atmo), rng=1200, step=100)

    print("== incomplete shots (RangeError) with wind")
    cfg = InterfaceConfigDict(cMinimumVelocity=1500.0)
    fire('two_seg/minvel', make_shot(WIND_LISTS['two_seg']), calc=Calculator(_config=cfg))
    cfg = InterfaceConfigDict(cMaximumDrop=Distance.Foot(-3.0))
    fire('three_unordered/maxdrop', make_shot(WIND_LISTS['three_unordered']), calc=Calculator(_config=cfg))
    cfg = InterfaceConfigDict(cMinimumAltitude=Distance.Foot(-2.0))
    fire('dup_until/minalt', make_shot(WIND_LISTS['dup_until']), calc=Calculator(_config=cfg))
    fire('left/negative_range', make_shot(WIND_LISTS['left']), rng=-10, step=5)
    fire('left/zero_range', make_shot(WIND_LISTS['left']), rng=0, step=5)

    print("== zeroing with wind, then firing; the same Calculator reused (call history)")
    calc = Calculator()
    for name in ('none', 'head', 'two_seg_reversed', 'close_boundaries'):
        shot = make_shot(WIND_LISTS[name])
        zero = calc.set_weapon_zero(shot, Distance.Yard(200))
        print(f"{name:34s} zero_elevation={zero.raw_value!r}")
        fire(name + '/zeroed', shot, calc=calc)
        shot.winds = [W(9, 135, 450), W(9, 225, 100)]
        fire(name + '/zeroed/rewinded', shot, calc=calc)
        shot.winds = None
        fire(name + '/zeroed/unwinded', shot, calc=calc)

    print("== step size configuration")
    cfg = InterfaceConfigDict(max_calc_step_size_feet=2.5)
    for name in ('dup_until', 'close_boundaries', 'negative_until'):
        fire(name + '/bigstep', make_shot(WIND_LISTS[name]), calc=Calculator(_config=cfg))

    print("== the wind sock on its own")
    for name in ('none', 'empty', 'two_seg', 'dup_until', 'negative_until', 'default_then_seg'):
        shot = make_shot(WIND_LISTS[name])
        sock = _WindSock(shot.winds)
        out = [(sock.current, repr(sock.next_range), tuple(map(repr, sock.current_vector())))]
        for x in (0.0, 10.0, 899.9, 900.0, 900.0, 1200.0, 1200.0, 2100.0, 2400.0, 2400.0, 1e9, 1e9):
            v = sock.vector_for_range(x)
            out.append((x, sock.current, repr(sock.next_range), tuple(map(repr, v))))
        print(name, hashlib.sha256(repr(out).encode()).hexdigest()[:20], out[-1])
    sock = _WindSock(None)
    print('sock(None)', sock.current, repr(sock.next_range), sock.current_vector(), sock.vector_for_range(5.0))

    print("== the record filter on its own")
    filter_cases = {
        'range_only': dict(filter_flags=TrajFlag.RANGE, range_step=10.0, time_step=0.0),
        'all_flags': dict(filter_flags=TrajFlag.ALL, range_step=7.5, time_step=0.0),
        'time_only': dict(filter_flags=TrajFlag.RANGE, range_step=0.0, time_step=0.004),
        'range_and_time': dict(filter_flags=TrajFlag.ALL, range_step=25.0, time_step=0.003),
        'zero_only': dict(filter_flags=TrajFlag.ZERO, range_step=10.0, time_step=0.0),
        'negative_step': dict(filter_flags=TrajFlag.RANGE, range_step=-1.0, time_step=0.002),
    }
    # x advances unevenly: tiny steps, a jump over several record distances, a stall and a step back
    xs = [0.0, 0.4, 0.9, 3.0, 9.99, 10.0, 10.01, 19.0, 47.3, 47.3, 47.1, 52.0, 60.0, 60.0, 75.000001, 140.0, 141.0]
    for name, kw in filter_cases.items():
        for height0, elevation, look in ((-0.2, 0.004, 0.0), (0.0, 0.0, 0.01), (-0.2, -0.01, 0.02)):
            p0 = Vector(0.0, height0, 0.0)
            v0 = Vector(2600.0, 2600.0 * elevation, 0.0)
            flt = _TrajectoryDataFilter(initial_position=p0, initial_velocity=v0, **kw)
            flt.setup_seen_zero(height0, elevation, look)
            out = []
            for i, x in enumerate(xs):
                t = i * 0.0011 + x / 2600.0
                pos = Vector(x, height0 + x * elevation - 0.00003 * x * x, 0.001 * x * (i % 3 - 1))
                vel = Vector(2600.0 - 14.0 * x, 2600.0 * elevation - 0.1 * x, 0.3 * i)
                mach = 1116.0 - 0.01 * x
                flt.clear_current_flag()
                data = flt.should_record(pos, vel, mach, t)
                out.append((None if data is None else (repr(data.time), tuple(map(repr, data.position)),
                                                       tuple(map(repr, data.velocity)), repr(data.mach)),
                            int(flt.current_flag), int(flt.seen_zero), repr(flt.next_record_distance),
                            repr(flt.time_of_last_record), repr(flt.previous_time), tuple(map(repr, flt.previous_position)),
                            tuple(map(repr, flt.previous_velocity)), repr(flt.previous_mach), repr(flt.previous_v_mach)))
            n_rec = sum(1 for o in out if o[0] is not None)
            print(f"{name:16s} h0={height0} el={elevation} look={look} records={n_rec:2d} "
                  f"{hashlib.sha256(repr(out).encode()).hexdigest()[:20]} next={out[-1][3]}")


if __name__ == '__main__':
    main()
