"""Equivalence digest for C12 twin 3 (`create_trajectory_row`: down-range distance and height read once, five raw-unit makers merged into one, conversion factors named).

Run as:  cd <checkout> && PYTHONPATH=<checkout> /venv/bin/python equiv.py
Prints a deterministic digest; must be byte-identical on the clean tree and with the patch applied.
"""
import hashlib
import warnings

warnings.simplefilter("ignore")

from py_ballisticcalc import (Calculator, Shot, Wind, Weapon, Ammo, Atmo, DragModel, TableG7, TableG1,
                              RangeError, ZeroFindingError)
from py_ballisticcalc.unit import Distance, Velocity, Angular, Temperature, Pressure, Weight
from py_ballisticcalc.trajectory_calc import _WindSock


def row_key(r):
    return (r.time, r.distance.raw_value, r.velocity.raw_value, r.mach, r.height.raw_value,
            r.target_drop.raw_value, r.drop_adj.raw_value, r.windage.raw_value, r.windage_adj.raw_value,
            r.look_distance.raw_value, r.angle.raw_value, r.density_factor, r.drag,
            r.energy.raw_value, r.ogw.raw_value, int(r.flag))


def digest(rows):
    text = "\n".join(repr(row_key(r)) for r in rows)
    return hashlib.sha256(text.encode()).hexdigest()[:20]


def show(label, rows):
    rows = list(rows)
    last = rows[-1]
    print(f"{label}: n={len(rows)} sha={digest(rows)} last=({last.distance.raw_value!r}, "
          f"{last.height.raw_value!r}, {last.windage.raw_value!r}, {last.time!r}, {int(last.flag)})")


def W(fps, deg, until_ft=None, **kw):
    return Wind(Velocity.FPS(fps), Angular.Degree(deg),
                None if until_ft is None else Distance.Foot(until_ft), **kw)


def make_shot(winds=None, twist=12, look=0.0, cant=0.0, rel=0.0, zero_el=0.0, alt_ft=0.0, table=TableG7, bc=0.22,
              mv=2600):
    dm = DragModel(bc, table, Weight.Grain(168), Distance.Inch(0.308), Distance.Inch(1.22))
    ammo = Ammo(dm, Velocity.FPS(mv))
    weapon = Weapon(Distance.Inch(4), Distance.Inch(twist), Angular.Radian(zero_el))
    atmo = Atmo(Distance.Foot(alt_ft), Pressure.InHg(29.92), Temperature.Fahrenheit(59), 0.0)
    return Shot(weapon=weapon, ammo=ammo, look_angle=Angular.Degree(look), relative_angle=Angular.Degree(rel),
                cant_angle=Angular.Degree(cant), atmo=atmo, winds=winds)


def fire(label, shot, range_ft, step_ft, config=None, extra=False, time_step=0.0):
    calc = Calculator(_config=config)
    try:
        hit = calc.fire(shot, Distance.Foot(range_ft), Distance.Foot(step_ft), extra_data=extra,
                        time_step=time_step)
        show(label, hit.trajectory)
    except RangeError as e:
        print(f"{label}: RangeError reason={e.reason!r} msg={str(e)!r} "
              f"last_distance={None if e.last_distance is None else e.last_distance.raw_value!r}")
        if e.incomplete_trajectory:
            show(label + " (incomplete)", e.incomplete_trajectory)
        else:
            print(label + " (incomplete): empty")


# ---- 1. no wind spelled in several ways -------------------------------------------------------------
fire("none", make_shot(None), 1500, 150)
fire("empty", make_shot([]), 1500, 150)
s = make_shot([W(10, 90)])
s.winds = []
fire("setter-empty", s, 1500, 150)
s.winds = None
fire("setter-none", s, 1500, 150)
fire("zero-speed", make_shot([W(0, 90)]), 1500, 150)
fire("zero-speed-seg", make_shot([W(0, 90, 600), W(0, 270, 900)]), 1500, 150)
fire("default-Wind()", make_shot([Wind()]), 1500, 150)

# ---- 2. single winds from the four quarters and oblique ---------------------------------------------
for deg in (0, 45, 90, 135, 180, 225, 270, 315, 360, -90, 450):
    fire(f"single {deg}", make_shot([W(15, deg)]), 1500, 150)
    fire(f"single {deg} notwist", make_shot([W(15, deg)], twist=0), 1500, 300)
fire("single lefttwist", make_shot([W(15, 90)], twist=-9), 1500, 300)
fire("negative speed", make_shot([W(-15, 90)]), 1500, 300)
fire("strong", make_shot([W(150, 200)]), 1500, 300)

# ---- 3. segments: order given, duplicates, zero / negative until, boundaries inside one step ----------
segs = [W(10, 90, 300), W(20, 270, 600), W(5, 180, 900), W(30, 30, 1200)]
fire("seg sorted", make_shot(list(segs)), 1500, 100)
fire("seg reversed", make_shot(list(reversed(segs))), 1500, 100)
fire("seg shuffled", make_shot([segs[2], segs[0], segs[3], segs[1]]), 1500, 100)
fire("seg short of range", make_shot([W(10, 90, 300)]), 1500, 100)
fire("seg dup until", make_shot([W(10, 90, 300), W(20, 270, 300), W(40, 270, 300), W(5, 0, 700)]), 1500, 100)
fire("seg dup until rev", make_shot([W(5, 0, 700), W(40, 270, 300), W(20, 270, 300), W(10, 90, 300)]), 1500, 100)
fire("seg until 0", make_shot([W(50, 90, 0), W(10, 270, 500)]), 1500, 100)
fire("seg until neg", make_shot([W(50, 90, -10), W(60, 90, -5), W(10, 270, 500)]), 1500, 100)
fire("seg tiny", make_shot([W(50, 90, 100.0), W(80, 270, 100.01), W(90, 270, 100.02), W(70, 90, 100.03),
                            W(10, 0, 100.5)]), 600, 50)
fire("seg beyond range", make_shot([W(10, 90, 300), W(99, 270, 5000)]), 300, 30)
fire("seg exact step", make_shot([W(10, 90, 0.25), W(20, 270, 0.5), W(30, 90, 0.75)]), 30, 3)
# causality: rows up to 600 ft must agree between these two (compare by eye in the digest of the first 7 rows)
a = Calculator().fire(make_shot([W(10, 90, 600), W(20, 270, 900)]), Distance.Foot(1500), Distance.Foot(100))
b = Calculator().fire(make_shot([W(10, 90, 600), W(77, 10, 1100), W(3, 3, 1300)]), Distance.Foot(1500),
                      Distance.Foot(100))
print("causal prefix equal:", [row_key(r) for r in a.trajectory[:7]] == [row_key(r) for r in b.trajectory[:7]],
      digest(a.trajectory[:7]), digest(b.trajectory[:7]))
# mirror
m1 = Calculator().fire(make_shot([W(10, 70, 600), W(20, 250, 900)], twist=0), Distance.Foot(1500), Distance.Foot(100))
m2 = Calculator().fire(make_shot([W(10, -70, 600), W(20, -250, 900)], twist=0), Distance.Foot(1500),
                       Distance.Foot(100))
show("mirror +", m1.trajectory)
show("mirror -", m2.trajectory)

# ---- 4. custom max distance of a wind, class-wide max distance changed --------------------------------
fire("max_distance_feet", make_shot([W(10, 90, None, max_distance_feet=450.0)]), 1500, 150)
fire("max_distance_feet 2", make_shot([W(10, 90, None, max_distance_feet=450.0), W(25, 270, 800)]), 1500, 150)
_old = Wind.MAX_DISTANCE_FEET
try:
    Wind.MAX_DISTANCE_FEET = 500.0  # the still air behind the last segment now "ends" at 500 ft, too
    fire("class max 500", make_shot([W(10, 90, 300)]), 1500, 150)
    fire("class max 500 none", make_shot(None), 1500, 150)
finally:
    Wind.MAX_DISTANCE_FEET = _old

# ---- 5. recording variants ----------------------------------------------------------------------------
windy = [W(12, 100, 400), W(25, 290, 1000)]
fire("extra", make_shot(list(windy), zero_el=0.002), 1200, 200, extra=True)
fire("extra look", make_shot(list(windy), zero_el=0.002, look=3.0), 1200, 200, extra=True)
fire("time_step", make_shot(list(windy)), 1200, 400, time_step=0.05)
fire("small record step", make_shot(list(windy)), 6, 0.1)
fire("default step", make_shot(list(windy)), 1000, 0)
fire("range 0", make_shot(list(windy)), 0, 0)
fire("range tiny", make_shot(list(windy)), 0.1, 1)
fire("cant", make_shot(list(windy), cant=30, rel=0.2), 1200, 200)
fire("g1 table", make_shot(list(windy), table=TableG1, bc=0.45, mv=3000), 1200, 200)
fire("step 1ft", make_shot(list(windy)), 1200, 200, config={"max_calc_step_size_feet": 2.0})
fire("step .1ft", make_shot(list(windy)), 300, 50, config={"max_calc_step_size_feet": 0.2})
fire("high altitude", make_shot(list(windy), alt_ft=9000, rel=2.0), 3000, 500)

# ---- 6. the three ways a trajectory can end early -----------------------------------------------------
fire("min velocity", make_shot(list(windy)), 3000, 300, config={"cMinimumVelocity": 1800.0})
fire("min velocity extra", make_shot(list(windy)), 3000, 300, config={"cMinimumVelocity": 1800.0}, extra=True)
fire("max drop", make_shot(list(windy)), 3000, 300, config={"cMaximumDrop": -3.0})
fire("min altitude", make_shot(list(windy), alt_ft=1.0), 3000, 300, config={"cMinimumAltitude": -1.5})
fire("drop and altitude", make_shot(list(windy), alt_ft=1.0), 3000, 300,
     config={"cMinimumAltitude": 0.0, "cMaximumDrop": -1.0})
fire("velocity and drop", make_shot(list(windy)), 3000, 300,
     config={"cMinimumVelocity": 5000.0, "cMaximumDrop": 10.0})
fire("stop first step norows", make_shot(list(windy)), 3000, 0, config={"cMinimumVelocity": 5000.0})
fire("lob", make_shot(list(windy), rel=60.0, mv=800), 30000, 3000, time_step=1.0)

# ---- 7. zeroing in wind, then firing -------------------------------------------------------------------
for label, winds in (("zero calm", None), ("zero wind", [W(20, 180, 200), W(30, 60, 500)]),
                     ("zero wind rev", [W(30, 60, 500), W(20, 180, 200)])):
    shot = make_shot(winds, look=2.0)
    calc = Calculator()
    el = calc.set_weapon_zero(shot, Distance.Foot(900))
    print(label, "elevation", repr(el.raw_value))
    show(label + " fire", calc.fire(shot, Distance.Foot(1200), Distance.Foot(300), extra_data=True).trajectory)
try:
    Calculator(_config={"cMaxIterations": 1}).set_weapon_zero(make_shot([W(20, 180, 200)]), Distance.Foot(900))
except ZeroFindingError as e:
    print("zero error", repr(e.zero_finding_error), e.iterations_count, repr(e.last_barrel_elevation.raw_value))

# ---- 8. the wind sock on its own ------------------------------------------------------------------------
def sock_trace(label, winds, xs):
    sock = _WindSock(winds)
    out = [(sock.current, sock.next_range, tuple(sock.current_vector()))]
    for x in xs:
        v = sock.vector_for_range(x)
        out.append((x, sock.current, sock.next_range, tuple(v)))
    print(label, hashlib.sha256(repr(out).encode()).hexdigest()[:20], out[-1])


xs = [0.0, 0.25, 99.9, 100.0, 100.1, 100.2, 250.0, 300.0, 300.0, 1e7, 1e8, 1e8, 2e8]
sock_trace("sock none", None, xs)
sock_trace("sock empty", tuple(), xs)
sock_trace("sock segs", make_shot([W(20, 270, 300), W(10, 90, 100), W(5, 45, 100)]).winds, xs)
sock_trace("sock one", make_shot([W(20, 270)]).winds, xs)
print("sorted untils", [w.until_distance.raw_value for w in
                        make_shot([W(1, 0, 300), W(2, 0, 100), W(3, 0, 200), W(4, 0, 100)]).winds],
      [w.velocity.raw_value for w in make_shot([W(1, 0, 300), W(2, 0, 100), W(3, 0, 200), W(4, 0, 100)]).winds])

# ---- 9. (twin 3) the row maker on its own: units, types, edge values ---------------------------------------
import math
from py_ballisticcalc.trajectory_calc import create_trajectory_row
from py_ballisticcalc.vector import Vector
from py_ballisticcalc import TrajFlag


def full(r):
    """everything observable about a row: value, class, raw value, display units and text of every column"""
    out = []
    for name, v in zip(r._fields, r):
        if hasattr(v, "raw_value"):
            out.append((name, type(v).__name__, repr(v.raw_value), v.units.name, str(v), repr(v)))
        else:
            out.append((name, type(v).__name__, repr(v)))
    return out


def row(label, *args):
    try:
        r = create_trajectory_row(*args)
    except Exception as e:  # pylint: disable=broad-except
        print(f"row {label}: raises {type(e).__name__}: {e}")
        return
    text = repr(full(r))
    print(f"row {label}: {hashlib.sha256(text.encode()).hexdigest()[:20]}")
    if label in ("plain", "muzzle"):
        for item in full(r):
            print("   ", item)


inf, nan = float("inf"), float("nan")
row("plain", 0.5, Vector(900.0, -3.25, 0.75), Vector(2000.0, -20.0, 3.0), 2000.1, 1116.4, 0.02, 0.0, 1.0, 0.3, 168.0,
    TrajFlag.RANGE)
row("muzzle", 0.0, Vector(0.0, -0.333, 0.0), Vector(2600.0, 1.0, 0.0), 2600.0, 1116.4, 0, 0.05, 1.0, 0.0, 168.0,
    TrajFlag.RANGE)
row("mirror+", 0.5, Vector(900.0, -3.25, 0.75), Vector(2000.0, -20.0, 3.0), 2000.1, 1116.4, 0, 0.1, 1.0, 0.3, 168.0, 0)
row("mirror-", 0.5, Vector(900.0, -3.25, -0.75), Vector(2000.0, -20.0, -3.0), 2000.1, 1116.4, 0, 0.1, 1.0, 0.3, 168.0, 0)
row("look", 1.5, Vector(2400.0, 120.5, -7.0), Vector(1500.0, 10.0, -8.0), 1500.05, 1100.0, -0.4, 0.05, 0.93, 0.25, 55.0,
    TrajFlag.ZERO_DOWN | TrajFlag.RANGE)
row("behind", 0.1, Vector(-5.0, 1.0, 2.0), Vector(-50.0, 1.0, 2.0), 50.05, 1100.0, 0.0, -0.2, 1.1, 0.25, 55.0, 0)
row("neg zero x", 0.1, Vector(-0.0, 1.0, 2.0), Vector(50.0, 1.0, 2.0), 50.05, 1100.0, 0.0, 0.2, 1.1, 0.25, 55.0, 0)
row("int position", 1, Vector(3, 4, 5), Vector(1, 2, 3), 7, 2, 1, 0, 1, 0, 10, 8)
row("nan x", 0.1, Vector(nan, 1.0, 2.0), Vector(50.0, 1.0, 2.0), 50.05, 1100.0, 0.0, 0.2, 1.1, 0.25, 55.0, 0)
row("inf z", 0.1, Vector(10.0, 1.0, inf), Vector(50.0, 1.0, 2.0), 50.05, 1100.0, 0.0, 0.2, 1.1, 0.25, 55.0, 0)
row("mach 0", 0.1, Vector(10.0, 1.0, 1.0), Vector(50.0, 1.0, 2.0), 50.05, 0.0, 0.0, 0.2, 1.1, 0.25, 55.0, 0)
row("look inf", 0.1, Vector(10.0, 1.0, 1.0), Vector(50.0, 1.0, 2.0), 50.05, 1100.0, 0.0, inf, 1.1, 0.25, 55.0, 0)
row("mach 0 and look inf", 0.1, Vector(10.0, 1.0, 1.0), Vector(50.0, 1.0, 2.0), 50.05, 0.0, 0.0, inf, 1.1, 0.25, 55.0, 0)
row("mach 0 at x 0", 0.1, Vector(0.0, 1.0, 1.0), Vector(50.0, 1.0, 2.0), 50.05, 0, 0.0, 0.1, 1.1, 0.25, 55.0, 0)
row("huge speed", 0.1, Vector(10.0, 1.0, 1.0), Vector(1e200, 1.0, 2.0), 1e200, 1100.0, 0.0, 0.1, 1.1, 0.25, 55.0, 0)
row("two components", 0.1, (10.0, 1.0), Vector(50.0, 1.0, 2.0), 50.0, 1100.0, 0.0, 0.1, 1.1, 0.25, 55.0, 0)

# full text of the rows of one windy shot (display units and rounding included)
hit = Calculator().fire(make_shot([W(12, 100, 400), W(25, 290, 1000)], look=1.0, zero_el=0.003),
                        Distance.Foot(1200), Distance.Foot(300), extra_data=True)
for r in hit.trajectory:
    print(hashlib.sha256(repr(full(r)).encode()).hexdigest()[:20], r.formatted())
