"""Equivalence digest for C05 / refactoring 1 (row generator behind _integrate).

Prints every field of every returned row (fire(), RangeError.incomplete_trajectory,
zero finding) for a set of varied shots.  Must print exactly the same text on the
clean worktree and with the patch applied.
"""
import hashlib
import math
import warnings

warnings.simplefilter("ignore")

from py_ballisticcalc import (  # noqa: E402
    DragModel, Ammo, Weapon, Calculator, Shot, Wind, Atmo, TableG7, TableG1, RangeError,
)
from py_ballisticcalc.conditions import Vacuum  # noqa: E402
from py_ballisticcalc.exceptions import ZeroFindingError  # noqa: E402
from py_ballisticcalc.unit import (  # noqa: E402
    Distance, Velocity, Angular, Temperature, Pressure, Weight, Unit,
)
from py_ballisticcalc.trajectory_calc import TrajectoryCalc  # noqa: E402
from py_ballisticcalc.trajectory_calc._trajectory_calc import Config  # noqa: E402
from py_ballisticcalc.trajectory_data import TrajFlag  # noqa: E402

LINES = []


def emit(*parts):
    LINES.append(" ".join(str(p) for p in parts))


def cell(v):
    if hasattr(v, "raw_value"):
        return f"{type(v).__name__}({v.raw_value!r},{int(v.units)})"
    return f"{type(v).__name__}:{v!r}"


def dump_rows(tag, rows):
    emit(tag, "rows", len(rows))
    for i, row in enumerate(rows):
        emit(tag, i, "|".join(cell(v) for v in row))


def run(tag, fn):
    try:
        res = fn()
    except RangeError as err:
        emit(tag, "RangeError", err.reason, repr(str(err)), cell(err.last_distance))
        dump_rows(tag + "/incomplete", err.incomplete_trajectory)
    except ZeroFindingError as err:
        emit(tag, "ZeroFindingError", repr(err.zero_finding_error), err.iterations_count,
             cell(err.last_barrel_elevation))
    except Exception as err:  # pylint: disable=broad-except
        emit(tag, "EXC", type(err).__name__, repr(str(err)))
    else:
        if isinstance(res, list):
            dump_rows(tag, res)
        elif hasattr(res, "trajectory"):
            dump_rows(tag, res.trajectory)
        else:
            emit(tag, cell(res))


def make_shot(twist=12, weight=168, diameter=0.308, length=1.22, mv=2600, look=0.0, cant=0.0,
              atmo=None, winds=None, bc=0.22, table=TableG7, zero_elev=0.0, sight_height=2.0, rel=0.0):
    dm = DragModel(bc, table, weight, diameter, length)
    return Shot(weapon=Weapon(Distance.Inch(sight_height), Distance.Inch(twist), Angular.Radian(zero_elev)),
                ammo=Ammo(dm, Velocity.FPS(mv)),
                look_angle=Angular.Degree(look), cant_angle=Angular.Degree(cant),
                relative_angle=Angular.Mil(rel), atmo=atmo, winds=winds)


calc = Calculator()

# 1. baseline, right twist, zeroed at 100 yd
s = make_shot()
run("zero/base", lambda: calc.set_weapon_zero(s, Distance.Yard(100)))
run("fire/base", lambda: calc.fire(s, Distance.Yard(1000), Distance.Yard(100)))
run("fire/base/extra", lambda: calc.fire(s, Distance.Yard(400), Distance.Yard(100), extra_data=True))
run("fire/base/defstep", lambda: calc.fire(s, Distance.Yard(300)))

# 2. left twist, look angle up, wind, humid high-altitude atmosphere
s2 = make_shot(twist=-9, look=12.5, cant=3.0,
               atmo=Atmo(Distance.Foot(5200), Pressure.InHg(24.9), Temperature.Fahrenheit(41), 65),
               winds=[Wind(Velocity.MPH(7), Angular.OClock(3), Distance.Yard(300)),
                      Wind(Velocity.MPH(11), Angular.OClock(8), Distance.Yard(700))])
run("zero/left", lambda: calc.set_weapon_zero(s2, Distance.Yard(200)))
run("fire/left", lambda: calc.fire(s2, Distance.Yard(900), Distance.Yard(150)))
run("fire/left/extra", lambda: calc.fire(s2, Distance.Yard(500), Distance.Yard(250), extra_data=True))

# 3. no twist / no dimensions -> no spin drift; look angle down
s3 = make_shot(twist=0, look=-7.0, mv=2900, bc=0.45, table=TableG1)
run("fire/notwist", lambda: calc.fire(s3, Distance.Meter(600), Distance.Meter(75)))
s4 = make_shot(weight=0, diameter=0, length=0, mv=800, bc=0.12, table=TableG1)
run("fire/nodims", lambda: calc.fire(s4, Distance.Yard(200), Distance.Yard(25)))

# 4. terminal rows: minimum velocity, maximum drop, minimum altitude
s5 = make_shot(mv=700, bc=0.05, table=TableG1, zero_elev=1.5)
run("range/minvel", lambda: calc.fire(s5, Distance.Yard(3000), Distance.Yard(200)))
run("range/minvel/extra", lambda: calc.fire(s5, Distance.Yard(3000), Distance.Yard(500), extra_data=True))
calc_drop = Calculator(_config={"cMaximumDrop": -30.0})
run("range/maxdrop", lambda: calc_drop.fire(make_shot(mv=1100, look=-1.0), Distance.Yard(2000), Distance.Yard(100)))
calc_alt = Calculator(_config={"cMinimumAltitude": -12.0})
run("range/minalt", lambda: calc_alt.fire(make_shot(mv=1500, look=-20.0, zero_elev=-0.3), Distance.Yard(500),
                                           Distance.Yard(10)))
run("range/minalt/first-step", lambda: Calculator(_config={"cMinimumAltitude": 1e9}).fire(
    make_shot(), Distance.Yard(100), Distance.Yard(10)))

# 5. fewer than two recorded rows -> closing row appended; very short / zero / negative ranges
run("fire/short", lambda: calc.fire(s, Distance.Foot(1), Distance.Foot(10)))
run("fire/bigstep", lambda: calc.fire(s, Distance.Yard(50), Distance.Yard(500)))
run("fire/zero-range", lambda: calc.fire(s, Distance.Foot(0), Distance.Foot(1)))
run("fire/neg-range", lambda: calc.fire(s, Distance.Foot(-5), Distance.Foot(1)))

# 6. time-step recording with a steep shot; vacuum
s6 = make_shot(mv=900, zero_elev=1.2, bc=0.3)
run("fire/timestep", lambda: calc.fire(s6, Distance.Yard(400), Distance.Yard(100), time_step=0.5))
s7 = make_shot(atmo=Vacuum(Distance.Foot(1000), Temperature.Celsius(10)), zero_elev=0.01)
run("fire/vacuum", lambda: calc.fire(s7, Distance.Yard(600), Distance.Yard(100), extra_data=True))

# 7. the backend directly: filter NONE (what zero_angle uses), repeated calls on one instance
cfg = Config(0.5, 0.2, 0.000005, 50.0, -15000, 20, -32.17405, -1410.748)
tc = TrajectoryCalc(cfg)
tc._init_trajectory(s2)
run("integrate/none", lambda: tc._integrate(s2, 900.0, 900.0, TrajFlag.NONE))
run("integrate/range", lambda: tc._integrate(s2, 900.0, 300.0, TrajFlag.RANGE))
run("integrate/all", lambda: tc._integrate(s2, 600.0, 300.0, TrajFlag.ALL, 0.1))
run("integrate/again", lambda: tc._integrate(s2, 900.0, 300.0, TrajFlag.RANGE))
run("trajectory", lambda: tc.trajectory(s3, Distance.Yard(300), Distance.Yard(100), True, 0.0))
run("zero_angle", lambda: tc.zero_angle(s3, Distance.Yard(250)))
run("zero_angle/unreachable", lambda: Calculator().set_weapon_zero(make_shot(mv=300, bc=0.05, table=TableG1),
                                                                   Distance.Yard(2500)))

run("zero_angle/maxiter", lambda: Calculator(_config={"cMaxIterations": 1}).set_weapon_zero(
    make_shot(look=5.0), Distance.Yard(600)))

text = "\n".join(LINES)
print(text)
print("LINES", len(LINES))
print("SHA256", hashlib.sha256(text.encode()).hexdigest())
