"""Equivalence digest for C05: prints every field of every returned row, bit-exact (float.hex)."""
import math
import warnings

warnings.simplefilter("ignore")  # the "pure python mode" notice at import time

# pylint: disable=wrong-import-position
from py_ballisticcalc import (Calculator, Shot, Weapon, Ammo, Atmo, Vacuum, Wind, DragModel, TableG7, TableG1,
                              Distance, Angular, Velocity, Weight, Temperature, Pressure, RangeError, Unit)
from py_ballisticcalc.trajectory_calc import (create_trajectory_row, get_correction, calculate_energy,
                                              calculate_ogw)
from py_ballisticcalc.vector import Vector


def h(v):
    """bit-exact text of a number (or of the raw value of a unit object)"""
    if hasattr(v, 'raw_value'):
        return f"{type(v).__name__}[{v.units.name}]:{h(v.raw_value)}"
    if isinstance(v, float):
        return v.hex() if math.isfinite(v) else repr(v)
    return repr(v)


def dump_row(row):
    return " ".join(f"{name}={h(value)}" for name, value in zip(row._fields, row))


def dump(label, rows):
    print(f"== {label}: {len(rows)} rows")
    for row in rows:
        print(dump_row(row))


def fire(label, calc, shot, rng, step=0, extra=False, time_step=0.0):
    try:
        hit = calc.fire(shot, rng, step, extra_data=extra, time_step=time_step)
        dump(label, hit.trajectory)
    except RangeError as err:
        print(f"-- {label}: RangeError {err.reason!r} last={h(err.last_distance)}")
        dump(label + " (incomplete)", err.incomplete_trajectory)


def dm_full(table=TableG7, bc=0.223):
    return DragModel(bc, table, Weight.Grain(168), Distance.Inch(0.308), Distance.Inch(1.282))


def main():
    calc = Calculator()

    # 1. right-hand twist, look angle 0, crosswind, ICAO
    weapon = Weapon(Distance.Inch(2), Distance.Inch(11.24))
    ammo = Ammo(dm_full(), Velocity.FPS(2750))
    shot = Shot(weapon, ammo, winds=[Wind(Velocity.MPH(5), Angular.OClock(3))])
    print("zero", h(calc.set_weapon_zero(shot, Distance.Yard(100))))
    fire("right twist, level", calc, shot, Distance.Yard(1000), Distance.Yard(100))
    fire("right twist, level, extra", calc, shot, Distance.Yard(1000), Distance.Yard(250), extra=True)

    # 2. left-hand twist, look angle up, hot thin air at altitude, cant
    weapon = Weapon(Distance.Centimeter(9), Distance.Inch(-9))
    atmo = Atmo(Distance.Meter(1500), Pressure.hPa(850), Temperature.Celsius(31), 40)
    shot = Shot(weapon, ammo, look_angle=Angular.Degree(12), cant_angle=Angular.Degree(7), atmo=atmo,
                winds=[Wind(Velocity.MPS(3), Angular.Degree(70), Distance.Meter(300)),
                       Wind(Velocity.MPS(6), Angular.Degree(250), Distance.Meter(700))])
    print("zero", h(calc.set_weapon_zero(shot, Distance.Meter(200))))
    fire("left twist, uphill", calc, shot, Distance.Meter(900), Distance.Meter(75), extra=True)
    fire("left twist, uphill, time step", calc, shot, Distance.Meter(400), Distance.Meter(200), time_step=0.05)

    # 3. no twist / no bullet dimensions: spin drift absent; look angle down
    weapon = Weapon(Distance.Inch(1.5))
    ammo_bare = Ammo(DragModel(0.45, TableG1), Velocity.MPS(800))
    shot = Shot(weapon, ammo_bare, look_angle=Angular.Degree(-8), relative_angle=Angular.Mil(3))
    fire("no twist, downhill", calc, shot, Distance.Meter(600), Distance.Meter(100), extra=True)
    weapon = Weapon(Distance.Inch(1.5), Distance.Inch(8))
    shot = Shot(weapon, ammo_bare, look_angle=Angular.Degree(-8))
    fire("twist but no dimensions", calc, shot, Distance.Meter(300), Distance.Meter(100))
    weapon = Weapon(Distance.Inch(1.5), 0)
    shot = Shot(weapon, Ammo(dm_full(TableG1, 0.4), Velocity.MPS(800)), look_angle=Angular.Degree(3))
    fire("dimensions but no twist", calc, shot, Distance.Meter(300), Distance.Meter(100))

    # 4. vacuum (pressure 0 -> no stability factor), powder sensitivity
    weapon = Weapon(Distance.Inch(2), Distance.Inch(10))
    shot = Shot(weapon, Ammo(dm_full(), Velocity.FPS(2600)), relative_angle=Angular.Degree(1), atmo=Vacuum())
    fire("vacuum", calc, shot, Distance.Yard(500), Distance.Yard(125))
    ammo_ps = Ammo(dm_full(), Velocity.MPS(820), Temperature.Celsius(15), use_powder_sensitivity=True)
    ammo_ps.calc_powder_sens(Velocity.MPS(790), Temperature.Celsius(-10))
    atmo = Atmo(Distance.Foot(300), Pressure.InHg(29.1), Temperature.Fahrenheit(20), 80, Temperature.Celsius(-5))
    shot = Shot(weapon, ammo_ps, look_angle=Angular.Mil(20), atmo=atmo)
    print("zero", h(calc.set_weapon_zero(shot, Distance.Meter(100))))
    fire("powder sensitivity, cold", calc, shot, Distance.Meter(800), Distance.Meter(160), extra=True)

    # 5. terminal rows: steep shots that end in a RangeError; Mach at altitude far from the muzzle
    weapon = Weapon(Distance.Inch(2), Distance.Inch(-12))
    shot = Shot(weapon, Ammo(dm_full(), Velocity.FPS(2750)), relative_angle=Angular.Degree(55),
                look_angle=Angular.Degree(5))
    fire("lofted, falls below", calc, shot, Distance.Meter(6000), Distance.Meter(500), extra=True)
    shot = Shot(weapon, Ammo(dm_full(), Velocity.FPS(2750)), relative_angle=Angular.Degree(90))
    fire("vertical", calc, shot, Distance.Meter(10), Distance.Meter(1), time_step=2.0)
    slow = Calculator(_config={'cMinimumVelocity': 1500.0})
    shot = Shot(weapon, Ammo(dm_full(), Velocity.FPS(2750)), look_angle=Angular.Degree(-2))
    fire("minimum velocity", slow, shot, Distance.Yard(1500), Distance.Yard(300))
    shot = Shot(weapon, Ammo(dm_full(), Velocity.FPS(2750)))
    fire("single step, two rows", calc, shot, Distance.Foot(0.1), Distance.Foot(0.1))

    # 6. the row builder and its helpers called directly, edge inputs
    print("== direct")
    for args in [
        (0.0, Vector(0.0, -0.2, 0.0), Vector(2700.0, 10.0, 0.0), 2700.1, 1116.4, 0.0, 0.1, 1.0, 0.0, 168.0, 0),
        (0.5, Vector(1200.0, 3.5, -0.7), Vector(2000.0, -30.0, 2.0), 2000.3, 1100.0, 0.02, -0.3, 0.93, 0.4, 55.0, 8),
        (1.5, Vector(-10.0, 3.5, 0.7), Vector(-20.0, 30.0, 2.0), 36.1, 1000.0, -0.05, 0.0, 1.02, 0.1, 300.0, 9),
        (2.5, Vector(1e-300, 1e300, -1e300), Vector(0.0, 0.0, 0.0), 0.0, 1116.0, 0, 1.5, 0.5, 0.0, 0.0, 31),
        (0.1, Vector(float('inf'), 1.0, float('nan')), Vector(1.0, float('nan'), 0.0), float('inf'), 1116.0,
         0.0, 0.25, 1.0, 0.0, 100.0, 4),
    ]:
        try:
            print(dump_row(create_trajectory_row(*args)))
        except Exception as err:  # pylint: disable=broad-except
            print(type(err).__name__, err)
    for args in [
        (1.0, Vector(5.0, 1.0, 0.0), Vector(1.0, 0.0, 0.0), 1.0, 0.0, 0.0, 0.0, 1.0, 0.0, 1.0, 0),       # mach 0
        (1.0, Vector(5.0, 1.0, 0.0), Vector(1.0, 0.0, 0.0), 1.0, 0.0, 0.0, math.inf, 1.0, 0.0, 1.0, 0),  # both bad
        (1.0, Vector(5.0, 1.0, 0.0), Vector(1.0, 0.0, 0.0), 1.0, 1.0, 0.0, math.inf, 1.0, 0.0, 1.0, 0),  # tan(inf)
        (1.0, Vector(5.0, 1.0, 0.0), Vector(1.0, 0.0, 0.0), 1e200, 1.0, 0.0, 0.0, 1.0, 0.0, 1.0, 0),     # overflow
    ]:
        try:
            print(dump_row(create_trajectory_row(*args)))
        except Exception as err:  # pylint: disable=broad-except
            print(type(err).__name__, err)
    for d, o in [(0.0, 1.0), (-0.0, 1.0), (100.0, -2.5), (-100.0, 2.5), (1e-320, 1.0), (math.nan, 1.0), (0, 3)]:
        print("corr", h(get_correction(d, o)))
    for w, v in [(168.0, 2750.0), (0.0, 100.0), (55.0, 0.0), (1e3, 1e4), (-5.0, -3.0)]:
        print("energy/ogw", h(calculate_energy(w, v)), h(calculate_ogw(w, v)))


main()
