"""Equivalence digest for C05 / refactoring 1 (the point-mass step of `_integrate`).

Prints every field of every row (repr of the raw numbers) for a set of varied shots,
including terminal rows delivered through RangeError.incomplete_trajectory, plus a
sha256 of the whole text.  Run on the clean tree and on the patched tree: the output
must be identical.
"""
import hashlib
import warnings

from py_ballisticcalc import (Calculator, InterfaceConfigDict, DragModel, TableG1, TableG7, Ammo, Weapon, Shot,
                              Atmo, Wind, Distance, Velocity, Weight, Angular, Temperature, Pressure, RangeError,
                              Unit)
from py_ballisticcalc.conditions import Vacuum
from py_ballisticcalc.trajectory_calc._trajectory_calc import TrajectoryCalc
from py_ballisticcalc.trajectory_data import TrajFlag

warnings.simplefilter("ignore")
LINES = []


def out(text):
    LINES.append(text)
    print(text)


def raw(v):
    """repr of a plain number or of the raw value + unit of a dimension"""
    if hasattr(v, 'raw_value'):
        return f"{v.raw_value!r}[{v.units.name}]"
    return repr(v)


def dump_rows(label, rows):
    out(f"== {label}: {len(rows)} rows")
    for i, row in enumerate(rows):
        out(f"{i:3d} " + " ".join(f"{name}={raw(getattr(row, name))}" for name in row._fields))


def fire(label, calc, shot, rng, step=0, **kw):
    try:
        hit = calc.fire(shot, rng, step, **kw)
        dump_rows(label, list(hit.trajectory))
    except RangeError as e:
        out(f"-- {label}: RangeError {e.reason!r} last_distance={raw(e.last_distance) if e.last_distance else None}")
        dump_rows(label + " (incomplete)", e.incomplete_trajectory)
    except Exception as e:  # pylint: disable=broad-except
        out(f"-- {label}: {type(e).__name__}: {e}")


def make_shot(*, twist=12.0, length=1.3, diameter=0.308, weight=175.0, bc=0.243, table=TableG7, mv=2700.0,
              sight=2.5, look=0.0, relative=0.0, cant=0.0, atmo=None, winds=None, zero=None):
    dm = DragModel(bc, table, Weight.Grain(weight), Distance.Inch(diameter), Distance.Inch(length))
    ammo = Ammo(dm, Velocity.FPS(mv))
    weapon = Weapon(Distance.Inch(sight), Distance.Inch(twist))
    if zero is not None:
        weapon.zero_elevation = Angular.Degree(zero)
    return Shot(weapon=weapon, ammo=ammo, look_angle=Angular.Degree(look), relative_angle=Angular.Degree(relative),
                cant_angle=Angular.Degree(cant), atmo=atmo, winds=winds)


def main():
    calc = Calculator()

    # 1. plain level shot, right-hand twist, zeroed at 100 yd, rows every 100 yd
    shot = make_shot()
    calc.set_weapon_zero(shot, Distance.Yard(100))
    out(f"zero_elevation={raw(shot.weapon.zero_elevation)}")
    fire("level rh-twist", calc, shot, Distance.Yard(1000), Distance.Yard(100))

    # 2. left-hand twist, uphill look angle, cross/head winds that change down range, extra rows
    shot = make_shot(twist=-9.0, look=12.5, cant=3.0,
                     winds=[Wind(Velocity.MPH(10), Angular.OClock(3), Distance.Yard(300)),
                            Wind(Velocity.MPH(25), Angular.OClock(7), Distance.Yard(600)),
                            Wind(Velocity.MPH(4), Angular.OClock(11), Distance.Yard(2000))])
    calc.set_weapon_zero(shot, Distance.Yard(200))
    fire("uphill lh-twist winds extra", calc, shot, Distance.Yard(800), Distance.Yard(50), extra_data=True)

    # 3. no twist (no spin drift), downhill, hot thin air at altitude, G1 bullet through the transonic region
    atmo = Atmo(Distance.Foot(6500), Pressure.InHg(24.1), Temperature.Fahrenheit(95), 20)
    shot = make_shot(twist=0.0, look=-20.0, atmo=atmo, table=TableG1, bc=0.35, mv=2400, weight=150)
    calc.set_weapon_zero(shot, Distance.Meter(150))
    fire("downhill no-twist altitude", calc, shot, Distance.Meter(1500), Distance.Meter(75), extra_data=True)

    # 4. twist given but bullet dimensions missing (stability 0 -> no spin drift)
    shot = make_shot(length=0.0, diameter=0.0, zero=0.1)
    fire("no dimensions", calc, shot, Distance.Yard(500), Distance.Yard(100))

    # 5. default step (range / 10), time-step recording on a steep shot
    shot = make_shot(relative=60.0, winds=[Wind(Velocity.FPS(15), Angular.Degree(90), Distance.Foot(100000))])
    fire("steep time-step", calc, shot, Distance.Yard(300), Distance.Yard(100), extra_data=True, time_step=0.5)
    fire("default step", calc, shot, Distance.Yard(400))

    # 6. terminal rows: the three reasons for RangeError
    cfg_calc = Calculator(_config=InterfaceConfigDict(cMinimumVelocity=0, cMinimumAltitude=Distance.Meter(0),
                                                      cMaximumDrop=Distance.Meter(0)))
    shot = make_shot(relative=5.2, sight=0.0)
    fire("min altitude / max drop", cfg_calc, shot, Distance.Meter(7000), Distance.Meter(500))
    shot = make_shot(relative=2.0, mv=900, bc=0.05, table=TableG1)
    fire("min altitude", calc, shot, Distance.Yard(3000), Distance.Yard(250))
    shot = make_shot(relative=88.0, winds=[Wind(Velocity.MPH(8), Angular.OClock(9), Distance.Yard(5000))])
    fire("min velocity", calc, shot, Distance.Yard(1000), Distance.Yard(50), extra_data=True, time_step=2.0)
    shot = make_shot(relative=-30.0, atmo=Atmo(Distance.Foot(20000), None, None, 0))
    fire("max drop", Calculator(_config=InterfaceConfigDict(cMaximumDrop=-2000)), shot, Distance.Yard(3000),
         Distance.Yard(500))
    shot = make_shot(relative=90.0)
    fire("vertical", cfg_calc, shot, Distance.Meter(10), Distance.Meter(1), extra_data=True)

    # 7. vacuum: no drag at all
    shot = make_shot(atmo=Vacuum(Distance.Foot(1000), Temperature.Celsius(5)), relative=1.0)
    fire("vacuum", calc, shot, Distance.Yard(600), Distance.Yard(200))

    # 8. small calculation steps, record step smaller than calc step, tiny and zero range
    small = Calculator(_config=InterfaceConfigDict(max_calc_step_size_feet=0.25))
    shot = make_shot(look=3.0, zero=0.2)
    fire("small calc step", small, shot, Distance.Foot(40), Distance.Foot(0.1))
    fire("tiny range", calc, shot, Distance.Foot(0.3), Distance.Foot(0.3))
    fire("zero range", calc, shot, Distance.Foot(0), Distance.Foot(1))
    fire("negative range", calc, shot, Distance.Foot(-10), Distance.Foot(1))

    # 9. the engine directly: zero_angle and _integrate with and without a filter
    engine = calc._calc if isinstance(calc._calc, TrajectoryCalc) else None
    if engine is not None:
        shot = make_shot(look=7.0, twist=10.0)
        out(f"zero_angle={raw(engine.zero_angle(shot, Distance.Yard(300)))}")
        dump_rows("no filter", engine._integrate(shot, 900.0, 900.0, TrajFlag.NONE))
        dump_rows("mach|zero filter", engine._integrate(shot, 3000.0, 0.0, TrajFlag.MACH | TrajFlag.ZERO))
        out(f"spin_drift(1.0)={engine.spin_drift(1.0)!r} stability={engine.stability_coefficient!r}")

    out("sha256 " + hashlib.sha256("\n".join(LINES).encode()).hexdigest())


if __name__ == '__main__':
    main()
