"""Equivalence driver for property C05 (derived columns of a trajectory row).

Prints a deterministic digest; must print the same text on the clean worktree and with the patch.
"""
import hashlib
import math

from py_ballisticcalc import (Calculator, InterfaceConfigDict, DragModel, TableG1, TableG7, Ammo, Weapon, Shot, Atmo, Vacuum,
                              Wind, Distance, Velocity, Weight, Angular, Temperature, Pressure, RangeError, ZeroFindingError, Vector,
                              TrajFlag)
from py_ballisticcalc.trajectory_calc._trajectory_calc import (
    TrajectoryCalc, create_trajectory_row, get_correction, calculate_energy, calculate_ogw)
from py_ballisticcalc.interface_config import create_interface_config


def raw(v):
    """repr of a unit object: class, raw value (with its python type), defined unit"""
    if hasattr(v, '_value'):
        return f"{type(v).__name__}({v._value!r}:{type(v._value).__name__},{v._defined_units!r})"
    return f"{v!r}:{type(v).__name__}"


def row_repr(row):
    return "|".join(f"{name}={raw(getattr(row, name))}" for name in row._fields)


def digest(label, rows, show=(0, 1, -1)):
    lines = [row_repr(r) for r in rows]
    h = hashlib.sha256("\n".join(lines).encode()).hexdigest()
    print(f"== {label}: {len(rows)} rows sha256={h}")
    for i in show:
        if -len(lines) <= i < len(lines):
            print(f"   [{i}] {lines[i]}")
    flagged = [ln for r, ln in zip(rows, lines) if r.flag not in (TrajFlag.NONE, TrajFlag.RANGE)]
    for ln in flagged[:6]:
        print(f"   [event] {ln}")


def fire(label, calc, shot, rng, step, extra=False, time_step=0.0):
    try:
        res = calc.fire(shot, rng, step, extra_data=extra, time_step=time_step)
        digest(label, list(res.trajectory))
    except RangeError as e:
        print(f"== {label}: RangeError {e.reason!r} last={raw(e.last_distance)}")
        digest(label + " (incomplete)", list(e.incomplete_trajectory))


def zero(calc, shot, dist):
    try:
        print("   zero", raw(calc.set_weapon_zero(shot, dist)))
    except ZeroFindingError as e:
        print("   zero failed:", e)
        shot.weapon.zero_elevation = Angular.Radian((e.last_barrel_elevation >> Angular.Radian)
                                                    - (shot.look_angle >> Angular.Radian))


def make_shot(twist, dims=True, look=0.0, atmo=None, winds=None, table=TableG7, bc=0.223, mv=2750.0,
              weight=168.0, rel=0.0, cant=0.0, sight=2.0):
    if dims:
        dm = DragModel(bc, table, Weight.Grain(weight), Distance.Inch(0.308), Distance.Inch(1.282))
    else:
        dm = DragModel(bc, table, Weight.Grain(weight))
    weapon = Weapon(Distance.Inch(sight), Distance.Inch(twist) if twist is not None else None)
    return Shot(weapon=weapon, ammo=Ammo(dm, Velocity.FPS(mv)), look_angle=Angular.Degree(look),
                relative_angle=Angular.Degree(rel), cant_angle=Angular.Degree(cant), atmo=atmo, winds=winds)


def main():
    calc = Calculator()

    # --- 1. twist right / left / none, bullet dimensions given / absent, zeroed at 100 yd
    for twist, dims in ((12.0, True), (-12.0, True), (0.0, True), (None, True), (9.5, False), (-8.0, False)):
        shot = make_shot(twist, dims)
        zero(calc, shot, Distance.Yard(100))
        fire(f"twist={twist} dims={dims} flat", calc, shot, Distance.Yard(1000), Distance.Yard(100))
        fire(f"twist={twist} dims={dims} extra", calc, shot, Distance.Yard(600), Distance.Yard(50), extra=True)

    # --- 2. look angles and atmospheres, winds
    atmos = {
        "std": None,
        "icao1500m": Atmo.icao(Distance.Meter(1500)),
        "hot-low": Atmo(Distance.Foot(-200), Pressure.InHg(30.5), Temperature.Fahrenheit(104), 80.0),
        "cold-high": Atmo(Distance.Foot(9000), Pressure.InHg(21.0), Temperature.Fahrenheit(-10), 10.0),
    }
    winds = [Wind(Velocity.MPH(10), Angular.OClock(3), Distance.Yard(300)),
             Wind(Velocity.MPH(6), Angular.OClock(8), Distance.Yard(700)),
             Wind(Velocity.MPH(15), Angular.OClock(11), Distance.Yard(2000))]
    for look in (0.0, 10.0, -5.0, 35.0):
        for aname, atmo in atmos.items():
            shot = make_shot(11.25, True, look=look, atmo=atmo, winds=winds if aname != "std" else None,
                             cant=3.0 if look == 10.0 else 0.0)
            zero(calc, shot, Distance.Meter(200))
            fire(f"look={look} atmo={aname}", calc, shot, Distance.Meter(900), Distance.Meter(75), extra=True)
            fire(f"look={look} atmo={aname} timestep", calc, shot, Distance.Meter(400), Distance.Meter(400),
                 time_step=0.05)

    # --- 3. terminal rows: RangeError with incomplete trajectory, short ranges
    shot = make_shot(-10.0, True, look=2.0, table=TableG1, bc=0.3, mv=2400.0, weight=150.0, rel=20.0)
    fire("min velocity / max drop default cfg", calc, shot, Distance.Yard(9000), Distance.Yard(500))
    zcalc = Calculator(_config=InterfaceConfigDict(cMinimumVelocity=0, cMinimumAltitude=Distance.Meter(0),
                                                   cMaximumDrop=Distance.Meter(0)))
    fire("max drop 0", zcalc, shot, Distance.Yard(9000), Distance.Yard(500), extra=True)
    shot = make_shot(7.0, True, rel=90.0, sight=0.0)
    fire("vertical", zcalc, shot, Distance.Meter(10), Distance.Meter(1), extra=True)
    fire("vertical timestep", zcalc, shot, Distance.Meter(10), Distance.Meter(10), time_step=1.0)
    fire("vertical default cfg (min velocity)", calc, shot, Distance.Meter(10), Distance.Meter(1), extra=True)
    fire("vacuum", calc, make_shot(12.0, True, look=3.0, rel=1.0, atmo=Vacuum(Distance.Foot(100))),
         Distance.Yard(500), Distance.Yard(100), extra=True)
    hcalc = Calculator(_config=InterfaceConfigDict(cMinimumAltitude=Distance.Foot(-50)))
    shot = make_shot(8.0, True, rel=-30.0, atmo=Atmo.icao(Distance.Foot(10)))
    fire("min altitude", hcalc, shot, Distance.Yard(2000), Distance.Yard(20))
    shot = make_shot(8.0, True)
    fire("single step (fewer than two rows)", calc, shot, Distance.Foot(1), Distance.Foot(5))
    fire("range zero", calc, shot, Distance.Foot(0), Distance.Foot(1))

    # --- 4. direct calls to the public row helpers, edge cases
    print("== helpers")
    nan, inf = float('nan'), float('inf')
    for d, o in ((0, 5), (0.0, 5.0), (-0.0, 1.0), (100.0, 0.0), (100.0, -2.5), (-3.0, 1.0), (1e-300, 1.0),
                 (nan, 1.0), (1.0, nan), (inf, 1.0), (2, 1), (1.0, inf)):
        print("get_correction", repr(d), repr(o), raw(get_correction(d, o)))
    for w, v in ((168.0, 2750.0), (0.0, 1000.0), (55, 3200), (300.0, 0.0), (1e10, 1e20), (nan, 1.0), (175.5, -800.0)):
        print("energy/ogw", repr(w), repr(v), raw(calculate_energy(w, v)), raw(calculate_ogw(w, v)))
    for w, v in ((1.0, 1e200), (1e200, 1.0)):
        for fn in (calculate_energy, calculate_ogw):
            try:
                print(fn.__name__, repr(w), repr(v), raw(fn(w, v)))
            except Exception as e:  # pylint: disable=broad-except
                print(fn.__name__, repr(w), repr(v), type(e).__name__, e)

    cases = [
        # time, pos, vel, velocity, mach, spin_drift, look_angle, density_factor, drag, weight, flag
        (0.0, Vector(0.0, -0.1666, 0.0), Vector(2700.0, 5.0, 0.0), 2700.1, 1116.4, 0, 0.0, 1.0, 0.0, 168.0, 8),
        (0.0, Vector(0.0, -0.1666, 0.01), Vector(2700.0, 5.0, 0.0), 2700.1, 1116.4, 0.0, 0.17, 0.98, 0.0, 168.0, 8),
        (0.0, Vector(-0.0, 0.0, 0.0), Vector(0.0, 0.0, 0.0), 0.0, 1116.4, 0, -0.3, 1.0, 0.0, 0.0, 0),
        (0.5, Vector(1200.0, 3.5, -0.4), Vector(2100.0, -12.0, 1.0), 2100.03, 1100.0, 0.021, 0.1, 0.93, 3e-4, 175.0, 9),
        (0.5, Vector(1200.0, 3.5, -0.4), Vector(2100.0, -12.0, 1.0), 2100.03, 1100.0, -0.021, -0.1, 0.93, 3e-4, 175.0, 1),
        (1.5, Vector(-20.0, 30.5, 0.4), Vector(-10.0, 120.0, 1.0), 120.4, 1090.0, 0.3, 1.2, 0.8, 1e-4, 55.0, 16),
        (2.5, Vector(3000.0, -90.0, 6.0), Vector(900.0, -80.0, 2.0), 903.5, 1120.0, 0, 0.0, 1.01, 2e-4, 300.0, 4),
        (2.5, Vector(3000.0, -90.0, 6.0), Vector(900.0, -80.0, 2.0), 903.5, 1120.0, 0, math.pi / 2, 1.01, 2e-4, 300.0, 4),
        (2.5, Vector(nan, -90.0, 6.0), Vector(900.0, nan, 2.0), nan, 1120.0, 0.1, 0.2, 1.01, 2e-4, 300.0, 4),
        (2.5, Vector(1e-310, 1e300, -1e300), Vector(0.0, -0.0, 2.0), 2.0, 1120.0, 0.1, 0.2, 1.01, 2e-4, 300.0, 4),
        # error cases: which exception wins
        (1.0, Vector(10.0, 1.0, 0.0), Vector(1.0, 1.0, 0.0), 1.4, 0.0, 0, 0.0, 1.0, 0.0, 100.0, 0),
        (1.0, Vector(10.0, 1.0, 0.0), Vector(1.0, 1.0, 0.0), 1.4, 0.0, 0, inf, 1.0, 0.0, 100.0, 0),
        (1.0, Vector(10.0, 1.0, 0.0), Vector(1.0, 1.0, 0.0), 1e200, 0.0, 0, inf, 1.0, 0.0, 100.0, 0),
        (1.0, Vector(10.0, 1.0, 0.0), Vector(1.0, 1.0, 0.0), 1e200, 1000.0, 0, inf, 1.0, 0.0, 100.0, 0),
        (1.0, Vector(10.0, 1.0, 0.0), Vector(1.0, 1.0, 0.0), 1e200, 1000.0, 0, 0.1, 1.0, 0.0, 100.0, 0),
        (1.0, Vector(0.0, 1.0, 0.0), Vector(1.0, 1.0, 0.0), 1.0, 1000.0, 0, inf, 1.0, 0.0, 100.0, 0),
        (1.0, Vector(10.0, 1.0, 0.0), Vector(1.0, 1.0, 0.0), 10.0, 1000.0, 0, 0.1, 1.0, 0.0, 1e200, 0),
    ]
    for args in cases:
        try:
            print("row", row_repr(create_trajectory_row(*args)))
        except Exception as e:  # pylint: disable=broad-except
            print("row", type(e).__name__, e)

    # --- 5. spin drift and Miller stability through the engine object
    print("== spin drift / stability")
    for twist, dims, atmo in ((12.0, True, None), (-12.0, True, None), (0.0, True, None), (None, True, None),
                              (9.0, False, None), (-7.0, True, atmos["cold-high"]), (10.0, True, atmos["hot-low"]),
                              (1e-200, True, None), (1e200, True, None)):
        shot = make_shot(twist, dims, atmo=atmo, mv=2600.0 if twist != 10.0 else 3100.0)
        engine = TrajectoryCalc(create_interface_config(None))
        try:
            engine._init_trajectory(shot)
        except Exception as e:  # pylint: disable=broad-except
            print("init", twist, dims, type(e).__name__, e)
            continue
        print("sg", twist, dims, raw(engine.stability_coefficient), raw(engine.calc_stability_coefficient(shot.atmo)),
              raw(engine.twist), raw(engine.weight), raw(engine.look_angle))
        for t in (0, 0.0, 1e-9, 0.37, 1.0, 2.5, 7.123456789):
            print("  drift", repr(t), raw(engine.spin_drift(t)))
        try:
            print("  drift", -1.0, raw(engine.spin_drift(-1.0)))
        except Exception as e:  # pylint: disable=broad-except
            print("  drift", -1.0, type(e).__name__, e)
    # vacuum-like atmosphere: pressure raw value zero => no stability coefficient
    shot = make_shot(12.0, True, atmo=Vacuum(Distance.Foot(0), Temperature.Fahrenheit(59)))
    engine = TrajectoryCalc(create_interface_config(None))
    try:
        engine._init_trajectory(shot)
        print("sg zero pressure", raw(engine.stability_coefficient), raw(engine.spin_drift(1.0)))
    except Exception as e:  # pylint: disable=broad-except
        print("sg zero pressure", type(e).__name__, e)


if __name__ == "__main__":
    main()
