"""Equivalence digest for property C05 (derived columns of every trajectory row).

Prints a deterministic text; it must be identical on the clean worktree and with the patch applied.
"""
import hashlib
import math
import warnings
from types import SimpleNamespace

from py_ballisticcalc import (Calculator, DragModel, TableG7, TableG1, Ammo, Weapon, Shot, Atmo, Wind,
                              Distance, Angular, Velocity, Weight, Temperature, Pressure, Unit,
                              RangeError, InterfaceConfigDict, HitResult)
from py_ballisticcalc.trajectory_calc import (create_trajectory_row, get_correction, calculate_energy,
                                              calculate_ogw, TrajectoryCalc)
from py_ballisticcalc.vector import Vector
from py_ballisticcalc.trajectory_data import TrajFlag

warnings.simplefilter("ignore")
LINES = []


def tv(v):
    """type-tagged repr, so that 0 and 0.0 are told apart"""
    return f"{type(v).__name__}:{v!r}"


def row_text(r):
    return " ".join([
        tv(r.time), tv(r.distance._value), tv(r.velocity._value), tv(r.mach), tv(r.height._value),
        tv(r.target_drop._value), tv(r.drop_adj._value), tv(r.windage._value), tv(r.windage_adj._value),
        tv(r.look_distance._value), tv(r.angle._value), tv(r.density_factor), tv(r.drag),
        tv(r.energy._value), tv(r.ogw._value), tv(int(r.flag)),
        r.distance.units.name, r.velocity.units.name, r.drop_adj.units.name, r.energy.units.name, r.ogw.units.name,
    ])


def emit(label, rows, show=3):
    h = hashlib.sha256()
    for r in rows:
        h.update(row_text(r).encode())
        h.update(b"\n")
    LINES.append(f"{label}: n={len(rows)} sha={h.hexdigest()}")
    idx = sorted(set(list(range(min(show, len(rows)))) + [len(rows) - 1])) if rows else []
    for i in idx:
        LINES.append(f"   [{i}] {row_text(rows[i])}")


def fire(label, calc, shot, rng, step=0, extra=False, time_step=0.0):
    try:
        res = calc.fire(shot, rng, step, extra_data=extra, time_step=time_step)
        emit(label, list(res.trajectory))
    except RangeError as e:
        LINES.append(f"{label}: RangeError reason={e.reason!r} last={tv(e.last_distance._value) if e.last_distance is not None else None}")
        emit(label + " (incomplete)", list(e.incomplete_trajectory))
    except Exception as e:  # pylint: disable=broad-except
        LINES.append(f"{label}: {type(e).__name__}: {e}")


def dm_308(table=TableG7, bc=0.223, dims=True):
    if dims:
        return DragModel(bc, table, Weight.Grain(168), Distance.Inch(0.308), Distance.Inch(1.282))
    return DragModel(bc, table)


calc = Calculator()

# 1. right twist, level shot, standard atmosphere, zeroed at 100 yd
shot = Shot(weapon=Weapon(Distance.Inch(2), twist=Distance.Inch(12)), ammo=Ammo(dm_308(), Velocity.FPS(2750)),
            atmo=Atmo.icao())
z = calc.set_weapon_zero(shot, Distance.Yard(100))
LINES.append(f"zero1 {tv(z._value)}")
fire("s1 range", calc, shot, Distance.Yard(1000), Distance.Yard(100))
fire("s1 extra", calc, shot, Distance.Yard(1000), Distance.Yard(100), extra=True)
fire("s1 time_step", calc, shot, Distance.Yard(600), Distance.Yard(200), time_step=0.05)
LINES.append(f"s1 stability {tv(calc._calc.stability_coefficient)} twist {tv(calc._calc.twist)} "
             f"weight {tv(calc._calc.weight)} look {tv(calc._calc.look_angle)}")
for t in (0.0, 0, 0.3, 1.0, 2.5):
    LINES.append(f"s1 spin_drift({t!r}) = {tv(calc._calc.spin_drift(t))}")

# 2. left twist, look angle up, hot thin air at altitude, two winds, cant
atmo2 = Atmo(altitude=Distance.Foot(5200), pressure=Pressure.InHg(24.9), temperature=Temperature.Fahrenheit(91),
             humidity=0.2)
shot2 = Shot(weapon=Weapon(Distance.Centimeter(9), twist=Distance.Inch(-8)),
             ammo=Ammo(dm_308(TableG1, 0.462), Velocity.MPS(800)), atmo=atmo2,
             look_angle=Angular.Degree(12), cant_angle=Angular.Degree(7),
             winds=[Wind(Velocity.MPH(10), Angular.Degree(90), Distance.Yard(300)),
                    Wind(Velocity.MPH(6), Angular.Degree(-45), Distance.Yard(2000))])
z = calc.set_weapon_zero(shot2, Distance.Meter(300))
LINES.append(f"zero2 {tv(z._value)}")
fire("s2 range", calc, shot2, Distance.Meter(1500), Distance.Meter(75))
fire("s2 extra", calc, shot2, Distance.Meter(1500), Distance.Meter(250), extra=True)
LINES.append(f"s2 stability {tv(calc._calc.stability_coefficient)} twist {tv(calc._calc.twist)}")
for t in (0.0, 0.7, 3.0):
    LINES.append(f"s2 spin_drift({t!r}) = {tv(calc._calc.spin_drift(t))}")

# 3. look angle down, no twist
shot3 = Shot(weapon=Weapon(Distance.Inch(1.5), twist=0), ammo=Ammo(dm_308(), Velocity.FPS(2600)),
             atmo=Atmo.icao(Distance.Foot(1000)), look_angle=Angular.Degree(-20))
shot3.relative_angle = Angular.Mil(3)
fire("s3 no twist", calc, shot3, Distance.Yard(800), Distance.Yard(50), extra=True)
LINES.append(f"s3 stability {tv(calc._calc.stability_coefficient)} spin {tv(calc._calc.spin_drift(1.2))}")

# 4. twist given but bullet dimensions absent
shot4 = Shot(weapon=Weapon(Distance.Inch(2), twist=Distance.Inch(10)), ammo=Ammo(dm_308(dims=False), Velocity.FPS(2900)),
             look_angle=Angular.Degree(3))
fire("s4 no dims", calc, shot4, Distance.Yard(500), Distance.Yard(100))
LINES.append(f"s4 stability {tv(calc._calc.stability_coefficient)} spin {tv(calc._calc.spin_drift(1.2))}")

# 4b. partial dimensions (length absent only), and zero pressure atmosphere for the stability guard
shot4b = Shot(weapon=Weapon(Distance.Inch(2), twist=Distance.Inch(10)),
              ammo=Ammo(DragModel(0.223, TableG7, Weight.Grain(168), Distance.Inch(0.308)), Velocity.FPS(2900)))
fire("s4b no length", calc, shot4b, Distance.Yard(300), Distance.Yard(100))
LINES.append(f"s4b stability {tv(calc._calc.stability_coefficient)}")
for label, a in (("icao", Atmo.icao()), ("atmo2", atmo2)):
    LINES.append(f"direct stability {label} = {tv(calc._calc.calc_stability_coefficient(a))}")
calc._calc._init_trajectory(shot)
for label, a in (("icao", Atmo.icao()), ("atmo2", atmo2), ("cold", Atmo(Distance.Foot(0), Pressure.InHg(31), Temperature.Fahrenheit(-30), 0.0))):
    LINES.append(f"direct stability shot1 {label} = {tv(calc._calc.calc_stability_coefficient(a))}")
zero_p = SimpleNamespace(pressure=Pressure.InHg(0), temperature=Temperature.Fahrenheit(59))
LINES.append(f"direct stability zero pressure = {tv(calc._calc.calc_stability_coefficient(zero_p))}")

# 5. terminal rows: each RangeError reason, rows from incomplete_trajectory
def big_shot(angle_deg, twist):
    dm = DragModel(0.759, TableG1, Weight.Gram(108), Distance.Millimeter(23), Distance.Millimeter(108.2))
    s = Shot(weapon=Weapon(twist=twist), ammo=Ammo(dm, Velocity.MPS(930)))
    s.relative_angle = Angular.Degree(angle_deg)
    return s

zcalc = Calculator(_config=InterfaceConfigDict(cMinimumVelocity=0, cMinimumAltitude=Distance.Meter(0),
                                               cMaximumDrop=Distance.Meter(0)))
fire("s5 max drop", zcalc, big_shot(5.219710693607955, Distance.Inch(20)), Distance.Meter(6937.37), extra=False)
fire("s5 max drop extra", zcalc, big_shot(5.219710693607955, Distance.Inch(-20)), Distance.Meter(6937.37), extra=True)
acalc = Calculator(_config=InterfaceConfigDict(cMinimumVelocity=0, cMinimumAltitude=Distance.Meter(-3),
                                               cMaximumDrop=Distance.Meter(-1000)))
fire("s5 min altitude", acalc, big_shot(2.0, Distance.Inch(20)), Distance.Meter(6000), Distance.Meter(500))
fire("s5 steep", calc, big_shot(80.0, Distance.Inch(20)), Distance.Meter(3000), Distance.Meter(100))
vcalc = Calculator(_config=InterfaceConfigDict(cMinimumVelocity=1500))
fire("s5 min velocity 1500", vcalc, shot2, Distance.Meter(1500), Distance.Meter(100), extra=True)

# 6. fewer than two recorded rows: the closing row
fire("s6 tiny", calc, shot, Distance.Foot(1), Distance.Foot(5))
rows = calc._calc._integrate(shot2, 900.0, 900.0, TrajFlag.NONE)
emit("s6 filter none", rows)

# 7. the row builder and its helpers called directly, with muzzle / degenerate inputs
for (d, o) in ((0, 1.0), (0.0, -2.0), (-0.0, 3.0), (100.0, 0.0), (300.0, -7.5), (-50.0, 2.0), (1e-300, 1.0),
               (float("nan"), 1.0), (10.0, float("inf"))):
    LINES.append(f"get_correction({d!r},{o!r}) = {tv(get_correction(d, o))}")
for (w, v) in ((168.0, 2750.0), (0.0, 1000.0), (55, 3200), (750.0, 0.0), (168.0, float("inf"))):
    LINES.append(f"energy({w!r},{v!r}) = {tv(calculate_energy(w, v))}  ogw = {tv(calculate_ogw(w, v))}")
cases = [
    (0.0, Vector(0.0, -0.1666, 0.0), Vector(2700.0, 5.0, 0.0), 2700.0046, 1116.4, 0, 0.0),
    (0.0, Vector(0.0, -0.1666, -0.02), Vector(2700.0, 5.0, 1.0), 2700.0046, 1116.4, 0.0, 0.21),
    (0, Vector(0, 0, 0), Vector(1, 0, 0), 1, 1100, 0, 0),
    (0.5, Vector(1200.5, -3.25, 0.4), Vector(2100.0, -30.0, 2.0), 2100.2, 1110.0, 0.013, 0.1),
    (0.5, Vector(1200.5, -3.25, 0.4), Vector(2100.0, -30.0, 2.0), 2100.2, 1110.0, -0.013, -0.35),
    (1.9, Vector(3000.0, 420.0, -6.0), Vector(900.0, -200.0, -3.0), 922.0, 1085.0, 0.2, 0.14),
    (4.0, Vector(-12.0, 50.0, 1.0), Vector(-20.0, -300.0, 0.0), 300.7, 1116.0, 0.5, 1.2),
    (0.1, Vector(-0.0, 1.0, 1.0), Vector(0.0, 10.0, 0.0), 10.0, 1116.0, 0.001, 0.3),
]
out = []
for i, (t, p, v, sp, m, sd, la) in enumerate(cases):
    for flag in (TrajFlag.NONE, TrajFlag.RANGE | TrajFlag.ZERO_UP, 8):
        out.append(create_trajectory_row(t, p, v, sp, m, sd, la, 1.02, 0.0007, 168.0, flag))
emit("s7 direct rows", out, show=len(out))

# 8. degenerate arguments: which exception comes first
INF = float("inf")
for label, kw in (("mach0", dict(mach=0.0)), ("look inf", dict(la=INF)), ("mach0+look inf", dict(mach=0.0, la=INF)),
                  ("huge v", dict(sp=1e200)), ("huge v+look inf", dict(sp=1e200, la=-INF)),
                  ("huge v+mach0", dict(sp=1e200, mach=0.0)), ("nan look", dict(la=float("nan"))),
                  ("huge w", dict(w=1e200)), ("x0 look inf", dict(x=0.0, la=INF))):
    a = dict(x=500.0, sp=2000.0, mach=1116.0, la=0.1, w=168.0)
    a.update(kw)
    try:
        r = create_trajectory_row(0.4, Vector(a["x"], -2.0, 0.3), Vector(1990.0, -20.0, 1.0), a["sp"], a["mach"],
                                  0.01, a["la"], 1.0, 0.0006, a["w"], TrajFlag.RANGE)
        LINES.append(f"s8 {label}: {row_text(r)}")
    except Exception as e:  # pylint: disable=broad-except
        LINES.append(f"s8 {label}: {type(e).__name__}: {e}")

# 9. spin drift / stability with attributes set by hand (public methods of the engine object)
eng = calc._calc
eng._init_trajectory(shot)
NAN = float("nan")
for sc, tw in ((1.5, 12), (1.5, -12), (1.5, 0), (0, 12), (0.0, -7.0), (-0.0, 9), (1.5, -0.0), (NAN, 10), (1.5, NAN),
               (NAN, NAN), (-1.2, 10), (INF, -10), (2, 1e-300)):
    eng.stability_coefficient, eng.twist = sc, tw
    for t in (0, 0.0, 0.25, 1, 2.75, INF, NAN, -1.0, -0.0):
        try:
            LINES.append(f"s9 sc={sc!r} twist={tw!r} t={t!r}: {tv(eng.spin_drift(t))}")
        except Exception as e:  # pylint: disable=broad-except
            LINES.append(f"s9 sc={sc!r} twist={tw!r} t={t!r}: {type(e).__name__}: {e}")
atmos = {"std": SimpleNamespace(pressure=Pressure.InHg(29.92), temperature=Temperature.Fahrenheit(59)),
         "hot": SimpleNamespace(pressure=Pressure.hPa(850), temperature=Temperature.Celsius(41)),
         "p0": SimpleNamespace(pressure=Pressure.InHg(0), temperature=Temperature.Celsius(15)),
         "rankine0": SimpleNamespace(pressure=Pressure.InHg(30), temperature=Temperature.Fahrenheit(-460))}
for tw, ln, dia, wt, mv in ((12, 1.282, 0.308, 168, 2750.0), (-12, 1.282, 0.308, 168, 2750.0), (0, 1.282, 0.308, 168, 2750.0),
                            (12, 0, 0.308, 168, 2750.0), (12, 1.282, 0, 168, 2750.0), (12, 1.282, 0.308, 0, 2750.0),
                            (7.0, 0.9, 0.224, 77.0, 0.0), (7.0, 0.9, 0.224, 77.0, -100.0), (9.5, 4.26, 0.9, 1666.0, 3051.0),
                            (NAN, 1.0, 0.3, 150, 2800), (-0.0, 1.0, 0.3, 150, 2800)):
    eng.twist, eng.length, eng.diameter, eng.weight, eng.muzzle_velocity = tw, ln, dia, wt, mv
    for name, a in atmos.items():
        try:
            LINES.append(f"s9 stab {tw!r} {ln!r} {dia!r} {wt!r} {mv!r} {name}: {tv(eng.calc_stability_coefficient(a))}")
        except Exception as e:  # pylint: disable=broad-except
            LINES.append(f"s9 stab {tw!r} {ln!r} {dia!r} {wt!r} {mv!r} {name}: {type(e).__name__}: {e}")

text = "\n".join(LINES)
print(text)
print("TOTAL", hashlib.sha256(text.encode()).hexdigest())
