"""Behaviour digest for property C17 (powder temperature sensitivity).

Prints a deterministic text; it must be byte-identical on the clean worktree
and with the refactoring applied.  Only the public API is used.
"""
import math
import warnings

warnings.simplefilter("ignore")

from py_ballisticcalc import (Ammo, Atmo, Vacuum, Calculator, DragModel, Shot, TableG1, TableG7, Weapon,  # noqa: E402
                              Unit, Velocity, Temperature, Distance, Pressure, PreferredUnits, Wind)


def show(label, value):
    print(f"{label}: {value}")


def dim(d):
    """Full observable state of a dimension object: class, raw value, defined units, str."""
    try:
        text = str(d)
    except Exception as exc:  # a dimension re-labelled with a foreign unit cannot be printed
        text = f"<{type(exc).__name__}>"
    return f"{type(d).__name__}(raw={d.raw_value!r}, units={d.units!r}, str={text})"


def s_(x):
    """str() that never fails"""
    try:
        return str(x)
    except Exception as exc:  # pylint: disable=broad-except
        return f"<{type(exc).__name__}>"


def attempt(label, fn):
    try:
        result = fn()
    except Exception as exc:  # pylint: disable=broad-except
        show(label, f"raised {type(exc).__name__}: {exc}")
        return None
    show(label, result)
    return result


def ammo_state(a):
    return (f"mv={dim(a.mv)} powder_temp={dim(a.powder_temp)} temp_modifier={a.temp_modifier!r} "
            f"use={a.use_powder_sensitivity!r}")


def make_dm(full=True):
    if full:
        return DragModel(0.223, TableG7, Unit.Grain(168), Unit.Inch(0.308), Unit.Inch(1.282))
    return DragModel(0.45, TableG1)


QUERY_TEMPS = [
    Temperature.Celsius(15), Temperature.Celsius(0), Temperature.Celsius(-40), Temperature.Celsius(35.5),
    Temperature.Fahrenheit(59), Temperature.Fahrenheit(-10), Temperature.Kelvin(288.15), Temperature.Kelvin(250),
    Temperature.Rankin(518.67), Temperature.Celsius(200), Temperature.Celsius(-273.15),
    59, 59.0, 0, -12.5, float('inf'), float('nan'),
]


def fresh_queries():
    # get_velocity_for_temp re-labels the units of a dimension argument in place, so always pass fresh ones
    out = []
    for q in QUERY_TEMPS:
        if isinstance(q, Temperature):
            out.append(Temperature(q.unit_value, q.units))
        else:
            out.append(q)
    return out


def section_construct():
    print("== construction / defaults")
    for kwargs in (
            dict(mv=Velocity.MPS(800)),
            dict(mv=2700),
            dict(mv=0),
            dict(mv=None),
            dict(mv=Velocity.FPS(2600), powder_temp=Temperature.Celsius(15)),
            dict(mv=Velocity.FPS(2600), powder_temp=Temperature.Fahrenheit(70), temp_modifier=1.5),
            dict(mv=Velocity.KMH(2900), powder_temp=Temperature.Kelvin(300), temp_modifier=None),
            dict(mv=Velocity.MPS(800), powder_temp=0, temp_modifier=0.8, use_powder_sensitivity=True),
            dict(mv=Velocity.MPS(800), powder_temp=59.0, temp_modifier=-0.8, use_powder_sensitivity=1),
    ):
        a = Ammo(make_dm(), **kwargs)
        show(f"Ammo({kwargs!r})", ammo_state(a))


def section_velocity_for_temp():
    print("== get_velocity_for_temp")
    ammos = {
        'off/mod0': Ammo(make_dm(), Velocity.MPS(800), Temperature.Celsius(15)),
        'off/mod1.2': Ammo(make_dm(), Velocity.MPS(800), Temperature.Celsius(15), 1.2),
        'on/mod0': Ammo(make_dm(), Velocity.MPS(800), Temperature.Celsius(15), 0, True),
        'on/mod1.2': Ammo(make_dm(), Velocity.MPS(800), Temperature.Celsius(15), 1.2, True),
        'on/mod-0.7/fps/F': Ammo(make_dm(), Velocity.FPS(2750), Temperature.Fahrenheit(70), -0.7, True),
        'on/mod0.0123/kmh/K': Ammo(make_dm(), Velocity.KMH(3000.3), Temperature.Kelvin(273.15), 0.0123, True),
        'on/intmod/floatargs': Ammo(make_dm(), 2600, 59, 2, True),
        'on/mv0': Ammo(make_dm(), 0, Temperature.Celsius(15), 1.2, True),
        'on/mv0.0': Ammo(make_dm(), Velocity.MPS(0.0), Temperature.Celsius(15), 1.2, True),
        'on/mv-0.0': Ammo(make_dm(), Velocity.MPS(-0.0), Temperature.Celsius(15), 0, True),
        'on/mvinf': Ammo(make_dm(), Velocity.MPS(float('inf')), Temperature.Celsius(15), 1.2, True),
        'on/mvnan': Ammo(make_dm(), Velocity.MPS(float('nan')), Temperature.Celsius(15), 1.2, True),
        'on/mvneg': Ammo(make_dm(), Velocity.MPS(-300), Temperature.Celsius(15), 1.2, True),
        'on/tiny': Ammo(make_dm(), Velocity.MPS(5e-324), Temperature.Celsius(15), 1.2, True),
        'off/mv0': Ammo(make_dm(), 0, Temperature.Celsius(15), 1.2, False),
    }
    for name, a in ammos.items():
        for q in fresh_queries():
            before = dim(q) if isinstance(q, Temperature) else repr(q)
            res = attempt(f"{name} @ {before}", lambda a=a, q=q: dim(a.get_velocity_for_temp(q)))
            if isinstance(q, Temperature):
                show("    arg after", dim(q))
            if res is not None:
                r = a.get_velocity_for_temp(q)
                show("    returns self.mv object", r is a.mv)
        show(f"{name} state after", ammo_state(a))

    print("-- wrong argument kinds")
    on = ammos['on/mod1.2']
    off = ammos['off/mod1.2']
    zero = ammos['on/mv0']
    for label, a in (('on', on), ('off', off), ('on/mv0', zero)):
        for bad in (Velocity.MPS(10), Distance.Meter(3), None, "15", [15]):
            attempt(f"{label} bad arg {bad!r}", lambda a=a, bad=bad: dim(a.get_velocity_for_temp(bad)))
            if isinstance(bad, (Velocity, Distance)):
                show("    arg after", dim(bad))

    print("-- attributes reassigned after construction")
    a = Ammo(make_dm(), Velocity.MPS(800), Temperature.Celsius(15), 1.2, True)
    a.temp_modifier = 0.5
    attempt("modifier reassigned", lambda: dim(a.get_velocity_for_temp(Temperature.Celsius(0))))
    a.powder_temp = Temperature.Kelvin(300)
    attempt("powder_temp reassigned", lambda: dim(a.get_velocity_for_temp(Temperature.Celsius(0))))
    a.mv = Velocity.FPS(3000)
    attempt("mv reassigned", lambda: dim(a.get_velocity_for_temp(Temperature.Celsius(0))))
    a.use_powder_sensitivity = 0
    attempt("flag 0", lambda: dim(a.get_velocity_for_temp(Temperature.Celsius(0))))
    a.use_powder_sensitivity = "yes"
    attempt("flag 'yes'", lambda: dim(a.get_velocity_for_temp(Temperature.Celsius(0))))
    a.temp_modifier = None
    attempt("modifier None", lambda: dim(a.get_velocity_for_temp(Temperature.Celsius(0))))
    a.temp_modifier = float('nan')
    attempt("modifier nan", lambda: dim(a.get_velocity_for_temp(Temperature.Celsius(0))))
    a.temp_modifier = float('inf')
    attempt("modifier inf", lambda: dim(a.get_velocity_for_temp(Temperature.Celsius(15))))
    del a.temp_modifier
    q = Temperature.Celsius(1)
    attempt("modifier deleted", lambda: dim(a.get_velocity_for_temp(q)))
    show("    arg after", dim(q))


def section_calibration():
    print("== calc_powder_sens")
    baselines = [
        (Velocity.MPS(800), Temperature.Celsius(15)),
        (Velocity.FPS(2750), Temperature.Fahrenheit(70)),
        (Velocity.KMH(2880), Temperature.Kelvin(288.15)),
        (2600, 59),
        (Velocity.MPS(-5), Temperature.Celsius(15)),
    ]
    seconds = [
        (Velocity.MPS(780), Temperature.Celsius(0)),      # slower & colder
        (Velocity.MPS(830), Temperature.Celsius(40)),     # faster & warmer
        (Velocity.MPS(830), Temperature.Celsius(-20)),    # faster & colder (inverse sensitivity)
        (Velocity.MPS(760), Temperature.Celsius(35)),     # slower & warmer
        (Velocity.FPS(2550), Temperature.Celsius(0)),
        (Velocity.FPS(2723), Temperature.Fahrenheit(32)),
        (Velocity.KT(1500), Temperature.Rankin(500)),
        (2723, 0),                                        # floats in preferred units
        (2550.5, 100.25),
        (Velocity.MPS(800.0000001), Temperature.Celsius(15.0000001)),
        (float('nan'), 0),
        (2700, float('nan')),
        (float('inf'), 0),
    ]
    for bv, bt in baselines:
        for sv, st in seconds:
            for use in (False, True):
                a = Ammo(make_dm(), bv, bt, 0.25, use)
                sv_ = Velocity(sv.unit_value, sv.units) if isinstance(sv, Velocity) else sv
                st_ = Temperature(st.unit_value, st.units) if isinstance(st, Temperature) else st
                label = f"base=({s_(bv)},{s_(bt)}) second=({s_(sv)},{s_(st)}) use={use}"
                res = attempt(label, lambda: repr(a.calc_powder_sens(sv_, st_)))
                show("    state", ammo_state(a))
                if isinstance(sv_, Velocity):
                    show("    second v after", dim(sv_))
                if isinstance(st_, Temperature):
                    show("    second t after", dim(st_))
                if res is None:
                    continue
                # evaluate the calibrated line at both measurements and elsewhere
                for q in (st_, a.powder_temp, Temperature.Celsius(-30), Temperature.Fahrenheit(100), 10):
                    attempt(f"    v({s_(q)})", lambda q=q: dim(a.get_velocity_for_temp(q)))

    print("-- degenerate second measurements")
    for bv, bt, sv, st in (
            (Velocity.MPS(800), Temperature.Celsius(15), Velocity.MPS(800), Temperature.Celsius(0)),
            (Velocity.MPS(800), Temperature.Celsius(15), Velocity.MPS(790), Temperature.Celsius(15)),
            (Velocity.MPS(800), Temperature.Celsius(15), Velocity.MPS(800), Temperature.Celsius(15)),
            (Velocity.FPS(2600), Temperature.Fahrenheit(59), 2600, 10),
            (Velocity.FPS(2600), Temperature.Fahrenheit(59), 2500, 59),
            (0, Temperature.Celsius(15), Velocity.MPS(10), Temperature.Celsius(0)),
            (0, Temperature.Celsius(15), 0, Temperature.Celsius(0)),
            (Velocity.MPS(0.0), Temperature.Celsius(15), Velocity.MPS(-1), Temperature.Celsius(15)),
            (Velocity.MPS(800), Temperature.Celsius(15), Temperature.Celsius(0), Temperature.Celsius(0)),
            (Velocity.MPS(800), Temperature.Celsius(15), Velocity.MPS(790), Velocity.MPS(3)),
            (Velocity.MPS(800), Temperature.Celsius(15), None, Temperature.Celsius(0)),
            (Velocity.MPS(800), Temperature.Celsius(15), Velocity.MPS(790), None),
            (Velocity.MPS(800), Temperature.Celsius(15), "790", 0),
    ):
        a = Ammo(make_dm(), bv, bt, 0.25, True)
        attempt(f"base=({s_(bv)},{s_(bt)}) second=({s_(sv)},{s_(st)})", lambda: repr(a.calc_powder_sens(sv, st)))
        show("    state", ammo_state(a))
        for x in (sv, st):
            if isinstance(x, (Velocity, Temperature)):
                show("    arg after", dim(x))

    print("-- repeated calibration replaces the modifier")
    a = Ammo(make_dm(), Velocity.MPS(815), Temperature.Celsius(15), use_powder_sensitivity=True)
    for sv, st in ((Velocity.MPS(800), Temperature.Celsius(0)), (Velocity.MPS(830), Temperature.Celsius(0)),
                   (Velocity.MPS(800), Temperature.Celsius(0))):
        show("calc", repr(a.calc_powder_sens(sv, st)))
        show("  at second", dim(a.get_velocity_for_temp(Temperature.Celsius(0))))
        show("  at base", dim(a.get_velocity_for_temp(Temperature.Celsius(15))))


def section_preferred_units():
    print("== other preferred units")
    PreferredUnits.temperature = Unit.Celsius
    PreferredUnits.velocity = Unit.MPS
    try:
        a = Ammo(make_dm(), 800, 15, use_powder_sensitivity=True)
        show("state", ammo_state(a))
        show("calc", repr(a.calc_powder_sens(780, 0)))
        for q in (0, 15, -20.5, Temperature.Fahrenheit(0), Temperature.Kelvin(300)):
            show(f"v({s_(q)})", dim(a.get_velocity_for_temp(q)))
            if isinstance(q, Temperature):
                show("    arg after", dim(q))
        atmo = Atmo(temperature=-5)
        show("atmo powder", dim(atmo.powder_temp))
        atmo = Atmo(temperature=-5, powder_t=25)
        show("atmo powder", dim(atmo.powder_temp))
    finally:
        PreferredUnits.defaults()
    PreferredUnits.temperature = Unit.Kelvin
    try:
        a = Ammo(make_dm(), Velocity.MPS(800), use_powder_sensitivity=True)
        show("state", ammo_state(a))
        show("calc", repr(a.calc_powder_sens(Velocity.MPS(820), 300)))
        show("v(273.15)", dim(a.get_velocity_for_temp(273.15)))
        show("v(300)", dim(a.get_velocity_for_temp(300)))
    finally:
        PreferredUnits.defaults()


def section_atmo():
    print("== Atmo.powder_temp")
    cases = {
        'default': Atmo(),
        'icao': Atmo.icao(),
        'icao alt': Atmo.icao(Distance.Meter(1500)),
        'temp only': Atmo(temperature=Temperature.Celsius(-5)),
        'temp float': Atmo(temperature=20),
        'powder only': Atmo(powder_t=Temperature.Celsius(-5)),
        'powder float': Atmo(powder_t=100),
        'powder zero': Atmo(powder_t=0),
        'powder zero C': Atmo(temperature=Temperature.Celsius(30), powder_t=Temperature.Celsius(0)),
        'both': Atmo(Distance.Foot(1000), Pressure.InHg(29), Temperature.Fahrenheit(90), 40, Temperature.Kelvin(280)),
        'vacuum': Vacuum(),
        'vacuum temp': Vacuum(Distance.Meter(100), Temperature.Celsius(3)),
    }
    for name, atmo in cases.items():
        show(name, f"temperature={dim(atmo.temperature)} powder={dim(atmo.powder_temp)} "
                   f"same_object={atmo.powder_temp is atmo.temperature} "
                   f"density_ratio={atmo.density_ratio!r} mach={atmo.mach.raw_value!r}")
    given = Temperature.Celsius(12)
    atmo = Atmo(powder_t=given)
    show("given object kept", atmo.powder_temp is given)
    show("given after", dim(given))
    attempt("powder_t wrong kind", lambda: dim(Atmo(powder_t=Velocity.MPS(3)).powder_temp))
    attempt("powder_t str", lambda: dim(Atmo(powder_t="3").powder_temp))


def row_digest(row):
    return (f"t={row.time!r} x={row.distance.raw_value!r} v={row.velocity.raw_value!r} "
            f"mach={row.mach!r} y={row.height.raw_value!r} w={row.windage.raw_value!r} "
            f"drag={row.drag!r} e={row.energy.raw_value!r} dr={row.density_factor!r} flag={row.flag!r}")


def section_fire():
    print("== Calculator.fire launch velocity")
    calc = Calculator()
    weapon = Weapon(Unit.Inch(2), Unit.Inch(12))
    atmos = {
        'icao': lambda: Atmo.icao(),
        'cold air': lambda: Atmo(temperature=Temperature.Celsius(-5)),
        'hot air': lambda: Atmo(temperature=Temperature.Celsius(40), humidity=60),
        'cold powder': lambda: Atmo(powder_t=Temperature.Celsius(-5)),
        'hot powder cold air': lambda: Atmo(temperature=Temperature.Celsius(-20), powder_t=Temperature.Celsius(35)),
        'powder F': lambda: Atmo(Distance.Meter(800), Pressure.hPa(920), Temperature.Celsius(10), 30,
                                 Temperature.Fahrenheit(0)),
        'vacuum': lambda: Vacuum(temperature=Temperature.Celsius(-10)),
    }
    for full in (True, False):
        for use in (False, True):
            for second in ((Velocity.FPS(2550), Temperature.Celsius(0)), (Velocity.FPS(2790), Temperature.Celsius(-10))):
                ammo = Ammo(make_dm(full), Velocity.FPS(2600), Temperature.Celsius(15), use_powder_sensitivity=use)
                show("modifier", repr(ammo.calc_powder_sens(*second)))
                for name, mk in atmos.items():
                    atmo = mk()
                    shot = Shot(weapon=weapon, ammo=ammo, atmo=atmo, winds=[Wind(Unit.MPH(5), Unit.Degree(90))])
                    expected = ammo.get_velocity_for_temp(atmo.powder_temp) >> Velocity.FPS
                    res = calc.fire(shot, Distance.Yard(300), Distance.Yard(100))
                    rows = res.trajectory
                    show(f"full={full} use={use} second={s_(second[0])} atmo={name}",
                         f"expected_fps={expected!r} launch_fps={(rows[0].velocity >> Velocity.FPS)!r} "
                         f"close={math.isclose(rows[0].velocity >> Velocity.FPS, expected, rel_tol=1e-12)} "
                         f"n={len(rows)}")
                    for row in rows:
                        show("    row", row_digest(row))
                    show("    powder after", dim(atmo.powder_temp))
                    show("    temperature after", dim(atmo.temperature))

    print("-- zeroing uses the same launch velocity")
    ammo = Ammo(make_dm(), Velocity.MPS(800), Temperature.Celsius(15), use_powder_sensitivity=True)
    ammo.calc_powder_sens(Velocity.MPS(780), Temperature.Celsius(0))
    for name in ('icao', 'cold powder', 'hot powder cold air'):
        shot = Shot(weapon=Weapon(Unit.Inch(2), Unit.Inch(12)), ammo=ammo, atmo=atmos[name](),
                    look_angle=Unit.Degree(2))
        elev = calc.set_weapon_zero(shot, Distance.Meter(100))
        show(f"zero {name}", f"{elev.raw_value!r} weapon={shot.weapon.zero_elevation.raw_value!r}")
        res = calc.fire(shot, Distance.Meter(200), Distance.Meter(100), extra_data=True)
        for row in res.trajectory:
            show("    row", row_digest(row))

    print("-- zero velocity ammunition through the solver")
    ammo = Ammo(make_dm(), 0, Temperature.Celsius(15), 1.0, True)
    shot = Shot(weapon=Weapon(), ammo=ammo, atmo=Atmo(powder_t=Temperature.Celsius(0)))
    attempt("fire mv0", lambda: [row_digest(r) for r in calc.fire(shot, Distance.Yard(100), Distance.Yard(50)).trajectory])


def section_solver_init():
    print("== solver initialisation: cant, look angle, reuse of one Calculator, Atmo subclass")
    from py_ballisticcalc import Angular

    class BoxAtmo(Atmo):
        """Atmosphere whose air temperature is reported from a fixed box"""
        box = Temperature.Celsius(-12)

        @property
        def temperature(self):
            return BoxAtmo.box

    b = BoxAtmo(temperature=Temperature.Celsius(25))
    show("subclass", f"temperature={dim(b.temperature)} powder={dim(b.powder_temp)} "
                     f"same_object={b.powder_temp is BoxAtmo.box} mach={b.mach.raw_value!r}")
    b2 = BoxAtmo(temperature=Temperature.Celsius(25), powder_t=Temperature.Celsius(5))
    show("subclass given", f"powder={dim(b2.powder_temp)} same_object={b2.powder_temp is BoxAtmo.box}")

    calc = Calculator()
    ammo_a = Ammo(make_dm(), Velocity.MPS(800), Temperature.Celsius(15), use_powder_sensitivity=True)
    ammo_a.calc_powder_sens(Velocity.MPS(770), Temperature.Celsius(-10))
    ammo_b = Ammo(make_dm(False), Velocity.FPS(2400), Temperature.Fahrenheit(70), 0.012, True)
    shots = []
    for ammo in (ammo_a, ammo_b):
        for cant in (0, 7.5, -90):
            for look in (0, 12):
                for atmo in (Atmo(powder_t=Temperature.Celsius(-15)), b, Atmo.icao(Distance.Foot(5000))):
                    shots.append(Shot(weapon=Weapon(Unit.Centimeter(9), Unit.Inch(-9), Unit.Mil(1.5)), ammo=ammo,
                                      look_angle=Unit.Degree(look), relative_angle=Unit.MOA(3),
                                      cant_angle=Unit.Degree(cant), atmo=atmo,
                                      winds=[Wind(Unit.MPS(4), Unit.Degree(45), Unit.Meter(150)),
                                             Wind(Unit.MPS(2), Unit.Degree(270))]))
    for i, shot in enumerate(shots):
        expected = shot.ammo.get_velocity_for_temp(shot.atmo.powder_temp) >> Velocity.FPS
        try:
            res = calc.fire(shot, Distance.Meter(250), Distance.Meter(125), extra_data=(i % 2 == 0))
        except Exception as exc:  # pylint: disable=broad-except
            show(f"shot {i}", f"expected_fps={expected!r} raised {type(exc).__name__}: {exc}")
            rows = getattr(exc, 'incomplete_trajectory', [])
        else:
            rows = res.trajectory
            launch = rows[0].velocity >> Velocity.FPS
            show(f"shot {i}", f"expected_fps={expected!r} launch_fps={launch!r} "
                              f"close={math.isclose(launch, expected, rel_tol=1e-12)}")
        for row in rows:
            show("    row", row_digest(row))
    # interleave zeroing and firing on the same engine
    for i in (0, 5, 19, 30):
        shot = shots[i]
        attempt(f"barrel_elevation_for_target {i}",
                lambda: repr(calc.barrel_elevation_for_target(shot, Distance.Meter(180)).raw_value))
        attempt(f"fire after {i}", lambda: [row_digest(r) for r in
                                            calc.fire(shots[i + 1], Distance.Meter(100), Distance.Meter(100)).trajectory])
    print("-- broken shots fail the same way")
    shot = shots[0]
    for attr, value in (('cant_angle', Angular.Radian(float('inf'))), ('cant_angle', None), ('atmo', None),
                        ('ammo', None), ('look_angle', 3)):
        keep = getattr(shot, attr)
        setattr(shot, attr, value)
        attempt(f"{attr}={value!r}", lambda: len(calc.fire(shot, Distance.Meter(100), Distance.Meter(100)).trajectory))
        setattr(shot, attr, keep)
    attempt("restored", lambda: [row_digest(r) for r in
                                 calc.fire(shot, Distance.Meter(100), Distance.Meter(100)).trajectory])


if __name__ == '__main__':
    section_solver_init()
    section_construct()
    section_velocity_for_temp()
    section_calibration()
    section_preferred_units()
    section_atmo()
    section_fire()
