"""Equivalence digest for C17 / refactoring 1 (solver initialisation in _trajectory_calc.py).

Prints a deterministic text; it has to be identical on the clean worktree and with the patch applied.
Run:  cd /tmp/wt/C17 && PYTHONPATH=/tmp/wt/C17 /venv/bin/python /tmp/twins3/C17/1/equiv.py
"""
import copy
import warnings

warnings.simplefilter("ignore")

from py_ballisticcalc import (Ammo, Atmo, Calculator, DragModel, PreferredUnits, RangeError, Shot, TableG1, TableG7,
                              Vacuum, Weapon, Wind)
from py_ballisticcalc.trajectory_calc import TrajectoryCalc
from py_ballisticcalc.trajectory_calc._trajectory_calc import TrajectoryCalc as PyTrajectoryCalc
from py_ballisticcalc.unit import Angular, Distance, Pressure, Temperature, Unit, Velocity, Weight

print('backend', TrajectoryCalc.__module__, TrajectoryCalc is PyTrajectoryCalc)


def raw(row):
    """all numbers of a trajectory row, exactly"""
    out = []
    for value in row:
        out.append(repr(value.raw_value) if hasattr(value, 'raw_value') else repr(value))
    return ' '.join(out)


def dump(label, hit, rows=(0, 1, -1)):
    print(label, 'rows', len(hit.trajectory))
    for i in rows:
        print('   ', i, raw(hit.trajectory[i]))


def solver_state(calc):
    """what _init_trajectory left on the solver"""
    c = calc._calc
    names = ('look_angle', 'twist', 'length', 'diameter', 'weight', 'barrel_elevation', 'barrel_azimuth',
             'sight_height', 'cant_cosine', 'cant_sine', 'alt0', 'calc_step', 'muzzle_velocity',
             'stability_coefficient')
    return ' '.join(f'{n}={getattr(c, n)!r}' for n in names)


def make_ammo(**kw):
    dm = DragModel(0.22, TableG7, 168, 0.308, 1.22)
    return Ammo(dm, Velocity.FPS(2600), **kw)


calc = Calculator()
weapon = Weapon(4, 12)

# 1. sensitivity off / on, air temperature as powder temperature or an explicit one, several units
cases = []
for use in (False, True):
    for atmo_label, atmo in (
            ('icao', Atmo.icao()),
            ('cold-air', Atmo(temperature=Temperature.Celsius(-5))),
            ('cold-powder', Atmo(powder_t=Temperature.Celsius(-5))),
            ('hot-powder-F', Atmo(temperature=Temperature.Celsius(10), powder_t=Temperature.Fahrenheit(120))),
            ('powder-K', Atmo(altitude=Distance.Meter(1500), powder_t=Temperature.Kelvin(250))),
            ('powder-float', Atmo(temperature=40, powder_t=95.5)),
            ('vacuum', Vacuum(altitude=100, temperature=Temperature.Celsius(30))),
    ):
        ammo = make_ammo(powder_temp=Temperature.Celsius(15), temp_modifier=0.0123, use_powder_sensitivity=use)
        cases.append((f'use={use} {atmo_label}', ammo, atmo))

for label, ammo, atmo in cases:
    shot = Shot(weapon=weapon, ammo=ammo, atmo=atmo)
    hit = calc.fire(shot, 1000, 100)
    dump(label, hit)
    print('    state', solver_state(calc))
    print('    expected launch', repr(ammo.get_velocity_for_temp(atmo.powder_temp) >> Velocity.FPS),
          'first row', repr(hit.trajectory[0].velocity >> Velocity.FPS))

# 2. calibrated ammunition (second measurement slower and colder, faster and colder, faster and warmer)
for v1, t1 in ((Velocity.FPS(2550), Temperature.Celsius(0)),
               (Velocity.MPS(800), Temperature.Fahrenheit(14)),
               (Velocity.FPS(2650), Temperature.Celsius(35))):
    ammo = make_ammo(powder_temp=Temperature.Celsius(15))
    modifier = ammo.calc_powder_sens(v1, t1)
    ammo.use_powder_sensitivity = True
    shot = Shot(weapon=weapon, ammo=ammo, atmo=Atmo(powder_t=t1))
    hit = calc.fire(shot, Distance.Meter(300), Distance.Meter(100))
    print('calibrated', repr(modifier), repr(hit.trajectory[0].velocity.raw_value), repr(v1.raw_value))
    print('    state', solver_state(calc))

# 3. everything _init_trajectory reads: look angle, cant, azimuth-free elevation, twist sign / zero, sight height
variants = {
    'cant30': dict(weapon=Weapon(4, 12, Angular.Mil(2)), cant_angle=Angular.Degree(30)),
    'cant90-left-twist': dict(weapon=Weapon(Distance.Centimeter(9), -9, Angular.MOA(10)), cant_angle=Angular.Degree(90)),
    'look-up': dict(weapon=Weapon(2, 10), look_angle=Angular.Degree(5), relative_angle=Angular.Mil(1)),
    'no-twist': dict(weapon=Weapon(3, 0)),
    'no-sight-height': dict(weapon=Weapon(0, 12)),
}
ammo = make_ammo(powder_temp=Temperature.Celsius(15), temp_modifier=0.02, use_powder_sensitivity=True)
for label, kw in variants.items():
    shot = Shot(ammo=ammo, atmo=Atmo(altitude=Distance.Foot(2500), pressure=Pressure.InHg(27),
                                     temperature=Temperature.Fahrenheit(20), humidity=40), **kw)
    shot.winds = [Wind(Velocity.MPH(10), Angular.OClock(3), Distance.Yard(400)), Wind(Velocity.MPH(5), Angular.OClock(9))]
    hit = calc.fire(shot, 800, 200, extra_data=(label in ('cant30', 'look-up')))
    dump(label, hit, rows=(0, 1, 2, -1))
    print('    flags', [row.flag for row in hit.trajectory])
    print('    state', solver_state(calc))

# 4. drag model without length / diameter / weight (stability coefficient 0), other table, preferred units changed
PreferredUnits.temperature = Unit.Celsius
PreferredUnits.velocity = Unit.MPS
PreferredUnits.distance = Unit.Meter
try:
    bare = Ammo(DragModel(0.5, TableG1), 850, 20, 0.015, True)
    shot = Shot(weapon=Weapon(Distance.Centimeter(5), 10), ammo=bare, atmo=Atmo(temperature=-20))
    hit = calc.fire(shot, 500, 250, time_step=0.05)
    dump('bare-dm', hit)
    print('    state', solver_state(calc))
finally:
    PreferredUnits.defaults()

# 5. zeroing goes through the same initialisation
ammo = make_ammo(powder_temp=Temperature.Celsius(15), temp_modifier=0.0123, use_powder_sensitivity=True)
for atmo in (Atmo.icao(), Atmo(powder_t=Temperature.Celsius(-20))):
    shot = Shot(weapon=Weapon(2, 12), ammo=ammo, atmo=atmo)
    zero = calc.set_weapon_zero(shot, Distance.Yard(200))
    print('zero', repr(zero.raw_value), solver_state(calc))
    dump('zeroed', calc.fire(shot, 400, 100))

# 6. no launch velocity at all: the solver stops at once, with the row it has
slow = Ammo(DragModel(0.22, TableG7, 168, 0.308, 1.22), 0)
try:
    calc.fire(Shot(weapon=weapon, ammo=slow), 1000, 100)
except RangeError as error:
    print('RangeError', error.reason, len(error.incomplete_trajectory), raw(error.incomplete_trajectory[0]))
print('    state', solver_state(calc))

# 7. a broken shot fails in the same place, leaving the same partial state behind
fresh = Calculator()
broken = copy.copy(Shot(weapon=weapon, ammo=make_ammo()))
broken.ammo = None
try:
    fresh.fire(broken, 100, 10)
except AttributeError as error:
    print('AttributeError', error, sorted(k for k in vars(fresh._calc) if not k.startswith('_')))
broken = copy.copy(Shot(weapon=weapon, ammo=make_ammo()))
broken.atmo = None
try:
    fresh.fire(broken, 100, 10)
except AttributeError as error:
    print('AttributeError', error, sorted(k for k in vars(fresh._calc) if not k.startswith('_')))
