"""Equivalence digest for refactoring 3 (Unit.__call__, the constructor behind PreferredUnits.temperature(...),
PreferredUnits.velocity(...), Velocity.MPS(...), Temperature.Celsius(...) used by the powder-sensitivity code)."""
import warnings

from py_ballisticcalc import (Calculator, Shot, Weapon, Ammo, Atmo, DragModel, TableG7,
                              Unit, Velocity, Temperature, Distance, Angular, Pressure, Weight, Energy, PreferredUnits)

warnings.simplefilter("ignore")
out = []


def emit(*parts):
    out.append(" ".join(str(p) for p in parts))


def digest(obj):
    if isinstance(obj, (Velocity, Temperature, Distance, Angular, Pressure, Weight, Energy)):
        return (type(obj).__name__, repr(obj.raw_value), int(obj.units), type(obj.raw_value).__name__)
    return repr(obj)


def attempt(tag, fn):
    try:
        emit(tag, digest(fn()))
    except Exception as e:  # pylint: disable=broad-except
        emit(tag, "raised", type(e).__name__, e)


SAMPLES = {Angular: Unit.Degree, Distance: Unit.Meter, Energy: Unit.Joule, Pressure: Unit.hPa,
           Temperature: Unit.Celsius, Velocity: Unit.MPS, Weight: Unit.Gram}

# 1. every unit called with numbers of several kinds, with junk, and with a quantity of every dimension
for unit in Unit:
    for number in (1.5, 0, -3, 0.0, -0.0, True, 1e300, float("inf"), float("nan"), 7):
        attempt(f"num {int(unit)} {number!r}", lambda: unit(number))
    for junk in ("12", None, [1.0], (2,), 1j):
        attempt(f"junk {int(unit)} {junk!r}", lambda: unit(junk))
    for cls, own in SAMPLES.items():
        q = cls(21.25, own)
        r = None
        try:
            r = unit(q)
            emit(f"dim {int(unit)} {cls.__name__}", digest(r), r is q, int(q.units))
        except Exception as e:  # pylint: disable=broad-except
            emit(f"dim {int(unit)} {cls.__name__}", "raised", type(e).__name__, e, int(q.units))

# 2. the method applied to things that are not members of Unit
for fake in (25, 29, 20, 80, 85, 1000, -1, -5, -10, 9, 10, 19, 30, 39, 40, 49, 50, 55, 59, 60, 69, 70, 79, 55.5, 9.99, 19.5, 29.9,
             79.99, 80.0, -0.5, True):
    attempt(f"fake {fake!r} number", lambda: Unit.__call__(fake, 2.5))
    attempt(f"fake {fake!r} quantity", lambda: digest(Unit.__call__(fake, Temperature.Celsius(3))))

# 3. the property's own path, under several preferred units
def dm():
    return DragModel(0.223, TableG7, Unit.Grain(168), Unit.Inch(0.308), Unit.Inch(1.282))


weapon = Weapon(Unit.Inch(2), Unit.Inch(12))
for pref in (dict(), dict(velocity=Unit.MPS, temperature=Unit.Celsius), dict(velocity=Unit.KT, temperature=Unit.Rankin),
             dict(velocity=Unit.KMH, temperature=Unit.Kelvin, distance=Unit.Meter)):
    PreferredUnits.defaults()
    PreferredUnits.set(**pref)
    for mv, t0 in ((Velocity.MPS(800), Temperature.Celsius(15)), (2700, 59), (Velocity.FPS(2750), None), (0, None)):
        for sens in (False, True):
            for v1, t1 in ((Velocity.MPS(780), Temperature.Celsius(-15)), (Velocity.MPS(830), Temperature.Celsius(-15)),
                           (Velocity.FPS(2600), Temperature.Fahrenheit(100)), (2900, 100.0)):
                ammo = Ammo(dm(), mv, t0, use_powder_sensitivity=sens)
                emit("ammo", sorted(pref), repr(mv), repr(t0), digest(ammo.mv), digest(ammo.powder_temp))
                try:
                    emit("calib", repr(v1), repr(t1), repr(ammo.calc_powder_sens(v1, t1)))
                except Exception as e:  # pylint: disable=broad-except
                    emit("calib raised", type(e).__name__, e)
                    ammo.temp_modifier = 0.01
                for q in (t1, Temperature.Kelvin(260), Temperature.Celsius(15), 20, -40.0):
                    arg = Temperature(q.unit_value, q.units) if isinstance(q, Temperature) else q
                    v = ammo.get_velocity_for_temp(arg)
                    emit("velocity", repr(q), digest(v), v is ammo.mv, digest(arg))
                if not (ammo.mv >> Velocity.MPS):
                    continue
                for atmo_kw in (dict(), dict(temperature=t1), dict(temperature=Temperature.Celsius(35), powder_t=t1),
                                dict(temperature=10, powder_t=-20.0), dict(altitude=Distance.Meter(1200))):
                    atmo = Atmo(**atmo_kw)
                    emit("atmo", sorted(atmo_kw), digest(atmo.temperature), digest(atmo.powder_temp),
                         atmo.powder_temp is atmo.temperature, digest(atmo.pressure), digest(atmo.altitude))
                    try:
                        hit = Calculator().fire(Shot(weapon=weapon, ammo=ammo, atmo=atmo),
                                                Distance.Meter(200), Distance.Meter(100))
                        emit("fire", [(digest(r.velocity), repr(r.time), repr(r.height.raw_value)) for r in hit],
                             repr(ammo.get_velocity_for_temp(atmo.powder_temp) >> Velocity.FPS))
                    except Exception as e:  # pylint: disable=broad-except
                        emit("fire raised", type(e).__name__, e,
                             repr(ammo.get_velocity_for_temp(atmo.powder_temp) >> Velocity.FPS))
PreferredUnits.defaults()

print("\n".join(out))
