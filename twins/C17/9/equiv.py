"""Equivalence digest for C17 / refactoring 3 (munition.py: measurement points by name; conditions.py: read-only
properties of Atmo).

Prints a deterministic text; it has to be identical on the clean worktree and with the patch applied.
Run:  cd /tmp/wt/C17 && PYTHONPATH=/tmp/wt/C17 /venv/bin/python /tmp/twins3/C17/3/equiv.py
"""
import copy
import warnings
from fractions import Fraction

warnings.simplefilter("ignore")

from py_ballisticcalc import Ammo, Atmo, Calculator, DragModel, PreferredUnits, Shot, TableG7, Vacuum, Weapon
from py_ballisticcalc.unit import Distance, Pressure, Temperature, Unit, Velocity


def outcome(fn):
    """repr of the result (with its type), or the exception type and text"""
    try:
        result = fn()
    except Exception as error:  # pylint: disable=broad-except
        return f'{type(error).__name__}: {error}'
    return f'{type(result).__name__} {result!r}'


def make_ammo(mv=Velocity.FPS(2600), **kw):
    return Ammo(DragModel(0.22, TableG7, 168, 0.308, 1.22), mv, **kw)


QUERIES = (Temperature.Celsius(15), Temperature.Celsius(-30), Temperature.Celsius(30), Temperature.Fahrenheit(100),
           Temperature.Kelvin(273.15), Temperature.Rankin(400), 59, -10.5, 0)

# 1. calibration from a second measurement: slower/faster x colder/warmer, same velocity, same temperature, all units
baselines = ((Velocity.FPS(2600), Temperature.Celsius(15)), (Velocity.MPS(815), None),
             (Velocity.MPS(800), Temperature.Fahrenheit(0)), (900, 70), (Velocity.KMH(3000), Temperature.Kelvin(300)),
             (Velocity.MPS(Fraction(1600, 2)), Temperature.Fahrenheit(59)))
seconds = ((Velocity.FPS(2550), Temperature.Celsius(0)), (Velocity.FPS(2650), Temperature.Celsius(0)),
           (Velocity.FPS(2550), Temperature.Celsius(40)), (Velocity.MPS(830), Temperature.Kelvin(320)),
           (Velocity.FPS(2600), Temperature.Celsius(0)), (Velocity.FPS(2500), Temperature.Celsius(15)),
           (Velocity.FPS(2600), Temperature.Celsius(15)), (Velocity.MPS(815), Temperature.Fahrenheit(59)),
           (2700, 90), (Velocity.MPS(800), Temperature.Fahrenheit(0)), (900, 70),
           (float('nan'), 10), (2000, float('nan')), (float('inf'), 10), ('2700', 90), (2700, None), (None, 90))
for mv, t0 in baselines:
    for v1, t1 in seconds:
        ammo = make_ammo(mv, powder_temp=t0, temp_modifier=0.5)
        line = [repr(ammo.mv.raw_value), repr(ammo.powder_temp.raw_value), repr(getattr(v1, 'raw_value', v1)),
                repr(getattr(t1, 'raw_value', t1))]
        line.append(outcome(lambda: ammo.calc_powder_sens(v1, t1)))
        line.append(repr(ammo.temp_modifier))  # unchanged (0.5) when the calibration was refused
        line.append(f'off:{ammo.get_velocity_for_temp(Temperature.Celsius(-40)) is ammo.mv}')
        ammo.use_powder_sensitivity = True
        line.append('at-second ' + outcome(lambda: ammo.get_velocity_for_temp(t1).raw_value))
        line.append('at-stated ' + outcome(lambda: ammo.get_velocity_for_temp(ammo.powder_temp).raw_value))
        for query in QUERIES:
            line.append(outcome(lambda: ammo.get_velocity_for_temp(query) >> Velocity.FPS))
        print('calib', ' | '.join(line))

# 2. hand-given modifiers (also 0, negative, None -> 0, int), zero / negative / infinite stated velocity
for modifier in (0, 0.0123, -0.02, None, 1, 1e-300, float('inf'), float('nan')):
    for mv in (Velocity.FPS(2600), 0, Velocity.MPS(0.0), Velocity.MPS(-0.0), Velocity.MPS(-300), Velocity.MPS(float('inf')),
               Velocity.MPS(1e-320), None):
        ammo = make_ammo(mv, powder_temp=Temperature.Celsius(15), temp_modifier=modifier, use_powder_sensitivity=True)
        results = [outcome(lambda: ammo.get_velocity_for_temp(query).raw_value) for query in QUERIES[:5]]
        unit = outcome(lambda: ammo.get_velocity_for_temp(QUERIES[1]).units)
        print('given', repr(modifier), repr(ammo.mv.raw_value), repr(ammo.temp_modifier), ' | '.join(results), unit)
    zero = make_ammo(0, temp_modifier=modifier)
    print('calib from zero mv', outcome(lambda: zero.calc_powder_sens(Velocity.MPS(100), Temperature.Celsius(30))),
          repr(zero.temp_modifier))

# 3. wrong kinds of argument fail the same way; dataclass behaviour of Ammo is untouched
ammo = make_ammo(powder_temp=Temperature.Celsius(15), temp_modifier=0.0123, use_powder_sensitivity=True)
for bad in ('cold', None, [1], Distance.Meter(3), Velocity.MPS(3)):
    print('bad query', repr(bad) if not hasattr(bad, 'raw_value') else type(bad).__name__,
          outcome(lambda: ammo.get_velocity_for_temp(bad).raw_value),
          outcome(lambda: ammo.calc_powder_sens(Velocity.MPS(700), bad)),
          outcome(lambda: ammo.calc_powder_sens(bad, Temperature.Celsius(0))))
ammo.use_powder_sensitivity = False
print('bad query, off', outcome(lambda: ammo.get_velocity_for_temp('cold') is ammo.mv))
print('repr', repr(make_ammo(powder_temp=Temperature.Celsius(15), temp_modifier=0.0123))[-160:])
print('eq', make_ammo() == make_ammo(), make_ammo(temp_modifier=1) == make_ammo(temp_modifier=2))
clone = copy.deepcopy(ammo)
print('deepcopy', clone == ammo, repr(clone.calc_powder_sens(Velocity.FPS(2500), Temperature.Celsius(-10))),
      repr(ammo.temp_modifier))

# 4. preferred units changed between construction and use
PreferredUnits.temperature = Unit.Kelvin
PreferredUnits.velocity = Unit.KMH
try:
    ammo = make_ammo(2900, powder_temp=288.15)
    print('preferred', repr(ammo.mv.raw_value), repr(ammo.powder_temp.raw_value),
          outcome(lambda: ammo.calc_powder_sens(2800, 268.15)))
    ammo.use_powder_sensitivity = True
    print('preferred', [repr(ammo.get_velocity_for_temp(q).raw_value) for q in (268.15, 288.15, 300, Temperature.Celsius(0))])
finally:
    PreferredUnits.defaults()
print('after reset', [repr(ammo.get_velocity_for_temp(q).raw_value) for q in (268.15, 59, Temperature.Kelvin(268.15))])

# 5. Atmo's read-only attributes: values, identity, aliasing of the defaulted powder temperature, errors
air = Temperature.Celsius(-5)
powder = Temperature.Kelvin(300)
atmos = {
    'icao': Atmo.icao(),
    'cold-air': Atmo(temperature=air),
    'powder-given': Atmo(Distance.Meter(500), Pressure.hPa(950), Temperature.Fahrenheit(80), 55, powder),
    'powder-float': Atmo(temperature=40, powder_t=95.5),
    'powder-zero': Atmo(temperature=Temperature.Celsius(20), powder_t=0),
    'vacuum': Vacuum(altitude=100, temperature=Temperature.Celsius(30)),
}
for label, atmo in atmos.items():
    print('atmo', label, repr(atmo.altitude.raw_value), repr(atmo.pressure.raw_value), repr(atmo.temperature.raw_value),
          repr(atmo.powder_temp.raw_value), repr(atmo.density_ratio), repr(atmo.mach.raw_value), repr(atmo.humidity),
          'powder-is-air' if atmo.powder_temp is atmo.temperature else 'powder-own',
          atmo.powder_temp.units.name, atmo.temperature.units.name, str(atmo))
print('same objects', atmos['cold-air'].temperature is air, atmos['powder-given'].powder_temp is powder,
      atmos['icao'].altitude is atmos['icao'].altitude, air.units.name, powder.units.name)
for name in ('altitude', 'pressure', 'temperature', 'powder_temp', 'density_ratio', 'mach'):
    attribute = getattr(Atmo, name)
    print('class attr', name, type(attribute).__name__, repr(attribute.__doc__), attribute.fset, attribute.fdel,
          outcome(lambda: setattr(atmos['icao'], name, 1)), outcome(lambda: delattr(atmos['icao'], name)),
          outcome(lambda: getattr(Atmo.__new__(Atmo), name)))
atmos['icao'].humidity = 80
print('humidity changed', repr(atmos['icao'].density_ratio), repr(atmos['icao'].density_metric),
      repr(atmos['icao'].density_imperial))

# 6. the solver launches with the velocity for the atmosphere's powder temperature
calc = Calculator()
ammo = make_ammo(powder_temp=Temperature.Celsius(15))
ammo.calc_powder_sens(Velocity.FPS(2550), Temperature.Celsius(0))
for use in (False, True):
    ammo.use_powder_sensitivity = use
    for label, atmo in atmos.items():
        hit = calc.fire(Shot(weapon=Weapon(4, 12), ammo=ammo, atmo=atmo), Distance.Yard(500), Distance.Yard(250))
        print('fire', use, label, repr(ammo.get_velocity_for_temp(atmo.powder_temp) >> Velocity.FPS),
              ' '.join(f'{row.velocity.raw_value!r}/{row.mach!r}/{row.height.raw_value!r}/{row.windage.raw_value!r}'
                       for row in hit.trajectory))
