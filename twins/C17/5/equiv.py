"""Equivalence digest for C17 / refactoring 2 (munition.py: Ammo.__init__, calc_powder_sens, get_velocity_for_temp).

Run:  cd /tmp/wt/C17 && PYTHONPATH=/tmp/wt/C17 /venv/bin/python /tmp/twins2/C17/2/equiv.py
Prints a deterministic text; it must be identical with and without the patch.
"""
import warnings
from fractions import Fraction

warnings.simplefilter("ignore")

from py_ballisticcalc import (Ammo, Atmo, Calculator, DragModel, PreferredUnits, Shot, TableG7, Unit, Weapon)
from py_ballisticcalc.unit import Temperature, Velocity

INF = float("inf")
NAN = float("nan")


def h(x):
    """bit-exact text of a number (type included: int 0 and float 0.0 differ)"""
    if isinstance(x, float):
        return x.hex()
    return f"{type(x).__name__}:{x!r}"


def q(u):
    """unit object: raw value, defined units, python type of the raw value"""
    return f"<{type(u).__name__} {h(u.raw_value)} in {u.units!r}>"


DM = DragModel(0.223, TableG7, Unit.Grain(168), Unit.Inch(0.308), Unit.Inch(1.282))


def attempt(tag, fn):
    try:
        out = fn()
        print(tag, "->", out)
    except Exception as e:  # same exception, same text
        print(tag, "raised", type(e).__name__, e)


def ammo_state(a):
    return f"mv={q(a.mv)} t0={q(a.powder_temp)} mod={h(a.temp_modifier)} use={a.use_powder_sensitivity!r}"


def scenario():
    # --- construction: defaults of the sensitivity parameters
    for kw in (dict(mv=Unit.MPS(800)), dict(mv=2700), dict(mv=0), dict(mv=None),
               dict(mv=Unit.FPS(2700), powder_temp=Unit.Fahrenheit(59)), dict(mv=Unit.MPS(800), powder_temp=0),
               dict(mv=Unit.MPS(800), powder_temp=Unit.Kelvin(0)),
               dict(mv=Unit.MPS(800), powder_temp=None, temp_modifier=None),
               dict(mv=Unit.MPS(800), temp_modifier=0.0), dict(mv=Unit.MPS(800), temp_modifier=-0.0),
               dict(mv=Unit.MPS(800), temp_modifier=1.5, use_powder_sensitivity=1)):
        attempt(f"init {sorted(kw.items(), key=lambda i: i[0])!r}", lambda: ammo_state(Ammo(DM, **kw)))

    # --- disabled: the stated velocity object itself, whatever the temperature; the argument is left alone
    a = Ammo(DM, Unit.MPS(800), Unit.Celsius(15), 0.02)
    for t in (Unit.Celsius(-40), Unit.Fahrenheit(130), 15, NAN, "warm", None):
        r = a.get_velocity_for_temp(t)
        print("off", repr(t) if not hasattr(t, "units") else q(t), "->", q(r), "same object:", r is a.mv)

    # --- enabled: anchored line, all temperature units, plain numbers, extreme numbers
    for mv, t0, mod in ((Unit.MPS(800), Unit.Celsius(15), 0.02), (Unit.FPS(2650), Unit.Fahrenheit(70), 0.0123),
                        (Unit.KMH(2900), Unit.Kelvin(300), -0.004), (Unit.MPS(800), Unit.Celsius(15), 0),
                        (Unit.MPS(800), Unit.Celsius(15), None), (Unit.MPS(1e-320), Unit.Celsius(15), 0.5),
                        (Unit.MPS(-700), Unit.Rankin(500), 0.03), (Unit.MPS(800), Unit.Celsius(15), Fraction(1, 64)),
                        (Unit.MPS(800), Unit.Celsius(15), 3), (Unit.MPS(800), Unit.Celsius(15), INF),
                        (Unit.MPS(800), Unit.Celsius(15), NAN)):
        a = Ammo(DM, mv, t0, mod, True)
        print("on", ammo_state(a))
        for t in (a.powder_temp, Unit.Celsius(15), Unit.Celsius(30), Unit.Celsius(0), Unit.Fahrenheit(-40),
                  Unit.Kelvin(273.15), Unit.Rankin(600), 59, -459.67, 1e308, -1e308, INF, -INF, NAN):
            before = q(t) if hasattr(t, "units") else repr(t)
            r = a.get_velocity_for_temp(t)
            after = q(t) if hasattr(t, "units") else repr(t)
            print("   ", before, "|", after, "->", q(r), "same object:", r is a.mv)

    # --- enabled, the division fails: velocity 0 of type int, in m/s
    for mv, mod in ((0, 0.02), (Unit.MPS(0.0), 0.02), (Unit.MPS(-0.0), 5), (Unit.MPS(INF), 0.02), (Unit.MPS(-INF), 0.02),
                    (Unit.MPS(INF), 0), (Unit.MPS(0), 0), (Unit.MPS(0), NAN), (Unit.MPS(NAN), 0.02),
                    (Unit.MPS(5e-324), 0.02), (Unit.MPS(1e-310), 0.02)):
        a = Ammo(DM, mv, Unit.Celsius(15), mod, True)
        for t in (Unit.Celsius(15), Unit.Celsius(45), NAN):
            attempt(f"degenerate {ammo_state(a)} at {t!r}", lambda: q(a.get_velocity_for_temp(t)))
    # errors other than ZeroDivisionError are not swallowed
    a = Ammo(DM, Unit.MPS(800), Unit.Celsius(15), 0.02, True)
    attempt("bad temperature str", lambda: q(a.get_velocity_for_temp("warm")))
    attempt("bad temperature None", lambda: q(a.get_velocity_for_temp(None)))
    attempt("bad temperature unit", lambda: q(a.get_velocity_for_temp(Unit.Meter(3))))
    a.temp_modifier = "x"
    attempt("bad modifier", lambda: q(a.get_velocity_for_temp(Unit.Celsius(3))))
    a.temp_modifier = 0.02
    a.mv = 800
    attempt("mv replaced by a number", lambda: q(a.get_velocity_for_temp(Unit.Celsius(3))))

    # --- calibration from a second measurement: any of the two may be the faster / the warmer one
    for mv, t0, v1, t1 in (
            (Unit.MPS(800), Unit.Celsius(15), Unit.MPS(830), Unit.Celsius(35)),
            (Unit.MPS(800), Unit.Celsius(15), Unit.MPS(770), Unit.Celsius(-5)),
            (Unit.MPS(800), Unit.Celsius(15), Unit.MPS(830), Unit.Celsius(-5)),
            (Unit.MPS(800), Unit.Celsius(15), Unit.MPS(770), Unit.Celsius(35)),
            (Unit.FPS(2550), Unit.Fahrenheit(32), Unit.FPS(2600), Unit.Fahrenheit(59)),
            (Unit.FPS(2600), Unit.Fahrenheit(59), Unit.FPS(2550), Unit.Fahrenheit(32)),
            (Unit.KMH(2880), Unit.Kelvin(288.15), Unit.KT(1600), Unit.Rankin(560)),
            (Unit.MPS(800), Unit.Celsius(15), 2700, 100),
            (Unit.MPS(800), Unit.Celsius(15), Unit.MPS(800.0000000001), Unit.Celsius(15.0000000001)),
            (Unit.MPS(800), Unit.Celsius(15), Unit.MPS(INF), Unit.Celsius(35)),
            (Unit.MPS(800), Unit.Celsius(15), Unit.MPS(830), Unit.Celsius(INF)),
            (Unit.MPS(800), Unit.Celsius(15), Unit.MPS(NAN), Unit.Celsius(35)),
            (Unit.MPS(800), Unit.Celsius(15), Unit.MPS(830), Unit.Celsius(NAN)),
            (Unit.MPS(-800), Unit.Celsius(15), Unit.MPS(-830), Unit.Celsius(35)),
            (Unit.MPS(0), Unit.Celsius(15), Unit.MPS(830), Unit.Celsius(35)),
            # nothing to calibrate from
            (Unit.MPS(800), Unit.Celsius(15), Unit.MPS(800), Unit.Celsius(35)),
            (Unit.MPS(800), Unit.Celsius(15), Unit.MPS(830), Unit.Celsius(15)),
            (Unit.MPS(800), Unit.Celsius(15), Unit.MPS(800), Unit.Celsius(15)),
            (Unit.MPS(800), Unit.Celsius(15), Unit.MPS(800), Unit.Celsius(NAN)),
            (Unit.MPS(800), Unit.Celsius(15), Unit.MPS(NAN), Unit.Celsius(15)),
            (Unit.MPS(0.0), Unit.Celsius(15), Unit.MPS(-0.0), Unit.Celsius(35)),
            # garbage
            (Unit.MPS(800), Unit.Celsius(15), "fast", Unit.Celsius(35)),
            (Unit.MPS(800), Unit.Celsius(15), Unit.MPS(830), "hot"),
            (Unit.MPS(800), Unit.Celsius(15), None, Unit.Celsius(35)),
            (Unit.MPS(800), Unit.Celsius(15), Unit.Celsius(830), Unit.Celsius(35)),
            (Unit.MPS(800), Unit.Celsius(15), Unit.MPS(830), Unit.MPS(35)),
    ):
        for use in (True, False):
            a = Ammo(DM, mv, t0, 0.5, use)
            tag = f"calibrate use={use} {ammo_state(a)} with {q(v1) if hasattr(v1, 'units') else repr(v1)}" \
                  f" {q(t1) if hasattr(t1, 'units') else repr(t1)}"
            try:
                ret = a.calc_powder_sens(v1, t1)
                print(tag, "->", h(ret), "stored", h(a.temp_modifier), "same", ret is a.temp_modifier)
                print("    second point:", q(a.get_velocity_for_temp(t1)), "baseline:", q(a.get_velocity_for_temp(a.powder_temp)),
                      "+15C:", q(a.get_velocity_for_temp(Unit.Celsius((a.powder_temp >> Unit.Celsius) + 15))))
            except Exception as e:
                print(tag, "raised", type(e).__name__, e, "| stored", h(a.temp_modifier))
            # arguments afterwards (their defined units are switched to the preferred ones by the call)
            print("    args after:", q(v1) if hasattr(v1, "units") else repr(v1), q(t1) if hasattr(t1, "units") else repr(t1),
                  "| ammo:", ammo_state(a))

    # --- what the solver launches with
    weapon = Weapon(Unit.Inch(2), Unit.Inch(12), Unit.Mil(1.5))
    for use in (False, True):
        a = Ammo(DM, Unit.MPS(800), Unit.Celsius(15), use_powder_sensitivity=use)
        a.calc_powder_sens(Unit.MPS(780), Unit.Celsius(-10))
        for atmo in (None, Atmo(temperature=Unit.Celsius(-10)), Atmo(temperature=Unit.Celsius(-10), powder_t=Unit.Celsius(30)),
                     Atmo(powder_t=Unit.Fahrenheit(14))):
            calc = Calculator()
            rows = calc.fire(Shot(weapon, a, atmo=atmo), Unit.Meter(200), Unit.Meter(100)).trajectory
            print("fire use", use, h(calc._calc.muzzle_velocity), [h(r.velocity.raw_value) for r in rows],
                  [h(r.height.raw_value) for r in rows])


print("=== default preferred units")
scenario()
print("=== metric preferred units")
PreferredUnits.velocity = Unit.MPS
PreferredUnits.temperature = Unit.Celsius
scenario()
print("=== odd preferred units")
PreferredUnits.velocity = Unit.KT
PreferredUnits.temperature = Unit.Rankin
scenario()
PreferredUnits.defaults()
