"""Equivalence digest for refactoring 2 (Ammo.calc_powder_sens / Ammo.get_velocity_for_temp)."""
import warnings

from py_ballisticcalc import (Calculator, Shot, Weapon, Ammo, Atmo, DragModel, TableG7,
                              Unit, Velocity, Temperature, Distance, PreferredUnits)

warnings.simplefilter("ignore")
out = []


def emit(*parts):
    out.append(" ".join(str(p) for p in parts))


def dm():
    return DragModel(0.223, TableG7, Unit.Grain(168), Unit.Inch(0.308), Unit.Inch(1.282))


def vel_digest(v):
    return (type(v).__name__, repr(v.raw_value), v.units.name)


QUERY = (Temperature.Celsius(15), Temperature.Celsius(-40), Temperature.Celsius(0), Temperature.Celsius(30),
         Temperature.Fahrenheit(59), Temperature.Fahrenheit(-4), Temperature.Kelvin(288.15), Temperature.Kelvin(250),
         Temperature.Rankin(518.67), Temperature.Rankin(600), 59, -40.5, 0, 1e6, float("inf"), float("nan"))


def query(ammo, tag):
    for q in QUERY:
        # a fresh Temperature object each time: the call re-labels the display unit of its argument
        arg = Temperature(q.unit_value, q.units) if isinstance(q, Temperature) else q
        before = arg.units.name if isinstance(arg, Temperature) else None
        try:
            v = ammo.get_velocity_for_temp(arg)
            after = arg.units.name if isinstance(arg, Temperature) else None
            emit(tag, repr(q), before, after, vel_digest(v), v is ammo.mv,
                 repr(ammo.temp_modifier), vel_digest(ammo.mv), repr(ammo.powder_temp.raw_value))
        except Exception as e:  # pylint: disable=broad-except
            emit(tag, repr(q), "raised", type(e).__name__, e)


BASELINES = ((Velocity.MPS(800), Temperature.Celsius(15)), (Velocity.FPS(2750), Temperature.Fahrenheit(70)),
             (2600, None), (Velocity.KMH(2900), Temperature.Kelvin(273.15)), (Velocity.MPS(815), 59))
SECOND = ((Velocity.MPS(780), Temperature.Celsius(-15)), (Velocity.MPS(830), Temperature.Celsius(-15)),
          (Velocity.FPS(2700), Temperature.Fahrenheit(100)), (Velocity.FPS(2900), Temperature.Fahrenheit(100)),
          (2550, 0), (Velocity.MPH(1800), Temperature.Kelvin(300)), (Velocity.KT(1500), Temperature.Rankin(400)))

for pref in (dict(), dict(velocity=Unit.MPS, temperature=Unit.Celsius), dict(velocity=Unit.KMH, temperature=Unit.Kelvin)):
    PreferredUnits.defaults()
    PreferredUnits.set(**pref)
    for mv, t0 in BASELINES:
        for sens in (False, True):
            # 1. modifier given directly (including none at all)
            for modifier in (0, 0.015, -0.02, 1.5, None):
                ammo = Ammo(dm(), mv, t0, modifier, sens)
                query(ammo, f"given {sorted(pref)} {mv!r} {t0!r} {sens} {modifier}")
            # 2. modifier calibrated from a second measurement; must reproduce that measurement
            for v1, t1 in SECOND:
                ammo = Ammo(dm(), mv, t0, use_powder_sensitivity=sens)
                a1 = Velocity(v1.unit_value, v1.units) if isinstance(v1, Velocity) else v1
                b1 = Temperature(t1.unit_value, t1.units) if isinstance(t1, Temperature) else t1
                try:
                    m = ammo.calc_powder_sens(a1, b1)
                except Exception as e:  # pylint: disable=broad-except
                    emit("calib raised", repr(mv), repr(t0), repr(v1), repr(t1), type(e).__name__, e)
                    continue
                emit("calib", sorted(pref), repr(mv), repr(t0), sens, repr(v1), repr(t1), repr(m), m is ammo.temp_modifier,
                     a1.units.name if isinstance(a1, Velocity) else None,
                     b1.units.name if isinstance(b1, Temperature) else None,
                     vel_digest(ammo.get_velocity_for_temp(b1)),
                     repr(PreferredUnits.velocity(v1) >> Velocity.MPS))
                query(ammo, f"calibrated {sorted(pref)} {mv!r} {t0!r} {sens} {v1!r} {t1!r}")
PreferredUnits.defaults()

# 3. degenerate calibrations: same velocity, same temperature, both; the modifier must be left alone
for v1, t1 in ((Velocity.MPS(800), Temperature.Celsius(0)), (Velocity.MPS(790), Temperature.Celsius(15)),
               (Velocity.MPS(800), Temperature.Celsius(15)), (Velocity.MPS(float("nan")), Temperature.Celsius(0)),
               (Velocity.MPS(790), Temperature.Celsius(float("nan"))), (Velocity.MPS(float("inf")), Temperature.Celsius(0))):
    ammo = Ammo(dm(), Velocity.MPS(800), Temperature.Celsius(15), 0.0123, True)
    try:
        emit("degenerate", repr(v1), repr(t1), repr(ammo.calc_powder_sens(v1, t1)), repr(ammo.temp_modifier))
    except Exception as e:  # pylint: disable=broad-except
        emit("degenerate raised", repr(v1), repr(t1), type(e).__name__, e, repr(ammo.temp_modifier))

# 4. degenerate stated velocities: zero (division by zero is answered with 0 m/s), -0.0, inf, nan, negative, tiny
for mv in (0, 0.0, -0.0, Velocity.MPS(0), float("inf"), float("-inf"), float("nan"), -800, 5e-324, 1e308):
    for modifier in (0, 0.0, 0.02, -0.02, float("inf"), float("nan")):
        for sens in (False, True):
            ammo = Ammo(dm(), Velocity.MPS(mv) if not isinstance(mv, Velocity) else mv,
                        Temperature.Celsius(15), modifier, sens)
            for q in (Temperature.Celsius(15), Temperature.Celsius(-20), 1000.0):
                try:
                    emit("edge", repr(mv), repr(modifier), sens, repr(q), vel_digest(ammo.get_velocity_for_temp(q)))
                except Exception as e:  # pylint: disable=broad-except
                    emit("edge raised", repr(mv), repr(modifier), sens, repr(q), type(e).__name__, e)
    ammo = Ammo(dm(), Velocity.MPS(mv) if not isinstance(mv, Velocity) else mv, Temperature.Celsius(15), 0.5, True)
    try:
        emit("edge calib", repr(mv), repr(ammo.calc_powder_sens(Velocity.MPS(700), Temperature.Celsius(0))),
             repr(ammo.temp_modifier))
    except Exception as e:  # pylint: disable=broad-except
        emit("edge calib raised", repr(mv), type(e).__name__, e, repr(ammo.temp_modifier))

# 5. bad arguments raise what they raised before
ammo = Ammo(dm(), Velocity.MPS(800), Temperature.Celsius(15), 0.02, True)
for make_bad in (lambda: "cold", lambda: None, lambda: Distance.Meter(3), lambda: [1]):
    for call in (lambda b: ammo.get_velocity_for_temp(b), lambda b: ammo.calc_powder_sens(Velocity.MPS(780), b),
                 lambda b: ammo.calc_powder_sens(b, Temperature.Celsius(0))):
        bad = make_bad()
        label = repr(bad)
        try:
            r = call(bad)
            emit("bad", label, "returned", vel_digest(r) if isinstance(r, Velocity) else repr(r), repr(ammo.temp_modifier))
        except Exception as e:  # pylint: disable=broad-except
            emit("bad", label, "raised", type(e).__name__, e, repr(ammo.temp_modifier))
        if isinstance(bad, Distance):
            emit("bad", label, "relabelled", int(bad.units), repr(bad.raw_value))

# 6. through the solver: first row of Calculator.fire, powder temperature defaulted to air temperature or given
weapon = Weapon(Unit.Inch(2), Unit.Inch(12))
for sens in (False, True):
    for v1, t1 in SECOND[:4]:
        ammo = Ammo(dm(), Velocity.MPS(800), Temperature.Celsius(15), use_powder_sensitivity=sens)
        ammo.calc_powder_sens(v1, t1)
        for atmo in (Atmo(), Atmo(temperature=t1), Atmo(temperature=Temperature.Celsius(35), powder_t=t1),
                     Atmo(powder_t=Temperature.Celsius(15))):
            hit = Calculator().fire(Shot(weapon=weapon, ammo=ammo, atmo=atmo), Distance.Meter(200), Distance.Meter(100))
            emit("fire", sens, repr(v1), repr(t1), repr(atmo.powder_temp.raw_value),
                 [(repr(r.velocity.raw_value), repr(r.height.raw_value), repr(r.time)) for r in hit])

print("\n".join(out))
