"""Equivalence digest for C17 (powder temperature sensitivity).

Exercises Ammo.calc_powder_sens / Ammo.get_velocity_for_temp / Atmo powder
temperature defaulting / Calculator.fire launch velocity through the public
API and prints repr() of every number.  Must print the same text on the clean
worktree and with the patch applied.
"""
import math
import warnings

from py_ballisticcalc import (Ammo, Atmo, Calculator, DragModel, PreferredUnits, Shot,
                              TableG1, TableG7, Temperature, Unit, Velocity, Weapon, Distance,
                              Vacuum, Wind)

warnings.simplefilter("ignore")
out = []


def show(tag, *vals):
    out.append(tag + ": " + " | ".join(repr(v) for v in vals))


def vel(v):
    """digest of a Velocity (or anything returned instead of it)"""
    if isinstance(v, Velocity):
        return (type(v).__name__, repr(v.raw_value), repr(v.units), repr(v >> Velocity.FPS), str(v))
    return repr(v)


def temp(t):
    try:
        text = str(t)
    except Exception as e:  # pylint: disable=broad-except
        text = "unprintable: " + type(e).__name__
    return (type(t).__name__, repr(t.raw_value), repr(t.units), text)


def attempt(tag, fn):
    try:
        r = fn()
    except Exception as e:  # pylint: disable=broad-except
        show(tag, "EXC", type(e).__name__, str(e))
        return None
    show(tag, r)
    return r


def dm():
    return DragModel(0.223, TableG7, Unit.Grain(168), Unit.Inch(0.308), Unit.Inch(1.282))


QUERY_TEMPS = [Unit.Celsius(-40), Unit.Celsius(0), Unit.Celsius(15), Unit.Celsius(15.000000001),
               Unit.Fahrenheit(59), Unit.Fahrenheit(100), Unit.Kelvin(288.15), Unit.Kelvin(250),
               Unit.Rankin(518.67), Unit.Rankin(600), 59, 59.0, -10, 0, 1e6, -1e6]

# --- 1. plain modifier, sensitivity on / off, many units ------------------------------------
for pu_temp, pu_vel in ((Unit.Fahrenheit, Unit.FPS), (Unit.Celsius, Unit.MPS), (Unit.Kelvin, Unit.KMH)):
    PreferredUnits.temperature = pu_temp
    PreferredUnits.velocity = pu_vel
    for mv, pt, mod in ((Unit.MPS(815), Unit.Celsius(15), 0.123), (Unit.FPS(2600), Unit.Fahrenheit(70), 0.0),
                        (2750, None, 1.5), (Unit.MPS(300), Unit.Kelvin(273.15), -0.8),
                        (Unit.KMH(3000), 20, 2), (0, None, 0.5), (Unit.MPS(-0.0), None, 0.5),
                        (Unit.MPS(math.inf), None, 0.5), (Unit.MPS(1e-320), None, 0.5),
                        (Unit.MPS(800), None, None), (Unit.MPS(800), None, math.nan)):
        for on in (False, True):
            a = Ammo(dm(), mv, pt, mod, on)
            show("ammo", repr(pu_temp), vel(a.mv), temp(a.powder_temp), a.temp_modifier, a.use_powder_sensitivity)
            for q in QUERY_TEMPS:
                q0 = Temperature(q.unit_value, q.units) if isinstance(q, Temperature) else q
                r = a.get_velocity_for_temp(q0)
                show("  v(T)", q, vel(r), r is a.mv,
                     temp(q0) if isinstance(q0, Temperature) else q0)
            # the anchor: stated velocity at the stated temperature
            r = a.get_velocity_for_temp(a.powder_temp)
            show("  anchor", vel(r), temp(a.powder_temp))
PreferredUnits.defaults()

# --- 2. calibration from a second measurement: either one faster / warmer --------------------
PAIRS = [
    (Unit.MPS(815), Unit.Celsius(15), Unit.MPS(830), Unit.Celsius(30)),    # second faster & warmer
    (Unit.MPS(815), Unit.Celsius(15), Unit.MPS(800), Unit.Celsius(0)),     # second slower & colder
    (Unit.MPS(815), Unit.Celsius(15), Unit.MPS(800), Unit.Celsius(30)),    # second slower & warmer
    (Unit.MPS(815), Unit.Celsius(15), Unit.MPS(830), Unit.Celsius(-5)),    # second faster & colder
    (Unit.FPS(2600), Unit.Fahrenheit(59), Unit.FPS(2550), Unit.Celsius(0)),
    (Unit.FPS(2600), Unit.Fahrenheit(59), 2723, 0),                        # bare numbers, preferred units
    (Unit.KMH(2900), Unit.Kelvin(300), Unit.KT(1500), Unit.Rankin(500)),
    (Unit.MPS(815), Unit.Celsius(15), Unit.MPS(815), Unit.Celsius(30)),    # same velocity -> ValueError
    (Unit.MPS(815), Unit.Celsius(15), Unit.MPS(830), Unit.Celsius(15)),    # same temperature -> ValueError
    (Unit.MPS(815), Unit.Celsius(15), Unit.MPS(815), Unit.Celsius(15)),    # both same -> ValueError
    (Unit.MPS(0), Unit.Celsius(15), Unit.MPS(830), Unit.Celsius(30)),      # v0 == 0 -> ZeroDivisionError
    (Unit.MPS(815), Unit.Celsius(15), Unit.MPS(math.nan), Unit.Celsius(30)),
    (Unit.MPS(815), Unit.Celsius(15), Unit.MPS(830), Unit.Celsius(math.inf)),
    (Unit.MPS(math.inf), Unit.Celsius(15), Unit.MPS(830), Unit.Celsius(30)),
]
for pu_temp, pu_vel in ((Unit.Fahrenheit, Unit.FPS), (Unit.Celsius, Unit.MPS)):
    PreferredUnits.temperature = pu_temp
    PreferredUnits.velocity = pu_vel
    for v0, t0, v1, t1 in PAIRS:
        for on in (True, False):
            a = Ammo(dm(), Velocity(v0.unit_value, v0.units), Temperature(t0.unit_value, t0.units), 0.77, on)
            v1c = Velocity(v1.unit_value, v1.units) if isinstance(v1, Velocity) else v1
            t1c = Temperature(t1.unit_value, t1.units) if isinstance(t1, Temperature) else t1
            show("pair", repr(pu_temp), vel(a.mv), temp(a.powder_temp), v1, t1, on)
            m = attempt("  calc_powder_sens", lambda: a.calc_powder_sens(v1c, t1c))
            show("  modifier", a.temp_modifier, m is None or m == a.temp_modifier or (m != m))
            if isinstance(v1c, Velocity):
                show("  arg units after", vel(v1c))
            if isinstance(t1c, Temperature):
                show("  arg temp after", temp(t1c))
            for q in (t1c, a.powder_temp, Unit.Celsius(-20), Unit.Fahrenheit(120), 33):
                r = attempt("  v(T) call", lambda: vel(a.get_velocity_for_temp(q)))
PreferredUnits.defaults()

# --- 3. Atmo: powder temperature is air temperature unless given --------------------------------
for pu_temp in (Unit.Fahrenheit, Unit.Celsius):
    PreferredUnits.temperature = pu_temp
    for kwargs in ({}, {"temperature": Unit.Celsius(-5)}, {"powder_t": Unit.Celsius(35)},
                   {"temperature": Unit.Fahrenheit(100), "powder_t": Unit.Kelvin(260)},
                   {"temperature": 40, "powder_t": 0}, {"powder_t": 0.0},
                   {"altitude": Unit.Meter(2000)}, {"altitude": Unit.Meter(1500), "powder_t": Unit.Rankin(500)},
                   {"temperature": 0}):
        at = Atmo(**kwargs)
        show("atmo", repr(pu_temp), sorted(kwargs), temp(at.temperature), temp(at.powder_temp),
             at.powder_temp is at.temperature, at.density_ratio, at.mach.raw_value)
        for k, v in kwargs.items():
            if isinstance(v, Temperature):
                show("  given object", k, temp(v), v is at.temperature, v is at.powder_temp)
    ic = Atmo.icao(Unit.Meter(500), Unit.Celsius(3))
    show("icao", temp(ic.temperature), temp(ic.powder_temp), ic.powder_temp is ic.temperature)
    vc = Vacuum(Unit.Meter(100), Unit.Celsius(-30))
    show("vacuum", temp(vc.temperature), temp(vc.powder_temp), vc.powder_temp is vc.temperature)
PreferredUnits.defaults()

# --- 4. the solver launches with the velocity for the atmosphere's powder temperature ------------
calc = Calculator()
weapon = Weapon(Unit.Inch(2), Unit.Inch(12))


def first_rows(shot, rng=Distance.Yard(300), step=Distance.Yard(100), **kw):
    res = calc.fire(shot, rng, step, **kw)
    return [(repr(p.time), repr(p.distance.raw_value), repr(p.velocity.raw_value), repr(p.mach),
             repr(p.height.raw_value), repr(p.windage.raw_value), repr(p.energy.raw_value), p.flag)
            for p in res.trajectory]


for pu_temp in (Unit.Fahrenheit, Unit.Celsius):
    PreferredUnits.temperature = pu_temp
    for on in (False, True):
        ammo = Ammo(dm(), Unit.FPS(2600), Unit.Celsius(15), 0, on)
        attempt("solver calc", lambda: ammo.calc_powder_sens(Unit.FPS(2550), Unit.Celsius(0)))
        atmos = [None, Atmo.icao(), Atmo(temperature=Unit.Celsius(-5)), Atmo(powder_t=Unit.Celsius(-5)),
                 Atmo(temperature=Unit.Celsius(35), powder_t=Unit.Celsius(-20)),
                 Atmo(altitude=Unit.Meter(1500), temperature=Unit.Fahrenheit(20)),
                 Atmo(powder_t=Unit.Kelvin(330)), Vacuum(temperature=Unit.Celsius(40))]
        for at in atmos:
            shot = Shot(weapon=weapon, ammo=ammo, atmo=at, winds=[Wind(Unit.MPH(5), Unit.Degree(90))])
            before = temp(shot.atmo.powder_temp)
            rows = attempt("solver fire", lambda: first_rows(shot))
            show("  powder temp before/after", on, before, temp(shot.atmo.powder_temp), temp(shot.atmo.temperature),
                 vel(ammo.get_velocity_for_temp(shot.atmo.powder_temp)))
            show("  calc state", calc._calc.muzzle_velocity, calc._calc.stability_coefficient,
                 calc._calc.calc_step, calc._calc.alt0, calc._calc.barrel_elevation)
        # zeroing + second call on the same objects (call history)
        shot = Shot(weapon=Weapon(Unit.Inch(2), Unit.Inch(12)), ammo=ammo, atmo=Atmo(powder_t=Unit.Celsius(-15)),
                    look_angle=Unit.Degree(3), cant_angle=Unit.Degree(5))
        z = attempt("zero", lambda: repr(calc.set_weapon_zero(shot, Distance.Yard(200)).raw_value))
        attempt("fire after zero", lambda: first_rows(shot, Distance.Yard(400), Distance.Yard(200), extra_data=True)[:6])
        attempt("fire again", lambda: first_rows(shot, Distance.Yard(400), Distance.Yard(200))[:3])
    # degenerate ammo: zero stated velocity with sensitivity on -> launch velocity 0
    ammo0 = Ammo(dm(), 0, None, 0.5, True)
    attempt("fire v0=0", lambda: first_rows(Shot(weapon=weapon, ammo=ammo0), Distance.Yard(10), Distance.Yard(5)))
PreferredUnits.defaults()

# --- 5. odd arguments: order of failure / fallback, truthiness of the switches -------------------
for mv in (Unit.MPS(800), 0):
    for flag in (True, False, 1, 0, "yes", "", None):
        for mod in (0.4, 0, 0.0, None, False, True, -0.0):
            a = attempt("odd ammo", lambda: Ammo(dm(), mv, None, mod, flag))
            if a is None:
                continue
            show("  odd fields", vel(a.mv), temp(a.powder_temp), a.temp_modifier, a.use_powder_sensitivity)
            for q in (None, "15", Unit.Meter(3), Unit.Celsius(40), [1], True):
                attempt("  odd v(T) " + repr(q), lambda: vel(a.get_velocity_for_temp(q)))
                if isinstance(q, Distance):
                    show("    units after", repr(q.units))
    a = Ammo(dm(), mv, Unit.Celsius(10), 0.3, True)
    for ov, ot in ((None, Unit.Celsius(30)), (Unit.MPS(820), None), ("820", 30), (Unit.Celsius(3), Unit.Celsius(30)),
                   (Unit.MPS(820), Unit.MPS(30)), (Unit.MPS(820), Unit.Celsius(10)), (mv, Unit.Celsius(30))):
        attempt("  odd calc " + repr((ov, ot)), lambda: a.calc_powder_sens(ov, ot))
        show("    modifier after", a.temp_modifier)
# keyword / positional construction and dataclass behaviour of Ammo
a1 = Ammo(dm=dm(), mv=Unit.MPS(800), powder_temp=Unit.Celsius(20), temp_modifier=0.7, use_powder_sensitivity=True)
a2 = Ammo(dm(), Unit.MPS(800), Unit.Celsius(20), 0.7, True)
show("dataclass", [f for f in a1.__dataclass_fields__], a1.mv == a2.mv, a1.powder_temp == a2.powder_temp,
     sorted(vars(a1)), repr(a1).split("dm=")[0], repr(a1).split("mv=")[1])

# --- 6. Atmo constructor with every argument given / omitted; degenerate ranges in the solver ----
for pu_temp in (Unit.Fahrenheit, Unit.Kelvin):
    PreferredUnits.temperature = pu_temp
    for args in ((), (Unit.Meter(300),), (Unit.Meter(300), Unit.hPa(950)), (None, Unit.MmHg(700), None, 40),
                 (Unit.Foot(5000), Unit.InHg(25), Unit.Celsius(2), 80, Unit.Celsius(21)),
                 (0, 29.0, 70, 0, 30), (None, None, None, 0.0, Unit.Fahrenheit(10)),
                 (Unit.Meter(300), None, "cold"), (Unit.Meter(300), None, None, 0, "warm"), (None, None, None, 120)):
        try:
            at = Atmo(*args)
        except Exception as e:  # pylint: disable=broad-except
            show("atmo6 " + repr(args), "EXC", type(e).__name__, str(e))
            continue
        show("atmo6 " + repr(args), "constructed")
        show("  atmo6 state", temp(at.temperature), temp(at.powder_temp), at.powder_temp is at.temperature,
             repr(at.pressure.raw_value), repr(at.pressure.units), repr(at.altitude.raw_value), at.humidity,
             at.density_ratio, at.mach.raw_value, at._t0, at._p0, at._a0)
        for arg in args:
            if isinstance(arg, Temperature):
                show("  atmo6 arg", temp(arg), arg is at.temperature, arg is at.powder_temp)
PreferredUnits.defaults()
ammo = Ammo(dm(), Unit.FPS(2600), Unit.Celsius(15), 0.2, True)
for at in (Atmo(powder_t=Unit.Celsius(-30)), Atmo(temperature=Unit.Celsius(45))):
    for cant, rel in ((0, 0), (Unit.Degree(30), Unit.Mil(5)), (Unit.Degree(-90), Unit.Degree(1))):
        shot = Shot(weapon=Weapon(Unit.Inch(3), Unit.Inch(-9), Unit.Mil(2)), ammo=ammo, atmo=at,
                    cant_angle=cant, relative_angle=rel, look_angle=Unit.Degree(-2))
        for rng, step in ((Distance.Yard(-1), Distance.Yard(1)), (Distance.Yard(0), Distance.Yard(1)),
                          (Distance.Foot(1), Distance.Foot(0.1)), (Distance.Yard(150), 0)):
            attempt("fire6 " + repr((rng, step)), lambda: first_rows(shot, rng, step)[:3])
            show("  calc6", calc._calc.muzzle_velocity, calc._calc.stability_coefficient, calc._calc.alt0,
                 calc._calc.calc_step, calc._calc.look_angle, calc._calc.twist, calc._calc.length,
                 calc._calc.diameter, calc._calc.weight, calc._calc.barrel_elevation, calc._calc.barrel_azimuth,
                 calc._calc.sight_height, calc._calc.cant_cosine, calc._calc.cant_sine, len(calc.cdm))
# a broken shot: the order in which the calculator's fields get (re)assigned before the failure is visible
def state(c):
    d = vars(c._calc)
    return [(k, repr(d[k]) if isinstance(d[k], (int, float)) else type(d[k]).__name__) for k in sorted(d)]


def vels(c, shot):
    return [repr(p.velocity.raw_value) for p in c.fire(shot, Distance.Yard(100), Distance.Yard(50)).trajectory]


calc2 = Calculator()
good = Shot(weapon=Weapon(Unit.Inch(2), Unit.Inch(12)), ammo=ammo, atmo=Atmo(powder_t=Unit.Celsius(0)))
attempt("good fire", lambda: vels(calc2, good))
show("  calc after good", state(calc2))
for breaker in ("atmo", "ammo.mv", "weapon.twist", "ammo.powder_temp", "ammo.dm", "cant"):
    bad = Shot(weapon=Weapon(Unit.Inch(4), Unit.Inch(7)), ammo=Ammo(dm(), Unit.FPS(3000), Unit.Celsius(15), 0.5, True),
               atmo=Atmo(altitude=Unit.Foot(4000), powder_t=Unit.Celsius(40)), look_angle=Unit.Degree(4))
    if breaker == "atmo":
        bad.atmo = None
    elif breaker == "ammo.mv":
        bad.ammo.mv = None
    elif breaker == "weapon.twist":
        bad.weapon.twist = None
    elif breaker == "ammo.dm":
        bad.ammo.dm = None
    elif breaker == "cant":
        bad.cant_angle = None
    else:
        bad.ammo.powder_temp = "hot"
    attempt("bad fire " + breaker, lambda: vels(calc2, bad))
    show("  calc after failure", state(calc2))
    c3 = Calculator()
    attempt("bad fire fresh " + breaker, lambda: vels(c3, bad))
    show("  fresh calc fields", state(c3))
    attempt("bad zero fresh " + breaker, lambda: repr(Calculator().set_weapon_zero(bad, Distance.Yard(100)).raw_value))

text = "\n".join(out)
print(text)
import hashlib
print("LINES", len(out), "SHA256", hashlib.sha256(text.encode()).hexdigest())
