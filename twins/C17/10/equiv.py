"""Equivalence digest for refactoring 1 (solver entry points: Calculator.fire ->
TrajectoryCalc.trajectory / zero_angle -> _init_trajectory -> launch velocity)."""
import warnings

from py_ballisticcalc import (Calculator, Shot, Weapon, Ammo, Atmo, Wind, DragModel, TableG7, TableG1,
                              Unit, Velocity, Temperature, Distance, Angular, PreferredUnits)
from py_ballisticcalc.exceptions import ZeroFindingError, RangeError

warnings.simplefilter("ignore")
out = []


def emit(*parts):
    out.append(" ".join(str(p) for p in parts))


def row_digest(row):
    return (repr(row.time), repr(row.distance.raw_value), repr(row.velocity.raw_value), repr(row.mach),
            repr(row.height.raw_value), repr(row.windage.raw_value), repr(row.angle.raw_value),
            repr(row.drag), repr(row.energy.raw_value), int(row.flag), row.velocity.units.name)


def make_ammo(sens, modifier=0.0, mv=Velocity.MPS(800), t0=Temperature.Celsius(15)):
    dm = DragModel(0.223, TableG7, Unit.Grain(168), Unit.Inch(0.308), Unit.Inch(1.282))
    return Ammo(dm, mv, t0, modifier, sens)


weapon = Weapon(Unit.Inch(2), Unit.Inch(12))

# 1. launch velocity = first row of fire(), sensitivity on/off, powder temperature given / defaulted
for sens in (False, True):
    for atmo_kw in (dict(), dict(temperature=Temperature.Celsius(-10)),
                    dict(temperature=Temperature.Celsius(30), powder_t=Temperature.Celsius(-5)),
                    dict(temperature=Temperature.Fahrenheit(100), powder_t=Temperature.Kelvin(300)),
                    dict(altitude=Distance.Meter(1500), powder_t=40.0)):
        ammo = make_ammo(sens)
        ammo.calc_powder_sens(Velocity.MPS(780), Temperature.Celsius(-15))
        atmo = Atmo(**atmo_kw)
        shot = Shot(weapon=weapon, ammo=ammo, atmo=atmo)
        calc = Calculator()
        for step, extra, tstep in ((0, False, 0.0), (Distance.Meter(100), False, 0.0),
                                   (Distance.Yard(50), True, 0.0), (Distance.Meter(250), False, 0.05)):
            hit = calc.fire(shot, Distance.Meter(500), step, extra, tstep)
            emit("fire", sens, sorted(atmo_kw), repr(step), extra, tstep, len(hit.trajectory),
                 row_digest(hit[0]), row_digest(hit[-1]),
                 repr(ammo.get_velocity_for_temp(atmo.powder_temp) >> Velocity.FPS),
                 repr(calc._calc.muzzle_velocity))

# 2. float range / float step in preferred units, the second measurement slower or faster
PreferredUnits.distance = Unit.Meter
for v1, t1 in ((780, -15), (820, -15), (780, 40), (820, 40)):
    ammo = make_ammo(True)
    ammo.calc_powder_sens(Velocity.MPS(v1), Temperature.Celsius(t1))
    shot = Shot(weapon=weapon, ammo=ammo, atmo=Atmo(powder_t=Temperature.Celsius(t1)))
    hit = Calculator().fire(shot, 300, 75)
    emit("calibrated", v1, t1, repr(ammo.temp_modifier), [row_digest(r)[:3] for r in hit])
    hit = Calculator().fire(shot, 300)
    emit("calibrated-default-step", v1, t1, [row_digest(r)[:3] for r in hit])
PreferredUnits.defaults()

# 3. zeroing: normal convergence, different accuracies / iteration limits, look angle, errors
for cfg in (None, dict(cMaxIterations=1), dict(cMaxIterations=2), dict(cMaxIterations=0),
            dict(cZeroFindingAccuracy=0.0), dict(cZeroFindingAccuracy=-1.0), dict(cZeroFindingAccuracy=1e-12),
            dict(cZeroFindingAccuracy=1e-12, cMaxIterations=3), dict(cZeroFindingAccuracy=0.5),
            dict(cZeroFindingAccuracy=float("nan")), dict(cMaxIterations=2.5),
            dict(cMinimumVelocity=2000.0)):
    for look in (0, 5):
        for sens in (False, True):
            ammo = make_ammo(sens, 0.02)
            shot = Shot(weapon=Weapon(Unit.Inch(2), Unit.Inch(12)), ammo=ammo, look_angle=Unit.Degree(look),
                        atmo=Atmo(temperature=Temperature.Celsius(0)))
            calc = Calculator(_config=cfg)
            try:
                elev = calc.set_weapon_zero(shot, Distance.Meter(200))
                emit("zero", cfg, look, sens, repr(elev.raw_value), elev.units.name,
                     repr(calc._calc.barrel_elevation), repr(calc._calc.muzzle_velocity),
                     repr(shot.weapon.zero_elevation.raw_value))
            except ZeroFindingError as e:
                emit("zero-error", cfg, look, sens, repr(e.zero_finding_error), e.iterations_count,
                     repr(e.last_barrel_elevation.raw_value), str(e), repr(calc._calc.barrel_elevation))
            except RangeError as e:
                emit("range-error", cfg, look, sens, e.reason, len(e.incomplete_trajectory),
                     repr(calc._calc.barrel_elevation))
            # the solver is reusable: a following shot starts from its own launch velocity
            try:
                hit = calc.fire(shot, Distance.Meter(300), Distance.Meter(100))
                emit("after-zero", row_digest(hit[0])[:3], row_digest(hit[-1])[:5])
            except RangeError as e:
                emit("after-zero range-error", e.reason, len(e.incomplete_trajectory))

# 4. call history: one Calculator, ammunition and atmosphere changed between shots
calc = Calculator()
ammo = make_ammo(True, 0.05)
for temp_c in (15, -30, 45, 15):
    for flag in (True, False):
        ammo.use_powder_sensitivity = flag
        shot = Shot(weapon=weapon, ammo=ammo, atmo=Atmo(temperature=Temperature.Celsius(temp_c)))
        hit = calc.fire(shot, Distance.Yard(200), Distance.Yard(100))
        emit("history", temp_c, flag, row_digest(hit[0])[:3], repr(calc._calc.muzzle_velocity))
        z = calc.barrel_elevation_for_target(shot, Distance.Yard(100))
        emit("history-zero", temp_c, flag, repr(z.raw_value), repr(calc._calc.muzzle_velocity))

print("\n".join(out))
