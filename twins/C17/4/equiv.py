"""Equivalence digest for C17 / refactoring 1 (solver: launch state, loop bound, termination reason).

Run:  cd /tmp/wt/C17 && PYTHONPATH=/tmp/wt/C17 /venv/bin/python /tmp/twins2/C17/1/equiv.py
Prints a deterministic text; it must be identical with and without the patch.
"""
import math
import warnings

warnings.simplefilter("ignore")

from py_ballisticcalc import (Ammo, Atmo, Calculator, DragModel, PreferredUnits, Shot, TableG1, TableG7, Unit,
                              Vacuum, Weapon, Wind)
from py_ballisticcalc.exceptions import RangeError
from py_ballisticcalc.trajectory_calc import TrajectoryCalc
from py_ballisticcalc.unit import Angular, Distance, Temperature, Velocity


def h(x):
    """bit-exact text of a number"""
    if isinstance(x, float):
        return x.hex()
    return repr(x)


def row_digest(r):
    return " ".join((
        h(r.time), h(r.distance.raw_value), h(r.velocity.raw_value), h(r.mach), h(r.height.raw_value),
        h(r.target_drop.raw_value), h(r.drop_adj.raw_value), h(r.windage.raw_value), h(r.windage_adj.raw_value),
        h(r.look_distance.raw_value), h(r.angle.raw_value), h(r.density_factor), h(r.drag),
        h(r.energy.raw_value), h(r.ogw.raw_value), repr(int(r.flag)),
    ))


def dump(tag, rows, every=1):
    print(tag, "rows", len(rows))
    for i, r in enumerate(rows):
        if i % every == 0 or i == len(rows) - 1:
            print("  ", i, row_digest(r))


def make_ammo(mv=Unit.MPS(800), t0=Unit.Celsius(15), table=TableG7, bc=0.223, **kw):
    dm = DragModel(bc, table, Unit.Grain(168), Unit.Inch(0.308), Unit.Inch(1.282))
    return Ammo(dm, mv, t0, **kw)


def fire(tag, shot, rng, step=0, config=None, every=1, **kw):
    calc = Calculator(_config=config)
    try:
        res = calc.fire(shot, rng, step, **kw)
        dump(tag, res.trajectory, every)
    except RangeError as e:
        print(tag, "RangeError", e.reason, h(e.last_distance.raw_value) if e.last_distance is not None else None)
        dump(tag + " partial", e.incomplete_trajectory, every)
    except Exception as e:  # any other failure must be the same failure
        print(tag, "raised", type(e).__name__, e)
    print(tag, "solver mv", h(calc._calc.muzzle_velocity), "elev", h(calc._calc.barrel_elevation))


weapon = Weapon(Unit.Inch(2), Unit.Inch(12), Unit.Mil(1.5))

# 1. launch velocity for the atmosphere's powder temperature: default (air temp), explicit, sensitivity off
for use in (False, True):
    for label, atmo in (
            ("icao", None),
            ("cold-air", Atmo(temperature=Unit.Celsius(-20))),
            ("hot-powder", Atmo(temperature=Unit.Celsius(-20), powder_t=Unit.Fahrenheit(110))),
            ("kelvin-powder", Atmo(altitude=Unit.Meter(1500), powder_t=Unit.Kelvin(250))),
            ("vacuum", Vacuum(Unit.Meter(200), Unit.Celsius(35))),
    ):
        ammo = make_ammo(use_powder_sensitivity=use)
        ammo.calc_powder_sens(Unit.MPS(830), Unit.Celsius(35))
        shot = Shot(weapon, ammo, atmo=atmo)
        fire(f"launch use={use} {label}", shot, Unit.Meter(300), Unit.Meter(100))

# 2. calibrated with the second measurement slower / colder, azimuth + elevation + cant + look angle
ammo = make_ammo(mv=Unit.FPS(2750), t0=Unit.Fahrenheit(70), table=TableG1, bc=0.45, use_powder_sensitivity=True)
ammo.calc_powder_sens(Unit.FPS(2600), Unit.Fahrenheit(10))
shot = Shot(weapon, ammo, look_angle=Unit.Degree(7), relative_angle=Unit.Mil(3), cant_angle=Unit.Degree(12),
            atmo=Atmo(Unit.Foot(3000), Unit.InHg(27.1), Unit.Fahrenheit(25), 60, Unit.Fahrenheit(95)),
            winds=[Wind(Unit.MPH(8), Unit.Degree(70), Unit.Yard(200)), Wind(Unit.MPH(15), Unit.Degree(-120), Unit.Yard(600))])
shot.barrel_azimuth  # property access only
fire("angled", shot, Unit.Yard(700), Unit.Yard(100), extra_data=False)
fire("angled extra", shot, Unit.Yard(250), Unit.Yard(50), every=37, extra_data=True)
fire("angled time-step", shot, Unit.Yard(300), Unit.Yard(150), time_step=0.05, every=3)

# 3. zeroing uses the same launch velocity
calc = Calculator()
ammo = make_ammo(use_powder_sensitivity=True, temp_modifier=0.011)
shot = Shot(Weapon(Unit.Centimeter(9), Unit.Inch(-10)), ammo, atmo=Atmo(powder_t=Unit.Celsius(-25)))
zero = calc.set_weapon_zero(shot, Unit.Meter(250))
print("zero", h(zero.raw_value), h(calc._calc.muzzle_velocity))
dump("after zero", calc.fire(shot, Unit.Meter(500), Unit.Meter(125)).trajectory)

# 4. every way the integration loop terminates
ammo = make_ammo(use_powder_sensitivity=True, temp_modifier=0.008)
atmo = Atmo(powder_t=Unit.Celsius(40))
fire("min-velocity", Shot(weapon, ammo, atmo=atmo), Unit.Meter(6000), Unit.Meter(1000))
fire("min-velocity default step", Shot(weapon, ammo, atmo=atmo), Unit.Meter(6000), every=4)
fire("min-velocity real", Shot(weapon, ammo, atmo=atmo), Unit.Meter(3000), Unit.Meter(500),
     config={"cMinimumVelocity": 1500.0})
fire("max-drop", Shot(weapon, ammo, atmo=atmo), Unit.Meter(3000), Unit.Meter(500), config={"cMaximumDrop": -50.0})
fire("min-altitude", Shot(weapon, ammo, atmo=Atmo(altitude=Unit.Foot(20), powder_t=Unit.Celsius(40))),
     Unit.Meter(3000), Unit.Meter(500), config={"cMinimumAltitude": 0.0})
fire("all three at once", Shot(weapon, ammo, atmo=Atmo(altitude=Unit.Foot(0), powder_t=Unit.Celsius(40))),
     Unit.Meter(3000), Unit.Meter(500),
     config={"cMinimumAltitude": 1e9, "cMaximumDrop": 1e9, "cMinimumVelocity": 1e9})
fire("drop and altitude", Shot(weapon, ammo, atmo=Atmo(altitude=Unit.Foot(0), powder_t=Unit.Celsius(40))),
     Unit.Meter(3000), Unit.Meter(500), config={"cMinimumAltitude": 1e9, "cMaximumDrop": 1e9})
fire("zero mv", Shot(weapon, make_ammo(mv=0, use_powder_sensitivity=True, temp_modifier=2), atmo=atmo),
     Unit.Meter(100), Unit.Meter(10))
fire("negative launch velocity", Shot(weapon, make_ammo(use_powder_sensitivity=True, temp_modifier=30),
                                      atmo=Atmo(powder_t=Unit.Celsius(-40))), Unit.Meter(100), Unit.Meter(10))
fire("very short", Shot(weapon, ammo, atmo=atmo, winds=[]), Unit.Centimeter(5))
fire("zero range", Shot(weapon, ammo, atmo=atmo), Unit.Meter(0), Unit.Meter(1))
fire("straight up", Shot(weapon, ammo, relative_angle=Unit.Degree(90), atmo=atmo), Unit.Meter(10), Unit.Meter(1),
     every=50, time_step=0.5)
fire("nan velocity", Shot(weapon, make_ammo(mv=float("nan"), use_powder_sensitivity=True), atmo=atmo),
     Unit.Meter(10), Unit.Meter(5))

# 5. the loop that never runs (negative range): the two-row fallback reports the launch state itself
tc = TrajectoryCalc(Calculator()._calc._config)
shot = Shot(weapon, ammo, relative_angle=Unit.Degree(3), cant_angle=Unit.Degree(30), atmo=atmo)
shot.weapon.zero_elevation = Unit.Mil(2)
for rng, step in ((Distance.Foot(-10), Distance.Foot(1)), (Distance.Foot(-0.25), Distance.Foot(0.1)),
                  (Distance.Foot(-0.25), Distance.Foot(0.3))):
    try:
        dump(f"never-runs {rng.raw_value!r} {step.raw_value!r}", tc.trajectory(shot, rng, step))
    except Exception as e:  # the fallback row divides by the initial mach (0.0)
        print(f"never-runs {rng.raw_value!r} {step.raw_value!r}", "raised", type(e).__name__, e)
    print("   mv", h(tc.muzzle_velocity), h(shot.ammo.get_velocity_for_temp(shot.atmo.powder_temp) >> Velocity.FPS))

# 6. preferred units changed: still the same launch velocity
PreferredUnits.velocity = Unit.MPS
PreferredUnits.temperature = Unit.Celsius
PreferredUnits.distance = Unit.Meter
ammo = make_ammo(mv=790, t0=20, use_powder_sensitivity=True)
print("modifier", h(ammo.calc_powder_sens(760, -10)))
fire("metric", Shot(weapon, ammo, atmo=Atmo(temperature=-10)), 400, 200)
fire("metric powder", Shot(weapon, ammo, atmo=Atmo(temperature=-10, powder_t=33.3)), 400, 200)
PreferredUnits.defaults()
