"""Equivalence digest for C17 / refactoring 3 (conditions.py: Atmo.__init__, Atmo.icao, Vacuum, Shot.__init__;
_trajectory_calc.py: TrajectoryCalc._init_trajectory).

Run:  cd /tmp/wt/C17 && PYTHONPATH=/tmp/wt/C17 /venv/bin/python /tmp/twins2/C17/3/equiv.py
Prints a deterministic text; it must be identical with and without the patch.
"""
import warnings

warnings.simplefilter("ignore")

from py_ballisticcalc import (Ammo, Atmo, Calculator, DragModel, PreferredUnits, Shot, TableG1, TableG7, Unit,
                              Vacuum, Weapon, Wind)
from py_ballisticcalc.exceptions import RangeError

NAN = float("nan")


def h(x):
    if isinstance(x, float):
        return x.hex()
    return f"{type(x).__name__}:{x!r}"


def q(u):
    if hasattr(u, "units"):
        return f"<{type(u).__name__} {h(u.raw_value)} in {u.units!r}>"
    return repr(u)


def atmo_state(a):
    return " ".join((
        "alt", q(a.altitude), "p", q(a.pressure), "t", q(a.temperature), "pt", q(a.powder_temp),
        "pt-is-t", repr(a.powder_temp is a.temperature), "hum", h(a.humidity), "mach", h(a.mach.raw_value),
        "dr", h(a.density_ratio), "a0", h(a._a0), "t0", h(a._t0), "p0", h(a._p0), "m", h(a._mach),
        "init", repr(a._initializing), type(a).__name__,
    ))


def attempt(tag, fn):
    try:
        print(tag, "->", fn())
    except Exception as e:  # same exception, same text
        print(tag, "raised", type(e).__name__, e)


def make_ammo(use=True, mv=None, t0=None):
    dm = DragModel(0.223, TableG7, Unit.Grain(168), Unit.Inch(0.308), Unit.Inch(1.282))
    a = Ammo(dm, Unit.MPS(800) if mv is None else mv, Unit.Celsius(15) if t0 is None else t0,
             use_powder_sensitivity=use)
    a.calc_powder_sens(Unit.MPS(830), Unit.Celsius(35))
    return a


def launch(tag, shot, rng=Unit.Meter(200), step=Unit.Meter(100)):
    calc = Calculator()
    try:
        rows = calc.fire(shot, rng, step).trajectory
    except RangeError as e:
        print(tag, "RangeError", e.reason)
        rows = e.incomplete_trajectory
    except Exception as e:
        print(tag, "raised", type(e).__name__, e)
        return
    c = calc._calc
    print(tag, "mv", h(c.muzzle_velocity), "expected",
          h(shot.ammo.get_velocity_for_temp(shot.atmo.powder_temp) >> Unit.FPS),
          "stab", h(c.stability_coefficient), "alt0", h(c.alt0), "bc", h(c._bc), "len", h(c.length), "dia", h(c.diameter),
          "w", h(c.weight), "tw", h(c.twist), "sh", h(c.sight_height), "el", h(c.barrel_elevation),
          "az", h(c.barrel_azimuth), "la", h(c.look_angle), "cant", h(c.cant_cosine), h(c.cant_sine), "step", h(c.calc_step),
          "curve", len(c._curve), "table-is", c.table_data is shot.ammo.dm.drag_table)
    for r in rows:
        print("    ", h(r.time), h(r.distance.raw_value), h(r.velocity.raw_value), h(r.mach), h(r.height.raw_value),
              h(r.windage.raw_value), h(r.density_factor), h(r.drag), h(r.energy.raw_value), int(r.flag))


def scenario():
    # --- Atmo(): every combination of given / omitted parameters
    alts = (None, 0, Unit.Meter(1500), -200, Unit.Foot(40000))
    press = (None, Unit.hPa(950), 28.5, 0)
    temps = (None, Unit.Celsius(-20), 95, Unit.Kelvin(300), 0)
    powders = (None, Unit.Celsius(30), 10, Unit.Rankin(500), 0, Unit.Celsius(0))
    n = 0
    for alt in alts:
        for p in press:
            for t in temps:
                for pt in powders:
                    n += 1
                    if n % 7 != 1:  # a seventh of the grid (7 is coprime to every axis length) is plenty
                        continue
                    args = [x if not hasattr(x, "units") else type(x)(x.unit_value, x.units) for x in (alt, p, t, pt)]
                    before = " ".join(q(x) for x in args)
                    try:
                        a = Atmo(args[0], args[1], args[2], 35.0, args[3])
                        print("Atmo", before, "=>", atmo_state(a))
                        print("     args after:", " ".join(q(x) for x in args),
                              "identity:", a.altitude is args[0], a.pressure is args[1], a.temperature is args[2],
                              a.powder_temp is args[3])
                    except Exception as e:
                        print("Atmo", before, "raised", type(e).__name__, e)
    # keyword use, defaults, bad humidity (raised after the temperatures have been stored)
    attempt("Atmo()", lambda: atmo_state(Atmo()))
    attempt("Atmo(powder_t=)", lambda: atmo_state(Atmo(powder_t=Unit.Fahrenheit(100))))
    attempt("Atmo(temperature=)", lambda: atmo_state(Atmo(temperature=Unit.Fahrenheit(100))))
    attempt("Atmo(humidity=101)", lambda: atmo_state(Atmo(humidity=101)))
    attempt("Atmo(humidity=-1)", lambda: atmo_state(Atmo(temperature=Unit.Celsius(3), humidity=-1)))
    attempt("Atmo(temperature=str)", lambda: atmo_state(Atmo(temperature="hot")))
    attempt("Atmo(powder_t=str)", lambda: atmo_state(Atmo(powder_t="hot")))
    attempt("Atmo(pressure=Distance)", lambda: atmo_state(Atmo(pressure=Unit.Meter(3))))
    attempt("Atmo(powder_t=Distance)", lambda: atmo_state(Atmo(powder_t=Unit.Meter(3))))
    attempt("Atmo(altitude high)", lambda: atmo_state(Atmo(altitude=Unit.Foot(200000))))
    attempt("Atmo(nan)", lambda: atmo_state(Atmo(temperature=NAN, powder_t=NAN)))
    # later changes of the air temperature object do not matter; humidity setter recomputes density
    a = Atmo(temperature=Unit.Celsius(5))
    a.humidity = 80
    print("humidity set", atmo_state(a))

    # --- icao / standard / Vacuum
    attempt("icao()", lambda: atmo_state(Atmo.icao()))
    attempt("icao(1000)", lambda: atmo_state(Atmo.icao(1000)))
    attempt("icao(m, t)", lambda: atmo_state(Atmo.icao(Unit.Meter(2500), Unit.Celsius(-30))))
    attempt("icao(m, t, h)", lambda: atmo_state(Atmo.icao(Unit.Meter(2500), Unit.Celsius(-30), 77)))
    attempt("icao(kw)", lambda: atmo_state(Atmo.icao(temperature=Unit.Kelvin(290), humidity=0.5, altitude=Unit.Foot(-100))))
    attempt("standard(ft)", lambda: atmo_state(Atmo.standard(Unit.Foot(9000))))
    attempt("icao(None)", lambda: atmo_state(Atmo.icao(None)))
    attempt("icao(huge)", lambda: atmo_state(Atmo.icao(Unit.Foot(500000))))
    attempt("icao(bad humidity)", lambda: atmo_state(Atmo.icao(humidity=150)))
    attempt("Vacuum()", lambda: atmo_state(Vacuum()))
    attempt("Vacuum(alt, t)", lambda: atmo_state(Vacuum(Unit.Meter(300), Unit.Celsius(40))))
    attempt("Vacuum(kw)", lambda: atmo_state(Vacuum(temperature=-10, altitude=2000)))
    v = Vacuum(Unit.Meter(300), Unit.Celsius(40))
    print("Vacuum extras", h(v.cLowestTempC), h(Atmo.cLowestTempC), q(v.pressure), h(v.density_ratio))

    # --- Shot: default atmosphere, given atmosphere, what the solver launches with
    weapon = Weapon(Unit.Inch(2), Unit.Inch(12), Unit.Mil(1.5))
    for use in (True, False):
        ammo = make_ammo(use)
        s = Shot(weapon, ammo)
        print("Shot default atmo", atmo_state(s.atmo), "winds", len(s.winds))
        launch(f"use={use} default", s)
        given = Atmo(temperature=Unit.Celsius(-15))
        s = Shot(weapon, ammo, atmo=given)
        print("Shot keeps atmo", s.atmo is given)
        launch(f"use={use} cold air", s)
        launch(f"use={use} cold air warm powder", Shot(weapon, ammo, atmo=Atmo(temperature=Unit.Celsius(-15), powder_t=Unit.Celsius(25))))
        launch(f"use={use} powder only", Shot(weapon, ammo, atmo=Atmo(powder_t=Unit.Fahrenheit(120))))
        launch(f"use={use} icao high", Shot(weapon, ammo, atmo=Atmo.icao(Unit.Meter(3000))))
        launch(f"use={use} icao hot", Shot(weapon, ammo, atmo=Atmo.icao(temperature=Unit.Celsius(45))))
        launch(f"use={use} vacuum", Shot(weapon, ammo, atmo=Vacuum(Unit.Meter(100), Unit.Celsius(-30))))
        launch(f"use={use} angles+winds", Shot(Weapon(Unit.Centimeter(9), Unit.Inch(-9), Unit.Mil(2)), ammo,
                                               look_angle=Unit.Degree(5), relative_angle=Unit.Mil(4), cant_angle=Unit.Degree(20),
                                               atmo=Atmo(Unit.Foot(5000), Unit.InHg(24.9), Unit.Fahrenheit(20), 50, Unit.Fahrenheit(75)),
                                               winds=[Wind(Unit.MPS(4), Unit.Degree(90), Unit.Meter(100)), Wind(Unit.MPS(7), Unit.Degree(45))]),
               Unit.Meter(400), Unit.Meter(100))
    # other ammunition, G1, zero twist (no stability), zero velocity
    dm = DragModel(0.45, TableG1, Unit.Grain(150), Unit.Inch(0.308), Unit.Inch(1.1))
    ammo = Ammo(dm, Unit.FPS(2800), Unit.Fahrenheit(59), 0.015, True)
    launch("G1 no twist", Shot(Weapon(Unit.Inch(1.5)), ammo, atmo=Atmo(powder_t=Unit.Celsius(-40))))
    launch("zero mv", Shot(weapon, Ammo(dm, 0, None, 0.015, True), atmo=Atmo(powder_t=Unit.Celsius(-40))))
    launch("no dimensions", Shot(weapon, Ammo(DragModel(0.3, TableG7), Unit.MPS(700), None, 0.02, True),
                                 atmo=Atmo(temperature=Unit.Celsius(30))))
    # zeroing then firing with another atmosphere
    calc = Calculator()
    ammo = make_ammo(True)
    s = Shot(Weapon(Unit.Inch(2), Unit.Inch(12)), ammo, atmo=Atmo(powder_t=Unit.Celsius(-5)))
    print("zero", h(calc.set_weapon_zero(s, Unit.Meter(100)).raw_value), h(calc._calc.muzzle_velocity))
    s2 = Shot(s.weapon, ammo, atmo=Atmo(temperature=Unit.Celsius(33)))
    launch("after zero, hot", s2, Unit.Meter(300), Unit.Meter(100))
    # garbage shots: same failure
    launch("no ammo", Shot(weapon, None))
    launch("no weapon", Shot(None, ammo))
    s = Shot(weapon, ammo)
    s.atmo = None
    launch("no atmo", s)


print("=== default preferred units")
scenario()
print("=== metric preferred units")
PreferredUnits.set(velocity=Unit.MPS, temperature=Unit.Celsius, distance=Unit.Meter, pressure=Unit.hPa)
scenario()
PreferredUnits.defaults()
