"""Equivalence digest for C17 / refactoring 2 (unit.py: the conversions the powder-sensitivity code calls).

Prints a deterministic text; it has to be identical on the clean worktree and with the patch applied.
Run:  cd /tmp/wt/C17 && PYTHONPATH=/tmp/wt/C17 /venv/bin/python /tmp/twins3/C17/2/equiv.py
"""
import warnings
from fractions import Fraction

warnings.simplefilter("ignore")

from py_ballisticcalc import Ammo, Atmo, Calculator, DragModel, PreferredUnits, Shot, TableG7, Weapon
from py_ballisticcalc.unit import (AbstractDimension, Angular, Distance, Energy, Pressure, Temperature, Unit, Velocity,
                                   Weight)

T_UNITS = (Unit.Fahrenheit, Unit.Celsius, Unit.Kelvin, Unit.Rankin)
V_UNITS = (Unit.MPS, Unit.KMH, Unit.FPS, Unit.MPH, Unit.KT)


def outcome(fn):
    """repr of the result (with its type), or the exception type and text"""
    try:
        result = fn()
    except Exception as error:  # pylint: disable=broad-except
        return f'{type(error).__name__}: {error}'
    return f'{type(result).__name__} {result!r}'


# 1. every temperature / velocity unit into every other one, awkward values included
t_values = (0, 15, -40, 59.0, 273.15, -459.67, 459.67, 0.1, 1e-320, 1e308, -0.0, float('inf'), float('nan'),
            True, Fraction(1, 3), 10 ** 30)
for unit in T_UNITS:
    for value in t_values:
        made = outcome(lambda: unit(value).raw_value)
        print('T', unit.name, repr(value), 'raw', made)
        for target in T_UNITS:
            print('     >>', target.name, outcome(lambda: unit(value) >> target))
v_values = (0, 2600, 815.0, -3.5, 0.1, 1e-320, 1e308, float('inf'), float('nan'), True, Fraction(7, 3), 10 ** 30)
for unit in V_UNITS:
    for value in v_values:
        print('V', unit.name, repr(value), 'raw', outcome(lambda: unit(value).raw_value))
        for target in V_UNITS:
            print('     >>', target.name, outcome(lambda: unit(value) >> target))
print('_fps', repr(Velocity.MPS(800)._fps), '_F', repr(Temperature.Celsius(15)._F))

# 2. Unit.__call__ for every member: which class, which raw value; re-wrapping an existing dimension; bad calls
for unit in Unit:
    print('call', unit.name, int(unit), outcome(lambda: (type(unit(1.5)).__name__, unit(1.5).raw_value, unit(1.5).units)))
celsius = Unit.Celsius(20)
again = Unit.Kelvin(celsius)
print('rewrap', again is celsius, repr(again), str(again), repr(again.units))
print('rewrap other dimension', outcome(lambda: Unit.Celsius(Distance.Meter(3)) >> Unit.Celsius))
for bad_self in (25, 80, -1, 5, 51, 62.5, float('nan'), 'FPS', None):
    print('unbound', repr(bad_self), outcome(lambda: (type(Unit.__call__(bad_self, 2)).__name__,
                                                      Unit.__call__(bad_self, 2).raw_value)))
for bad_value in ('12', None, [1], (1, 2)):
    for unit in (Unit.Fahrenheit, Unit.Celsius, Unit.Kelvin, Unit.Rankin, Unit.MPS, Unit.FPS, Unit.KT):
        print('bad value', unit.name, repr(bad_value), outcome(lambda: unit(bad_value).raw_value))
# units of the wrong dimension, or no unit at all, in a conversion
temperature, velocity = Temperature.Celsius(15), Velocity.FPS(2600)
for wrong in (Unit.Meter, Unit.FPS, Unit.Celsius, 51, 62, 51.0, 'Celsius', None, [51]):
    print('wrong unit', repr(wrong), outcome(lambda: temperature >> wrong), '|', outcome(lambda: velocity >> wrong),
          '|', outcome(lambda: Temperature(1, wrong).raw_value), '|', outcome(lambda: Velocity(1, wrong).raw_value))
print('str/repr', str(Temperature.Kelvin(300)), repr(Temperature.Rankin(500)), str(Velocity.KT(10)),
      repr(Velocity.MPH(60)), str(Velocity.KMH(100)), repr(Temperature.Fahrenheit(59)))


# 3. the property itself, in every temperature unit and with several velocity units / preferred units
def make_ammo(mv, **kw):
    return Ammo(DragModel(0.22, TableG7, 168, 0.308, 1.22), mv, **kw)


calc = Calculator()
for preferred_t, preferred_v in ((Unit.Fahrenheit, Unit.FPS), (Unit.Celsius, Unit.MPS), (Unit.Kelvin, Unit.KMH),
                                 (Unit.Rankin, Unit.KT), (Unit.Celsius, Unit.MPH)):
    PreferredUnits.temperature = preferred_t
    PreferredUnits.velocity = preferred_v
    try:
        for mv, t0 in ((Velocity.FPS(2600), Temperature.Celsius(15)), (Velocity.MPS(815), Temperature.Fahrenheit(32)),
                       (Velocity.KMH(2900), Temperature.Kelvin(288.15)), (Velocity.KT(1500), None),
                       (Velocity.MPH(1800), Temperature.Rankin(500))):
            for v1, t1 in ((Velocity.FPS(2550), Temperature.Celsius(0)), (Velocity.MPS(830), Temperature.Kelvin(310)),
                           (Velocity.MPH(1850), Temperature.Rankin(560)), (Velocity.KT(1400), Temperature.Fahrenheit(-20))):
                ammo = make_ammo(mv, powder_temp=t0)
                line = [preferred_t.name, preferred_v.name, repr(ammo.mv.raw_value), repr(ammo.powder_temp.raw_value)]
                line.append(outcome(lambda: ammo.calc_powder_sens(v1, t1)))
                off = ammo.get_velocity_for_temp(t1)
                line.append(f'off-is-mv={off is ammo.mv}')
                ammo.use_powder_sensitivity = True
                line.append(repr(ammo.get_velocity_for_temp(t1).raw_value))      # calibration point
                line.append(repr(ammo.get_velocity_for_temp(ammo.powder_temp).raw_value))  # anchor
                for query in (Temperature.Celsius(-30), Temperature.Fahrenheit(100), Temperature.Kelvin(273.15),
                              Temperature.Rankin(459.67), 25, -10.5):
                    line.append(repr(ammo.get_velocity_for_temp(query) >> Velocity.FPS))
                print('sens', ' '.join(line))
        # launch velocity of the solver, powder temperature defaulted and given in each unit
        ammo = make_ammo(Velocity.FPS(2600), powder_temp=Temperature.Celsius(15), temp_modifier=0.0123,
                         use_powder_sensitivity=True)
        for atmo in (Atmo.icao(), Atmo(temperature=Temperature.Celsius(-5)), Atmo(powder_t=Temperature.Kelvin(300)),
                     Atmo(powder_t=Temperature.Rankin(500)), Atmo(temperature=30, powder_t=Temperature.Fahrenheit(0)),
                     Atmo(altitude=Distance.Meter(2000), powder_t=12.5)):
            hit = calc.fire(Shot(weapon=Weapon(4, 12), ammo=ammo, atmo=atmo), Distance.Yard(600), Distance.Yard(200))
            print('fire', preferred_t.name, preferred_v.name, repr(atmo.powder_temp.raw_value),
                  ' '.join(f'{row.velocity.raw_value!r}/{row.mach!r}/{row.height.raw_value!r}' for row in hit.trajectory),
                  str(hit.trajectory[0].velocity), str(atmo.powder_temp), str(atmo.mach))
    finally:
        PreferredUnits.defaults()

# 4. zero stated velocity: the ZeroDivisionError fallback still goes through Velocity.MPS(0)
still = make_ammo(0, powder_temp=Temperature.Celsius(15), temp_modifier=0.01, use_powder_sensitivity=True)
print('zero mv', outcome(lambda: still.get_velocity_for_temp(Temperature.Kelvin(250)).raw_value),
      outcome(lambda: still.calc_powder_sens(Velocity.KT(100), Temperature.Rankin(400))))
