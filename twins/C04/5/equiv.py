"""Equivalence digest for property C04 (termination / truthful RangeError).

Run:  cd /tmp/wt/C04 && PYTHONPATH=/tmp/wt/C04 /venv/bin/python <this file>
Prints a deterministic text; must be byte-identical on the clean and the patched worktree.
"""
import hashlib
import logging
import math
import warnings

import py_ballisticcalc
from py_ballisticcalc import (Calculator, DragModel, TableG1, TableG7, Ammo, Weapon, Shot, Atmo, Wind,
                              Distance, Velocity, Angular, Weight, Temperature, Pressure, Unit,
                              RangeError, InterfaceConfigDict)
from py_ballisticcalc.logger import logger, set_debug
from py_ballisticcalc.trajectory_calc import _trajectory_calc as tc
from py_ballisticcalc.exceptions import ZeroFindingError

assert py_ballisticcalc.__file__.startswith('/tmp/wt/C04/'), py_ballisticcalc.__file__
# pure python backend only
assert tc.TrajectoryCalc is py_ballisticcalc.trajectory_calc.TrajectoryCalc


class _Capture(logging.Handler):
    def __init__(self):
        super().__init__(level=logging.DEBUG)
        self.lines = []

    def emit(self, record):
        self.lines.append(record.getMessage())


capture = _Capture()
logger.addHandler(capture)
logger.setLevel(logging.DEBUG)   # lets "euler py it N" through; get_debug() stays False


def field_repr(v):
    if hasattr(v, 'raw_value'):
        return f'{type(v).__name__}({v.raw_value!r},{v.units!r})'
    if isinstance(v, float):
        return repr(v)
    return repr(int(v)) if isinstance(v, int) else repr(v)


def row_repr(row):
    return '(' + ', '.join(f'{n}={field_repr(getattr(row, n))}' for n in row._fields) + ')'


def digest(rows):
    h = hashlib.sha256()
    for r in rows:
        h.update(row_repr(r).encode())
        h.update(b'\n')
    return h.hexdigest()


def show_rows(rows, k=2):
    n = len(rows)
    idx = sorted(set(list(range(min(k, n))) + list(range(max(0, n - k), n))))
    for i in idx:
        print(f'    row[{i}] {row_repr(rows[i])}')


def run(label, fn):
    capture.lines.clear()
    with warnings.catch_warnings(record=True) as caught:
        warnings.simplefilter('always')
        try:
            res = fn()
            rows = list(res) if not isinstance(res, list) else res
            print(f'{label}: OK n={len(rows)} sha={digest(rows)}')
            show_rows(rows)
        except RangeError as e:
            rows = e.incomplete_trajectory
            ld = e.last_distance
            print(f'{label}: RangeError reason={e.reason!r} msg={str(e)!r} args={e.args!r}')
            print(f'    last_distance={field_repr(ld) if ld is not None else None} '
                  f'same_obj_as_last_row={bool(rows) and ld is rows[-1].distance} '
                  f'n={len(rows)} sha={digest(rows)}')
            show_rows(rows)
        except ZeroFindingError as e:
            print(f'{label}: ZeroFindingError {e.zero_finding_error!r} {e.iterations_count!r} '
                  f'{e.last_barrel_elevation.raw_value!r}')
        except Exception as e:  # pylint: disable=broad-except
            print(f'{label}: {type(e).__name__} {e!s}')
    its = [ln for ln in capture.lines if ln.startswith('euler py it')]
    other = [ln for ln in capture.lines if not ln.startswith('euler py it')]
    print(f'    log: {its[:3]}{"..." if len(its) > 3 else ""} n_it_lines={len(its)} '
          f'other_log_sha={hashlib.sha256(chr(10).join(other).encode()).hexdigest()[:16]} n_other={len(other)}')
    print(f'    warnings: {[(w.category.__name__, str(w.message)) for w in caught]}')


def g7_shot(mv_fps=2600.0, rel_deg=0.0, look_deg=0.0, cant_deg=0.0, alt_ft=0.0, winds=None, twist=12.0,
            sight_height=2.0, zero_elev_deg=0.0):
    dm = DragModel(0.223, TableG7, Weight.Grain(168), Distance.Inch(0.308), Distance.Inch(1.282))
    ammo = Ammo(dm, Velocity.FPS(mv_fps))
    weapon = Weapon(Distance.Inch(sight_height), Distance.Inch(twist), Angular.Degree(zero_elev_deg))
    atmo = Atmo.icao(Distance.Foot(alt_ft))
    return Shot(weapon=weapon, ammo=ammo, look_angle=Angular.Degree(look_deg),
                relative_angle=Angular.Degree(rel_deg), cant_angle=Angular.Degree(cant_deg),
                atmo=atmo, winds=winds)


def g1_shot(rel_deg):
    dm = DragModel(0.759, TableG1, Weight.Gram(108), Distance.Millimeter(23), Distance.Millimeter(108.2))
    shot = Shot(weapon=Weapon(), ammo=Ammo(dm, Velocity.MPS(930)))
    shot.relative_angle = Angular.Degree(rel_deg)
    return shot


def fire(config, shot, rng, step=0, extra=False, time_step=0.0):
    calc = Calculator(_config=config)
    return lambda: calc.fire(shot, rng, step, extra_data=extra, time_step=time_step).trajectory


ZERO_H = InterfaceConfigDict(cMinimumVelocity=0, cMinimumAltitude=Distance.Meter(0), cMaximumDrop=Distance.Meter(0))
winds = [Wind(Velocity.MPH(10), Angular.OClock(3), Distance.Yard(300)),
         Wind(Velocity.MPH(7), Angular.OClock(10), Distance.Yard(700)),
         Wind(Velocity.MPH(3), Angular.OClock(6), Distance.Yard(2000))]

# --- complete trajectories -------------------------------------------------------------------------
run('A1 default 1000yd plain', fire(None, g7_shot(zero_elev_deg=0.2, winds=winds), Distance.Yard(1000), Distance.Yard(100)))
run('A2 default 1000yd extra', fire(None, g7_shot(zero_elev_deg=0.2, winds=winds), Distance.Yard(1000), Distance.Yard(100), extra=True))
run('A3 default 600yd time_step', fire(None, g7_shot(zero_elev_deg=0.1, look_deg=4.0, cant_deg=5.0), Distance.Yard(600), Distance.Yard(50), extra=True, time_step=0.05))
run('A4 default step 0 (range/10)', fire(None, g7_shot(zero_elev_deg=0.1), Distance.Yard(500)))
run('A5 tiny range 0.1ft', fire(None, g7_shot(), Distance.Foot(0.1), Distance.Foot(0.1)))
run('A6 zero range', fire(None, g7_shot(), Distance.Foot(0.0), Distance.Foot(1.0)))
run('A7 negative range', fire(None, g7_shot(), Distance.Foot(-5.0), Distance.Foot(1.0)))
run('A8 nan range', fire(None, g7_shot(), Distance.Foot(float('nan')), Distance.Foot(1.0)))
run('A9 step larger than range', fire(None, g7_shot(), Distance.Yard(100), Distance.Yard(1000)))
run('A10 int step-size config', fire(InterfaceConfigDict(max_calc_step_size_feet=1, cMinimumVelocity=0), g7_shot(zero_elev_deg=0.3), Distance.Yard(300), Distance.Yard(30)))

# --- unreachable range: each limit in turn -----------------------------------------------------------
run('B1 default beyond reach', fire(None, g7_shot(rel_deg=2.0), Distance.Meter(20000), Distance.Meter(500)))
run('B2 default beyond reach extra', fire(None, g7_shot(rel_deg=2.0), Distance.Meter(20000), Distance.Meter(500), extra=True))
run('B3 zero-height 5.2deg', fire(ZERO_H, g1_shot(5.219710693607955), Distance.Meter(6937.3716148080375)))
run('B4 zero-height 5.2deg one step', fire(ZERO_H, g1_shot(5.219710693607955), Distance.Meter(6937.3716148080375), Distance.Meter(6937.3716148080375), extra=True))
run('B5 vertical zero-height', fire(ZERO_H, g1_shot(90), Distance.Meter(10)))
run('B6 vertical zero-height extra time_step', fire(ZERO_H, g1_shot(90), Distance.Meter(10), Distance.Meter(1), extra=True, time_step=1.0))
run('B7 vertical default config', fire(None, g7_shot(rel_deg=90.0), Distance.Yard(100), Distance.Yard(10)))
run('B8 downward -30deg default', fire(None, g7_shot(rel_deg=-30.0), Distance.Yard(5000), Distance.Yard(250)))
run('B9 downward -89deg high station', fire(None, g7_shot(rel_deg=-89.0, alt_ft=9000.0), Distance.Yard(2000), Distance.Yard(100)))
run('B10 min altitude at station 5000ft', fire(InterfaceConfigDict(cMinimumAltitude=4990.0), g7_shot(alt_ft=5000.0, rel_deg=0.5), Distance.Yard(3000), Distance.Yard(100)))
run('B11 max drop -3ft', fire(InterfaceConfigDict(cMaximumDrop=-3.0), g7_shot(zero_elev_deg=0.05), Distance.Yard(2000), Distance.Yard(100)))
run('B12 min velocity 1500fps', fire(InterfaceConfigDict(cMinimumVelocity=1500.0), g7_shot(zero_elev_deg=0.5), Distance.Yard(2000), Distance.Yard(100), extra=True))
run('B13 slow launch 40fps', fire(None, g7_shot(mv_fps=40.0), Distance.Yard(100), Distance.Yard(10)))
run('B14 zero-velocity launch', fire(None, g7_shot(mv_fps=0.0), Distance.Yard(100), Distance.Yard(10)))
run('B15 zero-velocity launch, vmin 0', fire(InterfaceConfigDict(cMinimumVelocity=0), g7_shot(mv_fps=0.0), Distance.Yard(100), Distance.Yard(10)))
run('B16 backwards shot 180deg', fire(None, g7_shot(rel_deg=180.0), Distance.Yard(100), Distance.Yard(10)))

# --- precedence: several limits violated by the same (first) step ---------------------------------------
run('C1 all three violated', fire(InterfaceConfigDict(cMinimumVelocity=1e9, cMaximumDrop=1e9, cMinimumAltitude=1e9), g7_shot(), Distance.Yard(100), Distance.Yard(10)))
run('C2 drop+altitude violated', fire(InterfaceConfigDict(cMinimumVelocity=0, cMaximumDrop=1e9, cMinimumAltitude=1e9), g7_shot(), Distance.Yard(100), Distance.Yard(10)))
run('C3 altitude only violated', fire(InterfaceConfigDict(cMinimumVelocity=0, cMinimumAltitude=1e9), g7_shot(), Distance.Yard(100), Distance.Yard(10), extra=True))
run('C4 velocity+altitude violated', fire(InterfaceConfigDict(cMinimumVelocity=1e9, cMinimumAltitude=1e9), g7_shot(), Distance.Yard(100), Distance.Yard(10)))
run('C5 limits equal to state are not violations (inf)', fire(InterfaceConfigDict(cMinimumVelocity=-math.inf, cMaximumDrop=-math.inf, cMinimumAltitude=-math.inf), g7_shot(zero_elev_deg=0.1), Distance.Yard(200), Distance.Yard(50)))
run('C6 nan limits never fire', fire(InterfaceConfigDict(cMinimumVelocity=math.nan, cMaximumDrop=math.nan, cMinimumAltitude=math.nan), g7_shot(zero_elev_deg=0.1), Distance.Yard(200), Distance.Yard(50)))
run('C7 None drop limit, velocity ok', fire(InterfaceConfigDict(cMaximumDrop=None), g7_shot(), Distance.Yard(100), Distance.Yard(10)))
run('C8 None drop limit, velocity violated first', fire(InterfaceConfigDict(cMinimumVelocity=1e9, cMaximumDrop=None), g7_shot(), Distance.Yard(100), Distance.Yard(10)))

# --- troposphere warning, zeroing -----------------------------------------------------------------------
run('D1 very high station (warning)', fire(None, g7_shot(alt_ft=36000.0, rel_deg=8.0), Distance.Yard(1000), Distance.Yard(100)))


def zero_then_fire(config, shot, zero, rng, step):
    calc = Calculator(_config=config)

    def _f():
        elev = calc.set_weapon_zero(shot, zero)
        print(f'    zero elevation raw={elev.raw_value!r}')
        return calc.fire(shot, rng, step, extra_data=True).trajectory
    return _f


run('D2 zero 100yd then fire', zero_then_fire(None, g7_shot(winds=winds), Distance.Yard(100), Distance.Yard(400), Distance.Yard(100)))
run('D3 zero 300m look 10deg', zero_then_fire(None, g7_shot(look_deg=10.0), Distance.Meter(300), Distance.Meter(400), Distance.Meter(100)))
run('D4 zero unreachable -> RangeError from zeroing', zero_then_fire(InterfaceConfigDict(cMaximumDrop=-1.0), g7_shot(mv_fps=800.0), Distance.Yard(900), Distance.Yard(100), Distance.Yard(10)))

# same calculator reused: call history must not matter
calc = Calculator(_config=InterfaceConfigDict(cMinimumVelocity=1200.0))
shot = g7_shot(zero_elev_deg=0.4)
for i in range(2):
    run(f'E1.{i} reused calc, limit hit', lambda: calc.fire(shot, Distance.Yard(1500), Distance.Yard(100)).trajectory)
    run(f'E2.{i} reused calc, in reach', lambda: calc.fire(shot, Distance.Yard(300), Distance.Yard(100)).trajectory)

# debug mode (should_record logging) on a short shot
set_debug(True)
run('F1 debug mode short', fire(InterfaceConfigDict(cMaximumDrop=-0.2), g7_shot(), Distance.Yard(200), Distance.Yard(20), extra=True))
set_debug(False)
logger.setLevel(logging.DEBUG)

# prefix property: rows before the last one equal the rows of the unlimited shot
def prefix_check():
    s = g7_shot(zero_elev_deg=0.3)
    free = Calculator(_config=InterfaceConfigDict(cMinimumVelocity=0, cMaximumDrop=-1e12, cMinimumAltitude=-1e12)).fire(
        s, Distance.Yard(1500), Distance.Yard(50), extra_data=True).trajectory
    try:
        Calculator(_config=InterfaceConfigDict(cMaximumDrop=-20.0)).fire(s, Distance.Yard(1500), Distance.Yard(50), extra_data=True)
        print('G1 prefix: no error?!')
    except RangeError as e:
        part = e.incomplete_trajectory
        same = all(row_repr(a) == row_repr(b) for a, b in zip(part[:-1], free))
        print(f'G1 prefix: n_part={len(part)} n_free={len(free)} prefix_identical={same} '
              f'last_height_ft={part[-1].height.raw_value / 12!r} prev_height_ft={part[-2].height.raw_value / 12!r}')


prefix_check()


# --- refactoring 2 specific: the module-level row factory is still exported and unchanged --------------------
from py_ballisticcalc.trajectory_calc import create_trajectory_row  # noqa: E402
from py_ballisticcalc.vector import Vector  # noqa: E402
from py_ballisticcalc import TrajFlag  # noqa: E402

r = create_trajectory_row(0.5, Vector(300.0, -1.25, 0.5), Vector(2000.0, -20.0, 1.0), 2000.1, 1116.4,
                          0.01, 0.02, 1.01, 0.2, 168.0, TrajFlag.RANGE | TrajFlag.MACH)
print('H1 create_trajectory_row:', row_repr(r))

# rows of a limit-terminated extra-data shot carry the flags of the step that produced them
try:
    Calculator(_config=InterfaceConfigDict(cMinimumVelocity=1125.0)).fire(
        g7_shot(zero_elev_deg=0.6), Distance.Yard(2500), Distance.Yard(100), extra_data=True, time_step=0.25)
    print('H2: no error?!')
except RangeError as e:
    print('H2 flags:', [int(r.flag) for r in e.incomplete_trajectory], e.reason)
    print('H2 last:', row_repr(e.incomplete_trajectory[-1]))
