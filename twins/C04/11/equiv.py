"""Equivalence digest for C04 / round 4 / refactoring 2 (limit guard method that raises; attrgetter limits; altitude carried across steps).

Prints a deterministic digest of complete and incomplete trajectories; the text must be
identical on the clean worktree and with the patch applied.
"""
import hashlib
import logging

from py_ballisticcalc import (Calculator, Shot, Weapon, Ammo, DragModel, TableG1, TableG7, Atmo, Wind,
                              Distance, Velocity, Weight, Angular, Unit, RangeError, InterfaceConfigDict,
                              Temperature, logger)


def unit_repr(u):
    return f"{type(u).__name__}({u.raw_value!r},{u.units!r})"


def row_repr(r):
    parts = []
    for name, value in zip(r._fields, r):
        if hasattr(value, 'raw_value'):
            parts.append(f"{name}={unit_repr(value)}")
        else:
            parts.append(f"{name}={value!r}")
    return "(" + ", ".join(parts) + ")"


def digest(rows):
    text = "\n".join(row_repr(r) for r in rows)
    return hashlib.sha256(text.encode()).hexdigest()[:16]


def show(label, fn):
    try:
        result = fn()
    except RangeError as err:
        rows = err.incomplete_trajectory
        print(f"{label}: RangeError reason={err.reason!r} args={err.args!r} n={len(rows)} "
              f"last_distance={unit_repr(err.last_distance) if err.last_distance is not None else None} "
              f"same_object={err.last_distance is rows[-1].distance if rows else None} "
              f"context={err.__context__!r} cause={err.__cause__!r} digest={digest(rows)}")
        for r in rows[:2] + rows[-2:]:
            print("   ", row_repr(r))
    except Exception as err:  # pylint: disable=broad-except
        print(f"{label}: {type(err).__name__} {err.args!r}")
    else:
        rows = list(result) if not isinstance(result, list) else result
        print(f"{label}: OK n={len(rows)} digest={digest(rows)}")
        for r in rows[:2] + rows[-2:]:
            print("   ", row_repr(r))


def make_shot(angle_deg=0.0, mv=930.0, look=0.0, alt_ft=0.0, winds=None, g7=False, twist=0.0, sight=0.0, cant=0.0):
    if g7:
        dm = DragModel(0.223, TableG7, Weight.Grain(168), Distance.Inch(0.308), Distance.Inch(1.282))
    else:
        dm = DragModel(0.759, TableG1, Weight.Gram(108), Distance.Millimeter(23), Distance.Millimeter(108.2))
    ammo = Ammo(dm, Velocity.MPS(mv))
    weapon = Weapon(sight_height=Distance.Inch(sight), twist=Distance.Inch(twist))
    atmo = Atmo.icao(Distance.Foot(alt_ft))
    shot = Shot(weapon=weapon, ammo=ammo, look_angle=Angular.Degree(look), relative_angle=Angular.Degree(angle_deg),
                cant_angle=Angular.Degree(cant), atmo=atmo, winds=winds)
    return shot


def main():
    default = Calculator()
    zero_h = Calculator(_config=InterfaceConfigDict(cMinimumVelocity=0, cMinimumAltitude=Distance.Meter(0),
                                                    cMaximumDrop=Distance.Meter(0)))
    min_v = Calculator(_config=InterfaceConfigDict(cMinimumVelocity=1500.0))
    drop = Calculator(_config=InterfaceConfigDict(cMaximumDrop=-20.0, cMinimumVelocity=0))
    alt = Calculator(_config=InterfaceConfigDict(cMinimumAltitude=990.0, cMaximumDrop=-1e9, cMinimumVelocity=0))
    coarse = Calculator(_config=InterfaceConfigDict(max_calc_step_size_feet=4.0))

    # complete trajectories, plain and extra-data, with winds / look angle / time step
    show("complete plain", lambda: default.fire(make_shot(0.3), Distance.Meter(800), Distance.Meter(100)).trajectory)
    show("complete extra", lambda: default.fire(make_shot(0.3, g7=True, twist=12, sight=2, mv=800), Distance.Yard(900),
                                                Distance.Yard(100), extra_data=True).trajectory)
    winds = [Wind(Velocity.MPS(5), Angular.Degree(90), Distance.Meter(300)),
             Wind(Velocity.MPS(8), Angular.Degree(-45), Distance.Meter(600))]
    show("complete winds look", lambda: default.fire(make_shot(0.5, look=5, winds=winds, cant=3, sight=2, twist=-10, g7=True),
                                                     Distance.Meter(700), Distance.Meter(70), extra_data=True,
                                                     time_step=0.2).trajectory)
    show("complete default step", lambda: default.fire(make_shot(0.1), Distance.Meter(300)).trajectory)
    show("tiny range (len<2 fix-up)", lambda: default.fire(make_shot(0.1), Distance.Foot(0.1), Distance.Foot(100)).trajectory)
    show("zero range", lambda: default.fire(make_shot(0.1), Distance.Foot(0), Distance.Foot(1)).trajectory)
    show("negative range", lambda: default.fire(make_shot(0.1), Distance.Foot(-10), Distance.Foot(1)).trajectory)

    # incomplete: each reason, precedence, plain and extra-data
    for extra in (False, True):
        show(f"min velocity extra={extra}", lambda: min_v.fire(make_shot(1.0), Distance.Meter(3000), Distance.Meter(100),
                                                               extra_data=extra))
        show(f"max drop extra={extra}", lambda: drop.fire(make_shot(0.0), Distance.Meter(3000), Distance.Meter(100),
                                                          extra_data=extra))
        show(f"min altitude extra={extra}", lambda: alt.fire(make_shot(0.0, alt_ft=1000), Distance.Meter(3000),
                                                             Distance.Meter(100), extra_data=extra))
        show(f"zero-height limits 5deg extra={extra}", lambda: zero_h.fire(make_shot(5.2197), Distance.Meter(6937),
                                                                           extra_data=extra))
        show(f"vertical extra={extra}", lambda: zero_h.fire(make_shot(90), Distance.Meter(10), extra_data=extra))
        show(f"downward extra={extra}", lambda: default.fire(make_shot(-60), Distance.Meter(20000), Distance.Meter(500),
                                                             extra_data=extra, time_step=1.0))
    # precedence: all three limits violated by the very first step
    all3 = Calculator(_config=InterfaceConfigDict(cMinimumVelocity=1e9, cMaximumDrop=1e9, cMinimumAltitude=1e9))
    show("all three at once", lambda: all3.fire(make_shot(0.0), Distance.Meter(100), Distance.Meter(10)))
    drop_alt = Calculator(_config=InterfaceConfigDict(cMinimumVelocity=0, cMaximumDrop=1e9, cMinimumAltitude=1e9))
    show("drop and altitude at once", lambda: drop_alt.fire(make_shot(0.0), Distance.Meter(100), Distance.Meter(10)))
    only_alt = Calculator(_config=InterfaceConfigDict(cMinimumVelocity=0, cMaximumDrop=-1e9, cMinimumAltitude=1e9))
    show("altitude only, first step", lambda: only_alt.fire(make_shot(0.0), Distance.Meter(100), Distance.Meter(10),
                                                            extra_data=True))
    # very slow and zero-velocity launches
    show("slow launch", lambda: default.fire(make_shot(10, mv=10.0), Distance.Meter(100), Distance.Meter(10)))
    show("zero velocity launch", lambda: default.fire(make_shot(0, mv=0.0), Distance.Meter(100), Distance.Meter(10)))
    show("zero velocity launch, no v limit", lambda: zero_h.fire(make_shot(0, mv=0.0), Distance.Meter(100),
                                                                 Distance.Meter(10), extra_data=True))
    show("beyond reach coarse", lambda: coarse.fire(make_shot(30), Distance.Meter(50000), Distance.Meter(5000)))
    show("beyond reach coarse extra+time", lambda: coarse.fire(make_shot(80, g7=True, twist=11), Distance.Meter(50000),
                                                               Distance.Meter(5000), extra_data=True, time_step=2.0))

    # station altitude: the altitude limit is tested on alt0 + height, and the same sum feeds the atmosphere
    high = Calculator(_config=InterfaceConfigDict(cMinimumAltitude=4995.0, cMinimumVelocity=0))
    for extra in (False, True):
        show(f"station 5000ft extra={extra}", lambda: high.fire(make_shot(0.2, alt_ft=5000, sight=3, cant=20, g7=True, mv=700),
                                                                Distance.Meter(2000), Distance.Meter(100), extra_data=extra))
    show("station 5000ft complete", lambda: high.fire(make_shot(0.4, alt_ft=5000, sight=3, g7=True, mv=700, look=2),
                                                      Distance.Meter(500), Distance.Meter(50), extra_data=True).trajectory)
    below = Calculator(_config=InterfaceConfigDict(cMinimumAltitude=Distance.Foot(-100), cMinimumVelocity=0))
    show("station below sea level", lambda: below.fire(make_shot(-1.0, alt_ft=-50, sight=2), Distance.Meter(3000),
                                                       Distance.Meter(300)))
    int_limits = Calculator(_config=InterfaceConfigDict(cMinimumAltitude=-10, cMaximumDrop=-5, cMinimumVelocity=2000))
    show("integer limits", lambda: int_limits.fire(make_shot(0.0), Distance.Meter(3000), Distance.Meter(300)))

    # zero finding goes through the same loop with TrajFlag.NONE; errors pass through it
    shot = make_shot(0.0, g7=True, twist=12, sight=2, mv=800)
    print("zero_angle:", repr(default.set_weapon_zero(shot, Distance.Yard(200)).raw_value))
    show("after zeroing", lambda: default.fire(shot, Distance.Yard(400), Distance.Yard(100)).trajectory)
    show("zero finding with limit", lambda: [all3.set_weapon_zero(make_shot(0.0), Distance.Meter(100))])
    print("barrel_elevation_for_target look:",
          repr(default.barrel_elevation_for_target(make_shot(0, look=10, g7=True, sight=2, mv=800), Distance.Yard(300)).raw_value))

    # same calculator reused after an error: no state leaks between calls
    show("reuse after error", lambda: all3.fire(make_shot(0.0), Distance.Meter(50), Distance.Meter(10)))
    show("reuse default", lambda: default.fire(make_shot(0.3), Distance.Meter(800), Distance.Meter(100)).trajectory)

    # the debug log line of a completed integration
    records = []

    class Grab(logging.Handler):
        def emit(self, record):
            records.append(record.getMessage())

    handler = Grab()
    logger.addHandler(handler)
    old = logger.level
    logger.setLevel(logging.DEBUG)
    try:
        default.fire(make_shot(0.3), Distance.Meter(50), Distance.Meter(25))
        try:
            all3.fire(make_shot(0.3), Distance.Meter(50), Distance.Meter(25))
        except RangeError:
            pass
    finally:
        logger.setLevel(old)
        logger.removeHandler(handler)
    print("debug log:", [m for m in records if m.startswith("euler")])


if __name__ == '__main__':
    main()
