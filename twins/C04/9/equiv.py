"""Equivalence digest for C04 / round 3 / refactoring 3 (recording filter split into helpers, guard clauses, wind sock branch merge).

Prints, for a spread of shots and limit configurations, either the complete trajectory
or the RangeError (reason, last distance, partial trajectory), every number with float.hex().
The text must be identical on the clean worktree and with the patch applied.
"""
import hashlib
import logging
import math
import warnings

warnings.simplefilter("ignore")

from py_ballisticcalc import (Calculator, DragModel, TableG1, TableG7, Weight, Ammo, Velocity, Weapon, Shot,
                              Angular, Distance, Atmo, Vacuum, Wind, RangeError, Temperature, Pressure,
                              InterfaceConfigDict, HitResult, TrajFlag, logger)
from py_ballisticcalc.exceptions import ZeroFindingError


def hx(v):
    if isinstance(v, float):
        return v.hex()
    if isinstance(v, int):
        return repr(int(v))
    if hasattr(v, 'raw_value'):
        return type(v).__name__ + ':' + float(v.raw_value).hex() + ':' + repr(v.units)
    return repr(v)


def row_text(row):
    return '|'.join(hx(v) for v in row)


def digest(rows):
    h = hashlib.sha256()
    for r in rows:
        h.update(row_text(r).encode())
        h.update(b'\n')
    return h.hexdigest()


def show(label, fn):
    warnings.simplefilter("ignore")
    try:
        res = fn()
    except RangeError as e:
        rows = e.incomplete_trajectory
        print(f'{label}: RangeError reason={e.reason!r} n={len(rows)} last_distance={hx(e.last_distance)} '
              f'same_as_last_row={e.last_distance is rows[-1].distance if rows else None} msg={str(e)!r}')
        print('   last :', row_text(rows[-1]))
        if len(rows) > 1:
            print('   prev :', row_text(rows[-2]))
        print('   sha  :', digest(rows))
        return rows
    except ZeroFindingError as e:
        print(f'{label}: ZeroFindingError {hx(e.zero_finding_error)} {e.iterations_count} {hx(e.last_barrel_elevation)}')
        return None
    except Exception as e:  # any other exception must be identical as well
        print(f'{label}: {type(e).__name__}: {e}')
        return None
    if isinstance(res, HitResult):
        rows = res.trajectory
        print(f'{label}: complete n={len(rows)}')
        print('   first:', row_text(rows[0]))
        print('   last :', row_text(rows[-1]))
        print('   sha  :', digest(rows))
        return rows
    print(f'{label}: value {hx(res)}')
    return res


def make_shot(angle_deg=0.0, mv_fps=2750.0, table=TableG7, bc=0.223, look_deg=0.0, cant_deg=0.0,
              atmo=None, winds=None, twist=12.0, sight_height=2.0):
    dm = DragModel(bc, table, Weight.Grain(168), Distance.Inch(0.308), Distance.Inch(1.282))
    ammo = Ammo(dm, Velocity.FPS(mv_fps))
    weapon = Weapon(Distance.Inch(sight_height), Distance.Inch(twist))
    return Shot(weapon=weapon, ammo=ammo, look_angle=Angular.Degree(look_deg),
                relative_angle=Angular.Degree(angle_deg), cant_angle=Angular.Degree(cant_deg),
                atmo=atmo, winds=winds)


CONFIGS = {
    'default': None,
    'ground0': InterfaceConfigDict(cMinimumVelocity=0, cMinimumAltitude=Distance.Meter(0),
                                   cMaximumDrop=Distance.Meter(0)),
    'minvel1500': InterfaceConfigDict(cMinimumVelocity=1500.0),
    'drop-30ft': InterfaceConfigDict(cMaximumDrop=-30.0),
    'alt+480ft': InterfaceConfigDict(cMinimumAltitude=480.0, cMinimumVelocity=0),
    'all-tight': InterfaceConfigDict(cMinimumVelocity=2000.0, cMaximumDrop=-5.0, cMinimumAltitude=-3.0),
    'bigstep': InterfaceConfigDict(max_calc_step_size_feet=3.0, cMinimumVelocity=0.0, cMaximumDrop=-200.0),
}

winds3 = [Wind(Velocity.FPS(15), Angular.Degree(90), Distance.Foot(600)),
          Wind(Velocity.FPS(25), Angular.Degree(200), Distance.Foot(1500)),
          Wind(Velocity.FPS(5), Angular.Degree(300), Distance.Foot(3000))]

SHOTS = {
    'flat': lambda: make_shot(0.0),
    'up5': lambda: make_shot(5.219710693607955),
    'up45wind': lambda: make_shot(45.0, winds=list(winds3)),
    'vertical': lambda: make_shot(90.0, mv_fps=700.0),
    'down30': lambda: make_shot(-30.0),
    'down90': lambda: make_shot(-90.0),
    'slow60fps': lambda: make_shot(10.0, mv_fps=60.0),
    'zero_mv': lambda: make_shot(3.0, mv_fps=0.0),
    'look20cant15': lambda: make_shot(0.3, look_deg=20.0, cant_deg=15.0, winds=list(winds3)),
    'station500ft': lambda: make_shot(1.0, atmo=Atmo(Distance.Foot(500), Pressure.InHg(29.0), Temperature.Fahrenheit(40), 60),
                                      table=TableG1, bc=0.45),
    'vacuum': lambda: make_shot(2.0, atmo=Vacuum(Distance.Foot(100))),
    'lefttwist': lambda: make_shot(0.2, twist=-9.0, winds=[Wind(Velocity.FPS(30), Angular.Degree(270), Distance.Foot(400))]),
}

RANGES = [(Distance.Yard(1000), Distance.Yard(100)), (Distance.Meter(9000), Distance.Meter(500)),
          (Distance.Foot(10), 0), (Distance.Foot(0.1), Distance.Foot(0.01))]


class _Capture(logging.Handler):
    def __init__(self):
        super().__init__(logging.DEBUG)
        self.lines = []

    def emit(self, record):
        self.lines.append(record.getMessage())


def step_counter_section():
    """The debug line 'euler py it N' reports the number of integration steps of every completed run"""
    from py_ballisticcalc.logger import set_debug
    cap = _Capture()
    logger.addHandler(cap)
    logger.setLevel(logging.DEBUG)
    try:
        calc = Calculator(_config=CONFIGS['default'])
        for label, fn in [
            ('it/flat300yd', lambda: calc.fire(make_shot(0.1), Distance.Yard(300), Distance.Yard(100))),
            ('it/extra200yd', lambda: calc.fire(make_shot(0.1, winds=list(winds3)), Distance.Yard(200), Distance.Yard(20), extra_data=True)),
            ('it/tiny', lambda: calc.fire(make_shot(0.0), Distance.Foot(0.1), Distance.Foot(0.01))),
            ('it/zeroing', lambda: calc.barrel_elevation_for_target(make_shot(0.0), Distance.Yard(200))),
            ('it/limit', lambda: calc.fire(make_shot(30.0, mv_fps=400.0), Distance.Yard(3000), Distance.Yard(100))),
            ('it/neg', lambda: calc.fire(make_shot(0.0), Distance.Foot(-5), Distance.Foot(1))),
        ]:
            del cap.lines[:]
            show(label, fn)
            print('   log  :', [m for m in cap.lines if m.startswith('euler py it')])
        # full debug trace of the recording filter for one short shot
        set_debug(True)
        del cap.lines[:]
        show('debug/short', lambda: calc.fire(make_shot(0.2), Distance.Foot(12), Distance.Foot(3), extra_data=True))
        print('   debug lines:', len(cap.lines), hashlib.sha256('\n'.join(cap.lines).encode()).hexdigest())
        set_debug(False)
    finally:
        logger.removeHandler(cap)
        logger.setLevel(logging.WARNING)


def filter_and_windsock_section():
    """Drives the per-step collaborators of the integration loop directly and through Calculator.fire"""
    from py_ballisticcalc import Vector
    from py_ballisticcalc.trajectory_calc import _TrajectoryDataFilter, _WindSock

    def vec(v):
        return '(' + ','.join(hx(float(c)) for c in v) + ')'

    # wind sock: empty, one reading, several readings (given unsorted), walked past the last one and beyond
    for name, winds in [('none', None), ('empty', ()), ('one', (Wind(Velocity.FPS(10), Angular.Degree(45), Distance.Foot(100)),)),
                        ('three', make_shot(0.0, winds=[winds3[2], winds3[0], winds3[1]]).winds),
                        ('open-ended', (Wind(Velocity.FPS(7), Angular.Degree(135)),))]:
        sock = _WindSock(winds)
        trace = [f'{sock.current}:{hx(float(sock.next_range))}:{vec(sock.current_vector())}']
        for x in (0.0, 50.0, 100.0, 100.0, 599.9, 600.0, 1500.0, 2999.0, 3000.0, 1e9, float('inf'), float('nan'), 10.0):
            v = sock.vector_for_range(x)
            trace.append(f'{hx(x)}->{sock.current}:{hx(float(sock.next_range))}:{vec(v)}')
        print(f'windsock/{name}:', ' '.join(trace))

    # recording filter fed with a synthetic path: big jumps over several record distances, a stall,
    # a step backwards, a point behind the muzzle and a NaN position
    def dump(f):
        return (f'{f.current_flag}/{f.seen_zero}/{hx(float(f.next_record_distance))}/{hx(float(f.time_of_last_record))}/'
                f'{hx(float(f.previous_time))}/{vec(f.previous_position)}/{vec(f.previous_velocity)}/'
                f'{hx(float(f.previous_mach))}/{hx(float(f.previous_v_mach))}')

    path = [(0.0, -0.2), (0.4, -0.1), (0.9, 0.05), (3.7, 0.4), (3.7, 0.5), (3.2, 0.45), (11.05, 0.2), (11.3, -0.4),
            (-1.0, -0.5), (float('nan'), 0.0), (12.0, -1.0), (40.0, -9.0)]
    for fname, flags, rstep, tstep, look, height, elev in [
            ('range', TrajFlag.RANGE, 1.0, 0.0, 0.0, -0.2, 0.01),
            ('all', TrajFlag.ALL, 2.5, 0.0, 0.02, -0.2, 0.05),
            ('all-time', TrajFlag.ALL, 0.0, 0.003, -0.01, -0.2, -0.05),
            ('zero-only', TrajFlag.ZERO, 1.0, 0.001, 0.0, 0.1, 0.0),
            ('none', TrajFlag.NONE, 1.0, 0.0, 0.0, -0.2, 0.01)]:
        f = _TrajectoryDataFilter(flags, rstep, Vector(0.0, height, 0.0), Vector(1200.0, 12.0, 0.0), tstep)
        f.setup_seen_zero(height, elev, look)
        print(f'filter/{fname}: init {dump(f)}')
        t = 0.0
        speed = 1200.0
        for x, y in path:
            f.clear_current_flag()
            speed -= 37.5
            data = f.should_record(Vector(x, y, 0.01 * t), Vector(speed, -3.0 * t, 0.1), 1116.0 - t, t)
            shown = None if data is None else f'{hx(data.time)}:{vec(data.position)}:{vec(data.velocity)}:{hx(data.mach)}'
            print(f'   ({x},{y}) -> {shown} | {dump(f)}')
            t += 0.0011

    # through the public API: crossings of the sight line, Mach crossing, record step below the calculation step
    calc = Calculator(_config=InterfaceConfigDict(cMinimumVelocity=0.0, cMaximumDrop=-60.0))
    zeroed = make_shot(0.0, look_deg=4.0, winds=[winds3[1], winds3[0]])
    show('flags/zeroing', lambda: calc.set_weapon_zero(zeroed, Distance.Yard(200)))
    rows = show('flags/extra-look4', lambda: calc.fire(zeroed, Distance.Yard(1800), Distance.Yard(75), extra_data=True))
    print('   flags:', [int(r.flag) for r in rows])
    rows = show('flags/fine-step', lambda: calc.fire(make_shot(0.05), Distance.Foot(3), Distance.Foot(0.07), extra_data=True))
    print('   flags:', [int(r.flag) for r in rows])
    rows = show('flags/time-step-down', lambda: calc.fire(make_shot(-88.0, mv_fps=500.0), Distance.Foot(30), Distance.Foot(10),
                                                           extra_data=True, time_step=0.01))
    print('   flags:', [int(r.flag) for r in rows])


def precedence_section():
    """Several limits violated by the very same step: the reason must follow velocity > drop > altitude"""
    nan = float('nan')
    for name, (v, d, a) in {
        'vel+drop+alt': (1e9, 1e9, 1e9), 'drop+alt': (0.0, 1e9, 1e9), 'vel+alt': (1e9, -1e9, 1e9),
        'vel+drop': (1e9, 1e9, -1e9), 'alt-only': (0.0, -1e9, 1e9), 'drop-only': (0.0, 1e9, -1e9),
        'vel-only': (1e9, -1e9, -1e9), 'nan-limits': (nan, nan, nan), 'inf-limits': (float('inf'), nan, nan),
        'unit-typed': (0, Distance.Foot(-2.5), Distance.Foot(-2.2)),
        'exactly-at-limit': (0.0, -2.0, -1e9),
    }.items():
        calc = Calculator(_config=InterfaceConfigDict(cMinimumVelocity=v, cMaximumDrop=d, cMinimumAltitude=a))
        for sname in ('flat', 'zero_mv', 'down30', 'station500ft'):
            if name == 'nan-limits' and sname == 'zero_mv':
                continue  # no limit can stop a projectile that never moves down range: would not terminate
            for extra in (False, True):
                show(f'precedence/{name}/{sname}/extra={extra}',
                     lambda: calc.fire(SHOTS[sname](), Distance.Foot(150), Distance.Foot(50), extra_data=extra))
    # velocity and drop limits that are first violated on the same late step
    probe = Calculator(_config=InterfaceConfigDict(cMinimumVelocity=0.0, cMaximumDrop=-25.0, cMinimumAltitude=-1e9))
    try:
        probe.fire(make_shot(0.4), Distance.Yard(2000), Distance.Yard(100))
    except RangeError as e:
        last = e.incomplete_trajectory[-1]
        v_last = last.velocity >> Velocity.FPS
        y_last = last.height >> Distance.Foot
        for dv in (-1e-6, 1e-6):
            both = Calculator(_config=InterfaceConfigDict(cMinimumVelocity=v_last + dv, cMaximumDrop=-25.0,
                                                          cMinimumAltitude=y_last + 1e-6))
            show(f'precedence/same-late-step/dv={dv}',
                 lambda: both.fire(make_shot(0.4), Distance.Yard(2000), Distance.Yard(100)))


def main():
    logger.setLevel(logging.WARNING)
    for cname, cfg in CONFIGS.items():
        calc = Calculator(_config=cfg)
        for sname, mk in SHOTS.items():
            for ri, (rng, step) in enumerate(RANGES):
                if ri >= 2 and sname not in ('flat', 'zero_mv', 'down90'):
                    continue
                if (ri == 1 and cname in ('default', 'minvel1500', 'drop-30ft', 'bigstep')
                        and sname not in ('flat', 'up45wind', 'slow60fps', 'zero_mv')):
                    # very long flights; covered by the ground0/alt/tight configurations
                    continue
                for extra in (False, True):
                    if extra and ri == 1 and cname not in ('ground0', 'all-tight', 'alt+480ft'):
                        continue
                    label = f'{cname}/{sname}/r{ri}/extra={extra}'
                    show(label, lambda: calc.fire(mk(), rng, step, extra_data=extra))
        # time-step recording on a nearly vertical shot, limited by drop / altitude
        show(f'{cname}/near-vertical/time_step', lambda: calc.fire(make_shot(89.5, mv_fps=300.0), Distance.Foot(200),
                                                                    Distance.Foot(50), time_step=0.25))
        # range that is negative: the loop body never runs
        show(f'{cname}/negative-range', lambda: calc.fire(make_shot(1.0), Distance.Foot(-50), Distance.Foot(10)))
        # zeroing goes through the same integrator with no recording at all
        show(f'{cname}/zero100yd', lambda: calc.barrel_elevation_for_target(make_shot(0.0), Distance.Yard(100)))
        show(f'{cname}/zero2500yd-look10', lambda: calc.barrel_elevation_for_target(make_shot(0.0, look_deg=10.0),
                                                                                    Distance.Yard(2500)))
        show(f'{cname}/zero-slow', lambda: calc.barrel_elevation_for_target(make_shot(0.0, mv_fps=55.0), Distance.Yard(300)))

    step_counter_section()
    filter_and_windsock_section()

    precedence_section()

    # the same calculator used again after an error gives the same answer (no state carried over)
    calc = Calculator(_config=CONFIGS['ground0'])
    a = show('repeat/1', lambda: calc.fire(make_shot(12.0), Distance.Meter(8000), Distance.Meter(250)))
    b = show('repeat/2', lambda: calc.fire(make_shot(12.0), Distance.Meter(8000), Distance.Meter(250)))
    print('repeat equal:', [row_text(r) for r in a] == [row_text(r) for r in b])

    # limited shot against the unlimited one: earlier rows identical
    free = Calculator(_config=InterfaceConfigDict(cMinimumVelocity=0.0, cMaximumDrop=-1e9, cMinimumAltitude=-1e9))
    lim = Calculator(_config=InterfaceConfigDict(cMinimumVelocity=0.0, cMaximumDrop=-40.0, cMinimumAltitude=-1e9))
    full = show('unlimited', lambda: free.fire(make_shot(0.5), Distance.Yard(1500), Distance.Yard(50)))
    part = show('limited', lambda: lim.fire(make_shot(0.5), Distance.Yard(1500), Distance.Yard(50)))
    print('prefix identical:', [row_text(r) for r in part[:-1]] == [row_text(r) for r in full[:len(part) - 1]],
          len(part), len(full))


if __name__ == '__main__':
    main()
