"""Equivalence digest for C04 refactoring 2 (integration loop left by break, while-else, RangeError raised after the loop).

Runs a set of complete and incomplete shots through the public API (Calculator.fire,
Calculator.set_weapon_zero, RangeError) and prints a deterministic digest:
for every case the outcome kind, the RangeError reason / message / last_distance,
the number of rows, a sha256 over the repr of every field of every row, and the
full last row.  The text must be identical on the clean tree and with the patch.
"""
import hashlib
import logging
import warnings

from py_ballisticcalc import (Calculator, InterfaceConfigDict, DragModel, TableG1, TableG7, Ammo, Weapon, Shot,
                              Atmo, Wind, Distance, Velocity, Angular, Weight, Temperature, Pressure,
                              RangeError, logger)

warnings.simplefilter("ignore")

# the per-call debug line "euler py it N" is part of the behaviour too: capture it
_log_lines = []


class _Grab(logging.Handler):
    def emit(self, record):
        _log_lines.append(record.getMessage())


logger.addHandler(_Grab())
logger.setLevel(logging.DEBUG)


def row_repr(r):
    out = []
    for v in r:
        raw = getattr(v, 'raw_value', None)
        out.append(repr(v) if raw is None else '%s:%r' % (type(v).__name__, raw))
    return '(' + ', '.join(out) + ')'


def digest(rows):
    h = hashlib.sha256()
    for r in rows:
        h.update(row_repr(r).encode())
        h.update(b'\n')
    return h.hexdigest()


def make_shot(mv_fps=2750.0, angle_deg=0.0, look_deg=0.0, alt_ft=0.0, winds=None, table=TableG7, bc=0.223,
              twist=12.0, sight_in=2.0, cant_deg=0.0):
    dm = DragModel(bc, table, Weight.Grain(168), Distance.Inch(0.308), Distance.Inch(1.282))
    ammo = Ammo(dm, Velocity.FPS(mv_fps))
    weapon = Weapon(Distance.Inch(sight_in), Distance.Inch(twist))
    atmo = Atmo(altitude=Distance.Foot(alt_ft), pressure=Pressure.InHg(29.92), temperature=Temperature.Fahrenheit(59),
                humidity=0.0)
    return Shot(weapon=weapon, ammo=ammo, look_angle=Angular.Degree(look_deg),
                relative_angle=Angular.Degree(angle_deg), cant_angle=Angular.Degree(cant_deg),
                atmo=atmo, winds=winds)


def run(label, config, shot, rng, step=0, extra=False, time_step=0.0):
    del _log_lines[:]
    calc = Calculator(_config=config)
    try:
        res = calc.fire(shot, rng, step, extra_data=extra, time_step=time_step)
        rows = list(res.trajectory)
        print('%s: OK rows=%d sha=%s' % (label, len(rows), digest(rows)))
    except RangeError as e:
        rows = e.incomplete_trajectory
        print('%s: RangeError reason=%r msg=%r' % (label, e.reason, str(e)))
        print('    args=%r last_distance=%r same_as_last_row=%r' % (
            e.args, None if e.last_distance is None else e.last_distance.raw_value,
            bool(rows) and e.last_distance is rows[-1].distance))
        print('    rows=%d sha=%s' % (len(rows), digest(rows)))
    except Exception as e:  # pylint: disable=broad-except
        rows = []
        print('%s: %s %r' % (label, type(e).__name__, str(e)))
    if rows:
        print('    first=%s' % row_repr(rows[0]))
        print('    last =%s' % row_repr(rows[-1]))
    print('    log=%r' % (_log_lines,))


DEFAULT = None
GROUND = InterfaceConfigDict(cMinimumVelocity=0, cMinimumAltitude=Distance.Meter(0), cMaximumDrop=Distance.Meter(0))
GROUND_F = InterfaceConfigDict(cMinimumVelocity=0.0, cMinimumAltitude=0.0, cMaximumDrop=0.0)
VEL_ONLY = InterfaceConfigDict(cMinimumVelocity=1500.0)
DROP_ONLY = InterfaceConfigDict(cMinimumVelocity=0, cMaximumDrop=-20.0)
ALT_ONLY = InterfaceConfigDict(cMinimumVelocity=0, cMaximumDrop=-1e9, cMinimumAltitude=4990.0)
TIE_VD = InterfaceConfigDict(cMinimumVelocity=1e9, cMaximumDrop=1e9, cMinimumAltitude=1e9)      # all three at once
TIE_DA = InterfaceConfigDict(cMinimumVelocity=0, cMaximumDrop=1e9, cMinimumAltitude=1e9)       # drop and altitude
COARSE = InterfaceConfigDict(max_calc_step_size_feet=3.0, cMinimumVelocity=0, cMaximumDrop=-50.0)
NAN_LIM = InterfaceConfigDict(cMinimumVelocity=float('nan'), cMaximumDrop=float('nan'), cMinimumAltitude=-10.0)

yd = Distance.Yard
m = Distance.Meter

# complete trajectories
run('default/1000yd', DEFAULT, make_shot(angle_deg=0.6), yd(1000), yd(100))
run('default/1000yd/extra', DEFAULT, make_shot(angle_deg=0.6), yd(1000), yd(100), extra=True)
run('default/auto-step', DEFAULT, make_shot(angle_deg=0.3), yd(500))
run('default/wind+look+cant', DEFAULT,
    make_shot(angle_deg=0.5, look_deg=3.0, cant_deg=5.0,
              winds=[Wind(Velocity.MPH(10), Angular.Degree(90), yd(300)), Wind(Velocity.MPH(5), Angular.Degree(-45), yd(600))]),
    yd(800), yd(50), extra=True)
run('default/time_step', DEFAULT, make_shot(angle_deg=1.0), yd(300), yd(300), time_step=0.05)
run('default/zero-range', DEFAULT, make_shot(), yd(0), yd(1))
run('default/negative-range', DEFAULT, make_shot(), Distance.Foot(-5), Distance.Foot(1))
# a limit violated on the very step that also carries the projectile past the requested range
run('ground/zero-range', GROUND, make_shot(angle_deg=0.0), yd(0))
run('ground/one-step-range', GROUND, make_shot(angle_deg=-5.0, sight_in=0.0), Distance.Foot(0.2), Distance.Foot(0.1))
run('vel-only/limit-just-past-range', VEL_ONLY, make_shot(angle_deg=0.8), Distance.Foot(2079.3), Distance.Foot(500), extra=True)
# incomplete trajectories, every reason, plain and extra
for extra in (False, True):
    tag = '/extra' if extra else ''
    run('ground/5deg/beyond-reach' + tag, GROUND, make_shot(angle_deg=5.0, sight_in=0.0), m(9000), m(500), extra=extra)
    run('groundF/5deg/beyond-reach' + tag, GROUND_F, make_shot(angle_deg=5.0, sight_in=0.0), m(9000), m(500), extra=extra)
    run('ground/vertical' + tag, GROUND, make_shot(mv_fps=600, angle_deg=90.0, sight_in=0.0), m(10), m(1), extra=extra)
    run('ground/downward' + tag, GROUND, make_shot(angle_deg=-30.0, sight_in=0.0), m(100), m(10), extra=extra)
    run('ground/sight-above-bore' + tag, GROUND, make_shot(angle_deg=1.0, sight_in=2.0), m(100), m(10), extra=extra)
    run('vel-only' + tag, VEL_ONLY, make_shot(angle_deg=0.8), yd(1500), yd(100), extra=extra)
    run('drop-only' + tag, DROP_ONLY, make_shot(angle_deg=0.1), yd(1500), yd(100), extra=extra)
    run('alt-only/station5000' + tag, ALT_ONLY, make_shot(angle_deg=0.0, alt_ft=5000.0), yd(1500), yd(100), extra=extra)
    run('default/slow' + tag, DEFAULT, make_shot(mv_fps=60.0, angle_deg=10.0), yd(100), yd(10), extra=extra)
    run('default/below-min-velocity-at-muzzle' + tag, DEFAULT, make_shot(mv_fps=40.0, angle_deg=10.0), yd(100), yd(10), extra=extra)
    run('default/zero-velocity' + tag, DEFAULT, make_shot(mv_fps=0.0), yd(100), yd(10), extra=extra)
    run('drop-only/zero-velocity' + tag, DROP_ONLY, make_shot(mv_fps=0.0), yd(100), yd(10), extra=extra)
    run('tie/all-three' + tag, TIE_VD, make_shot(angle_deg=0.5), yd(100), yd(10), extra=extra)
    run('tie/drop+alt' + tag, TIE_DA, make_shot(angle_deg=0.5), yd(100), yd(10), extra=extra)
    run('coarse-step' + tag, COARSE, make_shot(angle_deg=0.2, table=TableG1, bc=0.45), yd(2500), yd(250), extra=extra)
    run('nan-limits' + tag, NAN_LIM, make_shot(angle_deg=0.2), yd(800), yd(100), extra=extra)
    run('default/vertical/deep-station' + tag, DEFAULT, make_shot(mv_fps=300, angle_deg=90.0, alt_ft=-1400.0), yd(10), yd(1),
        extra=extra, time_step=0.5)

# zeroing goes through the same integration loop
for cfg_name, cfg in (('default', DEFAULT), ('ground', GROUND), ('vel-only', VEL_ONLY)):
    calc = Calculator(_config=cfg)
    shot = make_shot()
    try:
        z = calc.set_weapon_zero(shot, yd(100))
        print('zero/%s: %r' % (cfg_name, z.raw_value))
        rows = list(calc.fire(shot, yd(300), yd(100)).trajectory)
        print('    rows=%d sha=%s' % (len(rows), digest(rows)))
    except RangeError as e:
        print('zero/%s: RangeError %r %r rows=%d sha=%s' % (cfg_name, e.reason, str(e), len(e.incomplete_trajectory),
                                                         digest(e.incomplete_trajectory)))
    except Exception as e:  # pylint: disable=broad-except
        print('zero/%s: %s %r' % (cfg_name, type(e).__name__, str(e)))

# one calculator reused for several shots (call history)
calc = Calculator(_config=DROP_ONLY)
for i, ang in enumerate((0.1, 2.0, 0.1, -1.0)):
    try:
        rows = list(calc.fire(make_shot(angle_deg=ang), yd(1200), yd(200)).trajectory)
        print('reuse/%d: OK rows=%d sha=%s' % (i, len(rows), digest(rows)))
    except RangeError as e:
        print('reuse/%d: %r %r rows=%d sha=%s' % (i, e.reason, e.last_distance.raw_value, len(e.incomplete_trajectory),
                                                  digest(e.incomplete_trajectory)))

# the exception class on its own
for rows in ([], ):
    e = RangeError(RangeError.MaximumDropReached, rows)
    print('RangeError(empty): %r %r %r %r' % (str(e), e.reason, e.incomplete_trajectory, e.last_distance))
print('constants: %r %r %r' % (RangeError.MinimumVelocityReached, RangeError.MaximumDropReached,
                               RangeError.MinimumAltitudeReached))

# configuration errors surface in the same way
for bad in ({'cNoSuchLimit': 1.0}, {'cMaximumDrop': 'low'}, {'cMinimumVelocity': None}):
    try:
        c = Calculator(_config=bad)
        rows = list(c.fire(make_shot(angle_deg=0.2), yd(100), yd(50)).trajectory)
        print('bad-config %r: OK rows=%d' % (sorted(bad), len(rows)))
    except RangeError as e:
        print('bad-config %r: RangeError %r rows=%d' % (sorted(bad), e.reason, len(e.incomplete_trajectory)))
    except Exception as e:  # pylint: disable=broad-except
        print('bad-config %r: %s %r' % (sorted(bad), type(e).__name__, str(e)))
